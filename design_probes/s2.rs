use vstd::prelude::*;
verus! {
fn f(a: String, b: String) -> (r: bool) ensures r == (a@ == b@) { a == b }
fn g(a: &String, b: &str) -> (r: bool) ensures r == (a@ == b@) { a.as_str() == b }
fn h(a: &String) -> (r: String) ensures r@ == a@ { a.clone() }
fn k(a: &[String; 2], i: usize) -> (r: bool) requires i < 2 { a[i] == a[0] }
}
fn main() {}
