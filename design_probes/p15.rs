use vstd::prelude::*;
verus! {
use vstd::std_specs::iter::IteratorSpec;
pub struct E { pub epoch: u64 }
pub broadcast axiom fn axiom_slice_iter_mut_has_resolved<'a, T>(it: core::slice::IterMut<'a, T>)
    ensures #[trigger] has_resolved(it) ==> forall|i: int| 0 <= i < it.remaining().len() ==> has_resolved(#[trigger] it.remaining()[i]);

fn h(v: &mut Vec<E>, c: bool)
    requires old(v)@.len() > 0
    ensures c ==> final(v)@ == old(v)@
{
    broadcast use axiom_slice_iter_mut_has_resolved;
    let r = v.iter_mut();
    if c { return; }
    let mut r = r;
    match r.next() { Some(x) => { x.epoch = 1; }, None => {} }
}
fn h2(v: &mut Vec<E>, c: bool)
    requires old(v)@.len() > 0
    ensures c ==> final(v)@ == old(v)@
{
    let r = v.last_mut();
    if c { return; }
    match r { Some(x) => { x.epoch = 1; }, None => {} }
}
}
fn main() {}
