# C04 / C01: MetaStoreUpdate::auto_add_nodes (src/broker/update.rs) - refused while a migration is running; a granted request appends
# freshly built chunks that own nothing to the cluster (the existing chunks are untouched), stamps the cluster with the new global
# epoch and tags the proxies of the cluster; every refusal leaves the store untouched.
# Modular: proxy_resource_to_chunk_store (unit chunk_init) and cluster_store_to_cluster (unit query_view) through their proved
# contracts (texts imported); the allocator by an assumed contract.
import re, json, os
import vlib
from units import broker_common, takeover, chunk_init, migrate_guards, proxy_view

SPEC = '''
pub struct InvalidClusterName;
impl<'b> core::convert::TryFrom<&'b str> for ClusterName {
    type Error = InvalidClusterName;
    #[verifier::external_body] fn try_from(s: &'b str) -> Result<Self, InvalidClusterName> { unimplemented!() }
}
impl Clone for ClusterName { #[verifier::external_body] fn clone(&self) -> (r: Self) ensures r == *self { unimplemented!() } }
#[verifier::external_body] pub struct NonZeroUsize { x: usize }   // std::num::NonZeroUsize, opaque
pub uninterp spec fn nz_val(n: NonZeroUsize) -> usize;
impl NonZeroUsize { #[verifier::external_body] fn new(n: usize) -> (r: Option<NonZeroUsize>) ensures r is Some <==> n != 0, r matches Some(v) ==> nz_val(v) == n { unimplemented!() } }
// &str keys of a HashMap<String, _>: the String with the same text
pub uninterp spec fn key_str(s: Seq<char>) -> String;
pub broadcast axiom fn axiom_key_str(s: Seq<char>) ensures #[trigger] key_str(s)@ == s;
pub broadcast axiom fn axiom_key_str_inv(k: String) ensures #[trigger] key_str(k@) == k;
// R-strkey: HashMap<String, V>::get_mut(&str) - the entry of the String with the same text (the spec of get_mut in broker_common, keyed by key_str)
#[verifier::external_body] fn shim_get_mut_by_str<'a, V>(m: &'a mut HashMap<String, V>, k: &str) -> (r: Option<&'a mut V>)
    ensures match r {
        Some(v) => old(m)@.contains_key(key_str(k@)) && *v == old(m)@[key_str(k@)] && final(m)@ == old(m)@.insert(key_str(k@), *final(v)),
        None => !old(m)@.contains_key(key_str(k@)) && final(m)@ == old(m)@,
    }
{ unimplemented!() }
// R-tail: `v.get((v.len() - n)..).expect(..).to_vec()` - the last n elements (the subtraction is kept in the text and checked)
#[verifier::external_body] fn shim_tail_to_vec(v: &[Node], from: usize) -> (r: Vec<Node>) requires from <= v@.len() ensures r@ == v@.subrange(from as int, v@.len() as int) { unimplemented!() }
pub open spec fn running(c: ClusterStore) -> bool {
    exists|i: int, p: int| 0 <= i < c.chunks@.len() && 0 <= p < 2 && (#[trigger] c.chunks@[i].migrating_slots[p])@.len() > 0
}
pub open spec fn chunk_running(ch: ChunkStore) -> bool { ch.migrating_slots[0]@.len() > 0 || ch.migrating_slots[1]@.len() > 0 }
// store index invariant (precondition): the proxies named by the chunks of every cluster are registered
pub open spec fn chunks_registered(dom: Set<String>, chunks: Seq<ChunkStore>) -> bool {
    forall|c: int, k: int| 0 <= c < chunks.len() && 0 <= k < 2 ==> dom.contains(#[trigger] chunks[c].proxy_addresses[k])
}
pub open spec fn resources_registered(s: MetaStore, arr: Seq<[ProxyResource; CHUNK_PARTS]>) -> bool {
    forall|c: int, k: int| 0 <= c < arr.len() && 0 <= k < 2 ==> s.all_proxies@.contains_key(#[trigger] arr[c][k].proxy_address)
}
pub open spec fn owns_nothing(ch: ChunkStore) -> bool { ch.stable_slots[0] is None && ch.stable_slots[1] is None && ch.migrating_slots[0]@.len() == 0 && ch.migrating_slots[1]@.len() == 0 }
'''

def build(U):
    broker_common.head(U)
    T = broker_common.types(U, proxy_view.CL_TYPES, broker_common.STORE_TYPES).replace('use std::num::NonZeroUsize;', '')
    T = T.replace('pub enum Role', '#[derive(Clone, Copy, PartialEq, Eq, Structural)]\npub enum Role')
    T = vlib.pub_fields(T)
    U.log.rules.append({'rule': 'R-vis', 'file': 'src/common/cluster.rs', 'fn': '-', 'note': 'struct fields made pub (visibility only)'})
    U.add(T)
    U.prelude('epoch_spec.rs')
    U.prelude('range_spec.rs')
    U.prelude('query_view_spec.rs')
    sp = chunk_init.SPEC
    U.add(sp)
    U.add(SPEC)
    C = U.src('src/common/cluster.rs')
    U.add('impl Node {\n')
    f = C.fn('get_proxy_address', within=r'impl Node\b')
    f.header("    pub fn get_proxy_address(&self) -> (r: &str)\n        ensures r@ == self.proxy_address@")
    U.add_fn(f)
    U.add('}\nimpl Cluster {\n')
    f = C.fn('get_nodes', within=r'impl Cluster\b')
    f.header("    pub fn get_nodes(&self) -> (r: &[Node])\n        ensures r@ == self.nodes@")
    U.add_fn(f)
    U.add('}\nimpl MetaStore {\n')
    U.add_fn(takeover.bump_global_epoch(U))
    ov = json.load(open(os.path.join(vlib.VERIF, 'contracts', 'proxy_resource_to_chunk_store.overlay.json')))
    chunk_header = [op for op in ov['ops'] if op['op'] == 'header'][0]['text']
    U.add("}\npub struct MetaStoreQuery<'a> { pub store: &'a MetaStore }\nimpl<'a> MetaStoreQuery<'a> {\n"
          "    // proved in unit query_view on the real text (same contract text)\n    #[verifier::external_body]\n"
          "    pub fn cluster_store_to_cluster(cluster_store: &ClusterStore) -> (r: Cluster)\n        requires inv_idx(*cluster_store)\n        ensures view_ok(*cluster_store, r)\n    { unimplemented!() }\n}\n")
    U.add(takeover.UPDATE_STRUCT + "impl<'a> MetaStoreUpdate<'a> {\n")
    U.add('''    // allocator: out of reach (nested HashMap<String, ..> with max_by_key / min_by closures, see C12); assumed: pure (&self), returns
    // only registered proxies, and as many chunks as asked for (two proxies per chunk)
    #[verifier::external_body] fn generate_free_chunks(&self, expected_num: NonZeroUsize) -> (r: Result<Vec<[ProxyResource; CHUNK_PARTS]>, MetaStoreError>)
        ensures r matches Ok(v) ==> resources_registered(*old(self.store), v@) && v@.len() * 2 == nz_val(expected_num)
    { unimplemented!() }
    #[verifier::external_body] fn generate_free_chunks_for_ordered_proxy_index(&self, expected_num: NonZeroUsize, start_index: usize) -> (r: Result<Vec<[ProxyResource; CHUNK_PARTS]>, MetaStoreError>)
        ensures r matches Ok(v) ==> resources_registered(*old(self.store), v@) && v@.len() * 2 == nz_val(expected_num)
    { unimplemented!() }
    // proved in unit chunk_init on the real text; the contract text is the header of contracts/proxy_resource_to_chunk_store.overlay.json
    #[verifier::external_body]
    ''' + chunk_header.rstrip().rstrip(',') + '''
    { unimplemented!() }
''')
    X = U.src('src/broker/update.rs')
    f = X.fn('auto_add_nodes')
    f.r1_logging().r2_closure_underscore()
    vlib.d11_iter_any(f)
    f.replace('R-strkey', '.get_mut(proxy_address)', '.verif_get_mut_by_str(proxy_address)', count=1)
    m = re.search(r'let proxy = self\s*\.store\s*\.all_proxies\s*\.verif_get_mut_by_str\(proxy_address\)', f.text)
    if not m:
        f._lost('R-strkey: self.store.all_proxies.get_mut(proxy_address)')
    f.text = f.text[:m.start()] + 'let proxy = shim_get_mut_by_str(&mut self.store.all_proxies, proxy_address)' + f.text[m.end():]
    m = re.search(r'let new_nodes = nodes\s*\.get\(\((nodes\.len\(\) - num)\)\.\.\)\s*\.expect\("auto_add_nodes: get nodes"\)\s*\.to_vec\(\);', f.text)
    if not m:
        f._lost('R-tail: nodes.get((nodes.len() - num)..).expect(..).to_vec()')
    f.text = f.text[:m.start()] + 'let new_nodes = shim_tail_to_vec(nodes, %s);' % m.group(1) + f.text[m.end():]
    U.log.rule('R-tail', f, 'v.get((v.len() - n)..).expect(..).to_vec() -> shim_tail_to_vec(v, v.len() - n): the last n elements; the subtraction stays and is checked')
    f.apply_overlay('auto_add_nodes')
    U.add_fn(f)
    U.add("}\n} // verus!\nfn main() {}\n")
    U.trust('generate_free_chunks* (allocator, C12) by assumed contract: pure, returns only registered proxies and exactly the number of chunks asked for',
            'proxy_resource_to_chunk_store / cluster_store_to_cluster through the contracts proved in units chunk_init / query_view',
            'precondition: every proxy named by a chunk of the cluster is registered (store index invariant)',
            'R-strkey: HashMap<String,_>::get_mut(&str) keyed by the String with the same text; R-tail; NonZeroUsize::new by shim')

MUST_FAIL = '''
proof fn must_fail_add_nodes_owns_nothing(ch: ChunkStore) requires ch.stable_slots[0] is None ensures owns_nothing(ch) { }
'''
