import sys,re; sys.path.insert(0,'/tmp/km/x')
from cut import *
R='/repo/src/'
utils=open(R+'common/utils.rs').read()
resp=open(R+'protocol/resp.rs').read()
mb=open(R+'proxy/migration_backend.rs').read()
slot=open(R+'proxy/slot.rs').read()
proto=open(R+'common/proto.rs').read()
def strip_attrs(t):
    return re.sub(r'#\[derive\([^\]]*\)\]\n','',t)
T='\n'.join(strip_attrs(item(resp,'enum',n)) for n in ['BulkStr','Array','Resp'])
fns=[fn(utils,n) for n in ['get_command_element','get_command_len','change_bulk_array_element','change_bulk_str','byte_to_uppercase','bytes_ascii_case_insensitive_eq']]
out='''use vstd::prelude::*;
verus! {
pub type BinSafeStr = Vec<u8>;
pub type RespVec = Resp<BinSafeStr>;
'''+T+'''
'''+'\n'.join(fns)+'''
pub struct X;
impl X {
'''+fn(mb,'gen_restore_resp')+'''
}
pub struct SlotMapData { slot_arr: Vec<Option<usize>>, addrs: Vec<String> }
impl SlotMapData {
'''+fn(slot,'get',after='impl SlotMapData')+'''
}
#[verifier::external_body] fn pttl_to_restore_expire_time(pttl: Vec<u8>) -> Vec<u8> { unimplemented!() }
} // verus!
fn main() {}
'''
open('/tmp/km/x/proxy_unit.rs','w').write(out)
