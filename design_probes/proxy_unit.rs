use vstd::prelude::*;
verus! {
pub type BinSafeStr = Vec<u8>;
pub type RespVec = Resp<BinSafeStr>;
pub enum BulkStr<T> {
    Str(T),
    Nil,
}
pub enum Array<T> {
    Arr(Vec<Resp<T>>),
    Nil,
}
pub enum Resp<T> {
    Error(T),
    Simple(T),
    Bulk(BulkStr<T>),
    Integer(T),
    Arr(Array<T>),
}
pub fn get_command_element<T: AsRef<[u8]>>(resp: &Resp<T>, index: usize) -> Option<&[u8]> {
    match resp {
        Resp::Arr(Array::Arr(ref resps)) => resps.get(index).and_then(|resp| match resp {
            Resp::Bulk(BulkStr::Str(s)) => Some(s.as_ref()),
            _ => None,
        }),
        _ => None,
    }
}
pub fn get_command_len<T>(resp: &Resp<T>) -> Option<usize> {
    match resp {
        Resp::Arr(Array::Arr(ref resps)) => Some(resps.len()),
        _ => None,
    }
}
pub fn change_bulk_array_element(resp: &mut RespVec, index: usize, data: Vec<u8>) -> bool {
    match resp {
        Resp::Arr(Array::Arr(ref mut resps)) => {
            Some(true) == resps.get_mut(index).map(|resp| change_bulk_str(resp, data))
        }
        _ => false,
    }
}
pub fn change_bulk_str(resp: &mut RespVec, data: Vec<u8>) -> bool {
    match resp {
        Resp::Bulk(BulkStr::Str(s)) => {
            *s = data;
            true
        }
        _ => false,
    }
}
pub fn byte_to_uppercase(b: u8) -> u8 {
    const DELTA: u8 = b'a' - b'A';
    if (b'a'..=b'z').contains(&b) {
        b - DELTA
    } else {
        b
    }
}
pub fn bytes_ascii_case_insensitive_eq(lhs: &[u8], rhs: &[u8]) -> bool {
    const DELTA: u8 = b'a' - b'A';
    if lhs.len() != rhs.len() {
        return false;
    }
    // Use this trick if needed:
    // https://blog.cloudflare.com/the-oldest-trick-in-the-ascii-book/
    for (a, b) in lhs.iter().zip(rhs) {
        let a = *a;
        let b = *b;
        if a == b {
            continue;
        }
        if (b'a'..=b'z').contains(&a) && a == b + DELTA {
            continue;
        }
        if (b'A'..=b'Z').contains(&a) && a + DELTA == b {
            continue;
        }
        return false;
    }
    true
}
pub struct X;
impl X {
fn gen_restore_resp(key: &[u8], raw_data: BinSafeStr, pttl: BinSafeStr) -> RespVec {
        let expire_time = pttl_to_restore_expire_time(pttl);

        let elements = vec![
            Resp::Bulk(BulkStr::Str("RESTORE".to_string().into_bytes())),
            Resp::Bulk(BulkStr::Str(key.into())),
            Resp::Bulk(BulkStr::Str(expire_time)),
            Resp::Bulk(BulkStr::Str(raw_data)),
        ];
        Resp::Arr(Array::Arr(elements))
    }
}
pub struct SlotMapData { slot_arr: Vec<Option<usize>>, addrs: Vec<String> }
impl SlotMapData {
pub fn get(&self, slot: usize) -> Option<&str> {
        let addr_index = self.slot_arr.get(slot).and_then(|opt| *opt)?;
        self.addrs.get(addr_index).map(|s| s.as_str())
    }
}
#[verifier::external_body] fn pttl_to_restore_expire_time(pttl: Vec<u8>) -> Vec<u8> { unimplemented!() }
} // verus!
fn main() {}
