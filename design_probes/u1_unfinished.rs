use vstd::prelude::*;
use std::mem::swap;
verus! {
global size_of usize == 8;

pub struct Range(pub usize, pub usize);
impl Clone for Range { fn clone(&self) -> (r: Self) ensures r == *self { Range(self.0, self.1) } }
impl Range {
    pub fn start(&self) -> (r: usize) ensures r == self.0 { self.0 }
    pub fn end(&self) -> (r: usize) ensures r == self.1 { self.1 }
}
pub struct RangeList(pub Vec<Range>);

// ---------- specs ----------
pub open spec fn lo(r: Range) -> int { if r.0 <= r.1 { r.0 as int } else { r.1 as int } }
pub open spec fn hi(r: Range) -> int { if r.0 <= r.1 { r.1 as int } else { r.0 as int } }
pub open spec fn covers(v: Seq<Range>, s: int) -> bool { exists|i: int| 0 <= i < v.len() && lo(#[trigger] v[i]) <= s <= hi(v[i]) }
pub open spec fn normalized(v: Seq<Range>) -> bool { forall|i: int| 0 <= i < v.len() ==> (#[trigger] v[i]).0 <= v[i].1 }
pub open spec fn sorted_by_start(v: Seq<Range>) -> bool { forall|i: int, j: int| 0 <= i <= j < v.len() ==> (#[trigger] v[i]).0 <= (#[trigger] v[j]).0 }
pub open spec fn wf(v: Seq<Range>) -> bool {
    normalized(v) && forall|i: int| 0 <= i < v.len() - 1 ==> (#[trigger] v[i]).1 + 1 < v[i + 1].0
}
pub open spec fn bounded(v: Seq<Range>) -> bool { forall|i: int| 0 <= i < v.len() ==> (#[trigger] v[i]).0 < usize::MAX && v[i].1 < usize::MAX }

fn max(a: usize, b: usize) -> (r: usize) ensures r == (if a >= b { a } else { b }) { if a >= b { a } else { b } }

// R7 (trusted): sort_by_key(|r| r.start())
#[verifier::external_body]
fn shim_sort_by_start(v: &mut Vec<Range>)
    ensures final(v)@.len() == old(v)@.len(), sorted_by_start(final(v)@),
            forall|x: Range| final(v)@.contains(x) <==> old(v)@.contains(x),
{ v.sort_by_key(|r| r.0) }

impl RangeList {
    pub fn compact(&mut self)
        requires bounded(old(self).0@)
        ensures wf(final(self).0@),
                forall|s: int| covers(final(self).0@, s) <==> covers(old(self).0@, s),
    {
        // Goal: for any i < j, i.start <= i.end < j.start <= j.end
        for range in it: self.0.iter_mut()
            invariant
                it.seq().len() == old(self).0@.len(),
                forall|i: int| 0 <= i < it.seq().len() ==> *(#[trigger] it.seq()[i]) == old(self).0@[i],
                forall|i: int| 0 <= i < it.index@ ==> lo(*final(#[trigger] it.seq()[i])) == lo(old(self).0@[i]) && hi(*final(it.seq()[i])) == hi(old(self).0@[i])
                    && final(it.seq()[i]).0 <= final(it.seq()[i]).1,
        {
            if range.start() > range.end() {
                swap(&mut range.0, &mut range.1);
            }
        }
        let ghost norm = self.0@;
        assert(forall|s: int| covers(norm, s) <==> covers(old(self).0@, s)) by {
            assert forall|s: int| covers(norm, s) implies covers(old(self).0@, s) by {
                let i = choose|i: int| 0 <= i < norm.len() && lo(#[trigger] norm[i]) <= s <= hi(norm[i]);
                assert(lo(old(self).0@[i]) <= s <= hi(old(self).0@[i]));
            }
            assert forall|s: int| covers(old(self).0@, s) implies covers(norm, s) by {
                let i = choose|i: int| 0 <= i < old(self).0@.len() && lo(#[trigger] old(self).0@[i]) <= s <= hi(old(self).0@[i]);
                assert(lo(norm[i]) <= s <= hi(norm[i]));
            }
        }
        shim_sort_by_start(&mut self.0);
        let ghost g = self.0@;
        let ghost n = g.len() as int;
        proof {
            // sorting keeps normalization, bounds and coverage
            assert(normalized(g)) by { assert forall|i: int| 0 <= i < g.len() implies (#[trigger] g[i]).0 <= g[i].1 by { assert(norm.contains(g[i])); } }
            assert(bounded(g)) by { assert forall|i: int| 0 <= i < g.len() implies (#[trigger] g[i]).0 < usize::MAX && g[i].1 < usize::MAX by { assert(norm.contains(g[i])); let k = choose|k: int| 0 <= k < norm.len() && norm[k] == g[i]; assert(lo(norm[k]) == lo(old(self).0@[k])); } }
            assert forall|s: int| covers(g, s) <==> covers(norm, s) by {
                if covers(g, s) { let i = choose|i: int| 0 <= i < g.len() && lo(#[trigger] g[i]) <= s <= hi(g[i]); assert(norm.contains(g[i])); let k = choose|k: int| 0 <= k < norm.len() && norm[k] == g[i]; assert(lo(norm[k]) <= s <= hi(norm[k])); }
                if covers(norm, s) { let i = choose|i: int| 0 <= i < norm.len() && lo(#[trigger] norm[i]) <= s <= hi(norm[i]); assert(g.contains(norm[i])); let k = choose|k: int| 0 <= k < g.len() && g[k] == norm[i]; assert(lo(g[k]) <= s <= hi(g[k])); }
            }
        }
        // After sort, for any i < j,
        // i.start <= i.end
        // j.start <= j.end
        // i.start <= j.start
        let mut a = 0;
        let mut b = 1;
        while let Some(e) = self.0.get(b).cloned()
            invariant
                self.0@.len() == n,
                normalized(g), bounded(g), sorted_by_start(g), g.len() == n,
                a < b, n > 0 ==> b <= n,
                forall|i: int| b <= i < n ==> self.0@[i] == g[i],
                n > 0 ==> wf(self.0@.subrange(0, a + 1)),
                n > 0 ==> self.0@[a as int].1 < usize::MAX,
                n > 0 ==> forall|j: int| b <= j < n ==> self.0@[a as int].0 <= (#[trigger] g[j]).0,
                forall|s: int| (covers(self.0@.subrange(0, a + 1), s) || covers(g.subrange(b as int, n), s)) <==> covers(g, s),
            decreases n - b,
        {
            {
                let s = self.0.get_mut(a).expect("RangeList::compact");
                if s.end() + 1 >= e.start() {
                    s.1 = max(s.end(), e.end());
                    b += 1;
                    continue;
                }
            }
            *self.0.get_mut(a + 1).expect("RangeList::compact") = e;
            a += 1;
            b += 1;
        }
        self.0.truncate(a + 1);
    }
}
} // verus!
fn main() {}
