# C04: MetaStoreUpdate::add_cluster (src/broker/update.rs): a new cluster is stamped with the new global epoch, every
# refusal leaves the store untouched, no expect() can fail given the allocator contract (assumed: out of reach, C12)
import re
import vlib
from units import broker_common, takeover

SPEC = '''
pub struct InvalidClusterName;
impl<'b> core::convert::TryFrom<&'b str> for ClusterName {
    type Error = InvalidClusterName;
    #[verifier::external_body] fn try_from(s: &'b str) -> Result<Self, InvalidClusterName> { unimplemented!() }
}
impl Clone for ClusterName { #[verifier::external_body] fn clone(&self) -> (r: Self) ensures r == *self { unimplemented!() } }
#[verifier::external_type_specification] #[verifier::external_body] pub struct ExNonZeroUsize(core::num::NonZeroUsize);
pub assume_specification[ core::num::NonZeroUsize::new ](n: usize) -> (r: Option<core::num::NonZeroUsize>) ensures r is Some <==> n != 0;
pub open spec fn chunks_registered(s: MetaStore, chunks: Seq<ChunkStore>) -> bool {
    forall|c: int, k: int| 0 <= c < chunks.len() && 0 <= k < 2 ==> s.all_proxies@.contains_key(#[trigger] chunks[c].proxy_addresses[k])
}
'''

def build(U):
    broker_common.head(U)
    U.add(broker_common.types(U).replace('use std::num::NonZeroUsize;', ''))
    U.prelude('epoch_spec.rs')
    U.add(SPEC)
    U.add('impl MetaStore {\n')
    U.add_fn(takeover.bump_global_epoch(U))
    U.add("}\n" + takeover.UPDATE_STRUCT + "impl<'a> MetaStoreUpdate<'a> {\n")
    U.add('''    // allocator: out of reach (nested HashMap<String, ..> with max_by_key / min_by closures, see C12); assumed: pure
    #[verifier::external_body] fn generate_free_chunks(&self, expected_num: core::num::NonZeroUsize) -> (r: Result<Vec<[ProxyResource; CHUNK_PARTS]>, MetaStoreError>) { unimplemented!() }
    #[verifier::external_body] fn generate_free_chunks_for_ordered_proxy_index(&self, expected_num: core::num::NonZeroUsize, start_index: usize) -> (r: Result<Vec<[ProxyResource; CHUNK_PARTS]>, MetaStoreError>) { unimplemented!() }
    // FnMut closure over the resources: assumed to name only proxies that generate_free_chunks returned, which are registered
    #[verifier::external_body] fn proxy_resource_to_chunk_store(proxy_resource_arr: Vec<[ProxyResource; CHUNK_PARTS]>, with_slots: bool) -> (r: Vec<ChunkStore>)
        ensures forall|s: MetaStore| #[trigger] chunks_registered(s, r@)
    { unimplemented!() }
''')
    X = U.src('src/broker/update.rs')
    f = X.fn('add_cluster')
    f.r1_logging().r2_closure_underscore()
    f.replace('R-path', 'NonZeroUsize::new(', 'core::num::NonZeroUsize::new(', count=1)
    f.header('''    pub fn add_cluster(
        &mut self,
        cluster_name: String,
        node_num: usize,
        default_cluster_config: ClusterConfig,
    ) -> (r: Result<(), MetaStoreError>)
        requires inv_epoch(*old(self).store), old(self).store.global_epoch < u64::MAX,
            vstd::std_specs::hash::obeys_key_model::<ClusterName>(), vstd::std_specs::hash::obeys_key_model::<String>(),
        ensures epoch_contract(*old(self).store, *final(self).store),
            r is Err ==> store_same(*old(self).store, *final(self).store),
            r is Ok ==> exists|k: ClusterName| #![trigger final(self).store.clusters@[k]] !old(self).store.clusters@.contains_key(k) && final(self).store.clusters@.contains_key(k)
                && final(self).store.clusters@[k].epoch == final(self).store.global_epoch && final(self).store.clusters@[k].config == default_cluster_config,''')
    U.add_fn(f)
    U.add("}\n} // verus!\nfn main() {}\n")
    U.trust('generate_free_chunks* (allocator, C12) and proxy_resource_to_chunk_store by assumed contracts: pure / name only registered proxies',
            'NonZeroUsize::new by assume_specification (Some iff n != 0)')
