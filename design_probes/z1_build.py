import sys,re; sys.path.insert(0,'/tmp/km/x')
from cut import *
w1=open('/tmp/km/x/w1.rs').read()
i=w1.index("// ---- specs ----")
head=w1[:i]           # prelude + trusted + types
update=open('/repo/src/broker/update.rs').read()
store=open('/repo/src/broker/store.rs').read()
rc=fn(update,'remove_cluster')
cc=fn(update,'change_config')
rs=fn(store,'restore')
fb=fn(store,'force_bump_all_epoch')
def rm_logs(t): return t
spec='''
// ---- C04 / C13 specs ----
pub open spec fn inv_epoch(s: MetaStore) -> bool { forall|k: ClusterName| s.clusters@.contains_key(k) ==> (#[trigger] s.clusters@[k]).epoch <= s.global_epoch }
pub open spec fn content_eq(a: ClusterStore, b: ClusterStore) -> bool { a.chunks == b.chunks && a.config == b.config && a.name == b.name }
pub open spec fn epoch_contract(o: MetaStore, n: MetaStore) -> bool {
    &&& n.global_epoch >= o.global_epoch
    &&& inv_epoch(n)
    &&& forall|k: ClusterName| o.clusters@.contains_key(k) && n.clusters@.contains_key(k) ==>
            (#[trigger] n.clusters@[k]).epoch >= o.clusters@[k].epoch
            && (!content_eq(o.clusters@[k], n.clusters@[k]) ==> n.clusters@[k].epoch == n.global_epoch && n.global_epoch > o.global_epoch)
    &&& forall|k: ClusterName| !o.clusters@.contains_key(k) && n.clusters@.contains_key(k) ==> (#[trigger] n.clusters@[k]).epoch == n.global_epoch && n.global_epoch > o.global_epoch
    &&& (o.clusters@.dom() != n.clusters@.dom() || o.all_proxies@ != n.all_proxies@ || o.failed_proxies@ != n.failed_proxies@ || o.failures@ != n.failures@) ==> n.global_epoch > o.global_epoch
}
pub open spec fn store_same(o: MetaStore, n: MetaStore) -> bool {
    n.global_epoch == o.global_epoch && n.clusters@ =~= o.clusters@ && n.all_proxies@ == o.all_proxies@ && n.failed_proxies@ == o.failed_proxies@ && n.failures@ == o.failures@ && n.version == o.version
}
impl Clone for ClusterConfig { #[verifier::external_body] fn clone(&self) -> (r: Self) ensures r == *self { unimplemented!() } }
impl ClusterConfig {
    #[verifier::external_body] pub fn set_field(&mut self, k: &String, v: &String) -> Result<(), ConfigError> { unimplemented!() }
}
pub struct ConfigError;
impl ConfigError { #[verifier::external_body] pub fn to_string(&self) -> String { unimplemented!() } }
impl ClusterStore {
    pub fn set_epoch(&mut self, new_epoch: u64) ensures final(self).epoch == new_epoch, final(self).chunks == old(self).chunks, final(self).config == old(self).config, final(self).name == old(self).name {
        self.epoch = new_epoch;
    }
    #[verifier::external_body] pub fn is_migrating(&self) -> bool { unimplemented!() }
}
impl MetaStore {
    pub fn get_global_epoch(&self) -> (r: u64) ensures r == self.global_epoch { self.global_epoch }
    pub fn bump_global_epoch(&mut self) -> (r: u64)
        requires old(self).global_epoch < u64::MAX
        ensures final(self).global_epoch == old(self).global_epoch + 1, r == final(self).global_epoch,
            final(self).clusters == old(self).clusters, final(self).all_proxies == old(self).all_proxies,
            final(self).failed_proxies == old(self).failed_proxies, final(self).failures == old(self).failures,
            final(self).version == old(self).version,
    {
        self.global_epoch += 1;
        self.global_epoch
    }
'''
rs=rs.replace("pub fn restore(&mut self, other: MetaStore) -> Result<(), MetaStoreError> {","""pub fn restore(&mut self, other: MetaStore) -> (r: Result<(), MetaStoreError>)
        ensures
            r is Ok <==> (old(self).version@ == other.version@ && old(self).global_epoch <= other.global_epoch),
            r is Ok ==> *final(self) == other,
            r is Err ==> *final(self) == *old(self),
    {""")
cc_contract='''    pub fn change_config(
        &mut self,
        cluster_name: String,
        config: HashMap<String, String>,
    ) -> (r: Result<(), MetaStoreError>)
        requires inv_epoch(*old(self).store), old(self).store.global_epoch < u64::MAX,
            vstd::std_specs::hash::obeys_key_model::<ClusterName>(), vstd::std_specs::hash::obeys_key_model::<String>(),
        ensures epoch_contract(*old(self).store, *final(self).store),
            r is Err ==> store_same(*old(self).store, *final(self).store),
'''
cc=cc_contract+cc[cc.index(') -> Result<(), MetaStoreError> {')+len(') -> Result<(), MetaStoreError> '):]
cc=cc.replace("ClusterName::try_from(cluster_name.as_str())","ClusterName::try_from(cluster_name.as_str())")
rc_contract='''    pub fn remove_cluster(&mut self, cluster_name: String) -> (r: Result<(), MetaStoreError>)
        requires inv_epoch(*old(self).store), old(self).store.global_epoch < u64::MAX,
            vstd::std_specs::hash::obeys_key_model::<ClusterName>(), vstd::std_specs::hash::obeys_key_model::<String>(),
        ensures epoch_contract(*old(self).store, *final(self).store),
            r is Err ==> store_same(*old(self).store, *final(self).store),
'''
rc=rc_contract+rc[rc.index('-> Result<(), MetaStoreError> {')+len('-> Result<(), MetaStoreError> '):]
out=head+spec+rs+"\n}\npub struct MetaStoreUpdate<'a> { pub store: &'a mut MetaStore }\nimpl<'a> MetaStoreUpdate<'a> {\n"+rc+"\n"+cc+"\n}\n} // verus!\nfn main() {}\n"
out=out.replace('    #[verifier::external_body] pub fn set_field(&mut self, k: &String, v: &String) -> Result<(), String> { unimplemented!() }\n','')
out=out.replace('impl Clone for ClusterConfig { #[verifier::external_body] fn clone(&self) -> (r: Self) ensures r == *self { unimplemented!() } }\n','',1) if out.count('impl Clone for ClusterConfig')>1 else out
out=out.replace('|_|','|_e|')
open('/tmp/km/x/z1.rs','w').write(out)
