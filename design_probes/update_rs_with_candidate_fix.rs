use super::query::MetaStoreQuery;
use super::store::{
    ChunkRolePosition, ChunkStore, ClusterStore, HostProxy, MetaStore, MetaStoreError,
    ProxyResource, CHUNK_HALF_NODE_NUM, CHUNK_PARTS, NODES_PER_PROXY,
};
use crate::common::cluster::ClusterName;
use crate::common::cluster::{Node, Proxy, Range, RangeList, SlotRange, SlotRangeTag};
use crate::common::config::ClusterConfig;
use crate::common::utils::SLOT_NUM;
use chrono::{DateTime, NaiveDateTime, Utc};
use itertools::Itertools;
use std::cmp::Ordering;
use std::collections::{HashMap, HashSet};
use std::convert::TryFrom;
use std::num::NonZeroUsize;

pub struct MetaStoreUpdate<'a> {
    store: &'a mut MetaStore,
}

impl<'a> MetaStoreUpdate<'a> {
    pub fn new(store: &'a mut MetaStore) -> Self {
        Self { store }
    }

    pub fn add_failure(&mut self, address: String, reporter_id: String) -> bool {
        let now = Utc::now();
        if let Some(true) = self
            .store
            .failures
            .get(&address)
            .map(|failures| failures.contains_key(&reporter_id))
        {
            return false;
        }
        self.store.bump_global_epoch();
        self.store
            .failures
            .entry(address)
            .or_insert_with(HashMap::new)
            .insert(reporter_id, now.timestamp());
        true
    }

    pub fn get_failures(
        &mut self,
        failure_ttl: chrono::Duration,
        failure_quorum: u64,
    ) -> Vec<String> {
        let now = Utc::now();
        for reporter_map in self.store.failures.values_mut() {
            reporter_map.retain(|_, report_time| {
                let report_datetime =
                    DateTime::<Utc>::from_utc(NaiveDateTime::from_timestamp(*report_time, 0), Utc);
                now - report_datetime < failure_ttl
            });
        }
        self.store
            .failures
            .retain(|_, proxy_failure_map| !proxy_failure_map.is_empty());

        let all_proxies = &self.store.all_proxies;
        self.store
            .failures
            .iter()
            .filter(|(_, v)| v.len() >= failure_quorum as usize)
            .filter_map(|(address, _)| {
                if all_proxies.contains_key(address) {
                    Some(address.clone())
                } else {
                    None
                }
            })
            .collect()
    }

    // Returns whether store has changed.
    pub fn cleanup_failures(&mut self, failure_ttl: chrono::Duration, failure_quorum: u64) -> bool {
        let len_before = self.store.failures.len();
        self.get_failures(failure_ttl, failure_quorum);
        let len_after = self.store.failures.len();
        len_before != len_after
    }

    pub fn add_proxy(
        &mut self,
        proxy_address: String,
        nodes: [String; NODES_PER_PROXY],
        host: Option<String>,
        proxy_index: Option<usize>,
    ) -> Result<(), MetaStoreError> {
        if proxy_address.split(':').count() != 2 {
            return Err(MetaStoreError::InvalidProxyAddress);
        }

        let host = match (host, proxy_address.split(':').next()) {
            (Some(h), _) => h,
            (None, Some(h)) => h.to_string(),
            (None, None) => return Err(MetaStoreError::InvalidProxyAddress),
        };

        let index = match (self.store.enable_ordered_proxy, proxy_index) {
            (false, _) => 0,
            (true, Some(index)) => index,
            (true, None) => return Err(MetaStoreError::MissingIndex),
        };

        let exists = self.store.all_proxies.contains_key(&proxy_address);

        self.store
            .all_proxies
            .entry(proxy_address.clone())
            .or_insert_with(|| ProxyResource {
                proxy_address: proxy_address.clone(),
                node_addresses: nodes,
                host,
                index,
                cluster: None,
            });

        let mut cleared = self.store.failed_proxies.remove(&proxy_address);
        cleared = self.store.failures.remove(&proxy_address).is_some() || cleared;

        if !exists || cleared {
            self.store.bump_global_epoch();
        }

        if !exists {
            Ok(())
        } else {
            Err(MetaStoreError::AlreadyExisted)
        }
    }

    pub fn add_cluster(
        &mut self,
        cluster_name: String,
        node_num: usize,
        default_cluster_config: ClusterConfig,
    ) -> Result<(), MetaStoreError> {
        if self.store.enable_ordered_proxy && !self.store.clusters.is_empty() {
            return Err(MetaStoreError::OneClusterAlreadyExisted);
        }

        let cluster_name = ClusterName::try_from(cluster_name.as_str())
            .map_err(|_| MetaStoreError::InvalidClusterName)?;
        if self.store.clusters.contains_key(&cluster_name) {
            return Err(MetaStoreError::AlreadyExisted);
        }

        if node_num % 4 != 0 {
            return Err(MetaStoreError::InvalidNodeNum);
        }
        let proxy_num = NonZeroUsize::new(node_num / 2).ok_or(MetaStoreError::InvalidNodeNum)?;

        let proxy_resource_arr = if self.store.enable_ordered_proxy {
            self.generate_free_chunks_for_ordered_proxy_index(proxy_num, 0)?
        } else {
            self.generate_free_chunks(proxy_num)?
        };
        let chunk_stores = Self::proxy_resource_to_chunk_store(proxy_resource_arr, true);

        let epoch = self.store.bump_global_epoch();

        let cluster_store = ClusterStore {
            epoch,
            name: cluster_name.clone(),
            chunks: chunk_stores,
            config: default_cluster_config,
        };

        // Tag the proxies as occupied
        for chunk in cluster_store.chunks.iter() {
            for proxy_address in chunk.proxy_addresses.iter() {
                let proxy = self
                    .store
                    .all_proxies
                    .get_mut(proxy_address)
                    .expect("add_cluster: failed to get back proxy");
                proxy.cluster = Some(cluster_name.clone());
            }
        }

        self.store.clusters.insert(cluster_name, cluster_store);
        Ok(())
    }

    // This function should preserve the order of the chunks in `proxy_resource_arr`.
    fn proxy_resource_to_chunk_store(
        proxy_resource_arr: Vec<[ProxyResource; CHUNK_HALF_NODE_NUM]>,
        with_slots: bool,
    ) -> Vec<ChunkStore> {
        let master_num = proxy_resource_arr.len() * 2;
        let average = SLOT_NUM / master_num;
        let remainder = SLOT_NUM - average * master_num;
        let mut chunk_stores = vec![];
        let mut curr_slot = 0;
        for (i, chunk) in proxy_resource_arr.into_iter().enumerate() {
            let a = 2 * i;
            let b = a + 1;

            let mut create_slots = |index| {
                let r = (index < remainder) as usize;
                let start = curr_slot;
                let end = curr_slot + average + r;
                curr_slot = end;
                SlotRange {
                    range_list: RangeList::from_single_range(Range(start, end - 1)),
                    tag: SlotRangeTag::None,
                }
            };

            let stable_slots = if with_slots {
                [Some(create_slots(a)), Some(create_slots(b))]
            } else {
                [None, None]
            };

            let first_proxy = chunk[0].clone();
            let second_proxy = chunk[1].clone();
            let chunk_store = ChunkStore {
                role_position: ChunkRolePosition::Normal,
                stable_slots,
                migrating_slots: [vec![], vec![]],
                proxy_addresses: [
                    first_proxy.proxy_address.clone(),
                    second_proxy.proxy_address.clone(),
                ],
                hosts: [first_proxy.host.clone(), second_proxy.host.clone()],
                node_addresses: [
                    first_proxy.node_addresses[0].clone(),
                    first_proxy.node_addresses[1].clone(),
                    second_proxy.node_addresses[0].clone(),
                    second_proxy.node_addresses[1].clone(),
                ],
            };
            chunk_stores.push(chunk_store);
        }
        chunk_stores
    }

    pub fn remove_cluster(&mut self, cluster_name: String) -> Result<(), MetaStoreError> {
        let cluster_name = ClusterName::try_from(cluster_name.as_str())
            .map_err(|_| MetaStoreError::InvalidClusterName)?;

        let cluster_store = match self.store.clusters.remove(&cluster_name) {
            None => return Err(MetaStoreError::ClusterNotFound),
            Some(cluster_store) => cluster_store,
        };

        // Set proxies free.
        for chunk in cluster_store.chunks.iter() {
            for proxy_address in chunk.proxy_addresses.iter() {
                if let Some(proxy) = self.store.all_proxies.get_mut(proxy_address) {
                    proxy.cluster = None;
                }
            }
        }

        self.store.bump_global_epoch();
        Ok(())
    }

    pub fn auto_scale_up_nodes(
        &mut self,
        cluster_name: String,
        expected_num: usize,
    ) -> Result<Vec<Node>, MetaStoreError> {
        let name = ClusterName::try_from(cluster_name.as_str())
            .map_err(|_| MetaStoreError::InvalidClusterName)?;

        let existing_node_num = match self.store.clusters.get(&name) {
            None => return Err(MetaStoreError::ClusterNotFound),
            Some(cluster) => cluster.chunks.len() * 4,
        };

        let added_num = match expected_num.checked_sub(existing_node_num) {
            None | Some(0) => return Err(MetaStoreError::NodeNumAlreadyEnough),
            Some(added_num) => added_num,
        };

        self.auto_add_nodes(cluster_name, added_num)
    }

    pub fn auto_add_nodes(
        &mut self,
        cluster_name: String,
        num: usize,
    ) -> Result<Vec<Node>, MetaStoreError> {
        let cluster_name = ClusterName::try_from(cluster_name.as_str())
            .map_err(|_| MetaStoreError::InvalidClusterName)?;

        let existing_proxy_num = match self.store.clusters.get(&cluster_name) {
            None => return Err(MetaStoreError::ClusterNotFound),
            Some(cluster) => {
                if cluster
                    .chunks
                    .iter()
                    .any(|chunk| chunk.migrating_slots.iter().any(|slots| !slots.is_empty()))
                {
                    return Err(MetaStoreError::MigrationRunning);
                }
                cluster.chunks.len() * CHUNK_PARTS
            }
        };

        if num % 4 != 0 {
            return Err(MetaStoreError::InvalidNodeNum);
        }
        let proxy_num = NonZeroUsize::new(num / 2).ok_or(MetaStoreError::InvalidNodeNum)?;

        let proxy_resource_arr = if self.store.enable_ordered_proxy {
            self.generate_free_chunks_for_ordered_proxy_index(proxy_num, existing_proxy_num)?
        } else {
            self.generate_free_chunks(proxy_num)?
        };
        let mut chunks = Self::proxy_resource_to_chunk_store(proxy_resource_arr, false);

        let new_epoch = self.store.bump_global_epoch();

        let cluster = match self.store.clusters.get_mut(&cluster_name) {
            None => return Err(MetaStoreError::ClusterNotFound),
            Some(cluster_store) => {
                cluster_store.chunks.append(&mut chunks);
                cluster_store.epoch = new_epoch;
                MetaStoreQuery::cluster_store_to_cluster(cluster_store)
            }
        };

        // Tag the proxies as occupied
        for node in cluster.get_nodes().iter() {
            let proxy_address = node.get_proxy_address();
            let proxy = self
                .store
                .all_proxies
                .get_mut(proxy_address)
                .expect("add_cluster: failed to get back proxy");
            proxy.cluster = Some(cluster_name.clone());
        }

        let nodes = cluster.get_nodes();
        let new_nodes = nodes
            .get((nodes.len() - num)..)
            .expect("auto_add_nodes: get nodes")
            .to_vec();

        Ok(new_nodes)
    }

    pub fn auto_delete_free_nodes_if_exists(
        &mut self,
        cluster_name: String,
    ) -> Result<(), MetaStoreError> {
        match self.auto_delete_free_nodes(cluster_name) {
            Ok(()) => Ok(()),
            Err(err) => match err {
                MetaStoreError::MigrationRunning | MetaStoreError::FreeNodeNotFound => Ok(()),
                other_err => Err(other_err),
            },
        }
    }

    pub fn auto_delete_free_nodes(&mut self, cluster_name: String) -> Result<(), MetaStoreError> {
        let cluster_name = ClusterName::try_from(cluster_name.as_str())
            .map_err(|_| MetaStoreError::InvalidClusterName)?;
        // Will bump epoch later on success.
        let new_epoch = self.store.get_global_epoch() + 1;

        let removed_chunks = match self.store.clusters.get_mut(&cluster_name) {
            None => return Err(MetaStoreError::ClusterNotFound),
            Some(cluster) => {
                if cluster
                    .chunks
                    .iter()
                    .any(|chunk| chunk.migrating_slots.iter().any(|slots| !slots.is_empty()))
                {
                    return Err(MetaStoreError::MigrationRunning);
                }

                let mut removed_chunks = vec![];
                cluster.chunks.retain(|chunk| {
                    for slots in chunk.stable_slots.iter() {
                        if slots.is_some() {
                            return true;
                        }
                    }
                    for slots in chunk.migrating_slots.iter() {
                        if !slots.is_empty() {
                            return true;
                        }
                    }
                    removed_chunks.push(chunk.clone());
                    false
                });
                if removed_chunks.is_empty() {
                    return Err(MetaStoreError::FreeNodeNotFound);
                }

                cluster.set_epoch(new_epoch);
                removed_chunks
            }
        };

        // Set proxies free
        for chunk in removed_chunks.into_iter() {
            for proxy_address in chunk.proxy_addresses.iter() {
                if let Some(proxy) = self.store.all_proxies.get_mut(proxy_address) {
                    proxy.cluster = None;
                }
            }
        }

        self.store.bump_global_epoch();
        Ok(())
    }

    pub fn remove_proxy(&mut self, proxy_address: String) -> Result<(), MetaStoreError> {
        match self.store.all_proxies.get(&proxy_address) {
            None => return Err(MetaStoreError::ProxyNotFound),
            Some(proxy) => {
                if proxy.cluster.is_some() {
                    return Err(MetaStoreError::InUse);
                }
            }
        }

        self.store.all_proxies.remove(&proxy_address);
        self.store.failed_proxies.remove(&proxy_address);
        self.store.failures.remove(&proxy_address);
        self.store.bump_global_epoch();
        Ok(())
    }

    fn generate_free_chunks(
        &self,
        proxy_num: NonZeroUsize,
    ) -> Result<Vec<[ProxyResource; CHUNK_HALF_NODE_NUM]>, MetaStoreError> {
        let mut host_proxies = self.generate_free_host_proxies();

        host_proxies = Self::remove_redundant_chunks(host_proxies, proxy_num)?;

        let link_table = self.build_link_table();

        let new_added_proxy_resource = Self::allocate_chunk(host_proxies, link_table, proxy_num)?;
        let new_proxies = new_added_proxy_resource
            .into_iter()
            .map(|[a, b]| {
                [
                    self.store
                        .all_proxies
                        .get(&a)
                        .expect("consume_proxy: get proxy resource")
                        .clone(),
                    self.store
                        .all_proxies
                        .get(&b)
                        .expect("consume_proxy: get proxy resource")
                        .clone(),
                ]
            })
            .collect();
        Ok(new_proxies)
    }

    fn generate_free_chunks_for_ordered_proxy_index(
        &self,
        proxy_num: NonZeroUsize,
        first_index: usize,
    ) -> Result<Vec<[ProxyResource; CHUNK_HALF_NODE_NUM]>, MetaStoreError> {
        let mut host_proxies = MetaStoreQuery::new(self.store).get_free_proxy_resource();
        if host_proxies.len() < proxy_num.get() {
            return Err(MetaStoreError::NoAvailableResource);
        }

        host_proxies.sort_by_key(|proxy_resource| proxy_resource.index);
        host_proxies.truncate(proxy_num.get());

        let mut indices = host_proxies
            .iter()
            .map(|proxy_resource| proxy_resource.index);
        if let Some(first) = indices.next() {
            if first != first_index {
                return Err(MetaStoreError::ProxyResourceOutOfOrder);
            }
            let mut last_index = first;
            for i in indices {
                if last_index + 1 != i {
                    return Err(MetaStoreError::ProxyResourceOutOfOrder);
                }
                last_index = i;
            }
        }

        let mut proxy_resources = vec![];
        for mut chunk in host_proxies
            .into_iter()
            .chunks(CHUNK_HALF_NODE_NUM)
            .into_iter()
        {
            let first = chunk.next().ok_or_else(|| {
                error!("Invalid state. Cannot get first host proxy.");
                MetaStoreError::InvalidNodeNum
            })?;
            let second = chunk.next().ok_or_else(|| {
                error!("Invalid state. Cannot get second host proxy.");
                MetaStoreError::InvalidNodeNum
            })?;

            proxy_resources.push([first, second]);
        }

        Ok(proxy_resources)
    }

    fn generate_free_host_proxies(&self) -> HashMap<String, Vec<String>> {
        // host => proxies
        let mut host_proxies: HashMap<String, Vec<String>> = HashMap::new();
        for host_proxy in MetaStoreQuery::new(self.store)
            .get_free_proxies()
            .into_iter()
        {
            let HostProxy {
                host,
                proxy_address,
            } = host_proxy;
            host_proxies
                .entry(host)
                .or_insert_with(Vec::new)
                .push(proxy_address);
        }
        host_proxies
    }

    fn allocate_chunk(
        mut host_proxies: HashMap<String, Vec<String>>,
        mut link_table: HashMap<String, HashMap<String, usize>>,
        expected_num: NonZeroUsize,
    ) -> Result<Vec<[String; CHUNK_HALF_NODE_NUM]>, MetaStoreError> {
        let max_proxy_num = host_proxies
            .values()
            .map(|proxies| proxies.len())
            .max()
            .unwrap_or(0);
        let sum_proxy_num = host_proxies.values().map(|proxies| proxies.len()).sum();

        if sum_proxy_num < expected_num.get() {
            return Err(MetaStoreError::NoAvailableResource);
        }

        if max_proxy_num * 2 > sum_proxy_num {
            return Err(MetaStoreError::ResourceNotBalance);
        }

        let mut new_proxy_pairs = vec![];
        while new_proxy_pairs.len() * 2 < expected_num.get() {
            let (first_host, first_address) = {
                let (max_host, max_proxy_host) = host_proxies
                    .iter_mut()
                    .max_by_key(|(_host, proxies)| proxies.len())
                    .expect("allocate_chunk: invalid state. cannot find any host");
                (
                    max_host.clone(),
                    max_proxy_host
                        .pop()
                        .expect("allocate_chunk: cannot find free proxy"),
                )
            };

            let (second_host, second_address) = {
                let peers = link_table
                    .get(&first_host)
                    .expect("allocate_chunk: invalid state, cannot get link table entry");

                let second_host = peers
                    .iter()
                    .filter(|(host, _)| {
                        let free_count = host_proxies.get(*host).map(|proxies| proxies.len());
                        **host != first_host && free_count.is_some() && free_count != Some(0)
                    })
                    .min_by(|(host1, count1), (host2, count2)| {
                        Self::second_host_cmp(
                            host1.as_str(),
                            **count1,
                            host2.as_str(),
                            **count2,
                            &host_proxies,
                        )
                    })
                    .map(|t| t.0.clone())
                    .expect("allocate_chunk: invalid state, cannot get free proxy");

                let second_address = host_proxies
                    .get_mut(&second_host)
                    .expect("allocate_chunk: get second host")
                    .pop()
                    .expect("allocate_chunk: get second address");
                (second_host, second_address)
            };

            *link_table
                .get_mut(&first_host)
                .expect("allocate_chunk: link table")
                .get_mut(&second_host)
                .expect("allocate_chunk: link table") += 1;
            *link_table
                .get_mut(&second_host)
                .expect("allocate_chunk: link table")
                .get_mut(&first_host)
                .expect("allocate_chunk: link table") += 1;

            new_proxy_pairs.push([first_address, second_address]);
        }

        Ok(new_proxy_pairs)
    }

    fn remove_redundant_chunks(
        mut host_proxies: HashMap<String, Vec<String>>,
        expected_num: NonZeroUsize,
    ) -> Result<HashMap<String, Vec<String>>, MetaStoreError> {
        let mut free_proxy_num: usize = host_proxies.values().map(|proxies| proxies.len()).sum();
        let mut max_proxy_num = host_proxies
            .values()
            .map(|proxies| proxies.len())
            .max()
            .unwrap_or(0);

        for proxies in host_proxies.values_mut() {
            if proxies.len() == max_proxy_num {
                // Only remove proxies in the host which as too many proxies.
                while max_proxy_num * 2 > free_proxy_num {
                    proxies.pop();
                    free_proxy_num -= 1;
                    max_proxy_num -= 1;
                }
                break;
            }
        }

        if free_proxy_num < expected_num.get() {
            return Err(MetaStoreError::NoAvailableResource);
        }
        Ok(host_proxies)
    }

    fn generate_new_free_proxy(
        &self,
        failed_proxy_address: String,
    ) -> Result<ProxyResource, MetaStoreError> {
        let free_host_proxies = self.generate_free_host_proxies();
        info!(
            "generate_new_free_proxy: free host proxies {:?}",
            free_host_proxies
        );
        let link_table = self.build_link_table();
        info!("generate_new_free_proxy: link table {:?}", link_table);

        let failed_proxy_host = self
            .store
            .all_proxies
            .get(&failed_proxy_address)
            .ok_or(MetaStoreError::ProxyNotFound)?
            .host
            .clone();

        let link_count_table = link_table
            .get(&failed_proxy_host)
            .expect("consume_new_proxy: cannot find failed proxy");
        let peer_host = link_count_table
            .iter()
            .filter(|(peer_host, _)| free_host_proxies.contains_key(*peer_host))
            .min_by(|(host1, count1), (host2, count2)| {
                Self::second_host_cmp(
                    host1.as_str(),
                    **count1,
                    host2.as_str(),
                    **count2,
                    &free_host_proxies,
                )
            })
            .map(|(peer_host, _)| peer_host)
            .ok_or(MetaStoreError::NoAvailableResource)?;

        let peer_proxy = MetaStoreQuery::new(self.store)
            .get_free_proxies()
            .iter()
            .find(|host_proxy| peer_host == &host_proxy.host)
            .expect("consume_new_proxy: get peer address")
            .proxy_address
            .clone();

        let new_proxy = self
            .store
            .all_proxies
            .get(&peer_proxy)
            .expect("consume_new_proxy: cannot find peer proxy")
            .clone();
        Ok(new_proxy)
    }

    fn build_link_table(&self) -> HashMap<String, HashMap<String, usize>> {
        // Remove the fully occupied hosts or there will be severe performance problems.
        let free_hosts: HashSet<String> = self
            .store
            .all_proxies
            .values()
            .filter_map(|proxy| {
                if proxy.cluster.is_none() {
                    Some(proxy.host.clone())
                } else {
                    None
                }
            })
            .collect();

        let mut link_table: HashMap<String, HashMap<String, usize>> = HashMap::new();
        for proxy_resource in self.store.all_proxies.values() {
            let first_host = proxy_resource.host.clone();

            for proxy_resource in self.store.all_proxies.values() {
                let second_host = proxy_resource.host.clone();
                if first_host == second_host {
                    continue;
                }
                if !free_hosts.contains(&first_host) && !free_hosts.contains(&second_host) {
                    continue;
                }

                link_table
                    .entry(first_host.clone())
                    .or_insert_with(HashMap::new)
                    .entry(second_host.clone())
                    .or_insert(0);
                link_table
                    .entry(second_host.clone())
                    .or_insert_with(HashMap::new)
                    .entry(first_host.clone())
                    .or_insert(0);
            }
        }

        for cluster in self.store.clusters.values() {
            for chunk in cluster.chunks.iter() {
                let first_host = chunk.hosts[0].clone();
                let second_host = chunk.hosts[1].clone();
                let linked_num = link_table
                    .entry(first_host.clone())
                    .or_insert_with(HashMap::new)
                    .entry(second_host.clone())
                    .or_insert(0);
                *linked_num += 1;
                let linked_num = link_table
                    .entry(second_host)
                    .or_insert_with(HashMap::new)
                    .entry(first_host)
                    .or_insert(0);
                *linked_num += 1;
            }
        }
        link_table
    }

    pub fn replace_failed_proxy(
        &mut self,
        failed_proxy_address: String,
        migration_limit: u64,
    ) -> Result<Option<Proxy>, MetaStoreError> {
        let cluster_name = match self.store.all_proxies.get(&failed_proxy_address) {
            None => return Err(MetaStoreError::ProxyNotFound),
            Some(proxy) => proxy.cluster.clone(),
        };

        let cluster_name = match cluster_name {
            None => {
                self.store.failures.remove(&failed_proxy_address);
                self.store.failed_proxies.insert(failed_proxy_address);
                return Ok(None);
            }
            Some(cluster_name) => cluster_name,
        };

        self.takeover_master(&cluster_name, failed_proxy_address.clone())?;

        // If enable_ordered_proxy is true, we won't replace the proxy.
        if self.store.enable_ordered_proxy {
            self.store.bump_global_epoch();
            return Ok(None);
        }

        self.store
            .failed_proxies
            .insert(failed_proxy_address.clone());

        let proxy_resource = self.generate_new_free_proxy(failed_proxy_address.clone())?;
        let new_epoch = self.store.bump_global_epoch();
        {
            let cluster = self
                .store
                .clusters
                .get_mut(&cluster_name)
                .expect("replace_failed_proxy: get cluster");
            for chunk in cluster.chunks.iter_mut() {
                if chunk.proxy_addresses[0] == failed_proxy_address {
                    chunk.hosts[0] = proxy_resource.host.clone();
                    chunk.proxy_addresses[0] = proxy_resource.proxy_address.clone();
                    chunk.node_addresses[0] = proxy_resource.node_addresses[0].clone();
                    chunk.node_addresses[1] = proxy_resource.node_addresses[1].clone();
                    break;
                } else if chunk.proxy_addresses[1] == failed_proxy_address {
                    chunk.hosts[1] = proxy_resource.host.clone();
                    chunk.proxy_addresses[1] = proxy_resource.proxy_address.clone();
                    chunk.node_addresses[2] = proxy_resource.node_addresses[0].clone();
                    chunk.node_addresses[3] = proxy_resource.node_addresses[1].clone();
                    break;
                }
            }
            cluster.set_epoch(new_epoch);
        }

        // Set this proxy free
        if let Some(proxy) = self.store.all_proxies.get_mut(&failed_proxy_address) {
            proxy.cluster = None;
        }
        // Tag the new proxy as occupied
        if let Some(proxy) = self
            .store
            .all_proxies
            .get_mut(&proxy_resource.proxy_address)
        {
            proxy.cluster = Some(cluster_name);
        }

        let proxy = MetaStoreQuery::new(self.store)
            .get_proxy_by_address(&proxy_resource.proxy_address, migration_limit)
            .expect("replace_failed_proxy");
        Ok(Some(proxy))
    }

    fn takeover_master(
        &mut self,
        cluster_name: &ClusterName,
        failed_proxy_address: String,
    ) -> Result<(), MetaStoreError> {
        let new_epoch = self.store.bump_global_epoch();

        let cluster = self
            .store
            .clusters
            .get_mut(cluster_name)
            .ok_or(MetaStoreError::ClusterNotFound)?;

        let mut peer_position = HashSet::new();

        for chunk in cluster.chunks.iter_mut() {
            if chunk.proxy_addresses[0] == failed_proxy_address {
                // We should never reset the tasks that they does not need to be.
                // And note that `replace_failed_proxy` will be called again and again,
                // which make the migration get reset again and again.
                if chunk.role_position == ChunkRolePosition::SecondChunkMaster {
                    return Ok(());
                }
                // If this proxy was holding both masters, the master of the other half moves as well.
                let both_moved = chunk.role_position == ChunkRolePosition::FirstChunkMaster;
                chunk.role_position = ChunkRolePosition::SecondChunkMaster;

                for migrating_slot_range in chunk.migrating_slots[0].iter_mut() {
                    migrating_slot_range.meta.epoch = new_epoch;
                    peer_position.insert((
                        migrating_slot_range.meta.src_chunk_index,
                        migrating_slot_range.meta.src_chunk_part,
                    ));
                    peer_position.insert((
                        migrating_slot_range.meta.dst_chunk_index,
                        migrating_slot_range.meta.dst_chunk_part,
                    ));
                }
                if both_moved {
                    for migrating_slot_range in chunk.migrating_slots[1].iter_mut() {
                        migrating_slot_range.meta.epoch = new_epoch;
                        peer_position.insert((
                            migrating_slot_range.meta.src_chunk_index,
                            migrating_slot_range.meta.src_chunk_part,
                        ));
                        peer_position.insert((
                            migrating_slot_range.meta.dst_chunk_index,
                            migrating_slot_range.meta.dst_chunk_part,
                        ));
                    }
                }
                break;
            } else if chunk.proxy_addresses[1] == failed_proxy_address {
                if chunk.role_position == ChunkRolePosition::FirstChunkMaster {
                    return Ok(());
                }
                // If this proxy was holding both masters, the master of the other half moves as well.
                let both_moved = chunk.role_position == ChunkRolePosition::SecondChunkMaster;
                chunk.role_position = ChunkRolePosition::FirstChunkMaster;

                for migrating_slot_range in chunk.migrating_slots[1].iter_mut() {
                    migrating_slot_range.meta.epoch = new_epoch;
                    peer_position.insert((
                        migrating_slot_range.meta.src_chunk_index,
                        migrating_slot_range.meta.src_chunk_part,
                    ));
                    peer_position.insert((
                        migrating_slot_range.meta.dst_chunk_index,
                        migrating_slot_range.meta.dst_chunk_part,
                    ));
                }
                if both_moved {
                    for migrating_slot_range in chunk.migrating_slots[0].iter_mut() {
                        migrating_slot_range.meta.epoch = new_epoch;
                        peer_position.insert((
                            migrating_slot_range.meta.src_chunk_index,
                            migrating_slot_range.meta.src_chunk_part,
                        ));
                        peer_position.insert((
                            migrating_slot_range.meta.dst_chunk_index,
                            migrating_slot_range.meta.dst_chunk_part,
                        ));
                    }
                }
                break;
            }
        }

        for chunk in cluster.chunks.iter_mut() {
            for migrating_slots in chunk.migrating_slots.iter_mut() {
                for migrating_slot_range in migrating_slots.iter_mut() {
                    let src_index = migrating_slot_range.meta.src_chunk_index;
                    let src_part = migrating_slot_range.meta.src_chunk_part;
                    let dst_index = migrating_slot_range.meta.dst_chunk_index;
                    let dst_part = migrating_slot_range.meta.dst_chunk_part;
                    if peer_position.contains(&(src_index, src_part))
                        || peer_position.contains(&(dst_index, dst_part))
                    {
                        migrating_slot_range.meta.epoch = new_epoch;
                    }
                }
            }
        }
        cluster.epoch = new_epoch;
        Ok(())
    }

    fn second_host_cmp(
        host1: &str,
        count1: usize,
        host2: &str,
        count2: usize,
        free_host_proxies: &HashMap<String, Vec<String>>,
    ) -> Ordering {
        let r = count1.cmp(&count2);
        if r != Ordering::Equal {
            return r;
        }
        let host1_free = free_host_proxies
            .get(host1)
            .map(|proxies| proxies.len())
            .expect("second_host_cmp: get back host");
        let host2_free = free_host_proxies
            .get(host2)
            .map(|proxies| proxies.len())
            .expect("second_host_cmp: get back host");
        // Need to reverse it as we want the host with maximum proxies.
        host2_free.cmp(&host1_free)
    }

    pub fn balance_masters(&mut self, cluster_name: String) -> Result<(), MetaStoreError> {
        let cluster_name = ClusterName::try_from(cluster_name.as_str())
            .map_err(|_| MetaStoreError::InvalidClusterName)?;
        let new_epoch = self.store.get_global_epoch() + 1;

        let failed_proxies = &self.store.failed_proxies;
        let failures = &self.store.failures;

        let failed_proxy_exists = |addresses: &[String; CHUNK_PARTS]| -> bool {
            for address in addresses.iter() {
                if failed_proxies.contains(address) || failures.contains_key(address) {
                    return true;
                }
            }
            false
        };

        match self.store.clusters.get_mut(&cluster_name) {
            None => return Err(MetaStoreError::ClusterNotFound),
            Some(ref mut cluster) => {
                for chunk in cluster.chunks.iter_mut() {
                    if failed_proxy_exists(&chunk.proxy_addresses) {
                        continue;
                    }
                    chunk.role_position = ChunkRolePosition::Normal;
                }
                cluster.set_epoch(new_epoch);
            }
        }

        self.store.bump_global_epoch();
        Ok(())
    }

    pub fn change_config(
        &mut self,
        cluster_name: String,
        config: HashMap<String, String>,
    ) -> Result<(), MetaStoreError> {
        let cluster_name = ClusterName::try_from(cluster_name.as_str())
            .map_err(|_| MetaStoreError::InvalidClusterName)?;
        // Will bump epoch later on success.
        let new_epoch = self.store.get_global_epoch() + 1;
        match self.store.clusters.get_mut(&cluster_name) {
            None => return Err(MetaStoreError::ClusterNotFound),
            Some(ref mut cluster) => {
                if cluster.is_migrating() {
                    return Err(MetaStoreError::MigrationRunning);
                }

                let mut cluster_config = cluster.config.clone();
                for (k, v) in config.iter() {
                    cluster_config.set_field(k, v).map_err(|err| {
                        MetaStoreError::InvalidConfig {
                            key: k.clone(),
                            value: v.clone(),
                            error: err.to_string(),
                        }
                    })?;
                }
                cluster.config = cluster_config;
                cluster.set_epoch(new_epoch);
            }
        }

        self.store.bump_global_epoch();
        Ok(())
    }
}
