// ---- C10 / C01: slots taken from the source masters when a scale-out migration starts (remove_slots_from_src) ----
pub open spec fn rlen(r: Range) -> int { r.1 - r.0 + 1 }
pub open spec fn slots_num(v: Seq<Range>) -> int
    decreases v.len()
{ if v.len() == 0 { 0 } else { slots_num(v.drop_last()) + rlen(v.last()) } }
// a stable range list the function can work on: ranges are start <= end and the list holds at most all 16384 slots
pub open spec fn rl_ok(rl: RangeList) -> bool { wf(rl.0@) && bounded(rl.0@) && slots_num(rl.0@) <= 16384 }
pub open spec fn both_some(ch: ChunkStore) -> bool { ch.stable_slots[0] is Some && ch.stable_slots[1] is Some }
pub open spec fn both_none(ch: ChunkStore) -> bool { ch.stable_slots[0] is None && ch.stable_slots[1] is None }
// the shape migrate_slots finds: k source chunks (both halves own slots) followed by freshly added empty chunks
pub open spec fn src_prefix(cs: Seq<ChunkStore>, k: int) -> bool {
    0 <= k <= cs.len() && (forall|i: int| 0 <= i < k ==> both_some(#[trigger] cs[i])) && (forall|i: int| k <= i < cs.len() ==> both_none(#[trigger] cs[i]))
}
pub open spec fn src_ok(cs: Seq<ChunkStore>, k: int) -> bool {
    forall|i: int, p: int| 0 <= i < k && 0 <= p < 2 ==> rl_ok((#[trigger] cs[i].stable_slots[p])->Some_0.range_list)
}
// everything of a chunk except the ranges of its stable halves
pub open spec fn chunk_frame(o: ChunkStore, n: ChunkStore) -> bool {
    n.role_position == o.role_position && n.migrating_slots == o.migrating_slots && n.proxy_addresses == o.proxy_addresses && n.hosts == o.hosts && n.node_addresses == o.node_addresses
    && forall|p: int| 0 <= p < 2 ==> half_frame(#[trigger] o.stable_slots[p], n.stable_slots[p])
}
pub open spec fn half_frame(o: Option<SlotRange>, n: Option<SlotRange>) -> bool {
    match o { None => n is None, Some(so) => n matches Some(sn) && sn.tag == so.tag && rl_ok(sn.range_list) && slots_num(sn.range_list.0@) <= slots_num(so.range_list.0@) }
}
pub open spec fn meta_ok(m: MigrationMetaStore, k: int, len: int, epoch: u64) -> bool {
    m.epoch == epoch && 0 <= m.src_chunk_index < k && m.src_chunk_part < 2 && k <= m.dst_chunk_index < len && m.dst_chunk_part < 2
}
pub open spec fn metas_ok(ms: Seq<MigrationSlots>, k: int, len: int, epoch: u64) -> bool { forall|i: int| 0 <= i < ms.len() ==> meta_ok((#[trigger] ms[i]).meta, k, len, epoch) }

pub proof fn lemma_slots_num_nonneg(v: Seq<Range>)
    requires normalized(v)
    ensures slots_num(v) >= v.len(), forall|i: int| 0 <= i < v.len() ==> rlen(#[trigger] v[i]) <= slots_num(v)
    decreases v.len()
{
    if v.len() > 0 {
        let d = v.drop_last();
        lemma_slots_num_nonneg(d);
        assert forall|i: int| 0 <= i < v.len() implies rlen(#[trigger] v[i]) <= slots_num(v) by { if i < d.len() { assert(d[i] == v[i]); } }
    }
}
pub proof fn lemma_slots_num_update_last(v: Seq<Range>, r: Range)
    requires v.len() > 0
    ensures slots_num(v.update(v.len() - 1, r)) == slots_num(v) - rlen(v.last()) + rlen(r)
{
    let w = v.update(v.len() - 1, r);
    assert(w.drop_last() =~= v.drop_last());
}
fn verif_min(a: usize, b: usize) -> (r: usize) ensures r == (if a <= b { a } else { b }) { if a <= b { a } else { b } }
#[verifier::external_body] fn shim_take_all<T>(v: &mut Vec<T>) -> (r: Vec<T>) ensures r@ == old(v)@, final(v)@.len() == 0 { unimplemented!() }
pub proof fn lemma_slots_num_prefix(v: Seq<Range>, n: int)
    requires normalized(v), 0 <= n <= v.len()
    ensures forall|m: int| 0 <= m <= n ==> 0 <= slots_num(#[trigger] v.subrange(0, m)) <= slots_num(v.subrange(0, n)), slots_num(v.subrange(0, n)) <= slots_num(v)
    decreases v.len() - n, n
{
    let p = v.subrange(0, n);
    assert(normalized(p));
    lemma_slots_num_nonneg(p);
    if n > 0 {
        lemma_slots_num_prefix_le(v, n);
        assert forall|m: int| 0 <= m <= n implies 0 <= slots_num(#[trigger] v.subrange(0, m)) <= slots_num(v.subrange(0, n)) by {
            lemma_slots_num_mono(v, m, n);
        }
    }
    lemma_slots_num_mono(v, n, v.len() as int);
    assert(v.subrange(0, v.len() as int) =~= v);
}
pub proof fn lemma_slots_num_prefix_le(v: Seq<Range>, n: int) requires normalized(v), 0 <= n <= v.len() ensures true {}
pub proof fn lemma_slots_num_mono(v: Seq<Range>, a: int, b: int)
    requires normalized(v), 0 <= a <= b <= v.len()
    ensures 0 <= slots_num(v.subrange(0, a)) <= slots_num(v.subrange(0, b))
    decreases b - a
{
    let pa = v.subrange(0, a);
    assert(normalized(pa));
    lemma_slots_num_nonneg(pa);
    if a < b {
        lemma_slots_num_mono(v, a, b - 1);
        assert(v.subrange(0, b).drop_last() =~= v.subrange(0, b - 1));
        assert(v.subrange(0, b).last() == v[b - 1]);
    }
}
pub proof fn lemma_prefix_unique(cs: Seq<ChunkStore>, a: int, b: int)
    requires src_prefix(cs, a), src_prefix(cs, b)
    ensures a == b
{
    if a < b { assert(both_none(cs[a])); assert(both_some(cs[a])); }
    if b < a { assert(both_none(cs[b])); assert(both_some(cs[b])); }
}

// ---- conservation (C01): what a source half gave away is exactly what the migrations out of it carry ----
pub open spec fn from_half(ms: MigrationSlots, i: int, p: int) -> bool { ms.meta.src_chunk_index == i && ms.meta.src_chunk_part == p }
pub open spec fn pieces_cover(ms: Seq<MigrationSlots>, i: int, p: int, s: int) -> bool { exists|j: int| 0 <= j < ms.len() && from_half(#[trigger] ms[j], i, p) && covers(ms[j].ranges.0@, s) }
// every slot of the old stable list is afterwards either still stable in this half or in exactly the migrations out of this half - never both, never lost
#[verifier::opaque]
pub open spec fn conserved(o: Seq<Range>, n: Seq<Range>, ms: Seq<MigrationSlots>, i: int, p: int) -> bool {
    &&& forall|s: int| #![trigger covers(o, s)] #![trigger covers(n, s)] #![trigger pieces_cover(ms, i, p, s)] covers(o, s) <==> (covers(n, s) || pieces_cover(ms, i, p, s))
    &&& forall|s: int| #![trigger covers(n, s)] #![trigger pieces_cover(ms, i, p, s)] !(covers(n, s) && pieces_cover(ms, i, p, s))
}
pub open spec fn top(v: Seq<Range>) -> int { if v.len() == 0 { -1 } else { v.last().1 as int } }
// migrations produced so far come from halves up to (ci, pi) in processing order
pub open spec fn half_le(i: int, p: int, ci: int, pi: int) -> bool { i < ci || (i == ci && p <= pi) }
pub open spec fn metas_upto(ms: Seq<MigrationSlots>, ci: int, pi: int) -> bool { forall|j: int| 0 <= j < ms.len() ==> half_le((#[trigger] ms[j]).meta.src_chunk_index as int, ms[j].meta.src_chunk_part as int, ci, pi) }
pub proof fn lemma_pieces_push(ms: Seq<MigrationSlots>, e: MigrationSlots, i: int, p: int, s: int)
    ensures pieces_cover(ms.push(e), i, p, s) <==> (pieces_cover(ms, i, p, s) || (from_half(e, i, p) && covers(e.ranges.0@, s)))
{
    let m2 = ms.push(e);
    if pieces_cover(m2, i, p, s) {
        let j = choose|j: int| 0 <= j < m2.len() && from_half(#[trigger] m2[j], i, p) && covers(m2[j].ranges.0@, s);
        if j < ms.len() { assert(ms[j] == m2[j]); }
    }
    if pieces_cover(ms, i, p, s) {
        let j = choose|j: int| 0 <= j < ms.len() && from_half(#[trigger] ms[j], i, p) && covers(ms[j].ranges.0@, s);
        assert(m2[j] == ms[j]);
    }
    if from_half(e, i, p) && covers(e.ranges.0@, s) { assert(m2[ms.len() as int] == e); }
}
pub proof fn lemma_conserved_push_other(o: Seq<Range>, n: Seq<Range>, ms: Seq<MigrationSlots>, e: MigrationSlots, i: int, p: int)
    requires conserved(o, n, ms, i, p), !from_half(e, i, p)
    ensures conserved(o, n, ms.push(e), i, p)
{
    reveal(conserved);
    let m2 = ms.push(e);
    assert forall|s: int| #![trigger covers(o, s)] #![trigger covers(n, s)] #![trigger pieces_cover(m2, i, p, s)] (covers(o, s) <==> (covers(n, s) || pieces_cover(m2, i, p, s))) && !(covers(n, s) && pieces_cover(m2, i, p, s)) by {
        lemma_pieces_push(ms, e, i, p, s);
        if pieces_cover(ms, i, p, s) { }
    }
}
pub proof fn lemma_wf_top(v: Seq<Range>, s: int)
    requires wf(v), covers(v, s)
    ensures s <= top(v), v.len() > 0
{
    let i = choose|i: int| 0 <= i < v.len() && lo(#[trigger] v[i]) <= s <= hi(v[i]);
    lemma_wf_sorted(v, i, v.len() - 1);
}
pub proof fn lemma_wf_sorted(v: Seq<Range>, i: int, j: int)
    requires wf(v), 0 <= i <= j < v.len()
    ensures v[i].1 <= v[j].1, i < j ==> v[i].1 + 1 < v[j].0
    decreases j - i
{
    if i < j { lemma_wf_sorted(v, i, j - 1); assert(v[j - 1].1 + 1 < v[j].0); }
}
pub proof fn lemma_covers_drop_last(v: Seq<Range>, s: int)
    requires v.len() > 0
    ensures covers(v, s) <==> (covers(v.drop_last(), s) || lo(v.last()) <= s <= hi(v.last()))
{
    let d = v.drop_last();
    if covers(v, s) { let i = choose|i: int| 0 <= i < v.len() && lo(#[trigger] v[i]) <= s <= hi(v[i]); if i < d.len() { assert(d[i] == v[i]); } }
    if covers(d, s) { let i = choose|i: int| 0 <= i < d.len() && lo(#[trigger] d[i]) <= s <= hi(d[i]); assert(v[i] == d[i]); }
    if lo(v.last()) <= s <= hi(v.last()) { assert(lo(v[v.len() - 1]) <= s); }
}
pub proof fn lemma_covers_push(v: Seq<Range>, r: Range, s: int)
    ensures covers(v.push(r), s) <==> (covers(v, s) || lo(r) <= s <= hi(r))
{
    let w = v.push(r);
    assert(w.drop_last() =~= v);
    lemma_covers_drop_last(w, s);
}

// ---- the cutting loop keeps: old list == what is left + what was given (to finished migrations or to the pending piece list), and
//      everything given lies strictly above what is left ----
pub open spec fn given(ms: Seq<MigrationSlots>, cds: Seq<Range>, i: int, p: int, s: int) -> bool { pieces_cover(ms, i, p, s) || covers(cds, s) }
#[verifier::opaque]
pub open spec fn split_ok(l0: Seq<Range>, cur: Seq<Range>, ms: Seq<MigrationSlots>, cds: Seq<Range>, i: int, p: int) -> bool {
    &&& forall|s: int| #![trigger covers(l0, s)] #![trigger covers(cur, s)] #![trigger given(ms, cds, i, p, s)] covers(l0, s) <==> (covers(cur, s) || given(ms, cds, i, p, s))
    &&& forall|s: int| #![trigger given(ms, cds, i, p, s)] given(ms, cds, i, p, s) ==> s > top(cur)
}
pub proof fn lemma_split_init(l0: Seq<Range>, ms: Seq<MigrationSlots>, i: int, p: int)
    requires forall|s: int| !(#[trigger] pieces_cover(ms, i, p, s))
    ensures split_ok(l0, l0, ms, Seq::<Range>::empty(), i, p)
{
    reveal(split_ok);
    let c0 = Seq::<Range>::empty();
    assert forall|s: int| #![trigger covers(l0, s)] #![trigger given(ms, c0, i, p, s)] !given(ms, c0, i, p, s) by { assert(!pieces_cover(ms, i, p, s)); }
}
pub proof fn lemma_split_pop(l0: Seq<Range>, v0: Seq<Range>, ms: Seq<MigrationSlots>, cds: Seq<Range>, i: int, p: int)
    requires split_ok(l0, v0, ms, cds, i, p), wf(v0), v0.len() > 0
    ensures split_ok(l0, v0.drop_last(), ms, cds.push(v0.last()), i, p), wf(v0.drop_last())
{
    reveal(split_ok);
    let d = v0.drop_last(); let r = v0.last(); let c2 = cds.push(r);
    assert(wf(d)) by { assert forall|k: int| 0 <= k < d.len() implies (#[trigger] d[k]) == v0[k] by {} }
    assert(top(d) < r.0) by { if d.len() > 0 { lemma_wf_sorted(v0, v0.len() - 2, v0.len() - 1); assert(d.last() == v0[v0.len() - 2]); } }
    assert(top(d) <= top(v0)) by { if d.len() > 0 { lemma_wf_sorted(v0, v0.len() - 2, v0.len() - 1); } }
    assert forall|s: int| #![trigger covers(l0, s)] #![trigger covers(d, s)] #![trigger given(ms, c2, i, p, s)] (covers(l0, s) <==> (covers(d, s) || given(ms, c2, i, p, s))) && (given(ms, c2, i, p, s) ==> s > top(d)) by {
        lemma_covers_drop_last(v0, s); lemma_covers_push(cds, r, s);
        if given(ms, cds, i, p, s) { }
    }
}
pub proof fn lemma_split_cut(l0: Seq<Range>, v0: Seq<Range>, ms: Seq<MigrationSlots>, cds: Seq<Range>, i: int, p: int, rn: int)
    requires split_ok(l0, v0, ms, cds, i, p), wf(v0), v0.len() > 0, 1 <= rn < rlen(v0.last())
    ensures split_ok(l0, v0.update(v0.len() - 1, Range(v0.last().0, (v0.last().1 - rn) as usize)), ms, cds.push(Range((v0.last().1 - rn + 1) as usize, v0.last().1)), i, p),
        wf(v0.update(v0.len() - 1, Range(v0.last().0, (v0.last().1 - rn) as usize)))
{
    reveal(split_ok);
    let a = v0.last().0; let b = v0.last().1;
    let nr = Range(a, (b - rn) as usize); let piece = Range((b - rn + 1) as usize, b);
    let w = v0.update(v0.len() - 1, nr); let c2 = cds.push(piece);
    assert(wf(w)) by {
        assert forall|k: int| 0 <= k < w.len() implies (#[trigger] w[k]).0 <= w[k].1 by { if k < v0.len() - 1 { assert(w[k] == v0[k]); } }
        assert forall|k: int| 0 <= k < w.len() - 1 implies (#[trigger] w[k]).1 + 1 < w[k + 1].0 by { assert(w[k] == v0[k]); assert(v0[k].1 + 1 < v0[k + 1].0); }
    }
    assert(w.drop_last() =~= v0.drop_last());
    assert forall|s: int| #![trigger covers(l0, s)] #![trigger covers(w, s)] #![trigger given(ms, c2, i, p, s)] (covers(l0, s) <==> (covers(w, s) || given(ms, c2, i, p, s))) && (given(ms, c2, i, p, s) ==> s > top(w)) by {
        lemma_covers_drop_last(v0, s); lemma_covers_drop_last(w, s); lemma_covers_push(cds, piece, s);
        if given(ms, cds, i, p, s) { }
    }
}
pub proof fn lemma_split_emit(l0: Seq<Range>, cur: Seq<Range>, ms: Seq<MigrationSlots>, cds: Seq<Range>, e: MigrationSlots, i: int, p: int)
    requires split_ok(l0, cur, ms, cds, i, p), from_half(e, i, p), forall|s: int| covers(e.ranges.0@, s) <==> covers(cds, s)
    ensures split_ok(l0, cur, ms.push(e), Seq::<Range>::empty(), i, p)
{
    reveal(split_ok);
    let m2 = ms.push(e); let c2 = Seq::<Range>::empty();
    assert forall|s: int| #![trigger covers(l0, s)] #![trigger covers(cur, s)] #![trigger given(m2, c2, i, p, s)] (covers(l0, s) <==> (covers(cur, s) || given(m2, c2, i, p, s))) && (given(m2, c2, i, p, s) ==> s > top(cur)) by {
        lemma_pieces_push(ms, e, i, p, s);
        if given(ms, cds, i, p, s) { }
        assert(!covers(c2, s));
    }
}
pub proof fn lemma_split_done(l0: Seq<Range>, cur: Seq<Range>, ms: Seq<MigrationSlots>, i: int, p: int)
    requires split_ok(l0, cur, ms, Seq::<Range>::empty(), i, p), wf(cur)
    ensures conserved(l0, cur, ms, i, p)
{
    reveal(split_ok); reveal(conserved);
    let c0 = Seq::<Range>::empty();
    assert forall|s: int| #![trigger covers(l0, s)] #![trigger covers(cur, s)] #![trigger pieces_cover(ms, i, p, s)] (covers(l0, s) <==> (covers(cur, s) || pieces_cover(ms, i, p, s))) && !(covers(cur, s) && pieces_cover(ms, i, p, s)) by {
        if given(ms, c0, i, p, s) { }
        assert(!covers(c0, s));
        if covers(cur, s) { lemma_wf_top(cur, s); }
    }
}
pub proof fn lemma_split_other_halves(l0: Seq<Range>, cur: Seq<Range>, ms: Seq<MigrationSlots>, cds: Seq<Range>, e: MigrationSlots, i: int, p: int) requires true ensures true {}
// fair share: a source master keeps at least min(what it had, floor average avg)
pub open spec fn keeps_floor(o: Seq<Range>, n: Seq<Range>, avg: int) -> bool { slots_num(n) >= (if slots_num(o) <= avg { slots_num(o) } else { avg }) }
