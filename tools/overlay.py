# Line-anchored overlays (DESIGN 3.2 item 3): contract clauses, loop invariants and proof hints are stored
# separately from the code as operations anchored on *source lines* of the real function.  An overlay never
# carries executable code of the function: it can only
#   insert  ghost/proof lines after a source line                    {"op":"insert","after":L,"nth":k,"line":n,"text":T}
#   loop    attach a spec to the loop whose header is source line L  {"op":"loop","at":L,"nth":k,"line":n,"itname":I,"spec":T}
#           (the header itself is taken from the *current* source: `for x in E {` -> `for x in I: E` + spec + `{`)
#   header  replace the signature by signature+contract after checking that the current parameter list and
#           return type occur verbatim in it                         {"op":"header","count":c,"text":T}
# derive() computes the operations once from a hand-annotated probe; any other difference between the probe and
# the (rule-processed) source is an error at derivation time.  apply() replays them on the text cut from /repo
# on every run.  An anchor that is not found verbatim is looked up by position / closest match (soft anchor:
# safe, because the anchored source line itself is always kept); if that fails too the run is undecided.
import difflib, json, os, re, sys


def _norm(l):
    return re.sub(r'\s+', ' ', l.strip())


def _strip_comment(l):
    return re.sub(r'\s*//.*$', '', l)


def _loop_header(line, itname):
    """transform a source loop header line (ending in '{') into the annotated header (without '{')."""
    l = line.rstrip()
    assert l.endswith('{'), line
    l = l[:-1].rstrip()
    if itname:
        m = re.match(r'(\s*for\s+.*?\s+in\s+)(.*)$', l)
        if not m:
            raise ValueError('not a for header: ' + line)
        l = m.group(1) + itname + ': ' + m.group(2)
    return l


def _is_loop_line(n):
    return bool(re.match(r"(for\b|while\b|loop\b|'\w+:\s*(for|while|loop)\b)", n)) and n.endswith('{')


def _balance(lines):
    d = 0
    for l in lines:
        l = _strip_comment(l)
        d += l.count('{') + l.count('(') + l.count('[') - l.count('}') - l.count(')') - l.count(']')
    return d


def derive(src_text, annotated_text):
    """align every source line with the annotated text in order; everything in between is an inserted ghost block, which
    must be balanced in brackets (so that dropping or moving one block never breaks the syntax of another)."""
    a = src_text.split('\n')
    b = annotated_text.split('\n')
    an = [_norm(x) for x in a]
    bn = [_norm(x) for x in b]
    ops = []
    k = 0
    while not _norm(_strip_comment(a[k])).endswith('{'):
        k += 1
    jj = 0
    while bn[jj] != '{':
        jj += 1
    ia, jb = 0, 0
    if '\n'.join(an[:k + 1]) != '\n'.join(bn[:jj + 1]):
        ops.append({'op': 'header', 'count': k + 1, 'text': '\n'.join(b[:jj])})
        ia, jb = k + 1, jj + 1

    def nth_of(idx):
        return sum(1 for q in range(idx) if an[q] == an[idx])

    def ins_after(idx, lines):
        while lines and not lines[0].strip():
            lines = lines[1:]
        if not lines:
            return
        if idx < 0:
            ops.append({'op': 'insert', 'after': '', 'nth': 0, 'line': -1, 'text': '\n'.join(lines)})
        else:
            op = {'op': 'insert', 'after': an[idx], 'nth': nth_of(idx), 'line': idx, 'text': '\n'.join(lines)}
            if idx + 1 < len(an):
                op['before'] = an[idx + 1]
                op['before_nth'] = nth_of(idx + 1)
            ops.append(op)
    prev = ia - 1
    for i in range(ia, len(a)):
        L = an[i]
        if L == '':
            continue
        cands = [(L, None)]
        if _is_loop_line(L):
            plain = _norm(_loop_header(a[i], None))
            cands = [(plain, 'PLAIN')]
            try:
                pat = re.compile('^' + re.escape(_norm(_loop_header(a[i], 'ITNAMEPLACEHOLDER'))).replace('ITNAMEPLACEHOLDER', r'(\w+)') + '$')
            except ValueError:
                pat = None
        found = None
        for j in range(jb, len(b)):
            hit = None
            if bn[j] == L:
                hit = ('same', None)
            elif _is_loop_line(L):
                if bn[j] == cands[0][0]:
                    hit = ('loop', None)
                else:
                    m = pat.match(bn[j]) if pat else None
                    if m:
                        hit = ('loop', m.group(1))
            if hit and _balance(b[jb:j]) == 0:
                found = (j, hit)
                break
        if not found:
            raise ValueError('source line /%s/ not found in the annotated text (in order, with balanced inserts)' % L)
        j, hit = found
        ins_after(prev, b[jb:j])
        if hit[0] == 'loop':
            kk = j + 1
            while bn[kk] != '{':
                kk += 1
            ops.append({'op': 'loop', 'at': L, 'nth': nth_of(i), 'line': i, 'itname': hit[1], 'spec': '\n'.join(b[j + 1:kk])})
            jb = kk + 1
        else:
            jb = j + 1
        prev = i
    ins_after(prev, b[jb:])
    return {'src_lines': len(a), 'src_norm': an, 'ops': ops}


DROP_OPS = {}  # (thread id, overlay name) -> set of op indexes to skip (second chance after a syntax error in a hint)
DROP = {}      # thread id -> identifiers whose hints are to be dropped (set by the driver for a retry)


class AnchorLost(Exception):
    pass


def _locate(an, text, nth, line, nlines_then, notes):
    idxs = [k for k, x in enumerate(an) if x == text]
    if len(idxs) > nth:
        return idxs[nth]
    if len(an) == nlines_then and 0 <= line < len(an):
        notes.append('soft anchor by position for /%s/' % text[:50])
        return line
    best = None
    for k in range(max(0, line - 6), min(len(an), line + 7)):
        r = difflib.SequenceMatcher(a=an[k], b=text).ratio()
        if r > 0.6 and (best is None or r > best[0]):
            best = (r, k)
    if best:
        notes.append('soft anchor by similarity (%.2f) for /%s/' % (best[0], text[:50]))
        return best[1]
    raise AnchorLost(text[:80])


def _check_header(real, new):
    norm = lambda s: re.sub(r'\s+', '', s)
    m = re.search(r'fn\s+\w+(?:<[^()]*>)?\s*\(', real, re.S)
    if not m:
        raise AnchorLost('signature not understood: ' + real[:80])
    a = m.end() - 1
    d = 0
    b = a
    while True:
        if real[b] == '(':
            d += 1
        elif real[b] == ')':
            d -= 1
            if d == 0:
                break
        b += 1
    params = norm(real[a:b + 1]).replace(',)', ')')
    if params not in norm(new).replace(',)', ')'):
        raise AnchorLost('signature changed: ' + re.sub(r'\s+', ' ', real))
    ret = re.search(r'->\s*(.*?)\s*\{\s*$', real[b + 1:], re.S)
    if ret:
        r = re.sub(r'where.*$', '', norm(ret.group(1)))
        if r and r not in norm(new):
            raise AnchorLost('return type changed: ' + re.sub(r'\s+', ' ', real))


def apply(src_text, overlay, notes=None, trace=None, skip_ops=()):
    notes = notes if notes is not None else []
    if skip_ops:
        overlay = dict(overlay, ops=[op for k, op in enumerate(overlay['ops']) if k not in skip_ops or op['op'] != 'insert'])
        notes.append('%d hint(s) dropped after a syntax error' % len(skip_ops))
    # second chance after a resolution error: ghost/proof text that mentions an identifier which no longer exists in the
    # function is dropped (hints never add assumptions, so this can only make the proof fail, not pass)
    import threading
    drop = sorted(DROP.get(threading.get_ident(), ()))
    if drop:
        pat = re.compile(r'\b(?:' + '|'.join(re.escape(x) for x in drop) + r')\b')
        ops = []
        for op in overlay['ops']:
            if op['op'] == 'insert' and pat.search(op['text']):
                notes.append('hint dropped (mentions %s)' % ','.join(drop))
                continue
            if op['op'] == 'loop' and pat.search(op['spec']):
                op = dict(op, spec='\n'.join(l for l in op['spec'].split('\n') if not pat.search(l)))
                notes.append('loop spec lines dropped (mention %s)' % ','.join(drop))
            ops.append(op)
        overlay = dict(overlay, ops=ops)
    a = src_text.split('\n')
    an = [_norm(x) for x in a]
    inserts = {}
    loops = {}
    header = None
    opidx = {}
    # line alignment between the source the overlay was derived against and the current source: an op anchored on a line that
    # still exists (same text, same neighbourhood) goes exactly there, however many lines were added or removed elsewhere
    amap = {}
    if overlay.get('src_norm') and overlay['src_norm'] != an:
        sm = difflib.SequenceMatcher(a=overlay['src_norm'], b=an, autojunk=False)
        for (i0, j0, n0) in sm.get_matching_blocks():
            for t in range(n0):
                amap[i0 + t] = j0 + t
        notes.append('source differs from the text the overlay was derived against: anchors placed by line alignment')
    elif overlay.get('src_norm'):
        amap = {i: i for i in range(len(an))}
    for _k, op in enumerate(overlay['ops']):
        opidx[id(op)] = _k
        if op['op'] == 'insert':
            if op['after'] == '' and op['line'] == -1:
                idx = -1
            elif op['line'] in amap and an[amap[op['line']]] == op['after']:
                idx = amap[op['line']]
            elif amap and op['line'] not in amap:
                L = op['line']
                if (L - 1) in amap and (L + 1) in amap and amap[L + 1] - amap[L - 1] == 2:
                    # the anchored line was edited in place (its neighbours are where they were): keep the hint at that position
                    idx = amap[L - 1] + 1
                    notes.append('soft anchor: line /%s/ was edited in place' % op['after'][:40])
                elif op['after'].strip() not in ('', '}', '{', '});', '})', '};') and overlay['src_norm'].count(op['after']) == 1 and an.count(op['after']) == 1:
                    # the anchored line was moved (its text is unique before and after the edit): the hint moves with it
                    idx = an.index(op['after'])
                    notes.append('anchor line /%s/ was moved: hint follows it' % op['after'][:40])
                else:
                    # the alignment shows that the anchored line is gone: the hint has lost its place (hints never add assumptions:
                    # dropping one can only make the proof fail, never pass)
                    notes.append('hint dropped: its anchor line /%s/ was deleted' % op['after'][:40])
                    continue
            else:
                try:
                    idx = _locate(an, op['after'], op['nth'], op['line'], overlay['src_lines'], notes)
                    # the anchored line is identified by its text and ordinal; when lines were removed or added the ordinal can point at
                    # another occurrence (typically of `}`): if the recorded following line does not follow, prefer the nearest occurrence
                    # where it does
                    bef = op.get('before')
                    if bef and not (idx + 1 < len(an) and an[idx + 1] == bef):
                        pairs = [k for k in range(len(an) - 1) if an[k] == op['after'] and an[k + 1] == bef]
                        if pairs:
                            idx2 = min(pairs, key=lambda k: abs(k - idx))
                            if idx2 != idx:
                                notes.append('anchor /%s/ re-located by its following line' % op['after'][:30])
                                idx = idx2
                except AnchorLost:
                    # the anchored line is gone: hang the ghost text in front of the line that used to follow it
                    if 'before' not in op:
                        raise
                    idx = _locate(an, op['before'], op['before_nth'], op['line'] + 1, overlay['src_lines'], notes) - 1
                    notes.append('anchor line gone, inserted before /%s/' % op['before'][:40])
            inserts.setdefault(idx, []).append((op['text'], opidx[id(op)]))
        elif op['op'] == 'loop':
            try:
                if op['line'] in amap and an[amap[op['line']]] == op['at']:
                    idx = amap[op['line']]
                else:
                    idx = _locate(an, op['at'], op['nth'], op['line'], overlay['src_lines'], notes)
            except AnchorLost:
                idx = None
            if idx is not None and idx in loops and an[idx] != op['at']:
                idx = None       # a soft anchor must never displace the spec of another loop
            if idx is None:
                cands = [k for k in range(len(an)) if _is_loop_line(an[k]) and k not in loops and difflib.SequenceMatcher(a=an[k], b=op['at']).ratio() > 0.6]
                if not cands:
                    notes.append('loop spec dropped (its loop /%s/ is gone)' % op['at'][:40])
                    continue
                idx = min(cands, key=lambda k: abs(k - op['line']))
                notes.append('loop spec re-anchored for /%s/' % op['at'][:40])
            if not _is_loop_line(an[idx]):
                # the anchored line is no longer a loop header: look for the nearest one
                cands = [k for k in range(len(an)) if _is_loop_line(an[k]) and k not in loops]
                if not cands:
                    notes.append('loop spec dropped (no loop header near /%s/)' % op['at'][:40])
                    continue
                idx = min(cands, key=lambda k: abs(k - idx))
                notes.append('loop spec re-anchored for /%s/' % op['at'][:40])
            loops[idx] = op
        elif op['op'] == 'header':
            header = op
    out = []
    start = 0
    if header is not None:
        # the current signature: lines up to the first one ending in '{'
        k = 0
        while k < len(a) and not _strip_comment(a[k]).rstrip().endswith('{'):
            k += 1
        if k >= len(a):
            raise AnchorLost('signature end not found')
        _check_header('\n'.join(a[:k + 1]), header['text'])
        out.append(header['text'])
        out.append('{')
        # inserts anchored inside the old signature move behind it
        for kk in range(0, k + 1):
            if kk in inserts:
                _emit(out, inserts[kk], trace)
        start = k + 1
    if -1 in inserts:
        _emit(out, inserts[-1], trace)
    for k in range(start, len(a)):
        if k in loops:
            op = loops[k]
            try:
                out.append(_loop_header(_strip_comment(a[k]), op['itname']))
            except ValueError:
                out.append(_loop_header(_strip_comment(a[k]), None))
            out.append(op['spec'])
            out.append(re.match(r'\s*', a[k]).group(0) + '{')
        else:
            out.append(a[k])
        if k in inserts:
            _emit(out, inserts[k], trace)
    return '\n'.join(out)


def _emit(out, items, trace):
    for text, k in items:
        a = sum(x.count('\n') + 1 for x in out)
        out.append(text)
        if trace is not None:
            trace.append((k, a, a + text.count('\n')))


def _dir():
    return os.path.join(os.path.dirname(os.path.dirname(os.path.abspath(__file__))), 'contracts')


def load(name):
    return json.load(open(os.path.join(_dir(), name + '.overlay.json')))


def save(name, ov):
    os.makedirs(_dir(), exist_ok=True)
    json.dump(ov, open(os.path.join(_dir(), name + '.overlay.json'), 'w'), indent=1)


def derive_and_save(name, src_text, annotated_text):
    ov = derive(src_text, annotated_text)
    save(name, ov)
    chk = apply(src_text, ov)
    ok = [_norm(x) for x in chk.split('\n') if _norm(x)] == [_norm(x) for x in annotated_text.split('\n') if _norm(x)]
    return ov, ok, chk
