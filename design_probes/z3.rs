#![feature(allocator_api)]
use vstd::prelude::*;
use std::collections::{HashMap, HashSet};
use std::hash::Hash;
use core::borrow::Borrow;
use core::alloc::Allocator;
verus! {
global size_of usize == 8;
broadcast use vstd::std_specs::hash::group_hash_axioms;

// ---- trusted (3.7) ----
pub broadcast axiom fn axiom_iter_mut_has_resolved<'a, T>(it: vstd::std_specs::iter::VerusForLoopWrapper<core::slice::IterMut<'a, T>>)
    ensures #[trigger] has_resolved(it) ==> forall|i: int| it.index@ <= i < it.seq().len() ==> has_resolved(#[trigger] it.seq()[i]);
pub uninterp spec fn key_of<K, Q: ?Sized>(k: &Q) -> K;
#[verifier::external_body] pub proof fn axiom_key_of_same<K>(k: &K) ensures key_of::<K, K>(k) == *k {}
pub assume_specification<'a, K: Eq + Hash, V, S: core::hash::BuildHasher, A: Allocator, Q: ?Sized + Hash + Eq>
    [ HashMap::<K, V, S, A>::get_mut::<Q> ] (m: &'a mut HashMap<K, V, S, A>, k: &Q) -> (r: Option<&'a mut V>)
    where K: Borrow<Q>
    ensures
        vstd::std_specs::hash::obeys_key_model::<K>() && vstd::std_specs::hash::builds_valid_hashers::<S>() ==> match r {
            Some(v) => old(m)@.contains_key(key_of::<K, Q>(k)) && *v == old(m)@[key_of::<K, Q>(k)]
                && final(m)@ == old(m)@.insert(key_of::<K, Q>(k), *final(v))
                && (*final(v) == *v ==> final(m)@ == old(m)@),   // derived: insert of the same value (extensionality)
            None => !old(m)@.contains_key(key_of::<K, Q>(k)) && final(m)@ == old(m)@,
        };

// opaque external types
pub struct Utc;
#[verifier::external_body] pub struct DateTimeUtc { x: u8 }
impl Utc { #[verifier::external_body] pub fn now() -> DateTimeUtc { unimplemented!() } }
impl DateTimeUtc { #[verifier::external_body] pub fn timestamp(&self) -> i64 { unimplemented!() } }
impl ClusterName { #[verifier::external_body] pub fn to_string(&self) -> String { unimplemented!() } }

#[verifier::external_body] pub struct ClusterName { x: u8 }
#[verifier::external_body] pub struct ClusterConfig { x: u8 }
pub struct InvalidClusterName;
impl Clone for ClusterName { #[verifier::external_body] fn clone(&self) -> Self { unimplemented!() } }
impl<'b> core::convert::TryFrom<&'b str> for ClusterName {
    type Error = InvalidClusterName;
    #[verifier::external_body] fn try_from(s: &'b str) -> Result<Self, InvalidClusterName> { unimplemented!() }
}
impl ClusterConfig {
    #[verifier::external_body] pub fn clone(&self) -> Self { unimplemented!() }
}
impl core::cmp::PartialEq for ClusterName { #[verifier::external_body] fn eq(&self, o: &Self) -> bool { unimplemented!() } }
impl core::cmp::Eq for ClusterName {}
impl core::hash::Hash for ClusterName { #[verifier::external_body] fn hash<H: core::hash::Hasher>(&self, state: &mut H) { unimplemented!() } }

pub struct MigrationMeta {
    pub epoch: u64, // The epoch migration starts
    pub src_proxy_address: String,
    pub src_node_address: String,
    pub dst_proxy_address: String,
    pub dst_node_address: String,
}
pub enum SlotRangeTag {
    Migrating(MigrationMeta),
    Importing(MigrationMeta),
    None,
}
pub struct Range(pub usize, pub usize);
pub struct RangeList(Vec<Range>);
pub struct SlotRange {
    pub range_list: RangeList,
    pub tag: SlotRangeTag,
}
pub struct MigrationTaskMeta {
    pub cluster_name: ClusterName,
    pub slot_range: SlotRange,
}
pub const NODES_PER_PROXY: usize = 2;
pub const CHUNK_PARTS: usize = 2;
pub const CHUNK_HALF_NODE_NUM: usize = 2;
pub const CHUNK_NODE_NUM: usize = 4;
pub struct ProxyResource {
    pub proxy_address: String,
    pub node_addresses: [String; NODES_PER_PROXY],
    pub host: String,
    // `index` is only used as the index in StatefulSet of Kubernetes
    // when `enable_ordered_proxy` is true.
    pub index: usize,
    pub cluster: Option<ClusterName>,
}
#[derive(Clone, Copy, PartialEq, Eq, Structural)]
pub enum ChunkRolePosition {
    Normal,
    FirstChunkMaster,
    SecondChunkMaster,
}
pub struct MigrationSlotRangeStore {
    pub range_list: RangeList,
    pub is_migrating: bool, // migrating or importing
    pub meta: MigrationMetaStore,
}
pub struct MigrationMetaStore {
    pub epoch: u64,
    pub src_chunk_index: usize,
    pub src_chunk_part: usize,
    pub dst_chunk_index: usize,
    pub dst_chunk_part: usize,
}
pub struct ChunkStore {
    pub role_position: ChunkRolePosition,
    pub stable_slots: [Option<SlotRange>; CHUNK_PARTS],
    pub migrating_slots: [Vec<MigrationSlotRangeStore>; CHUNK_PARTS],
    pub proxy_addresses: [String; CHUNK_PARTS],
    pub hosts: [String; CHUNK_PARTS],
    pub node_addresses: [String; CHUNK_NODE_NUM],
}
pub struct ClusterStore {
    pub epoch: u64,
    pub name: ClusterName,
    pub chunks: Vec<ChunkStore>,
    pub config: ClusterConfig,
}
pub struct MigrationSlots {
    pub ranges: RangeList,
    pub meta: MigrationMetaStore,
}
pub enum ScaleOp {
    NoOp,
    ScaleOut,
    ScaleDown,
}
pub struct MetaStore {
    pub version: String,
    pub global_epoch: u64,
    pub clusters: HashMap<ClusterName, ClusterStore>,
    // proxy_address => nodes and cluster_name
    pub all_proxies: HashMap<String, ProxyResource>,
    // proxy addresses
    pub failed_proxies: HashSet<String>,
    // failed_proxy_address => reporter_id => time,
    pub failures: HashMap<String, HashMap<String, i64>>,
    // Set it `true` for kubernetes StatefulSet
    // to disable the chunk allocation algorithm
    // and only use ProxyResource.index to allocate chunks.
    pub enable_ordered_proxy: bool,
}
pub enum MetaStoreError {
    InUse,
    NotInUse,
    NoAvailableResource,
    ResourceNotBalance,
    AlreadyExisted,
    ClusterNotFound,
    FreeNodeNotFound,
    FreeNodeFound,
    ProxyNotFound,
    InvalidNodeNum,
    NodeNumAlreadyEnough,
    InvalidClusterName,
    InvalidMigrationTask,
    InvalidProxyAddress,
    MigrationTaskNotFound,
    MigrationRunning,
    InvalidConfig {
        key: String,
        value: String,
        error: String,
    },
    SlotsAlreadyEven,
    
    InvalidMetaVersion,
    SmallEpoch,
    MissingIndex,
    ProxyResourceOutOfOrder,
    OrderedProxyEnabled,
    OneClusterAlreadyExisted,
    ProxyNotSync,
    NodeNumberChanging,
    External,
    Retry,
    EmptyExternalVersion,
    ExternalTimeout,
}



// ---- C04 / C13 specs ----
pub open spec fn inv_epoch(s: MetaStore) -> bool { forall|k: ClusterName| s.clusters@.contains_key(k) ==> (#[trigger] s.clusters@[k]).epoch <= s.global_epoch }
pub open spec fn content_eq(a: ClusterStore, b: ClusterStore) -> bool { a.chunks == b.chunks && a.config == b.config && a.name == b.name }
pub open spec fn epoch_contract(o: MetaStore, n: MetaStore) -> bool {
    &&& n.global_epoch >= o.global_epoch
    &&& inv_epoch(n)
    &&& forall|k: ClusterName| o.clusters@.contains_key(k) && n.clusters@.contains_key(k) ==>
            (#[trigger] n.clusters@[k]).epoch >= o.clusters@[k].epoch
            && (!content_eq(o.clusters@[k], n.clusters@[k]) ==> n.clusters@[k].epoch == n.global_epoch && n.global_epoch > o.global_epoch)
    &&& forall|k: ClusterName| !o.clusters@.contains_key(k) && n.clusters@.contains_key(k) ==> (#[trigger] n.clusters@[k]).epoch == n.global_epoch && n.global_epoch > o.global_epoch
    &&& (o.clusters@.dom() != n.clusters@.dom() || o.all_proxies@ != n.all_proxies@ || o.failed_proxies@ != n.failed_proxies@ || o.failures@ != n.failures@) ==> n.global_epoch > o.global_epoch
}
pub open spec fn store_same(o: MetaStore, n: MetaStore) -> bool {
    n.global_epoch == o.global_epoch && n.clusters@ =~= o.clusters@ && n.all_proxies@ == o.all_proxies@ && n.failed_proxies@ == o.failed_proxies@ && n.failures@ == o.failures@ && n.version == o.version
}
impl Clone for ClusterConfig { #[verifier::external_body] fn clone(&self) -> (r: Self) ensures r == *self { unimplemented!() } }
impl ClusterConfig {
    #[verifier::external_body] pub fn set_field(&mut self, k: &String, v: &String) -> Result<(), ConfigError> { unimplemented!() }
}
pub struct ConfigError;
impl ConfigError { #[verifier::external_body] pub fn to_string(&self) -> String { unimplemented!() } }
impl ClusterStore {
    pub fn set_epoch(&mut self, new_epoch: u64) ensures final(self).epoch == new_epoch, final(self).chunks == old(self).chunks, final(self).config == old(self).config, final(self).name == old(self).name {
        self.epoch = new_epoch;
    }
    #[verifier::external_body] pub fn is_migrating(&self) -> bool { unimplemented!() }
}
impl MetaStore {
    pub fn get_global_epoch(&self) -> (r: u64) ensures r == self.global_epoch { self.global_epoch }
    pub fn bump_global_epoch(&mut self) -> (r: u64)
        requires old(self).global_epoch < u64::MAX
        ensures final(self).global_epoch == old(self).global_epoch + 1, r == final(self).global_epoch,
            final(self).clusters == old(self).clusters, final(self).all_proxies == old(self).all_proxies,
            final(self).failed_proxies == old(self).failed_proxies, final(self).failures == old(self).failures,
            final(self).version == old(self).version,
    {
        self.global_epoch += 1;
        self.global_epoch
    }
pub fn restore(&mut self, other: MetaStore) -> (r: Result<(), MetaStoreError>)
        ensures
            r is Ok <==> (old(self).version@ == other.version@ && old(self).global_epoch <= other.global_epoch),
            r is Ok ==> *final(self) == other,
            r is Err ==> *final(self) == *old(self),
    {
        if self.version != other.version {
            return Err(MetaStoreError::InvalidMetaVersion);
        }
        if self.global_epoch > other.global_epoch {
            return Err(MetaStoreError::SmallEpoch);
        }
        *self = other;
        Ok(())
    }
}
pub struct MetaStoreUpdate<'a> { pub store: &'a mut MetaStore }
impl<'a> MetaStoreUpdate<'a> {
    pub fn remove_cluster(&mut self, cluster_name: String) -> (r: Result<(), MetaStoreError>)
        requires inv_epoch(*old(self).store), old(self).store.global_epoch < u64::MAX,
            vstd::std_specs::hash::obeys_key_model::<ClusterName>(), vstd::std_specs::hash::obeys_key_model::<String>(),
        ensures epoch_contract(*old(self).store, *final(self).store),
            r is Err ==> store_same(*old(self).store, *final(self).store),
{
        let cluster_name = ClusterName::try_from(cluster_name.as_str())
            .map_err(|_e| MetaStoreError::InvalidClusterName)?;

        let cluster_store = match self.store.clusters.remove(&cluster_name) {
            None => { proof { assert(self.store.clusters@ =~= old(self).store.clusters@); } return Err(MetaStoreError::ClusterNotFound) },
            Some(cluster_store) => cluster_store,
        };

        // Set proxies free.
        for chunk in cluster_store.chunks.iter() {
            for proxy_address in chunk.proxy_addresses.iter() {
                if let Some(proxy) = self.store.all_proxies.get_mut(proxy_address) {
                    proxy.cluster = None;
                }
            }
        }

        self.store.bump_global_epoch();
        Ok(())
    }
    pub fn change_config(
        &mut self,
        cluster_name: String,
        config: HashMap<String, String>,
    ) -> (r: Result<(), MetaStoreError>)
        requires inv_epoch(*old(self).store), old(self).store.global_epoch < u64::MAX,
            vstd::std_specs::hash::obeys_key_model::<ClusterName>(), vstd::std_specs::hash::obeys_key_model::<String>(),
        ensures epoch_contract(*old(self).store, *final(self).store),
            r is Err ==> store_same(*old(self).store, *final(self).store),
{
        let cluster_name = ClusterName::try_from(cluster_name.as_str())
            .map_err(|_e| MetaStoreError::InvalidClusterName)?;
        // Will bump epoch later on success.
        let new_epoch = self.store.get_global_epoch() + 1;
        match self.store.clusters.get_mut(&cluster_name) {
            None => return Err(MetaStoreError::ClusterNotFound),
            Some(ref mut cluster) => {
                if cluster.is_migrating() {
                    return Err(MetaStoreError::MigrationRunning);
                }

                let mut cluster_config = cluster.config.clone();
                let ghost c0 = **cluster;
                let mut verif_ret: Option<Result<(), MetaStoreError>> = None;
                for (k, v) in itc: config.iter()
                    invariant **cluster == c0, vstd::std_specs::hash::obeys_key_model::<String>(), verif_ret matches Some(vr) ==> vr is Err,
                {
                    if let Err(verif_e) = cluster_config.set_field(k, v).map_err(|err| {
                        MetaStoreError::InvalidConfig {
                            key: k.clone(),
                            value: v.clone(),
                            error: err.to_string(),
                        }
                    }) { verif_ret = Some(Err(verif_e)); break; }
                }
                if let Some(verif_r) = verif_ret { return verif_r; }
                cluster.config = cluster_config;
                cluster.set_epoch(new_epoch);
            }
        }

        self.store.bump_global_epoch();
        Ok(())
    }
}
} // verus!
fn main() {}
