use vstd::prelude::*;
use std::collections::HashMap;
verus! {
broadcast use vstd::std_specs::hash::group_hash_axioms;
#[derive(PartialEq, Eq, Hash)]
pub struct Range(pub usize, pub usize);
#[derive(PartialEq, Eq, Hash)]
pub struct RangeList(pub Vec<Range>);
pub struct MigrationMeta { pub epoch: u64, pub src_proxy_address: String, pub src_node_address: String, pub dst_proxy_address: String, pub dst_node_address: String }
pub enum SlotRangeTag { Migrating(MigrationMeta), Importing(MigrationMeta), None }
pub struct SlotRange { pub range_list: RangeList, pub tag: SlotRangeTag }
impl SlotRange { pub fn get_range_list(&self) -> (r: &RangeList) ensures *r == self.range_list { &self.range_list } }
#[derive(PartialEq, Eq, Copy, Clone, Structural)]
pub enum MigrationState {
    PreCheck = 0,
    PreBlocking = 1,
    PreSwitch = 2,
    Scanning = 3,
    FinalSwitch = 4,
    SwitchCommitted = 5,
}
// trusted: derived Hash/Eq of RangeList are consistent
pub broadcast axiom fn axiom_rangelist_key() ensures #[trigger] vstd::std_specs::hash::obeys_key_model::<RangeList>();

// statement-level spec: who advertises a range
pub open spec fn spec_ignore(tag: SlotRangeTag, st: Option<MigrationState>) -> bool {
    match tag {
        SlotRangeTag::Migrating(_) => st != Some(MigrationState::PreCheck),   // source advertises only before the handshake
        SlotRangeTag::Importing(_) => st == Some(MigrationState::PreCheck),   // destination advertises afterwards
        SlotRangeTag::None => false,
    }
}
pub open spec fn state_of(m: Map<RangeList, MigrationState>, rl: RangeList) -> Option<MigrationState> { if m.contains_key(rl) { Some(m[rl]) } else { None } }
fn should_ignore_slots(
    range: &SlotRange,
    migration_states: &HashMap<RangeList, MigrationState>,
) -> (r: bool)
    requires vstd::std_specs::hash::obeys_key_model::<RangeList>()
    ensures r == spec_ignore(range.tag, state_of(migration_states@, range.range_list))
{
    // In the new migration protocol, after switching at the very beginning,
    // the importing nodes will take care of all the migrating slots.
    // From the point of view of other nodes, since they can't
    // find any migration_states, migrating nodes always does not
    // own the migrating slots while the importing nodes always own
    // the migrating slots.
    match &range.tag {
        SlotRangeTag::Migrating(_) => {
            migration_states.get(range.get_range_list()).cloned() != Some(MigrationState::PreCheck)
        }
        SlotRangeTag::Importing(_) => {
            migration_states.get(range.get_range_list()).cloned() == Some(MigrationState::PreCheck)
        }
        _ => false,
    }
}
// exactly one side of a migration advertises the range, whatever the state (or no state: a bystander)
pub proof fn lemma_exclusive(m1: MigrationMeta, m2: MigrationMeta, st: Option<MigrationState>)
    ensures spec_ignore(SlotRangeTag::Migrating(m1), st) != spec_ignore(SlotRangeTag::Importing(m2), st),
            !spec_ignore(SlotRangeTag::None, st),
            st is None ==> spec_ignore(SlotRangeTag::Migrating(m1), st) && !spec_ignore(SlotRangeTag::Importing(m2), st),
{}
} // verus!
fn main() {}
