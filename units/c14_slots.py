# C14 (CLUSTER SLOTS rendering): gen_cluster_slots_helper (src/proxy/cluster.rs) lists, for every node address of the slot
# map exactly once, every range of every ADVERTISED slot range (should_ignore_slots false) of that node - in order, each as
# [start, end, [host, port, node id]] under that node's own address - and nothing else.  gen_local_cluster_slots /
# gen_remote_cluster_slots: the map handed to the helper (local: ONE entry, the service address, carrying every slot range of
# every local node; remote: the remote map itself).
# String code is out of reach of Verus and is abstracted by shims (listed in the trusted base): str::split pieces, bytes of a
# str, format!, usize::to_string, gen_node_id.
import re
import vlib
from units import broker_common

HEADER = '''fn gen_cluster_slots_helper(
    name: &ClusterName,
    slot_ranges: &HashMap<String, Vec<SlotRange>>,
    migration_states: &HashMap<RangeList, MigrationState>,
) -> (r: Result<Vec<RespVec>, String>)
    requires vstd::std_specs::hash::obeys_key_model::<RangeList>(), vstd::std_specs::hash::obeys_key_model::<String>(),
    ensures
        // every node address exactly once (ks: the iteration order of the map), under it every range of every advertised slot range, nothing else
        r matches Ok(v) ==> exists|ks: Seq<String>| #![trigger render_nodes(*name, ks, slot_ranges@, migration_states@, ks.len())] is_order_of(ks, slot_ranges@)
            && view_all(v@) == render_nodes(*name, ks, slot_ranges@, migration_states@, ks.len()),
        // an address of the form host:port is never refused
        (forall|k: String| slot_ranges@.contains_key(k) ==> valid_addr(k@)) ==> r is Ok,'''


def slots_helper(U, P):
    f = P.fn('gen_cluster_slots_helper')
    f.r1_logging()
    f.replace('D9c', 'for (addr, ranges) in slot_ranges {',
              'let (verif_entries, Ghost(verif_ks)) = shim_ref_entries(slot_ranges);\n    for (addr, ranges) in verif_entries.into_iter() {', count=1)
    f.replace('R-split', "addr.split(':')", "shim_split(addr, ':')", count=1)
    f.sub('R-fmt', r'format!\("invalid address \{\}", addr\)', 'shim_format()', count=2)
    if re.search(r'\{\s*continue;\s*\}', f.text):
        vlib.d8_continue(f)
    f.sub('R-tostr', r'range\.(start|end)\(\)\.to_string\(\)\.into_bytes\(\)', r'shim_usize_dec(range.\1())', count=2)
    f.sub('R-bytes', r'(\w+)\.as_bytes\(\)\.to_vec\(\)', r'shim_str_to_vec(\1)', count=2)
    f.replace('R-bytes', 'node_id.into_bytes()', 'shim_into_bytes(node_id)', count=1)
    f.sub('R-semi', r'(slot_range_element\.push\(Resp::Arr\(Array::Arr\(arr\)\)\))(\s*\n\s*\})', r'\1;\2', count=1)   # tail expression of type () -> statement
    f.replace('R-clone', 'ip_port_array.clone()', 'shim_clone_resp(&ip_port_array)', count=1)
    return f


def build(U):
    P = U.src('src/proxy/cluster.rs')
    T = U.src('src/migration/task.rs')
    C = U.src('src/common/cluster.rs')
    R = U.src('src/protocol/resp.rs')
    U.add('''use vstd::prelude::*;
use std::collections::HashMap;
verus! {
global size_of usize == 8;
broadcast use vstd::std_specs::hash::group_hash_axioms;
#[verifier::external_body] pub struct ClusterName { x: u8 }
''')
    for k, n in [('struct', 'Range'), ('struct', 'RangeList')]:
        U.add('#[derive(PartialEq, Eq, Hash)]\n' + vlib.pub_fields(broker_common.strip(C.item(k, n))) + '\n')
    for k, n in [('struct', 'MigrationMeta'), ('enum', 'SlotRangeTag'), ('struct', 'SlotRange')]:
        U.add(vlib.pub_fields(broker_common.strip(C.item(k, n))) + '\n')
    st = broker_common.strip(T.item('enum', 'MigrationState'))
    U.add('#[derive(PartialEq, Eq, Copy, Clone, Structural)]\n' + st + '\n')
    for n in ('BulkStr', 'Array', 'Resp'):
        U.add(broker_common.strip(R.item('enum', n)) + '\n')
    U.add('pub type RespVec = Resp<Vec<u8>>;\n')
    U.prelude('c14_common.rs')
    U.prelude('c14_slots_spec.rs')
    g = C.fn('get_range_list', within=r'impl SlotRange\b')
    g.header("    pub fn get_range_list(&self) -> (r: &RangeList)\n        ensures *r == self.range_list")
    U.add('impl SlotRange {\n'); U.add_fn(g); U.add('}\n')
    g = C.fn('get_ranges', within=r'impl RangeList\b')
    g.header("    pub fn get_ranges(&self) -> (r: &[Range])\n        ensures r@ == self.0@")
    U.add('impl RangeList {\n'); U.add_fn(g); U.add('}\n')
    U.add('impl Range {\n')
    for nm, fld in (('start', '0'), ('end', '1')):
        g = C.fn(nm, within=r'impl Range\b')
        g.header("    pub fn %s(&self) -> (r: usize)\n        ensures r == self.%s" % (nm, fld))
        U.add_fn(g)
    U.add('}\n')
    f = P.fn('should_ignore_slots')
    f.r1_logging()
    f.header("fn should_ignore_slots(\n    range: &SlotRange,\n    migration_states: &HashMap<RangeList, MigrationState>,\n) -> (r: bool)\n"
             "    requires vstd::std_specs::hash::obeys_key_model::<RangeList>()\n    ensures r == spec_ignore(range.tag, state_of(migration_states@, range.range_list))")
    U.add_fn(f)
    f = slots_helper(U, P)
    f.apply_overlay('gen_cluster_slots_helper')
    U.add_fn(f)
    # ---- the two callers: which map is rendered
    lc = vlib.pub_fields(broker_common.strip(P.item('struct', 'LocalCluster')))
    rc = vlib.pub_fields(broker_common.strip(P.item('struct', 'RemoteCluster')))
    U.add('#[verifier::reject_recursive_types(S)]\n' + lc + '\n#[verifier::reject_recursive_types(P)]\n' + rc + '\n')
    g = P.fn('gen_local_cluster_slots', within=r'impl<S: CmdTaskSender> LocalCluster<S>')
    g.r1_logging()
    # D12: R.values().flatten().cloned().collect::<Vec<T>>()  ->  push loop over the entries (order unspecified, as in std)
    D12 = r'let slots: Vec<SlotRange> = self\s*\.slot_ranges\s*\.values\(\)'
    if re.search(D12, g.text):     # otherwise the text goes to the verifier as it is (unsupported construct => undecided)
      g.sub('D12', r'let slots: Vec<SlotRange> = self\s*\.slot_ranges\s*\.values\(\)\s*\.flatten\(\)\s*\.cloned\(\)\s*\.collect::<Vec<SlotRange>>\(\);',
          'let mut slots: Vec<SlotRange> = Vec::new();\n        let (verif_vals, Ghost(verif_vks)) = shim_ref_entries(&self.slot_ranges);\n'
          '        for (verif_k, verif_v) in verif_vals.into_iter() {\n            for verif_x in verif_v.iter() {\n                slots.push(shim_clone_slot_range(verif_x));\n            }\n        }', count=1)
    g.apply_overlay('gen_local_cluster_slots')
    U.add('impl<S: CmdTaskSender> LocalCluster<S> {\n'); U.add_fn(g); U.add('}\n')
    g = P.fn('gen_remote_cluster_slots', within=r'impl<P: CmdTaskSender> RemoteCluster<P>')
    g.header('''    pub fn gen_remote_cluster_slots(
        &self,
        migration_states: &HashMap<RangeList, MigrationState>,
    ) -> (r: Result<Vec<RespVec>, String>)
        requires vstd::std_specs::hash::obeys_key_model::<RangeList>(), vstd::std_specs::hash::obeys_key_model::<String>(),
        ensures r matches Ok(v) ==> exists|ks: Seq<String>| #![trigger render_nodes(self.cluster_name, ks, self.slot_ranges@, migration_states@, ks.len())] is_order_of(ks, self.slot_ranges@)
                && view_all(v@) == render_nodes(self.cluster_name, ks, self.slot_ranges@, migration_states@, ks.len()),
            (forall|k: String| self.slot_ranges@.contains_key(k) ==> valid_addr(k@)) ==> r is Ok,''')
    U.add('impl<P: CmdTaskSender> RemoteCluster<P> {\n'); U.add_fn(g); U.add('}\n')
    U.add("} // verus!\nfn main() {}\n")
    U.trust('string code by shims: str::split(c) yields the fixed piece sequence pieces_of(s, c) (shim_split / SplitIter::next), str::as_bytes().to_vec() / String::into_bytes() == str_bytes, usize::to_string().into_bytes() == dec(n), format!(..) on the error path is some String',
            'gen_node_id (format!, crc64) is a function of (cluster name, address)',
            'derived Clone of Resp<Vec<u8>> preserves the byte view (shim_clone_resp)',
            'LocalCluster / RemoteCluster: SenderMap, SlotMap, ClusterConfig fields opaque (never touched by the functions under contract); derived Clone of SlotRange structural',
            'D12: HashMap::values().flatten().cloned().collect() pushes every element of every value once, values in an unspecified order',
            'D9c: iterating &HashMap visits every entry exactly once in an unspecified order (shim_ref_entries)',
            'derived Hash/Eq of RangeList / String obey the key model (preconditions)')


MUST_FAIL = '''
proof fn must_fail_c14_slots_ignored_is_listed(name: ClusterName, addr: Seq<char>, sr: SlotRange, states: Map<RangeList, MigrationState>)
    requires !advertised(sr, states), sr.range_list.0@.len() > 0
    ensures render_node(name, addr, seq![sr], states, 1).len() > 0
{ }
'''
