// ---------- specs ----------
pub open spec fn lo(r: Range) -> int { if r.0 <= r.1 { r.0 as int } else { r.1 as int } }
pub open spec fn hi(r: Range) -> int { if r.0 <= r.1 { r.1 as int } else { r.0 as int } }
pub open spec fn covers(v: Seq<Range>, s: int) -> bool { exists|i: int| 0 <= i < v.len() && lo(#[trigger] v[i]) <= s <= hi(v[i]) }
pub open spec fn normalized(v: Seq<Range>) -> bool { forall|i: int| 0 <= i < v.len() ==> (#[trigger] v[i]).0 <= v[i].1 }
pub open spec fn sorted_by_start(v: Seq<Range>) -> bool { forall|i: int, j: int| 0 <= i <= j < v.len() ==> (#[trigger] v[i]).0 <= (#[trigger] v[j]).0 }
pub open spec fn wf(v: Seq<Range>) -> bool {
    normalized(v) && forall|i: int| 0 <= i < v.len() - 1 ==> (#[trigger] v[i]).1 + 1 < v[i + 1].0
}
pub open spec fn bounded(v: Seq<Range>) -> bool { forall|i: int| 0 <= i < v.len() ==> (#[trigger] v[i]).0 < usize::MAX && v[i].1 < usize::MAX }

fn max(a: usize, b: usize) -> (r: usize) ensures r == (if a >= b { a } else { b }) { if a >= b { a } else { b } }

// R7 (trusted): sort_by_key(|r| r.start())
#[verifier::external_body]
fn shim_sort_by_start(v: &mut Vec<Range>)
    ensures final(v)@.len() == old(v)@.len(), sorted_by_start(final(v)@),
            forall|x: Range| final(v)@.contains(x) <==> old(v)@.contains(x),
{ v.sort_by_key(|r| r.0) }


pub broadcast axiom fn axiom_vec_len_bound<T>(v: Vec<T>) ensures #[trigger] v@.len() <= usize::MAX;

pub open spec fn in_range(r: Range, s: int) -> bool { lo(r) <= s <= hi(r) }

pub proof fn lemma_covers_split(v: Seq<Range>, k: int, s: int)
    requires 0 <= k <= v.len()
    ensures covers(v, s) <==> (covers(v.subrange(0, k), s) || covers(v.subrange(k, v.len() as int), s))
{
    let l = v.subrange(0, k); let r = v.subrange(k, v.len() as int);
    if covers(v, s) {
        let i = choose|i: int| 0 <= i < v.len() && lo(#[trigger] v[i]) <= s <= hi(v[i]);
        if i < k { assert(l[i] == v[i]); assert(lo(l[i]) <= s <= hi(l[i])); } else { assert(r[i - k] == v[i]); assert(lo(r[i - k]) <= s <= hi(r[i - k])); }
    }
    if covers(l, s) { let i = choose|i: int| 0 <= i < l.len() && lo(#[trigger] l[i]) <= s <= hi(l[i]); assert(l[i] == v[i]); assert(lo(v[i]) <= s <= hi(v[i])); }
    if covers(r, s) { let i = choose|i: int| 0 <= i < r.len() && lo(#[trigger] r[i]) <= s <= hi(r[i]); assert(r[i] == v[i + k]); assert(lo(v[i + k]) <= s <= hi(v[i + k])); }
}

