
pub struct Proxy { pub x: u8 }
#[verifier::external_body] fn shim_clone_opt_name(x: &Option<ClusterName>) -> (r: Option<ClusterName>) ensures r == *x { unimplemented!() }
pub broadcast axiom fn axiom_string_key() ensures #[trigger] vstd::std_specs::hash::obeys_key_model::<String>();
impl Clone for ProxyResource { #[verifier::external_body] fn clone(&self) -> (r: Self) ensures r == *self { unimplemented!() } }
//@@FREE_SPEC@@
impl ClusterStore {
//@@SET_EPOCH@@
}
// address replacement on the first chunk that holds the failed proxy
pub open spec fn slot_replaced(a: ChunkStore, b: ChunkStore, k: int, n: ProxyResource) -> bool {
    b.role_position == a.role_position && b.stable_slots == a.stable_slots && b.migrating_slots == a.migrating_slots
    && b.hosts[k]@ == n.host@ && b.hosts[1 - k] == a.hosts[1 - k]
    && b.proxy_addresses[k]@ == n.proxy_address@ && b.proxy_addresses[1 - k] == a.proxy_addresses[1 - k]
    && b.node_addresses[2 * k]@ == n.node_addresses[0]@ && b.node_addresses[2 * k + 1]@ == n.node_addresses[1]@
    && b.node_addresses[2 * (1 - k)] == a.node_addresses[2 * (1 - k)] && b.node_addresses[2 * (1 - k) + 1] == a.node_addresses[2 * (1 - k) + 1]
}
pub open spec fn replaced_post(m: ClusterStore, n: ClusterStore, failed: Seq<char>, res: ProxyResource, e: u64) -> bool {
    n.epoch == e && n.name == m.name && n.config == m.config && n.chunks@.len() == m.chunks@.len()
    && (forall|j: int| #![trigger m.chunks@[j]] is_first_hit(m, j, failed) ==> slot_replaced(m.chunks@[j], n.chunks@[j], hit_half(m.chunks@[j], failed), res))
    && (forall|c: int| 0 <= c < m.chunks@.len() && !is_first_hit(m, c, failed) ==> n.chunks@[c] == #[trigger] m.chunks@[c])
}
pub struct MetaStoreQuery<'a> { pub store: &'a MetaStore }
impl<'a> MetaStoreQuery<'a> {
    pub fn new(store: &'a MetaStore) -> (r: Self) ensures r.store == store { Self { store } }
    // out of reach (filter/cloned/group_by): assumed to return Some for a registered address
    #[verifier::external_body] pub fn get_proxy_by_address(&self, address: &str, migration_limit: u64) -> (r: Option<Proxy>)
        ensures r is Some <==> exists|k: String| #![trigger self.store.all_proxies@.contains_key(k)] self.store.all_proxies@.contains_key(k) && k@ == address@ { unimplemented!() }
}
//@@UPDATE_STRUCT@@
impl<'a> MetaStoreUpdate<'a> {
//@@TAKEOVER_CONTRACT@@
    // proved in unit new_free_proxy on the real text; the contract text is imported from that unit
    #[verifier::external_body]
//@@NEW_FREE_CONTRACT@@
    { unimplemented!() }
