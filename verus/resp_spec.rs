use vstd::prelude::*;
verus! {
global size_of usize == 8;

// LF / CR constants are copied from /repo by the extractor
// ParseError is copied from src/protocol/stateless.rs by the extractor

// ======================= strict RESP grammar as spec =======================
pub enum SResp { Error(int, int), Simple(int, int), Integer(int, int), BulkNil, Bulk(int, int), ArrNil, Arr(Seq<SResp>) }
pub enum SRes<T> { Ok(T, int), NotEnough, Invalid }

pub open spec fn first_lf(s: Seq<u8>) -> Option<int>
    decreases s.len()
{
    if s.len() == 0 { None } else if s[0] == LF { Some(0int) } else { match first_lf(s.subrange(1, s.len() as int)) { Some(i) => Some(i + 1), None => None } }
}
pub uninterp spec fn spec_btoi(s: Seq<u8>) -> Option<int>;   // decimal value if s is a valid i64 literal

// a line: (end of content, consumed)
pub open spec fn spec_line(s: Seq<u8>) -> SRes<int> {
    match first_lf(s) {
        None => SRes::NotEnough,
        Some(i) => if i == 0 || s[i - 1] != CR { SRes::Invalid } else { SRes::Ok(i - 1, i + 1) },
    }
}
pub open spec fn spec_len(s: Seq<u8>) -> SRes<int> {
    match spec_line(s) {
        SRes::Ok(end, c) => match spec_btoi(s.subrange(0, end)) { Some(n) => SRes::Ok(n, c), None => SRes::Invalid },
        SRes::NotEnough => SRes::NotEnough,
        SRes::Invalid => SRes::Invalid,
    }
}
// bulk body (after '$'), indices relative to s
pub open spec fn spec_bulk(s: Seq<u8>) -> SRes<SResp> {
    match spec_len(s) {
        SRes::Ok(n, c) =>
            if n < -1 { SRes::Invalid }
            else if n == -1 { SRes::Ok(SResp::BulkNil, c) }
            else if s.len() < c + n + 2 { SRes::NotEnough }
            else if s[c + n] != CR || s[c + n + 1] != LF { SRes::Invalid }
            else { SRes::Ok(SResp::Bulk(c, c + n), c + n + 2) },
        SRes::NotEnough => SRes::NotEnough,
        SRes::Invalid => SRes::Invalid,
    }
}
pub open spec fn shift(r: SResp, k: int) -> SResp
    decreases r
{
    match r {
        SResp::Error(a, b) => SResp::Error(a + k, b + k),
        SResp::Simple(a, b) => SResp::Simple(a + k, b + k),
        SResp::Integer(a, b) => SResp::Integer(a + k, b + k),
        SResp::BulkNil => SResp::BulkNil,
        SResp::Bulk(a, b) => SResp::Bulk(a + k, b + k),
        SResp::ArrNil => SResp::ArrNil,
        SResp::Arr(v) => SResp::Arr(Seq::new(v.len(), |i: int| if 0 <= i < v.len() { shift(v[i], k) } else { SResp::ArrNil })),
    }
}
pub open spec fn spec_resp(s: Seq<u8>) -> SRes<SResp>
    decreases s.len(), 2int, 0int
{
    if s.len() == 0 { SRes::NotEnough } else {
        let t = s.subrange(1, s.len() as int);
        let p = s[0];
        if p == 36u8 /* $ */ { match spec_bulk(t) { SRes::Ok(v, c) => SRes::Ok(shift(v, 1), c + 1), SRes::NotEnough => SRes::NotEnough, SRes::Invalid => SRes::Invalid } }
        else if p == 43u8 /* + */ { match spec_line(t) { SRes::Ok(e, c) => SRes::Ok(SResp::Simple(1, e + 1), c + 1), SRes::NotEnough => SRes::NotEnough, SRes::Invalid => SRes::Invalid } }
        else if p == 58u8 /* : */ { match spec_line(t) { SRes::Ok(e, c) => SRes::Ok(SResp::Integer(1, e + 1), c + 1), SRes::NotEnough => SRes::NotEnough, SRes::Invalid => SRes::Invalid } }
        else if p == 45u8 /* - */ { match spec_line(t) { SRes::Ok(e, c) => SRes::Ok(SResp::Error(1, e + 1), c + 1), SRes::NotEnough => SRes::NotEnough, SRes::Invalid => SRes::Invalid } }
        else if p == 42u8 /* * */ { match spec_array(t) { SRes::Ok(v, c) => SRes::Ok(shift(v, 1), c + 1), SRes::NotEnough => SRes::NotEnough, SRes::Invalid => SRes::Invalid } }
        else { SRes::Invalid }
    }
}
pub open spec fn spec_array(s: Seq<u8>) -> SRes<SResp>
    decreases s.len(), 1int, 0int
{
    match spec_len(s) {
        SRes::Ok(n, c) =>
            if n < -1 { SRes::Invalid }
            else if n == -1 { SRes::Ok(SResp::ArrNil, c) }
            else if c < 1 || c > s.len() { SRes::Invalid }   // unreachable: a line consumes >= 2
            else { match spec_elems(s, c, n, Seq::<SResp>::empty()) { SRes::Ok(v, c2) => SRes::Ok(SResp::Arr(v), c2), SRes::NotEnough => SRes::NotEnough, SRes::Invalid => SRes::Invalid } },
        SRes::NotEnough => SRes::NotEnough,
        SRes::Invalid => SRes::Invalid,
    }
}
// parse k more elements of s starting at pos (1 <= pos <= len), accumulating
pub open spec fn spec_elems(s: Seq<u8>, pos: int, k: int, acc: Seq<SResp>) -> SRes<Seq<SResp>>
    decreases s.len(), 0int, k
{
    if k <= 0 { SRes::Ok(acc, pos) }
    else if pos < 1 || pos > s.len() { SRes::Invalid }
    else {
        match spec_resp(s.subrange(pos, s.len() as int)) {
            SRes::Ok(v, c) => if c < 1 { SRes::Invalid } else { spec_elems(s, pos + c, k - 1, acc.push(shift(v, pos))) },
            SRes::NotEnough => SRes::NotEnough,
            SRes::Invalid => SRes::Invalid,
        }
    }
}

