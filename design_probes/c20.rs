use vstd::prelude::*;
verus! {
global size_of usize == 8;
#[derive(PartialEq, Eq, Clone, Copy, Structural)]
pub enum DataCmdType {
    Append,
    Bitcount,
    Bitfield,
    Bitop,
    Bitpos,
    Decr,
    Decrby,
    Get,
    Getbit,
    Getrange,
    Getset,
    Incr,
    Incrby,
    Incrbyfloat,
    Mget,
    Mset,
    Msetnx,
    Psetex,
    Set,
    Setbit,
    Setex,
    Setnx,
    Setrange,
    Strlen,
    Eval,
    Evalsha,
    Del,
    Exists,
    Blpop,
    Brpop,
    Brpoplpush,
    Lpop,
    Rpop,
    Rpoplpush,
    Lrem,
    Ltrim,
    Hdel,
    Smove,
    Spop,
    Srem,
    Zpopmax,
    Zpopmin,
    Zrem,
    Zremrangebylex,
    Zremrangebyrank,
    Zremrangebyscore,
    Bzpopmin,
    Bzpopmax,
    Expire,
    Expireat,
    Pexpire,
    Pexpireat,
    Move,
    Rename,
    Renamenx,
    Unlink,
    Others,
}
#[derive(PartialEq, Eq, Clone, Copy, Structural)]
pub enum CompressionStrategy { Disabled, SetGetOnly, AllowAll }
pub enum OptionalMulti<T> { Single(T), Multi(Vec<T>) }
pub struct IoError;
pub enum CompressionError { Io(IoError), InvalidRequest, InvalidResp, Disabled, UnsupportedCmdType, RestrictedCmd }
// abstract codec (assumption: zstd round-trips)
pub uninterp spec fn enc(x: Seq<u8>) -> Seq<u8>;
#[verifier::external_body] fn shim_zstd_encode(v: &[u8]) -> (r: Result<Vec<u8>, IoError>) ensures r matches Ok(c) ==> c@ == enc(v@) { unimplemented!() }
#[verifier::external_body] fn shim_range_step(a: usize, b: usize, k: usize) -> (r: Vec<usize>)
    requires k > 0
    ensures forall|i: int| 0 <= i < r@.len() ==> r@[i] == a + i * k && r@[i] < b, r@.len() == (if b > a { (b - a + k - 1) / k as int } else { 0 })
{ unimplemented!() }
// opaque command context with the accessor contracts of layer 1
pub struct Command { pub elems: Vec<Vec<u8>>, pub ty: DataCmdType }
pub struct CmdCtx { pub cmd: Command }
impl Command {
    pub fn get_command_len(&self) -> (r: Option<usize>) ensures r == Some(self.elems@.len() as usize) { Some(self.elems.len()) }
    #[verifier::external_body] pub fn get_command_element(&self, index: usize) -> (r: Option<&[u8]>)
        ensures match r { Some(e) => index < self.elems@.len() && e@ == self.elems@[index as int]@, None => index >= self.elems@.len() } { unimplemented!() }
}
impl CmdCtx {
    pub fn get_cmd(&self) -> (r: &Command) ensures *r == self.cmd { &self.cmd }
    pub fn get_data_cmd_type(&self) -> (r: DataCmdType) ensures r == self.cmd.ty { self.cmd.ty }
    #[verifier::external_body] pub fn change_cmd_element(&mut self, index: usize, data: Vec<u8>) -> (r: bool)
        ensures r == (index < old(self).cmd.elems@.len()), final(self).cmd.ty == old(self).cmd.ty,
            r ==> final(self).cmd.elems@ == old(self).cmd.elems@.update(index as int, data),
            !r ==> final(self).cmd.elems@ == old(self).cmd.elems@ { unimplemented!() }
}

// ---- statement-level spec of C20 (write side) ----
pub open spec fn value_index(ty: DataCmdType, i: int) -> bool {
    match ty {
        DataCmdType::Getset | DataCmdType::Set | DataCmdType::Setnx => i == 2,
        DataCmdType::Psetex | DataCmdType::Setex => i == 3,
        DataCmdType::Mset | DataCmdType::Msetnx => i >= 2 && i % 2 == 0,
        _ => false,
    }
}
pub open spec fn compressed(ty: DataCmdType, a: Seq<Vec<u8>>, b: Seq<Vec<u8>>) -> bool {
    a.len() == b.len() && forall|i: int| 0 <= i < a.len() ==> (#[trigger] b[i])@ == (if value_index(ty, i) { enc(a[i]@) } else { a[i]@ })
}
pub open spec fn partly(ty: DataCmdType, a: Seq<Vec<u8>>, b: Seq<Vec<u8>>) -> bool {
    a.len() == b.len() && forall|i: int| 0 <= i < a.len() ==> ((#[trigger] b[i])@ == a[i]@ || (value_index(ty, i) && b[i]@ == enc(a[i]@)))
}
pub open spec fn same(a: Seq<Vec<u8>>, b: Seq<Vec<u8>>) -> bool { a.len() == b.len() && forall|i: int| 0 <= i < a.len() ==> (#[trigger] b[i])@ == a[i]@ }
pub open spec fn is_write_cmd(ty: DataCmdType) -> bool { value_index(ty, 2) || value_index(ty, 3) }
pub trait CompressionStrategyConfig { fn get_config(&self) -> CompressionStrategy; }
pub struct CmdCompressor<C: CompressionStrategyConfig> { pub config: C }
impl<C: CompressionStrategyConfig> CmdCompressor<C> {
pub fn try_compressing_cmd_ctx(&self, cmd_ctx: &mut CmdCtx) -> (r: Result<(), CompressionError>)
        ensures final(cmd_ctx).cmd.ty == old(cmd_ctx).cmd.ty,
            match r {
                Ok(()) => if is_write_cmd(old(cmd_ctx).cmd.ty) { compressed(old(cmd_ctx).cmd.ty, old(cmd_ctx).cmd.elems@, final(cmd_ctx).cmd.elems@) } else { same(old(cmd_ctx).cmd.elems@, final(cmd_ctx).cmd.elems@) },
                Err(CompressionError::Disabled) | Err(CompressionError::RestrictedCmd) | Err(CompressionError::UnsupportedCmdType) => same(old(cmd_ctx).cmd.elems@, final(cmd_ctx).cmd.elems@),
                Err(_) => partly(old(cmd_ctx).cmd.ty, old(cmd_ctx).cmd.elems@, final(cmd_ctx).cmd.elems@),
            },
    {
        let strategy = self.config.get_config();

        if strategy == CompressionStrategy::Disabled {
            return Err(CompressionError::Disabled);
        }

        let index = match cmd_ctx.get_data_cmd_type() {
            DataCmdType::Getset | DataCmdType::Set | DataCmdType::Setnx => OptionalMulti::Single(2),
            DataCmdType::Psetex | DataCmdType::Setex => OptionalMulti::Single(3),
            DataCmdType::Mset | DataCmdType::Msetnx => {
                let l = match cmd_ctx.get_cmd().get_command_len() {
                    None => return Err(CompressionError::InvalidRequest),
                    Some(l) => l,
                };
                let key_indices = shim_range_step(2, l, 2);
                OptionalMulti::Multi(key_indices)
            }
            DataCmdType::Append
            | DataCmdType::Bitcount
            | DataCmdType::Bitfield
            | DataCmdType::Bitop
            | DataCmdType::Bitpos
            | DataCmdType::Decr
            | DataCmdType::Decrby
            | DataCmdType::Getbit
            | DataCmdType::Getrange
            | DataCmdType::Incr
            | DataCmdType::Incrby
            | DataCmdType::Incrbyfloat
            | DataCmdType::Mget
            | DataCmdType::Setbit
            | DataCmdType::Setrange
            | DataCmdType::Strlen => match strategy {
                CompressionStrategy::SetGetOnly => return Err(CompressionError::RestrictedCmd),
                _ => return Err(CompressionError::UnsupportedCmdType),
            },
            _ => return Ok(()),
        };

        match index {
            OptionalMulti::Single(index) => Self::compress_one_element(cmd_ctx, index),
            OptionalMulti::Multi(indices) => {
                for index in it: indices.into_iter()
                    invariant
                        cmd_ctx.cmd.ty == old(cmd_ctx).cmd.ty, it.seq() == indices@,
                        forall|i: int| 0 <= i < indices@.len() ==> indices@[i] == 2 + i * 2 && indices@[i] < old(cmd_ctx).cmd.elems@.len(),
                        cmd_ctx.cmd.elems@.len() == old(cmd_ctx).cmd.elems@.len(),
                        forall|i: int| 0 <= i < cmd_ctx.cmd.elems@.len() ==> (#[trigger] cmd_ctx.cmd.elems@[i])@ == (if i >= 2 && i % 2 == 0 && i < 2 + it.index@ * 2 { enc(old(cmd_ctx).cmd.elems@[i]@) } else { old(cmd_ctx).cmd.elems@[i]@ }),
                {
                    Self::compress_one_element(cmd_ctx, index)?;
                }
                Ok(())
            }
        }
    }
fn compress_one_element(cmd_ctx: &mut CmdCtx, index: usize) -> (r: Result<(), CompressionError>)
        ensures final(cmd_ctx).cmd.ty == old(cmd_ctx).cmd.ty,
            match r {
                Ok(()) => index < old(cmd_ctx).cmd.elems@.len() && final(cmd_ctx).cmd.elems@.len() == old(cmd_ctx).cmd.elems@.len()
                    && final(cmd_ctx).cmd.elems@[index as int]@ == enc(old(cmd_ctx).cmd.elems@[index as int]@)
                    && forall|i: int| 0 <= i < old(cmd_ctx).cmd.elems@.len() && i != index ==> (#[trigger] final(cmd_ctx).cmd.elems@[i]) == old(cmd_ctx).cmd.elems@[i],
                Err(e) => final(cmd_ctx).cmd.elems@ == old(cmd_ctx).cmd.elems@ && !(e is Disabled) && !(e is RestrictedCmd) && !(e is UnsupportedCmdType),
            },
    {
        let value = match cmd_ctx.get_cmd().get_command_element(index) {
            Some(e) => e,
            None => return Err(CompressionError::InvalidRequest),
        };

        let compressed = match shim_zstd_encode(value) {
            Ok(c) => c,
            Err(err) => {
                return Err(CompressionError::Io(err));
            }
        };

        if cmd_ctx.change_cmd_element(index, compressed) {
            Ok(())
        } else {
            Err(CompressionError::InvalidRequest)
        }
    }
}
} // verus!
fn main() {}
