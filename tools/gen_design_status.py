#!/usr/bin/env python3
# authoring aid: refresh the units / obligations columns of the status table DESIGN.md A.2 from registry.py and contracts/baseline.json
import json, os, re, sys
V = os.path.dirname(os.path.dirname(os.path.abspath(__file__)))
sys.path.insert(0, V)
import registry
b = json.load(open(V + '/contracts/baseline.json'))
p = V + '/DESIGN.md'
s = open(p).read()
i = s.index('### A.2 Status per property'); j = s.index('### A.3', i)
sec = s[i:j]
for pid, P in registry.PROPS.items():
    tot = sum(b[u]['verified'] for u in P['verus'] if u in b)
    units = ', '.join(P['verus']) + ((' + Kani ' + ', '.join(P['kani'])) if P.get('kani') else '')
    m = re.search(r'^\| %s \| ([^|]*) \| ([^|]*) \|' % pid, sec, re.M)
    if not m:
        print('row missing', pid); continue
    kn = re.search(r'\+ (\d+)', m.group(2))
    obl = '%d%s' % (tot, (' + ' + kn.group(1)) if kn else '')
    sec = sec[:m.start()] + '| %s | %s | %s |' % (pid, units, obl) + sec[m.end():]
open(p, 'w').write(s[:i] + sec + s[j:])
print('status table refreshed')
