# C09 - key-to-slot routing: get_hash_tag, generate_slot, SlotMapData::get (DESIGN 4.9)
import re
import vlib

# contract of SlotMapData::get proved here; unit c09_table imports this very text
GET_HEADER = ("pub fn get(&self, slot: usize) -> (r: Option<&str>)\n        requires self.wf()\n"
              "        ensures match r { Some(a) => slot < self.slot_arr@.len() && (self.slot_arr@[slot as int] matches Some(k) && a@ == self.addrs@[k as int]@), None => slot >= self.slot_arr@.len() || self.slot_arr@[slot as int] is None }")

def build(U):
    S = U.src('src/common/utils.rs')
    L = U.src('src/proxy/slot.rs')
    U.prelude('c09_pre.rs')
    ty, val = S.const_expr('SLOT_NUM')
    U.add('pub const SLOT_NUM: %s = %s;\n' % (ty, val))
    g = S.fn('get_hash_tag')
    # R3: E.iter().position(|x| *x as char == 'C')  ->  shim_position_u8(E, 'C' as u8)
    g.sub('R3', r"(\w+)\.iter\(\)\.position\(\|x\| \*x as char == ('(?:\\.|[^'\\])')\)", r"shim_position_u8(\1, \2 as u8)", count=2)
    # R4: E.get(a..) / E.get(a..b) on &[u8]
    g.sub('R4', r"(\w+)\s*\.get\(([^().]+)\.\.\)", r"shim_get_from(\1, \2)", count=1)
    g.sub('R4', r"(\w+)\s*\.get\(([^().]+)\.\.([^().]+)\)", r"shim_get_range(\1, \2, \3)", count=1)
    # closure #0: spec by ordinal (what position() returns for the closure's own argument)
    m = re.search(r"\|t\| shim_position_u8\(t, ('(?:\\.|[^'\\])') as u8\)", g.text)
    if not m:
        g._lost('closure #0 |t| shim_position_u8(t, ..)')
    ch = m.group(1)
    g.replace('closure-spec', m.group(0),
              "|t: &[u8]| -> (o: Option<usize>)\n                ensures match o {\n"
              "                    Some(i) => i < t@.len() && t@[i as int] == %s as u8 && forall|j: int| 0 <= j < i ==> t@[j] != %s as u8,\n"
              "                    None => forall|j: int| 0 <= j < t@.len() ==> t@[j] != %s as u8,\n                }\n"
              "                { shim_position_u8(t, %s as u8) }" % (ch, ch, ch, ch), count=1)
    g.header("pub fn get_hash_tag(key: &[u8]) -> (r: &[u8])\n    ensures r@ == spec_hash_tag(key@)")
    g.body_start("    proof { lemma_first_index(key@, 123u8); lemma_slice_len(key); }")
    g.after("if let Some(begin) = shim_position_u8(key,",
            "        proof { lemma_first_index_unique(key@, 123u8, begin as int); lemma_first_index(key@.subrange(begin + 1, key@.len() as int), 125u8); }")
    U.add_fn(g)

    s = S.fn('generate_slot')
    kinds = re.findall(r'State::<(\w+)>::calculate\(', s.text)
    s.sub('R5', r'State::<(\w+)>::calculate\(', lambda m: 'shim_crc16_%s(' % m.group(1).lower())
    for k in set(kinds):
        if k != 'XMODEM':   # any other CRC kind is an unknown function: the postcondition cannot be met
            U.add('pub uninterp spec fn spec_crc16_%s(s: Seq<u8>) -> u16;\n#[verifier::external_body] fn shim_crc16_%s(s: &[u8]) -> (r: u16) ensures r == spec_crc16_%s(s@) { unimplemented!() }\n' % (k.lower(), k.lower(), k.lower()))
    s.header("pub fn generate_slot(key: &[u8]) -> (r: usize)\n    ensures r == spec_slot(key@), r < 16384")
    U.add_fn(s)

    U.add("pub struct SlotMapData { pub slot_arr: Vec<Option<usize>>, pub addrs: Vec<String> }\n"
          "impl SlotMapData {\n"
          "pub open spec fn wf(&self) -> bool { forall|i: int| 0 <= i < self.slot_arr@.len() ==> ((#[trigger] self.slot_arr@[i]) matches Some(k) ==> k < self.addrs@.len()) }\n")
    if not re.search(r'struct SlotMapData \{\s*slot_arr: Vec<Option<usize>>,\s*addrs: Vec<String>,\s*\}', L.text):
        raise __import__('vlib').Undecided('SlotMapData layout changed')
    get = L.fn('get', within=r'impl SlotMapData\b')
    get.header(GET_HEADER)
    get.replace('closure-spec', '.and_then(|opt| *opt)', '.and_then(|opt: &Option<usize>| -> (o: Option<usize>) ensures o == *opt { *opt })', count=1)
    get.replace('closure-spec', '.map(|s| s.as_str())', '.map(|s: &String| -> (o: &str) ensures o@ == s@ { s.as_str() })', count=1)
    U.add_fn(get)
    # SlotMapData::new: the table maps slot s to address i only if one of addrs[i]'s ranges contains s, and to
    # nothing only if no range of any address contains s
    new = L.fn('new', within=r'impl SlotMapData\b')
    new.r1_logging()
    vlib.d8_continue(new)
    new.replace('R2', 'for _ in 0..SLOT_NUM {', 'for _i in 0..SLOT_NUM {', count=1)
    new.replace('D9b', 'for (addr, slots) in slot_map.into_iter() {',
                'let verif_entries = shim_into_vec(slot_map);\n        for (addr, slots) in verif_entries.into_iter() {', count=1)
    new.apply_overlay('slot_map_new')
    U.add_fn(new)
    U.add("}\n} // verus!\nfn main() {}\n")
    U.trust('crc16::State::<XMODEM>::calculate == fold of the bitwise CRC-16/XMODEM step (per-byte commuting square proved by Kani c09_crc_square for every register value and byte; the fold over the crate\'s three-line loop is assumed)',
            '[u8]::iter().position / [u8]::get(range) by their std documentation (shim_position_u8, shim_get_from, shim_get_range)',
            's@.len() <= usize::MAX for slices',
            'HashMap::into_iter yields every entry exactly once in unspecified order (shim_into_vec, D9b); obeys_key_model::<String>()')

MUST_FAIL = '''
proof fn must_fail_c09_tag_spec_not_identity() ensures forall|k: Seq<u8>| spec_hash_tag(k) == k {
    let k = seq![123u8, 97u8, 125u8];
    assert(spec_hash_tag(k) == k);
}
proof fn must_fail_c09_shims_consistent(s: Seq<u8>) requires s.len() > 0 ensures false {
    lemma_first_index(s, 123u8);
}
'''
