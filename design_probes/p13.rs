use vstd::prelude::*;
use std::collections::{HashSet,HashMap};
verus! {

pub struct Range(pub usize, pub usize);
pub struct RangeList(pub Vec<Range>);
pub struct MigrationMeta { pub epoch: u64, pub src_proxy_address: String, pub src_node_address: String, pub dst_proxy_address: String, pub dst_node_address: String }
pub enum SlotRangeTag { Migrating(MigrationMeta), Importing(MigrationMeta), None }
pub struct SlotRange { pub range_list: RangeList, pub tag: SlotRangeTag }

#[derive(Clone, Copy, PartialEq, Eq)]
pub enum ChunkRolePosition { Normal, FirstChunkMaster, SecondChunkMaster }

pub struct MigrationMetaStore { pub epoch: u64, pub src_chunk_index: usize, pub src_chunk_part: usize, pub dst_chunk_index: usize, pub dst_chunk_part: usize }
pub struct MigrationSlotRangeStore { pub range_list: RangeList, pub is_migrating: bool, pub meta: MigrationMetaStore }

pub struct ChunkStore {
    pub role_position: ChunkRolePosition,
    pub stable_slots: [Option<SlotRange>; 2],
    pub migrating_slots: [Vec<MigrationSlotRangeStore>; 2],
    pub proxy_addresses: [String; 2],
    pub hosts: [String; 2],
    pub node_addresses: [String; 4],
}
pub struct ClusterStore { pub epoch: u64, pub chunks: Vec<ChunkStore> }

pub enum MetaStoreError { ClusterNotFound }


pub assume_specification<'a, T, F: FnOnce() -> T>[ Option::<T>::get_or_insert_with ](o: &'a mut Option<T>, f: F) -> (r: &'a mut T)
    ensures
        match *old(o) { Some(v) => *r == v, None => f.ensures((), *r) },
        *final(o) == Some(*final(r)),
;
impl RangeList {
    #[verifier::external_body] pub fn new(ranges: Vec<Range>) -> Self { unimplemented!() }
    #[verifier::external_body] pub fn merge_another(&mut self, range_list: &mut RangeList) { unimplemented!() }
    #[verifier::external_body] pub fn clone(&self) -> Self { unimplemented!() }
}
impl SlotRange { pub fn get_mut_range_list(&mut self) -> &mut RangeList { &mut self.range_list } }
impl MigrationSlotRangeStore { #[verifier::external_body] pub fn clone(&self) -> Self { unimplemented!() } }
#[verifier::external_body] fn clone_stable(s: &[Option<SlotRange>; 2]) -> [Option<SlotRange>; 2] { unimplemented!() }
#[verifier::external_body] fn clone_s2(s: &[String; 2]) -> [String; 2] { unimplemented!() }
#[verifier::external_body] fn clone_s4(s: &[String; 4]) -> [String; 4] { unimplemented!() }
impl ClusterStore {
    #[verifier::external_body] pub fn clone(&self) -> Self { unimplemented!() }
    pub fn limit_migration(&self, migration_limit: u64) -> ClusterStore {
        if migration_limit == 0 {
            return self.clone();
        }

        let mut chunks = vec![];
        for chunk in self.chunks.iter() {
            let new_chunk = ChunkStore {
                role_position: chunk.role_position,
                stable_slots: clone_stable(&chunk.stable_slots),
                migrating_slots: [vec![], vec![]],
                proxy_addresses: clone_s2(&chunk.proxy_addresses),
                hosts: clone_s2(&chunk.hosts),
                node_addresses: clone_s4(&chunk.node_addresses),
            };
            chunks.push(new_chunk);
        }
        let mut migration_num = 0;

        const MAX_MIGRATING_OUT: usize = 1;
        let mut migrating_out: HashMap<(usize, usize), usize> = HashMap::new();

        for chunk in self.chunks.iter() {
            for migrating_slots in chunk.migrating_slots.iter() {
                for slot_range_store in migrating_slots.iter() {
                    if !(!slot_range_store.is_migrating) {

                    let mut range_list = slot_range_store.range_list.clone();
                    let meta = &slot_range_store.meta;
                    let migrating_out_count = migrating_out
                        .entry((meta.src_chunk_index, meta.src_chunk_part))
                        .or_insert(0);

                    if migration_num >= migration_limit || *migrating_out_count >= MAX_MIGRATING_OUT
                    {
                        let stable_slots = chunks
                            .get_mut(meta.src_chunk_index)
                            .and_then(|chunk| chunk.stable_slots.get_mut(meta.src_chunk_part))
                            .expect("limit_migration")
                            .get_or_insert_with(|| SlotRange {
                                range_list: RangeList::new(vec![]),
                                tag: SlotRangeTag::None,
                            });
                        stable_slots
                            .get_mut_range_list()
                            .merge_another(&mut range_list);
                    } else {
                        chunks
                            .get_mut(meta.src_chunk_index)
                            .and_then(|chunk| chunk.migrating_slots.get_mut(meta.src_chunk_part))
                            .expect("limit_migration")
                            .push(slot_range_store.clone());

                        let mut importing_slot_range_store = slot_range_store.clone();
                        importing_slot_range_store.is_migrating = false;
                        chunks
                            .get_mut(meta.dst_chunk_index)
                            .and_then(|chunk| chunk.migrating_slots.get_mut(meta.dst_chunk_part))
                            .expect("limit_migration")
                            .push(importing_slot_range_store);

                        migration_num += 1;
                        *migrating_out_count += 1;
                    }
                    }
                }
            }
        }

        ClusterStore {
            epoch: self.epoch,
            chunks,
        }
    }
}

} // verus!
fn main() {}
