import sys,re; sys.path.insert(0,'/tmp/km/x')
from cut import *
w1=open('/tmp/km/x/w1.rs').read()
i=w1.index("// ---- specs ----")
head=w1[:i]
store=open('/repo/src/broker/store.rs').read()
rec=fn(store,'recover_epoch'); fb=fn(store,'force_bump_all_epoch'); rs=fn(store,'restore')
def d9(f):
    return f.replace('''        for cluster in self.clusters.values_mut() {
            cluster.epoch = new_epoch;
        }''','''        let verif_keys = shim_keys(&self.clusters);
        for verif_k in it: verif_keys.iter()
            invariant
                vstd::std_specs::hash::obeys_key_model::<ClusterName>(),
                self.global_epoch == new_epoch, self.version == old(self).version,
                self.all_proxies == old(self).all_proxies, self.failed_proxies == old(self).failed_proxies, self.failures == old(self).failures,
                self.clusters@.dom() == old(self).clusters@.dom(),
                forall|kk: ClusterName| self.clusters@.contains_key(kk) <==> verif_keys@.contains(kk),
                forall|i: int| 0 <= i < it.index@ ==> (#[trigger] self.clusters@[verif_keys@[i]]).epoch == new_epoch,
                forall|kk: ClusterName| self.clusters@.contains_key(kk) ==> same_but_epoch(#[trigger] self.clusters@[kk], old(self).clusters@[kk]),
        {
            proof { axiom_key_of_same::<ClusterName>(verif_k); assert(*verif_k == verif_keys@[it.index@]); assert(verif_keys@.contains(*verif_k)); }
            let cluster = self.clusters.get_mut(verif_k).unwrap();
            cluster.epoch = new_epoch;
        }
        proof {
            assert forall|kk: ClusterName| self.clusters@.contains_key(kk) implies (#[trigger] self.clusters@[kk]).epoch == new_epoch by {
                assert(verif_keys@.contains(kk));
                let i = choose|i: int| 0 <= i < verif_keys@.len() && verif_keys@[i] == kk;
                assert(self.clusters@[verif_keys@[i]].epoch == new_epoch);
            }
        }''')
rec=d9(rec); fb=d9(fb)
spec='''
fn max(a: u64, b: u64) -> (r: u64) ensures r == (if a >= b { a } else { b }) { if a >= b { a } else { b } }
#[verifier::external_body]
fn shim_keys<V>(m: &HashMap<ClusterName, V>) -> (r: Vec<ClusterName>)
    ensures forall|k: ClusterName| m@.contains_key(k) <==> r@.contains(k), r@.no_duplicates()
{ unimplemented!() }
pub open spec fn same_but_epoch(a: ClusterStore, b: ClusterStore) -> bool { a.chunks == b.chunks && a.config == b.config && a.name == b.name }
pub open spec fn all_epochs(s: MetaStore, e: u64) -> bool { forall|k: ClusterName| s.clusters@.contains_key(k) ==> (#[trigger] s.clusters@[k]).epoch == e }
pub open spec fn rest_same(o: MetaStore, n: MetaStore) -> bool {
    n.version == o.version && n.all_proxies == o.all_proxies && n.failed_proxies == o.failed_proxies && n.failures == o.failures
    && n.clusters@.dom() == o.clusters@.dom() && forall|k: ClusterName| n.clusters@.contains_key(k) ==> same_but_epoch(#[trigger] n.clusters@[k], o.clusters@[k])
}
impl MetaStore {
'''
rec=rec.replace("pub fn recover_epoch(&mut self, exsting_largest_epoch: u64) {","""pub fn recover_epoch(&mut self, exsting_largest_epoch: u64)
        requires old(self).global_epoch < u64::MAX, vstd::std_specs::hash::obeys_key_model::<ClusterName>(),
        ensures final(self).global_epoch > old(self).global_epoch, final(self).global_epoch >= exsting_largest_epoch,
            final(self).global_epoch == (if exsting_largest_epoch >= old(self).global_epoch + 1 { exsting_largest_epoch } else { (old(self).global_epoch + 1) as u64 }),
            all_epochs(*final(self), final(self).global_epoch), rest_same(*old(self), *final(self)),
    {""")
fb=fb.replace("pub fn force_bump_all_epoch(&mut self, new_epoch: u64) -> Result<(), MetaStoreError> {","""pub fn force_bump_all_epoch(&mut self, new_epoch: u64) -> (r: Result<(), MetaStoreError>)
        requires vstd::std_specs::hash::obeys_key_model::<ClusterName>(),
        ensures r is Ok <==> new_epoch > old(self).global_epoch,
            r is Ok ==> final(self).global_epoch == new_epoch && all_epochs(*final(self), new_epoch) && rest_same(*old(self), *final(self)),
            r is Err ==> *final(self) == *old(self),
    {""")
rs=rs.replace("pub fn restore(&mut self, other: MetaStore) -> Result<(), MetaStoreError> {","""pub fn restore(&mut self, other: MetaStore) -> (r: Result<(), MetaStoreError>)
        ensures r is Ok <==> (old(self).version@ == other.version@ && old(self).global_epoch <= other.global_epoch),
            r is Ok ==> *final(self) == other, r is Err ==> *final(self) == *old(self),
    {""")
# the call site lemma: MemoryStorage::recover_epoch passes m + 1
lemma='''
}
// call site src/broker/storage.rs: `self.store.write().recover_epoch(exsting_largest_epoch + 1)`
pub proof fn lemma_recovered_epoch_exceeds_every_proxy(old_global: u64, new_global: u64, m: u64)
    requires m < u64::MAX, old_global < u64::MAX,
        new_global == (if m + 1 >= old_global + 1 { (m + 1) as u64 } else { (old_global + 1) as u64 }),
    ensures new_global > m, new_global > old_global
{}
'''
out=head+spec+rec+"\n"+fb+"\n"+rs+lemma+"} // verus!\nfn main() {}\n"
open('/tmp/km/x/c13.rs','w').write(out)
