# Shared head of the broker units: imports, the trusted std specs of DESIGN 3.7, opaque external types,
# and the broker data types copied from /repo on every run (fields verbatim; derives / serde attributes
# / doc comments dropped).
import re
import vlib

HEAD = '''#![feature(allocator_api)]
use vstd::prelude::*;
use std::collections::{HashMap, HashSet};
use std::hash::Hash;
use core::borrow::Borrow;
use core::alloc::Allocator;
verus! {
global size_of usize == 8;
broadcast use vstd::std_specs::hash::group_hash_axioms;

// ---- trusted (DESIGN 3.7) ----
// T-iter: when the for-loop wrapper over slice::IterMut is dropped, every element not yet yielded is unchanged
pub broadcast axiom fn axiom_iter_mut_has_resolved<'a, T>(it: vstd::std_specs::iter::VerusForLoopWrapper<core::slice::IterMut<'a, T>>)
    ensures #[trigger] has_resolved(it) ==> forall|i: int| it.index@ <= i < it.seq().len() ==> has_resolved(#[trigger] it.seq()[i]);
pub uninterp spec fn key_of<K, Q: ?Sized>(k: &Q) -> K;
#[verifier::external_body] pub proof fn axiom_key_of_same<K>(k: &K) ensures key_of::<K, K>(k) == *k {}
pub assume_specification<'a, K: Eq + Hash, V, S: core::hash::BuildHasher, A: Allocator, Q: ?Sized + Hash + Eq>
    [ HashMap::<K, V, S, A>::get_mut::<Q> ] (m: &'a mut HashMap<K, V, S, A>, k: &Q) -> (r: Option<&'a mut V>)
    where K: Borrow<Q>
    ensures
        vstd::std_specs::hash::obeys_key_model::<K>() && vstd::std_specs::hash::builds_valid_hashers::<S>() ==> match r {
            Some(v) => old(m)@.contains_key(key_of::<K, Q>(k)) && *v == old(m)@[key_of::<K, Q>(k)]
                && final(m)@ == old(m)@.insert(key_of::<K, Q>(k), *final(v))
                && (*final(v) == *v ==> final(m)@ == old(m)@),
            None => !old(m)@.contains_key(key_of::<K, Q>(k)) && final(m)@ == old(m)@,
        };

'''

OPAQUE = '''// ---- opaque external types (arrayvec::ArrayString, ClusterConfig, chrono) ----
#[verifier::external_body] pub struct ClusterName { x: u8 }
#[verifier::external_body] pub struct ClusterConfig { x: u8 }
impl core::cmp::PartialEq for ClusterName { #[verifier::external_body] fn eq(&self, o: &Self) -> bool { unimplemented!() } }
impl core::cmp::Eq for ClusterName {}
impl core::hash::Hash for ClusterName { #[verifier::external_body] fn hash<H: core::hash::Hasher>(&self, state: &mut H) { unimplemented!() } }
'''

CLUSTER_TYPES = [('struct', 'MigrationMeta'), ('enum', 'SlotRangeTag'), ('struct', 'Range'), ('struct', 'RangeList'), ('struct', 'SlotRange')]
STORE_TYPES = [('const', 'NODES_PER_PROXY'), ('const', 'CHUNK_PARTS'), ('const', 'CHUNK_HALF_NODE_NUM'), ('const', 'CHUNK_NODE_NUM'),
               ('struct', 'ProxyResource'), ('enum', 'ChunkRolePosition'), ('struct', 'MigrationSlotRangeStore'), ('struct', 'MigrationMetaStore'),
               ('struct', 'ChunkStore'), ('struct', 'ClusterStore'), ('struct', 'MigrationSlots'), ('struct', 'MetaStore'), ('enum', 'MetaStoreError')]


def strip(t):
    t = re.sub(r'^\s*///.*\n', '', t, flags=re.M)
    t = re.sub(r'#\[derive\([^\]]*\)\]\n', '', t)
    t = re.sub(r'[ \t]*#\[serde[^\]]*\]\n', '', t)
    t = re.sub(r'[ \t]*#\[[a-z_]+(?:\([^\]]*\))?\]\n', '', t)
    return t


def types(U, cluster_types=CLUSTER_TYPES, store_types=STORE_TYPES, copy_role=True):
    C = U.src('src/common/cluster.rs')
    S = U.src('src/broker/store.rs')
    out = []
    for k, n in cluster_types:
        out.append(strip(C.item(k, n)))
    for k, n in store_types:
        out.append(strip(S.item(k, n)))
    T = '\n'.join(out) + '\n'
    if copy_role:
        T = T.replace('pub enum ChunkRolePosition', '#[derive(Clone, Copy, PartialEq, Eq, Structural)]\npub enum ChunkRolePosition')
    T = re.sub(r'\n\s*SyncError\(MetaSyncError\),', '\n', T)     # variant carrying an out-of-reach type; never constructed by the functions under contract
    return T


def head(U):
    U.add(HEAD)
    U.add(OPAQUE)
    U.trust('T-iter axiom (axiom_iter_mut_has_resolved): elements not yet yielded by a dropped slice::IterMut for-loop are unchanged',
            'HashMap::get_mut by assume_specification through key_of (std documentation)',
            'ClusterName / ClusterConfig opaque; derived Hash/Eq of key types obey the key model (precondition obeys_key_model carried explicitly)')
