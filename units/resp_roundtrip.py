# C15 (first sentence, spec level): decoding the encoding of a value yields the same value and consumes exactly its bytes -
# a lemma over the two spec functions the real code is proved against: enc (unit resp_encode: the real encoder writes enc(v))
# and spec_resp (unit resp_func: the real decoder returns spec_resp(buf)).  Hypothesis, not proved: btoi inverts the decimal
# rendering of lengths (btoi_inverts_dec; btoi is uninterpreted in the grammar).
import vlib
def build(U):
    D = U.src('src/protocol/decoder.rs')
    U.prelude('resp_spec.rs')
    U.add(vlib.const_decl(D, 'LF'))
    U.add(vlib.const_decl(D, 'CR'))
    U.prelude('resp_lemmas.rs')
    U.prelude('resp_enc_pure.rs')
    U.prelude('resp_roundtrip.rs')
    U.add("} // verus!\nfn main() {}\n")
    U.trust('hypothesis of the round-trip lemma: btoi::<i64>(dec(n)) == n for 0 <= n <= i64::MAX and btoi("-1") == -1 (btoi_inverts_dec)')

MUST_FAIL = '''
proof fn must_fail_roundtrip_needs_no_lf(p: Seq<u8>, rest: Seq<u8>)
    requires btoi_inverts_dec(), p.len() > 0
    ensures spec_resp(enc(V::Simple(p)) + rest) matches SRes::Ok(r, c) && c == enc(V::Simple(p)).len()
{ }
'''
