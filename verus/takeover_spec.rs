
// ---- specs ----
pub open spec fn is_hit(c: ChunkStore, failed: Seq<char>) -> bool { c.proxy_addresses[0]@ == failed || c.proxy_addresses[1]@ == failed }
pub open spec fn hit_half(c: ChunkStore, failed: Seq<char>) -> int { if c.proxy_addresses[0]@ == failed { 0 } else { 1 } }
pub open spec fn flipped(h: int) -> ChunkRolePosition { if h == 0 { ChunkRolePosition::SecondChunkMaster } else { ChunkRolePosition::FirstChunkMaster } }
pub open spec fn touches(m: MigrationMetaStore, p: Set<(usize, usize)>) -> bool { p.contains((m.src_chunk_index, m.src_chunk_part)) || p.contains((m.dst_chunk_index, m.dst_chunk_part)) }
pub open spec fn positions_of(a: Seq<MigrationSlotRangeStore>) -> Set<(usize, usize)>
    decreases a.len()
{
    if a.len() == 0 { Set::<(usize, usize)>::empty() }
    else { positions_of(a.drop_last()).insert((a.last().meta.src_chunk_index, a.last().meta.src_chunk_part)).insert((a.last().meta.dst_chunk_index, a.last().meta.dst_chunk_part)) }
}
// entry b is entry a with epoch := e if stamped, unchanged otherwise
pub open spec fn entry_post(a: MigrationSlotRangeStore, b: MigrationSlotRangeStore, stamped: bool, e: u64) -> bool {
    b.range_list == a.range_list && b.is_migrating == a.is_migrating
    && b.meta.src_chunk_index == a.meta.src_chunk_index && b.meta.src_chunk_part == a.meta.src_chunk_part
    && b.meta.dst_chunk_index == a.meta.dst_chunk_index && b.meta.dst_chunk_part == a.meta.dst_chunk_part
    && b.meta.epoch == (if stamped { e } else { a.meta.epoch })
}
pub open spec fn entries_post(a: Seq<MigrationSlotRangeStore>, b: Seq<MigrationSlotRangeStore>, p: Set<(usize, usize)>, all: bool, e: u64) -> bool {
    a.len() == b.len() && forall|i: int| 0 <= i < a.len() ==> entry_post(#[trigger] a[i], b[i], all || touches(a[i].meta, p), e)
}
pub open spec fn chunk_static_eq(a: ChunkStore, b: ChunkStore) -> bool {
    a.stable_slots == b.stable_slots && a.proxy_addresses == b.proxy_addresses && a.hosts == b.hosts && a.node_addresses == b.node_addresses
}
// first phase, on the hit chunk
pub open spec fn both_moved(a: ChunkStore, h: int) -> bool { a.role_position == flipped(1 - h) }
pub open spec fn hit_peers(a: ChunkStore, h: int) -> Set<(usize, usize)> {
    if both_moved(a, h) { positions_of(a.migrating_slots[h]@ + a.migrating_slots[1 - h]@) } else { positions_of(a.migrating_slots[h]@) }
}
pub open spec fn hit_post(a: ChunkStore, b: ChunkStore, failed: Seq<char>, e: u64, early: bool, peers: Set<(usize, usize)>) -> bool {
    let h = hit_half(a, failed);
    if a.role_position == flipped(h) { early && b == a && peers == Set::<(usize, usize)>::empty() }
    else {
        !early && chunk_static_eq(a, b) && b.role_position == flipped(h)
        && entries_post(a.migrating_slots[1 - h]@, b.migrating_slots[1 - h]@, Set::<(usize, usize)>::empty(), both_moved(a, h), e)
        && entries_post(a.migrating_slots[h]@, b.migrating_slots[h]@, Set::<(usize, usize)>::empty(), true, e)
        && peers == hit_peers(a, h)
    }
}
// second phase
pub open spec fn chunk_post2(a: ChunkStore, b: ChunkStore, p: Set<(usize, usize)>, e: u64) -> bool {
    chunk_static_eq(a, b) && a.role_position == b.role_position
    && entries_post(a.migrating_slots[0]@, b.migrating_slots[0]@, p, false, e)
    && entries_post(a.migrating_slots[1]@, b.migrating_slots[1]@, p, false, e)
}

pub open spec fn is_first_hit(oc: ClusterStore, j: int, failed: Seq<char>) -> bool {
    0 <= j < oc.chunks@.len() && is_hit(oc.chunks@[j], failed) && forall|i: int| 0 <= i < j ==> !is_hit(#[trigger] oc.chunks@[i], failed)
}
pub open spec fn chunk_final(a: ChunkStore, b: ChunkStore, is_j: bool, h: int, p: Set<(usize, usize)>, e: u64) -> bool {
    chunk_static_eq(a, b) && b.role_position == (if is_j { flipped(h) } else { a.role_position })
    && entries_post(a.migrating_slots[0]@, b.migrating_slots[0]@, p, is_j && (h == 0 || both_moved(a, h)), e)
    && entries_post(a.migrating_slots[1]@, b.migrating_slots[1]@, p, is_j && (h == 1 || both_moved(a, h)), e)
}
pub open spec fn takeover_post(oc: ClusterStore, nc: ClusterStore, failed: Seq<char>, e: u64) -> bool {
    &&& nc.chunks@.len() == oc.chunks@.len() && nc.name == oc.name && nc.config == oc.config
    &&& forall|j: int| #![trigger oc.chunks@[j]] is_first_hit(oc, j, failed) && oc.chunks@[j].role_position == flipped(hit_half(oc.chunks@[j], failed)) ==> nc.epoch == oc.epoch && nc.chunks@ =~= oc.chunks@
    &&& forall|j: int| #![trigger oc.chunks@[j]] is_first_hit(oc, j, failed) && oc.chunks@[j].role_position != flipped(hit_half(oc.chunks@[j], failed)) ==> {
            let h = hit_half(oc.chunks@[j], failed);
            nc.epoch == e && forall|c: int| 0 <= c < oc.chunks@.len() ==> chunk_final(#[trigger] oc.chunks@[c], nc.chunks@[c], c == j, h, hit_peers(oc.chunks@[j], h), e)
        }
    &&& (forall|i: int| 0 <= i < oc.chunks@.len() ==> !is_hit(#[trigger] oc.chunks@[i], failed)) ==>
            nc.epoch == e && forall|c: int| 0 <= c < oc.chunks@.len() ==> chunk_final(#[trigger] oc.chunks@[c], nc.chunks@[c], false, 0, Set::<(usize, usize)>::empty(), e)
}

impl MetaStore {
//@@BUMP@@
}
