import re
s=open('/tmp/km/x/rp.rs').read()
def must(old,new,count=1):
    global s
    assert s.count(old)>=1, old[:70]
    s=s.replace(old,new,count)
# trusted: &String deref'd to &str designates the same key
# hints
must("        self.takeover_master(&cluster_name, failed_proxy_address.clone())?;","        let ghost g0 = self.store.global_epoch;\n        let ghost oc = self.store.clusters@[cluster_name];\n        self.takeover_master(&cluster_name, failed_proxy_address.clone())?;\n        let ghost mid = self.store.clusters@[cluster_name];")
must("            let cluster = self\n                .store\n                .clusters\n                .get_mut(&cluster_name)","            proof { axiom_key_of_same::<ClusterName>(&cluster_name); }\n            let ghost map0 = self.store.clusters@;\n            let cluster = self\n                .store\n                .clusters\n                .get_mut(&cluster_name)")
must("            for chunk in cluster.chunks.iter_mut() {\n                if chunk.proxy_addresses[0] == failed_proxy_address {\n                    chunk.hosts[0]","""            let ghost mc = *cluster;
            let ghost mut hit_idx: int = -1;
            broadcast use axiom_iter_mut_has_resolved;
            for chunk in it: cluster.chunks.iter_mut()
                invariant_except_break
                    hit_idx == -1,
                    forall|i: int| 0 <= i < it.index@ ==> !is_hit(mc.chunks@[i], failed_proxy_address@),
                invariant
                    it.seq().len() == mc.chunks@.len(),
                    forall|i: int| 0 <= i < it.seq().len() ==> *(#[trigger] it.seq()[i]) == mc.chunks@[i],
                    forall|i: int| 0 <= i < it.index@ - 1 ==> !is_hit(mc.chunks@[i], failed_proxy_address@),
                    forall|i: int| 0 <= i < it.index@ && !is_hit(mc.chunks@[i], failed_proxy_address@) ==> *final(#[trigger] it.seq()[i]) == mc.chunks@[i],
                    forall|i: int| 0 <= i < it.index@ && is_hit(mc.chunks@[i], failed_proxy_address@) ==> slot_replaced(mc.chunks@[i], *final(#[trigger] it.seq()[i]), hit_half(mc.chunks@[i], failed_proxy_address@), proxy_resource),
                ensures
                    hit_idx == -1 ==> it.index@ == it.seq().len() && forall|i: int| 0 <= i < it.seq().len() ==> !is_hit(#[trigger] mc.chunks@[i], failed_proxy_address@),
                    hit_idx != -1 ==> hit_idx == it.index@ - 1 && 0 <= hit_idx < it.seq().len() && is_hit(mc.chunks@[hit_idx], failed_proxy_address@),
            {
                if chunk.proxy_addresses[0] == failed_proxy_address {
                    chunk.hosts[0]""")
s=s.replace("                    chunk.node_addresses[1] = proxy_resource.node_addresses[1].clone();\n                    break;","                    chunk.node_addresses[1] = proxy_resource.node_addresses[1].clone();\n                    proof { hit_idx = it.index@; }\n                    break;")
s=s.replace("                    chunk.node_addresses[3] = proxy_resource.node_addresses[1].clone();\n                    break;","                    chunk.node_addresses[3] = proxy_resource.node_addresses[1].clone();\n                    proof { hit_idx = it.index@; }\n                    break;")
must("            cluster.set_epoch(new_epoch);\n","""            cluster.set_epoch(new_epoch);
            proof {
                let fa = failed_proxy_address@;
                assert(cluster.chunks@.len() == mc.chunks@.len());
                if hit_idx == -1 {
                    assert forall|c: int| 0 <= c < mc.chunks@.len() implies cluster.chunks@[c] == #[trigger] mc.chunks@[c] by {}
                } else {
                    assert(is_first_hit(mc, hit_idx, fa));
                    assert forall|j: int| is_first_hit(mc, j, fa) implies j == hit_idx by {}
                    assert forall|c: int| 0 <= c < mc.chunks@.len() && c != hit_idx implies cluster.chunks@[c] == #[trigger] mc.chunks@[c] by {}
                }
                assert(replaced_post(mc, *cluster, fa, proxy_resource, new_epoch));
            }
""")
must("        let proxy = MetaStoreQuery::new(self.store)","        proof { assert(self.store.all_proxies@.contains_key(proxy_resource.proxy_address)); }\n        let proxy = MetaStoreQuery::new(self.store)")
open('/tmp/km/x/rp.rs','w').write(s)

s=open('/tmp/km/x/rp.rs').read()
must("        Ok(Some(proxy))\n","""        proof {
            let cn = cluster_name;
            assert(old(self).store.all_proxies@.contains_key(failed_proxy_address));
            assert(old(self).store.all_proxies@[failed_proxy_address].cluster == Some(cn));
            assert(self.store.failed_proxies@.contains(failed_proxy_address));
            assert(self.store.global_epoch == old(self).store.global_epoch + 2);
            assert(old(self).store.clusters@.contains_key(cn));
            assert(self.store.clusters@.contains_key(cn));
            assert(self.store.clusters@[cn].epoch == self.store.global_epoch);
            assert(takeover_post(old(self).store.clusters@[cn], mid, failed_proxy_address@, (old(self).store.global_epoch + 1) as u64));
            assert(replaced_post(mid, self.store.clusters@[cn], failed_proxy_address@, proxy_resource, self.store.global_epoch));
        }
        Ok(Some(proxy))
""")
open('/tmp/km/x/rp.rs','w').write(s)
