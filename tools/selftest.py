#!/usr/bin/env python3
# Self-test of the checks against deliberate edits of /repo (scratch copies only; /repo is never touched):
#   python3 tools/selftest.py [name-substring ...]
# Each case: (name, property, file, old, new, expect) with expect in {'violation', 'ok', 'not-violation'}.
import os, shutil, subprocess, sys, tempfile
HERE = os.path.dirname(os.path.abspath(__file__)); VERIF = os.path.dirname(HERE)
sys.path.insert(0, VERIF)
from selftest_cases import CASES

def run(case, fast=True):
    name, pid, file, old, new, expect = case
    d = tempfile.mkdtemp(prefix='undermoon-selftest.', dir=os.environ.get('VERIF_SCRATCH', '/var/tmp'))
    try:
        subprocess.run(['rsync', '-a', '--exclude', 'target', '--exclude', '.git', os.environ.get('VERIF_REPO', '/repo').rstrip('/') + '/', d + '/repo/'], check=True)
        p = os.path.join(d, 'repo', file)
        s = open(p).read()
        if s.count(old) < 1:
            return name, pid, expect, 'PATTERN-NOT-FOUND', ''
        open(p, 'w').write(s.replace(old, new, 1))
        env = dict(os.environ, VERIF_REPO=os.path.join(d, 'repo'), VERIF_OUT=os.path.join(d, 'out'), VERIF_SELFTEST_CHILD='1')
        if fast:
            env['VERIF_SKIP_KANI'] = '1'
        r = subprocess.run([os.path.join(VERIF, 'check'), pid, 'quick'], capture_output=True, text=True, env=env, timeout=3600)
        got = {0: 'ok', 1: 'violation', 2: 'undecided'}.get(r.returncode, 'rc%d' % r.returncode)
        tail = ' | '.join(l for l in r.stdout.splitlines() if 'failed obligation' in l or 'UNDECIDED' in l)[:300]
        return name, pid, expect, got, tail
    finally:
        shutil.rmtree(d, ignore_errors=True)

if __name__ == '__main__':
    import concurrent.futures
    sel = [c for c in CASES if not sys.argv[1:] or any(a in c[0] or a == c[1] for a in sys.argv[1:])]
    bad = 0
    with concurrent.futures.ThreadPoolExecutor(max_workers=6) as ex:
        for name, pid, expect, got, tail in ex.map(run, sel):
            ok = (got == expect) or (expect == 'not-violation' and got != 'violation')
            bad += 0 if ok else 1
            print('%-4s %-46s expect=%-13s got=%-10s %s %s' % (pid, name, expect, got, '' if ok else '<<<<<< MISMATCH', tail))
    print('%d cases, %d mismatches' % (len(sel), bad))
    sys.exit(1 if bad else 0)
