#![feature(allocator_api)]
use vstd::prelude::*;
use std::collections::{HashMap, HashSet};
use std::hash::Hash;
use core::borrow::Borrow;
use core::alloc::Allocator;
verus! {
global size_of usize == 8;
broadcast use vstd::std_specs::hash::group_hash_axioms;

// ---- trusted (3.7) ----
pub broadcast axiom fn axiom_iter_mut_has_resolved<'a, T>(it: vstd::std_specs::iter::VerusForLoopWrapper<core::slice::IterMut<'a, T>>)
    ensures #[trigger] has_resolved(it) ==> forall|i: int| it.index@ <= i < it.seq().len() ==> has_resolved(#[trigger] it.seq()[i]);
pub uninterp spec fn key_of<K, Q: ?Sized>(k: &Q) -> K;
#[verifier::external_body] pub proof fn axiom_key_of_same<K>(k: &K) ensures key_of::<K, K>(k) == *k {}
pub assume_specification<'a, K: Eq + Hash, V, S: core::hash::BuildHasher, A: Allocator, Q: ?Sized + Hash + Eq>
    [ HashMap::<K, V, S, A>::get_mut::<Q> ] (m: &'a mut HashMap<K, V, S, A>, k: &Q) -> (r: Option<&'a mut V>)
    where K: Borrow<Q>
    ensures
        vstd::std_specs::hash::obeys_key_model::<K>() && vstd::std_specs::hash::builds_valid_hashers::<S>() ==> match r {
            Some(v) => old(m)@.contains_key(key_of::<K, Q>(k)) && *v == old(m)@[key_of::<K, Q>(k)]
                && final(m)@ == old(m)@.insert(key_of::<K, Q>(k), *final(v)),
            None => !old(m)@.contains_key(key_of::<K, Q>(k)) && final(m)@ == old(m)@,
        };

// opaque external types
pub struct Utc;
#[verifier::external_body] pub struct DateTimeUtc { x: u8 }
impl Utc { #[verifier::external_body] pub fn now() -> DateTimeUtc { unimplemented!() } }
impl DateTimeUtc { #[verifier::external_body] pub fn timestamp(&self) -> i64 { unimplemented!() } }
impl ClusterName { #[verifier::external_body] pub fn to_string(&self) -> String { unimplemented!() } }

#[verifier::external_body] pub struct ClusterName { x: u8 }
#[verifier::external_body] pub struct ClusterConfig { x: u8 }
pub struct InvalidClusterName;
impl Clone for ClusterName { #[verifier::external_body] fn clone(&self) -> Self { unimplemented!() } }
impl<'b> core::convert::TryFrom<&'b str> for ClusterName {
    type Error = InvalidClusterName;
    #[verifier::external_body] fn try_from(s: &'b str) -> Result<Self, InvalidClusterName> { unimplemented!() }
}
impl ClusterConfig {
    #[verifier::external_body] pub fn clone(&self) -> Self { unimplemented!() }
    #[verifier::external_body] pub fn set_field(&mut self, k: &String, v: &String) -> Result<(), String> { unimplemented!() }
}
impl core::cmp::PartialEq for ClusterName { #[verifier::external_body] fn eq(&self, o: &Self) -> bool { unimplemented!() } }
impl core::cmp::Eq for ClusterName {}
impl core::hash::Hash for ClusterName { #[verifier::external_body] fn hash<H: core::hash::Hasher>(&self, state: &mut H) { unimplemented!() } }

pub struct MigrationMeta {
    pub epoch: u64, // The epoch migration starts
    pub src_proxy_address: String,
    pub src_node_address: String,
    pub dst_proxy_address: String,
    pub dst_node_address: String,
}
pub enum SlotRangeTag {
    Migrating(MigrationMeta),
    Importing(MigrationMeta),
    None,
}
pub struct Range(pub usize, pub usize);
pub struct RangeList(Vec<Range>);
pub struct SlotRange {
    pub range_list: RangeList,
    pub tag: SlotRangeTag,
}
pub struct MigrationTaskMeta {
    pub cluster_name: ClusterName,
    pub slot_range: SlotRange,
}
pub const NODES_PER_PROXY: usize = 2;
pub const CHUNK_PARTS: usize = 2;
pub const CHUNK_HALF_NODE_NUM: usize = 2;
pub const CHUNK_NODE_NUM: usize = 4;
pub struct ProxyResource {
    pub proxy_address: String,
    pub node_addresses: [String; NODES_PER_PROXY],
    pub host: String,
    // `index` is only used as the index in StatefulSet of Kubernetes
    // when `enable_ordered_proxy` is true.
    pub index: usize,
    pub cluster: Option<ClusterName>,
}
#[derive(Clone, Copy, PartialEq, Eq, Structural)]
pub enum ChunkRolePosition {
    Normal,
    FirstChunkMaster,
    SecondChunkMaster,
}
pub struct MigrationSlotRangeStore {
    pub range_list: RangeList,
    pub is_migrating: bool, // migrating or importing
    pub meta: MigrationMetaStore,
}
pub struct MigrationMetaStore {
    pub epoch: u64,
    pub src_chunk_index: usize,
    pub src_chunk_part: usize,
    pub dst_chunk_index: usize,
    pub dst_chunk_part: usize,
}
pub struct ChunkStore {
    pub role_position: ChunkRolePosition,
    pub stable_slots: [Option<SlotRange>; CHUNK_PARTS],
    pub migrating_slots: [Vec<MigrationSlotRangeStore>; CHUNK_PARTS],
    pub proxy_addresses: [String; CHUNK_PARTS],
    pub hosts: [String; CHUNK_PARTS],
    pub node_addresses: [String; CHUNK_NODE_NUM],
}
pub struct ClusterStore {
    pub epoch: u64,
    pub name: ClusterName,
    pub chunks: Vec<ChunkStore>,
    pub config: ClusterConfig,
}
pub struct MigrationSlots {
    pub ranges: RangeList,
    pub meta: MigrationMetaStore,
}
pub enum ScaleOp {
    NoOp,
    ScaleOut,
    ScaleDown,
}
pub struct MetaStore {
    pub version: String,
    pub global_epoch: u64,
    pub clusters: HashMap<ClusterName, ClusterStore>,
    // proxy_address => nodes and cluster_name
    pub all_proxies: HashMap<String, ProxyResource>,
    // proxy addresses
    pub failed_proxies: HashSet<String>,
    // failed_proxy_address => reporter_id => time,
    pub failures: HashMap<String, HashMap<String, i64>>,
    // Set it `true` for kubernetes StatefulSet
    // to disable the chunk allocation algorithm
    // and only use ProxyResource.index to allocate chunks.
    pub enable_ordered_proxy: bool,
}
pub enum MetaStoreError {
    InUse,
    NotInUse,
    NoAvailableResource,
    ResourceNotBalance,
    AlreadyExisted,
    ClusterNotFound,
    FreeNodeNotFound,
    FreeNodeFound,
    ProxyNotFound,
    InvalidNodeNum,
    NodeNumAlreadyEnough,
    InvalidClusterName,
    InvalidMigrationTask,
    InvalidProxyAddress,
    MigrationTaskNotFound,
    MigrationRunning,
    InvalidConfig {
        key: String,
        value: String,
        error: String,
    },
    SlotsAlreadyEven,
    
    InvalidMetaVersion,
    SmallEpoch,
    MissingIndex,
    ProxyResourceOutOfOrder,
    OrderedProxyEnabled,
    OneClusterAlreadyExisted,
    ProxyNotSync,
    NodeNumberChanging,
    External,
    Retry,
    EmptyExternalVersion,
    ExternalTimeout,
}



impl Clone for RangeList { #[verifier::external_body] fn clone(&self) -> (r: Self) ensures r == *self { unimplemented!() } }
impl Clone for MigrationMetaStore { #[verifier::external_body] fn clone(&self) -> (r: Self) ensures r == *self { unimplemented!() } }
pub open spec fn valid_meta(m: MigrationMetaStore, n: int) -> bool {
    m.src_chunk_index < n && m.dst_chunk_index < n && m.src_chunk_part < 2 && m.dst_chunk_part < 2
}
pub open spec fn chunk_static_eq(a: ChunkStore, b: ChunkStore) -> bool {
    a.stable_slots == b.stable_slots && a.proxy_addresses == b.proxy_addresses && a.hosts == b.hosts && a.node_addresses == b.node_addresses && a.role_position == b.role_position
}
// entries of half (c,p) after adding the pairs of adds[0..k] in order
pub open spec fn entries_after(base: Seq<MigrationSlotRangeStore>, adds: Seq<MigrationSlots>, k: int, c: int, p: int) -> Seq<MigrationSlotRangeStore>
    decreases k
{
    if k <= 0 { base } else {
        let prev = entries_after(base, adds, k - 1, c, p);
        let m = adds[k - 1];
        let with_src = if m.meta.src_chunk_index == c && m.meta.src_chunk_part == p { prev.push(MigrationSlotRangeStore { range_list: m.ranges, is_migrating: true, meta: m.meta }) } else { prev };
        if m.meta.dst_chunk_index == c && m.meta.dst_chunk_part == p { with_src.push(MigrationSlotRangeStore { range_list: m.ranges, is_migrating: false, meta: m.meta }) } else { with_src }
    }
}
pub open spec fn assigned(o: ClusterStore, n: ClusterStore, adds: Seq<MigrationSlots>, k: int) -> bool {
    n.chunks@.len() == o.chunks@.len() && n.epoch == o.epoch && n.name == o.name && n.config == o.config
    && forall|c: int| 0 <= c < o.chunks@.len() ==> chunk_static_eq(#[trigger] o.chunks@[c], n.chunks@[c])
        && n.chunks@[c].migrating_slots[0]@ =~= entries_after(o.chunks@[c].migrating_slots[0]@, adds, k, c, 0)
        && n.chunks@[c].migrating_slots[1]@ =~= entries_after(o.chunks@[c].migrating_slots[1]@, adds, k, c, 1)
}
pub struct MetaStoreMigrate<'a> { pub store: &'a mut MetaStore }
impl<'a> MetaStoreMigrate<'a> {
    // out of reach (iter_mut().flatten()): assumed contract, here the identity up to compaction is not needed for the probe
    #[verifier::external_body] fn compact_slots(cluster: &mut ClusterStore) ensures *final(cluster) == *old(cluster) { unimplemented!() }
    fn assign_dst_slots(cluster: &mut ClusterStore, migration_slots: Vec<MigrationSlots>)
        requires forall|i: int| 0 <= i < migration_slots@.len() ==> valid_meta((#[trigger] migration_slots@[i]).meta, old(cluster).chunks@.len() as int),
        ensures assigned(*old(cluster), *final(cluster), migration_slots@, migration_slots@.len() as int),
{
        for migration_slot_range in it: migration_slots.into_iter()
            invariant
                it.seq() == migration_slots@,
                forall|i: int| 0 <= i < migration_slots@.len() ==> valid_meta((#[trigger] migration_slots@[i]).meta, old(cluster).chunks@.len() as int),
                assigned(*old(cluster), *cluster, migration_slots@, it.index@),
        {
            let ghost before = *cluster;
            let MigrationSlots { ranges, meta } = migration_slot_range;

            {
                let src_chunk = cluster
                    .chunks
                    .get_mut(meta.src_chunk_index)
                    .expect("assign_dst_slots");
                let migrating_slots = src_chunk
                    .migrating_slots
                    .get_mut(meta.src_chunk_part)
                    .expect("assign_dst_slots");
                let slot_range = MigrationSlotRangeStore {
                    range_list: ranges.clone(),
                    is_migrating: true,
                    meta: meta.clone(),
                };
                migrating_slots.push(slot_range);
            }
            {
                let dst_chunk = cluster
                    .chunks
                    .get_mut(meta.dst_chunk_index)
                    .expect("assign_dst_slots");
                let migrating_slots = dst_chunk
                    .migrating_slots
                    .get_mut(meta.dst_chunk_part)
                    .expect("assign_dst_slots");
                let slot_range = MigrationSlotRangeStore {
                    range_list: ranges.clone(),
                    is_migrating: false,
                    meta,
                };
                migrating_slots.push(slot_range);
            }
        }

        Self::compact_slots(cluster);
    }
}
} // verus!
fn main() {}
