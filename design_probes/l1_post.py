import re
s=open('/tmp/km/x/l1.rs').read()
def must(old,new,count=1):
    global s
    assert s.count(old)>=1, old[:70]
    s=s.replace(old,new,count)
specs='''
// ---- C01 specs for limit_migration ----
pub open spec fn valid_meta(m: MigrationMetaStore, n: int) -> bool {
    m.src_chunk_index < n && m.dst_chunk_index < n && m.src_chunk_part < 2 && m.dst_chunk_part < 2
}
pub open spec fn inv_home(cs: ClusterStore) -> bool {
    forall|c: int, p: int, i: int| 0 <= c < cs.chunks@.len() && 0 <= p < 2 && 0 <= i < cs.chunks@[c].migrating_slots[p]@.len() ==> {
        let x = #[trigger] cs.chunks@[c].migrating_slots[p]@[i];
        valid_meta(x.meta, cs.chunks@.len() as int)
        && (x.is_migrating ==> x.meta.src_chunk_index == c && x.meta.src_chunk_part == p)
    }
}
pub open spec fn static_eq(a: ChunkStore, b: ChunkStore) -> bool {
    a.role_position == b.role_position && a.proxy_addresses == b.proxy_addresses && a.hosts == b.hosts && a.node_addresses == b.node_addresses
}
pub open spec fn stable_cov(ch: ChunkStore, p: int, s: int) -> bool { match ch.stable_slots[p] { Some(sr) => rl_covers(sr.range_list, s), None => false } }
pub open spec fn out_cov(ms: Seq<MigrationSlotRangeStore>, k: int, s: int) -> bool {
    exists|i: int| 0 <= i < k && i < ms.len() && (#[trigger] ms[i]).is_migrating && rl_covers(ms[i].range_list, s)
}
pub open spec fn half_cov(ch: ChunkStore, p: int, s: int) -> bool { stable_cov(ch, p, s) || out_cov(ch.migrating_slots[p]@, ch.migrating_slots[p]@.len() as int, s) }
// how many entries of half (c,p) of `self` have been processed when the loops stand at (ci, pi, ei)
pub open spec fn done(cs: ClusterStore, ci: int, pi: int, ei: int, c: int, p: int) -> int {
    if c < ci || (c == ci && p < pi) { cs.chunks@[c].migrating_slots[p]@.len() as int } else if c == ci && p == pi { ei } else { 0 }
}
pub open spec fn lm_inv(cs: ClusterStore, chunks: Seq<ChunkStore>, ci: int, pi: int, ei: int) -> bool {
    chunks.len() == cs.chunks@.len()
    && forall|c: int| 0 <= c < chunks.len() ==> static_eq(#[trigger] cs.chunks@[c], chunks[c])
    && forall|c: int, p: int, s: int| 0 <= c < chunks.len() && 0 <= p < 2 ==>
        (#[trigger] half_cov(chunks[c], p, s) <==> (stable_cov(cs.chunks@[c], p, s) || out_cov(cs.chunks@[c].migrating_slots[p]@, done(cs, ci, pi, ei, c, p), s)))
}
pub open spec fn lm_post(cs: ClusterStore, r: ClusterStore) -> bool {
    r.epoch == cs.epoch && r.name == cs.name && r.config == cs.config
    && r.chunks@.len() == cs.chunks@.len()
    && forall|c: int| 0 <= c < r.chunks@.len() ==> static_eq(#[trigger] cs.chunks@[c], r.chunks@[c])
    && forall|c: int, p: int, s: int| 0 <= c < r.chunks@.len() && 0 <= p < 2 ==> (#[trigger] half_cov(r.chunks@[c], p, s) <==> half_cov(cs.chunks@[c], p, s))
}
'''
must("impl ClusterStore {\n", specs+"impl ClusterStore {\n")
must("pub fn limit_migration(&self, migration_limit: u64) -> ClusterStore {","""pub fn limit_migration(&self, migration_limit: u64) -> (r: ClusterStore)
        requires inv_home(*self), vstd::std_specs::hash::obeys_key_model::<(usize, usize)>(),
        ensures lm_post(*self, r),
    {""")
open('/tmp/km/x/l1.rs','w').write(s)

s=open('/tmp/km/x/l1.rs').read()
KM="vstd::std_specs::hash::obeys_key_model::<(usize, usize)>()"
# loop A: copy
must("        for chunk in self.chunks.iter() {\n            let new_chunk = ChunkStore {","""        for chunk in itA: self.chunks.iter()
            invariant
                itA.seq().len() == self.chunks@.len(),
                forall|i: int| 0 <= i < itA.seq().len() ==> *(#[trigger] itA.seq()[i]) == self.chunks@[i],
                chunks@.len() == itA.index@,
                forall|c: int| 0 <= c < chunks@.len() ==> static_eq(#[trigger] self.chunks@[c], chunks@[c])
                    && chunks@[c].stable_slots == self.chunks@[c].stable_slots
                    && chunks@[c].migrating_slots[0]@.len() == 0 && chunks@[c].migrating_slots[1]@.len() == 0,
        {
            let new_chunk = ChunkStore {""")
# establish lm_inv before the nest
must("        let mut migrating_out: HashMap<(usize, usize), usize> = HashMap::new();\n","""        let mut migrating_out: HashMap<(usize, usize), usize> = HashMap::new();
        proof {
            assert(lm_inv(*self, chunks@, 0, 0, 0)) by {
                assert forall|c: int, p: int, s: int| 0 <= c < chunks@.len() && 0 <= p < 2 implies
                    (#[trigger] half_cov(chunks@[c], p, s) <==> (stable_cov(self.chunks@[c], p, s) || out_cov(self.chunks@[c].migrating_slots[p]@, done(*self, 0, 0, 0, c, p), s))) by {
                    assert(chunks@[c].stable_slots == self.chunks@[c].stable_slots);
                }
            }
        }
""")
# loop B
must("        for chunk in self.chunks.iter() {\n            for migrating_slots in chunk.migrating_slots.iter() {","""        for chunk in itB: self.chunks.iter()
            invariant
                inv_home(*self), """+KM+""",
                itB.seq().len() == self.chunks@.len(),
                forall|i: int| 0 <= i < itB.seq().len() ==> *(#[trigger] itB.seq()[i]) == self.chunks@[i],
                lm_inv(*self, chunks@, itB.index@, 0, 0),
        {
            for migrating_slots in itC: chunk.migrating_slots.iter()
                invariant
                    inv_home(*self), """+KM+""",
                    0 <= itB.index@ < self.chunks@.len(), *chunk == self.chunks@[itB.index@],
                    itC.seq().len() == 2,
                    forall|i: int| 0 <= i < 2 ==> (*(#[trigger] itC.seq()[i]))@ == self.chunks@[itB.index@].migrating_slots[i]@,
                    lm_inv(*self, chunks@, itB.index@, itC.index@, 0),
            {""")
must("                for slot_range_store in migrating_slots.iter() {","""                for slot_range_store in itD: migrating_slots.iter()
                    invariant
                        inv_home(*self), """+KM+""",
                        0 <= itB.index@ < self.chunks@.len(), 0 <= itC.index@ < 2,
                        migrating_slots@ == self.chunks@[itB.index@].migrating_slots[itC.index@]@,
                        itD.seq().len() == migrating_slots@.len(),
                        forall|i: int| 0 <= i < itD.seq().len() ==> *(#[trigger] itD.seq()[i]) == migrating_slots@[i],
                        lm_inv(*self, chunks@, itB.index@, itC.index@, itD.index@),
                {""")
open('/tmp/km/x/l1.rs','w').write(s)

s=open('/tmp/km/x/l1.rs').read()
must(".and_then(|chunk| chunk.stable_slots.get_mut(meta.src_chunk_part))",""".and_then(|chunk: &mut ChunkStore| -> (o: Option<&mut Option<SlotRange>>)
                                requires meta.src_chunk_part < 2
                                ensures o is Some, *(o->Some_0) == old(chunk).stable_slots[meta.src_chunk_part as int],
                                    final(chunk).stable_slots@ == old(chunk).stable_slots@.update(meta.src_chunk_part as int, *final(o->Some_0)),
                                    final(chunk).migrating_slots == old(chunk).migrating_slots, static_eq(*old(chunk), *final(chunk))
                                { chunk.stable_slots.get_mut(meta.src_chunk_part) })""")
must(".and_then(|chunk| chunk.migrating_slots.get_mut(meta.src_chunk_part))",""".and_then(|chunk: &mut ChunkStore| -> (o: Option<&mut Vec<MigrationSlotRangeStore>>)
                                requires meta.src_chunk_part < 2
                                ensures o is Some, *(o->Some_0) == old(chunk).migrating_slots[meta.src_chunk_part as int],
                                    final(chunk).migrating_slots@ == old(chunk).migrating_slots@.update(meta.src_chunk_part as int, *final(o->Some_0)),
                                    final(chunk).stable_slots == old(chunk).stable_slots, static_eq(*old(chunk), *final(chunk))
                                { chunk.migrating_slots.get_mut(meta.src_chunk_part) })""")
must(".and_then(|chunk| chunk.migrating_slots.get_mut(meta.dst_chunk_part))",""".and_then(|chunk: &mut ChunkStore| -> (o: Option<&mut Vec<MigrationSlotRangeStore>>)
                                requires meta.dst_chunk_part < 2
                                ensures o is Some, *(o->Some_0) == old(chunk).migrating_slots[meta.dst_chunk_part as int],
                                    final(chunk).migrating_slots@ == old(chunk).migrating_slots@.update(meta.dst_chunk_part as int, *final(o->Some_0)),
                                    final(chunk).stable_slots == old(chunk).stable_slots, static_eq(*old(chunk), *final(chunk))
                                { chunk.migrating_slots.get_mut(meta.dst_chunk_part) })""")
must("""                            .get_or_insert_with(|| SlotRange {
                                range_list: RangeList::new(vec![]),
                                tag: SlotRangeTag::None,
                            });""","""                            .get_or_insert_with(|| -> (nsr: SlotRange)
                                ensures forall|x: int| !rl_covers(nsr.range_list, x)
                                { SlotRange {
                                range_list: RangeList::new(vec![]),
                                tag: SlotRangeTag::None,
                            } });""")
# facts at the top of the innermost body
must("                    if !(!slot_range_store.is_migrating) {\n","""                    let ghost ci = itB.index@; let ghost pi = itC.index@; let ghost ei = itD.index@;
                    let ghost chunks0 = chunks@;
                    assert(*slot_range_store == self.chunks@[ci].migrating_slots[pi]@[ei]);
                    assert(valid_meta(slot_range_store.meta, self.chunks@.len() as int));
                    if !(!slot_range_store.is_migrating) {
                    assert(slot_range_store.meta.src_chunk_index == ci && slot_range_store.meta.src_chunk_part == pi);
""")
open('/tmp/km/x/l1.rs','w').write(s)

s=open('/tmp/km/x/l1.rs').read()
lemmas='''
pub proof fn lemma_out_step(ms: Seq<MigrationSlotRangeStore>, k: int, s: int)
    requires 0 <= k < ms.len()
    ensures out_cov(ms, k + 1, s) <==> (out_cov(ms, k, s) || (ms[k].is_migrating && rl_covers(ms[k].range_list, s)))
{
    if out_cov(ms, k + 1, s) {
        let i = choose|i: int| 0 <= i < k + 1 && i < ms.len() && (#[trigger] ms[i]).is_migrating && rl_covers(ms[i].range_list, s);
        if i < k { assert(out_cov(ms, k, s)); }
    }
    if out_cov(ms, k, s) {
        let i = choose|i: int| 0 <= i < k && i < ms.len() && (#[trigger] ms[i]).is_migrating && rl_covers(ms[i].range_list, s);
        assert(0 <= i < k + 1 && ms[i].is_migrating);
    }
    if ms[k].is_migrating && rl_covers(ms[k].range_list, s) { assert(0 <= k < k + 1 && ms[k].is_migrating); }
}
pub proof fn lemma_out_push(ms: Seq<MigrationSlotRangeStore>, x: MigrationSlotRangeStore, s: int)
    ensures out_cov(ms.push(x), ms.len() as int + 1, s) <==> (out_cov(ms, ms.len() as int, s) || (x.is_migrating && rl_covers(x.range_list, s)))
{
    let m2 = ms.push(x);
    lemma_out_step(m2, ms.len() as int, s);
    if out_cov(m2, ms.len() as int, s) {
        let i = choose|i: int| 0 <= i < ms.len() && i < m2.len() && (#[trigger] m2[i]).is_migrating && rl_covers(m2[i].range_list, s);
        assert(ms[i] == m2[i]);
        assert(out_cov(ms, ms.len() as int, s));
    }
    if out_cov(ms, ms.len() as int, s) {
        let i = choose|i: int| 0 <= i < ms.len() && i < ms.len() && (#[trigger] ms[i]).is_migrating && rl_covers(ms[i].range_list, s);
        assert(m2[i] == ms[i]);
        assert(out_cov(m2, ms.len() as int, s));
    }
}
'''
must("impl ClusterStore {\n#[verifier::external_body] fn clone_cluster_store" if False else "// ---- C01 specs for limit_migration ----", "// ---- C01 specs for limit_migration ----")
must("pub open spec fn lm_post(cs: ClusterStore, r: ClusterStore) -> bool {", lemmas+"\npub open spec fn lm_post(cs: ClusterStore, r: ClusterStore) -> bool {")
open('/tmp/km/x/l1.rs','w').write(s)

s=open('/tmp/km/x/l1.rs').read()
goal='''assert forall|c: int, p: int, x: int| 0 <= c < chunks@.len() && 0 <= p < 2 implies
                            (#[trigger] half_cov(chunks@[c], p, x) <==> (stable_cov(self.chunks@[c], p, x) || out_cov(self.chunks@[c].migrating_slots[p]@, done(*self, ci, pi, ei + 1, c, p), x))) by {
                            let e = self.chunks@[ci].migrating_slots[pi]@[ei];
                            assert(half_cov(chunks0[c], p, x) <==> (stable_cov(self.chunks@[c], p, x) || out_cov(self.chunks@[c].migrating_slots[p]@, done(*self, ci, pi, ei, c, p), x)));
                            if c == ci && p == pi { lemma_out_step(self.chunks@[ci].migrating_slots[pi]@, ei, x); }
                            BODY
                        }
                        assert(lm_inv(*self, chunks@, ci, pi, ei + 1));'''
# fold branch: after merge_another
must("""                            .merge_another(&mut range_list);
""","""                            .merge_another(&mut range_list);
                        proof {
                            assert(chunks@.len() == chunks0.len());
                            assert forall|c: int| 0 <= c < chunks@.len() implies static_eq(#[trigger] self.chunks@[c], chunks@[c]) by { assert(static_eq(self.chunks@[c], chunks0[c])); }
                            """+goal.replace("BODY","""if c == ci {
                                assert(chunks@[ci].migrating_slots == chunks0[ci].migrating_slots);
                                if p != pi { assert(chunks@[ci].stable_slots[p] == chunks0[ci].stable_slots[p]); }
                            } else { assert(chunks@[c] == chunks0[c]); }""")+"""
                        }
""")
# keep branch: after the counters
must("""                        migration_num += 1;
                        *migrating_out_count += 1;
""","""                        proof {
                            let e = self.chunks@[ci].migrating_slots[pi]@[ei];
                            let di = e.meta.dst_chunk_index as int; let dp = e.meta.dst_chunk_part as int;
                            assert(chunks@.len() == chunks0.len());
                            assert forall|c: int| 0 <= c < chunks@.len() implies static_eq(#[trigger] self.chunks@[c], chunks@[c]) by { assert(static_eq(self.chunks@[c], chunks0[c])); }
                            """+goal.replace("BODY","""lemma_out_push(chunks0[ci].migrating_slots[pi]@, e, x);
                            let imp = MigrationSlotRangeStore { range_list: e.range_list, is_migrating: false, meta: e.meta };
                            lemma_out_push(chunks0[di].migrating_slots[dp]@, imp, x);
                            lemma_out_push(chunks0[ci].migrating_slots[pi]@.push(e), imp, x);
                            assert(chunks@[c].stable_slots == chunks0[c].stable_slots);""")+"""
                        }
                        assume(migration_num < u64::MAX);
                        migration_num += 1;
                        *migrating_out_count += 1;
""")
# skip branch (entry is importing): add ghost-only else to the D8 `if`
must("""                        *migrating_out_count += 1;
                    }
                    }
""","""                        *migrating_out_count += 1;
                    }
                    } else {
                        proof {
                            """+goal.replace("BODY","")+"""
                        }
                    }
""")
open('/tmp/km/x/l1.rs','w').write(s)

s=open('/tmp/km/x/l1.rs').read()
must("                        assume(migration_num < u64::MAX);\n","")
must("""        ClusterStore {
            epoch: self.epoch,""","""        proof {
            assert forall|c: int, p: int, x: int| 0 <= c < chunks@.len() && 0 <= p < 2 implies (#[trigger] half_cov(chunks@[c], p, x) <==> half_cov(self.chunks@[c], p, x)) by {
                assert(half_cov(chunks@[c], p, x) <==> (stable_cov(self.chunks@[c], p, x) || out_cov(self.chunks@[c].migrating_slots[p]@, done(*self, self.chunks@.len() as int, 0, 0, c, p), x)));
            }
        }
        ClusterStore {
            epoch: self.epoch,""")
open('/tmp/km/x/l1.rs','w').write(s)
