# C10 / C01 (scale-in start): MetaStoreMigrate::remove_slots_from_src_to_scale_down (src/broker/migrate.rs) - for the states
# migrate_slots_to_scale_down hands over (every half owns slots, no kept master is over its final share): no arithmetic overflow, no failing
# expect, termination; the kept chunks are untouched, the trailing chunks lose only their stable halves (both become empty), every
# produced migration goes from a half of a trailing chunk to a half of a kept chunk with valid indices and the given epoch.
# every slot a migration carries was owned by the source half and is handed out at most once (taken_once).
# and - given that the kept masters lack exactly what the trailing chunks hold (true when all 16384 slots are owned: lemma_balanced_gives_count) -
# every slot of a trailing half is carried by a migration out of it (all_moved): nothing is lost.
import re
import vlib
from units import broker_common, range_list

def build(U):
    broker_common.head(U)
    T = broker_common.types(U)
    T = T.replace('pub struct RangeList(Vec<Range>);', 'pub struct RangeList(pub Vec<Range>);').replace('pub struct Range(usize, usize);', 'pub struct Range(pub usize, pub usize);')
    U.add(T)
    S = U.src('src/common/utils.rs')
    ty, val = S.const_expr('SLOT_NUM')
    U.add('pub const SLOT_NUM: %s = %s;\n' % (ty, val))
    U.prelude('range_spec.rs')
    U.prelude('remove_slots_spec.rs')
    U.prelude('remove_slots_down_spec.rs')
    C = U.src('src/common/cluster.rs')
    U.add('impl Range {\n')
    for nm, fld in (('start', '0'), ('end', '1')):
        g = C.fn(nm, within=r'impl Range\b')
        g.header("    pub fn %s(&self) -> (r: usize)\n        ensures r == self.%s" % (nm, fld))
        U.add_fn(g)
    g = C.fn('start_mut', within=r'impl Range\b')
    g.header("    pub fn start_mut(&mut self) -> (r: &mut usize)\n        ensures *r == old(self).0, final(self).1 == old(self).1, final(self).0 == *final(r)")
    U.add_fn(g)
    U.add('}\nimpl RangeList {\n')
    U.add('    // proved in unit range_list on the real text; the contract text is imported from that unit\n    #[verifier::external_body]\n' + range_list.NEW_HEADER + '\n    { unimplemented!() }\n')
    g = C.fn('get_ranges', within=r'impl RangeList\b')
    g.header("    pub fn get_ranges(&self) -> (r: &[Range])\n        ensures r@ == self.0@")
    U.add_fn(g)
    g = C.fn('get_mut_ranges', within=r'impl RangeList\b')
    g.header("    pub fn get_mut_ranges(&mut self) -> (r: &mut Vec<Range>)\n        ensures *r == old(self).0, final(self).0 == *final(r)")
    U.add_fn(g)
    U.add('    // proved in unit remove_slots on the real text (same contract)\n    #[verifier::external_body] pub fn get_slots_num(&self) -> (r: usize)\n        requires rl_ok(*self)\n        ensures r == slots_num(self.0@)\n    { unimplemented!() }\n')
    U.add('}\nimpl SlotRange {\n')
    g = C.fn('get_range_list', within=r'impl SlotRange\b')
    g.header("    pub fn get_range_list(&self) -> (r: &RangeList)\n        ensures *r == self.range_list")
    U.add_fn(g)
    g = C.fn('get_mut_range_list', within=r'impl SlotRange\b')
    g.header("    pub fn get_mut_range_list(&mut self) -> (r: &mut RangeList)\n        ensures *r == old(self).range_list, final(self).range_list == *final(r), final(self).tag == old(self).tag")
    U.add_fn(g)
    U.add("}\npub struct MetaStoreMigrate<'a> { pub store: &'a mut MetaStore }\nimpl<'a> MetaStoreMigrate<'a> {\n")
    M = U.src('src/broker/migrate.rs')
    f = M.fn('remove_slots_from_src_to_scale_down')
    f.r1_logging()
    # D20: `let X: Vec<T> = R.iter().take(N).flat_map(|c| c.F.iter()).map(|x| EXPR).collect();` -> nested push loops with a position counter
    m = re.search(r'let dst_existing_slots_num: Vec<usize> = cluster\s*\.chunks\s*\.iter\(\)\s*\.take\(dst_chunk_num\)\s*\.flat_map\(\|chunk\| chunk\.stable_slots\.iter\(\)\)\s*\.map\(\|slot_range\| (match slot_range \{.*?\n\s*\})\)\s*\.collect\(\);', f.text, re.S)
    if not m:
        f._lost('D20: take / flat_map / map / collect chain')
    f.text = (f.text[:m.start()] + 'let mut dst_existing_slots_num: Vec<usize> = Vec::new();\n        let mut verif_take: usize = 0;\n        for chunk in cluster.chunks.iter() {\n            if verif_take < dst_chunk_num {\n                for slot_range in chunk.stable_slots.iter() {\n                    dst_existing_slots_num.push('
              + m.group(1) + ');\n                }\n            }\n            verif_take += 1;\n        }' + f.text[m.end():])
    U.log.rule('D20', f, 'iter().take(n).flat_map(|c| c.F.iter()).map(|x| E).collect() -> nested push loops with a position counter (E verbatim)')
    # D3 + skip(n): counter at the top, body guarded by `if index >= n`
    m = re.search(r'for \(src_chunk_index, src_chunk\) in\s*cluster\.chunks\.iter_mut\(\)\.enumerate\(\)\.skip\(dst_chunk_num\)\s*\{', f.text)
    if not m:
        f._lost('D3 enumerate().skip(n)')
    mask = vlib.code_mask(f.text)
    bo = m.end() - 1
    bc = vlib.match_brace(f.text, mask, bo)
    body = f.text[bo + 1:bc]
    f.text = (f.text[:m.start()] + 'let mut verif_cnt_s: usize = 0;\n        for src_chunk in cluster.chunks.iter_mut() {\n            let src_chunk_index = verif_cnt_s;\n            verif_cnt_s += 1;\n            if src_chunk_index >= dst_chunk_num {'
              + body + '}\n        }' + f.text[bc + 1:])
    U.log.rule('D3', f, 'enumerate().skip(n) -> explicit counter, body guarded by index >= n')
    vlib.d3_enumerate(f)
    f.replace('R6', 'min(need_num, available_num)', 'verif_min(need_num, available_num)', count=1)
    f.replace('D6', 'RangeList::new(curr_dst_slots.drain(..).collect())', 'RangeList::new(shim_take_all(&mut curr_dst_slots))', count=1)
    f.replace('closure-spec', '.map(|r| r.end() - r.start() + 1)',
              '.map(|r: &Range| -> (n: usize) requires r.0 <= r.1, r.1 - r.0 < 16384 ensures n == rlen(*r) { r.end() - r.start() + 1 })', count=1)
    f.apply_overlay('remove_slots_down')
    U.add_fn(f)
    U.add('}\n} // verus!\nfn main() {}\n')
    U.trust('precondition (the states migrate_slots_to_scale_down hands over): every half owns a well-formed range list of at most 16384 slots, 1 <= new_chunk_num < number of chunks <= 8192, no kept master holds more than its final share, and the kept masters lack exactly what the trailing chunks hold (follows from: all 16384 slots owned, lemma_balanced_gives_count)',
            'RangeList::new / get_slots_num through their contracts proved in units range_list / remove_slots; D3, D6, D20, R6')

RLIMIT = 120

MUST_FAIL = '''
proof fn must_fail_remove_slots_down_room(cs: Seq<ChunkStore>) requires cs.len() > 1 ensures dst_have_room(cs, 1, 8192, 0) { }
proof fn must_fail_all_moved_trivial(o: Seq<Range>, ms: Seq<MigrationSlots>) requires o.len() > 0 ensures all_moved(o, ms, 0, 0) { reveal(all_moved); }
proof fn must_fail_taken_once_trivial(o: Seq<Range>, ms: Seq<MigrationSlots>) requires ms.len() > 0 ensures taken_once(o, ms, 0, 0) { reveal(taken_once); }
'''
