# C01 / C06: the broker view function cluster_store_to_cluster (src/broker/query.rs) and the index tables
# to_slot_range / chunk_part_to_proxy_index / chunk_part_to_node_index (src/broker/store.rs) against the
# statement-level table master_node(role_position, half)  (DESIGN 4.1, 4.6)
import re
import vlib
from vlib import Undecided
from units import broker_common

CL_TYPES = [('struct', 'MigrationMeta'), ('enum', 'SlotRangeTag'), ('struct', 'Range'), ('struct', 'RangeList'), ('struct', 'SlotRange'),
            ('struct', 'ReplPeer'), ('enum', 'Role'), ('struct', 'ReplMeta'), ('struct', 'Node'), ('struct', 'Cluster')]
ST_TYPES = [('const', 'NODES_PER_PROXY'), ('const', 'CHUNK_PARTS'), ('const', 'CHUNK_HALF_NODE_NUM'), ('const', 'CHUNK_NODE_NUM'),
            ('enum', 'ChunkRolePosition'), ('struct', 'MigrationSlotRangeStore'), ('struct', 'MigrationMetaStore'),
            ('struct', 'ChunkStore'), ('struct', 'ClusterStore')]

def build(U):
    broker_common.head(U)
    T = broker_common.types(U, CL_TYPES, ST_TYPES)
    T = T.replace('pub enum Role', '#[derive(Clone, Copy, PartialEq, Eq, Structural)]\npub enum Role')
    T = vlib.pub_fields(T)
    U.log.rules.append({'rule': 'R-vis', 'file': 'src/common/cluster.rs', 'fn': '-', 'note': 'struct fields made pub (visibility only)'})
    U.add(T)
    U.add('''impl Clone for ClusterName { #[verifier::external_body] fn clone(&self) -> (r: Self) ensures r == *self { unimplemented!() } }
impl Clone for ClusterConfig { #[verifier::external_body] fn clone(&self) -> (r: Self) ensures r == *self { unimplemented!() } }
impl Clone for RangeList { #[verifier::external_body] fn clone(&self) -> (r: Self) ensures r == *self { unimplemented!() } }
impl Clone for SlotRange { #[verifier::external_body] fn clone(&self) -> (r: Self) ensures r == *self { unimplemented!() } }
''')
    U.prelude('query_view_spec.rs')
    C = U.src('src/common/cluster.rs')
    S = U.src('src/broker/store.rs')
    Q = U.src('src/broker/query.rs')
    # constructors (real text, trivial contracts)
    f = C.fn('new', within=r'impl ReplMeta\b')
    f.header("    pub fn new(role: Role, peers: Vec<ReplPeer>) -> (r: Self)\n        ensures r.role == role, r.peers == peers")
    U.add('impl ReplMeta {\n'); U.add_fn(f); U.add('}\n')
    f = C.fn('new', within=r'impl Node\b')
    f.header("    pub fn new(\n        address: String,\n        proxy_address: String,\n        slots: Vec<SlotRange>,\n        repl: ReplMeta,\n    ) -> (r: Self)\n        ensures r.address == address, r.proxy_address == proxy_address, r.slots == slots, r.repl == repl")
    U.add('impl Node {\n'); U.add_fn(f); U.add('}\n')
    f = C.fn('new', within=r'impl Cluster\b')
    f.header("    pub fn new(name: ClusterName, epoch: u64, nodes: Vec<Node>, config: ClusterConfig) -> (r: Self)\n        ensures r.name == name, r.epoch == epoch, r.nodes == nodes, r.config == config")
    U.add('impl Cluster {\n'); U.add_fn(f); U.add('}\n')

    # ---- index tables
    U.add('impl MigrationSlotRangeStore {\n')
    f = S.fn('to_slot_range', within=r'impl MigrationSlotRangeStore\b')
    f.header("    pub fn to_slot_range(&self, chunks: &[ChunkStore]) -> (r: SlotRange)\n        requires valid_meta(self.meta, chunks@)\n        ensures slot_rel(*self, chunks@, r)")
    U.add_fn(f)
    f = S.fn('chunk_part_to_proxy_index', within=r'impl MigrationSlotRangeStore\b')
    f.header("    fn chunk_part_to_proxy_index(chunk_part: usize, role_position: ChunkRolePosition) -> (r: usize)\n        requires chunk_part < 2\n        ensures r == master_node(role_position, chunk_part as int) / 2")
    U.add_fn(f)
    f = S.fn('chunk_part_to_node_index', within=r'impl MigrationSlotRangeStore\b')
    f.header("    fn chunk_part_to_node_index(chunk_part: usize, role_position: ChunkRolePosition) -> (r: usize)\n        requires chunk_part < 2\n        ensures r == master_node(role_position, chunk_part as int)")
    U.add_fn(f)
    U.add('}\n')

    # ---- the view function
    f = Q.fn('cluster_store_to_cluster')
    f.r1_logging()
    vlib.d1_flat_map_collect(f, 'Node')
    vlib.d2_map_collect(f, 'SlotRange')
    f.replace('D2b', 'slots.extend(slot_ranges);', 'slots.append(&mut slot_ranges);')     # Vec::extend(Vec) == append
    f.header("    pub fn cluster_store_to_cluster(cluster_store: &ClusterStore) -> (r: Cluster)\n        requires inv_idx(*cluster_store)\n        ensures view_ok(*cluster_store, r)")
    ls = f.loops()
    if len(ls) != 4:
        f._lost('expected 4 loops after D1/D2, found %d' % len(ls))
    def part_inv(p):
        return '''                            invariant
                                inv_idx(*cluster_store),
                                0 <= it.index@ < cluster_store.chunks@.len(),
                                *chunk == cluster_store.chunks@[it.index@],
                                it3.seq().len() == chunk.migrating_slots[%(p)s]@.len(),
                                forall|j: int| 0 <= j < it3.seq().len() ==> *(#[trigger] it3.seq()[j]) == chunk.migrating_slots[%(p)s]@[j],
                                slot_ranges@.len() == it3.index@,
                                forall|j: int| 0 <= j < it3.index@ ==> slot_rel(chunk.migrating_slots[%(p)s]@[j], cluster_store.chunks@, #[trigger] slot_ranges@[j]),''' % {'p': p}
    f.loop_spec(3, part_inv(1), itname='it3')
    f.loop_spec(2, part_inv(0), itname='it3')
    f.loop_spec(1, '''                    invariant
                        inv_idx(*cluster_store),
                        0 <= it.index@ < cluster_store.chunks@.len(),
                        *chunk == cluster_store.chunks@[it.index@],
                        nodes@.len() == i,
                        forall|k: int| 0 <= k < i ==> node_ok(*cluster_store, it.index@, k, #[trigger] nodes@[k]),''', itname='it2')
    f.loop_spec(0, '''            invariant
                inv_idx(*cluster_store),
                it.seq().len() == cluster_store.chunks@.len(),
                forall|i: int| 0 <= i < it.seq().len() ==> *(#[trigger] it.seq()[i]) == cluster_store.chunks@[i],
                verif_acc@.len() == 4 * it.index@,
                forall|c: int, k: int| 0 <= c < it.index@ && 0 <= k < 4 ==> node_ok(*cluster_store, c, k, #[trigger] verif_acc@[4 * c + k]),''', itname='it')
    # hints: the entry being rendered has valid indices (instantiates inv_idx)
    f.text = re.sub(r'(\n\s*)(slot_ranges\.push\(\{)', lambda m: m.group(1) + 'proof { assert(*slot_range_store == cluster_store.chunks@[it.index@].migrating_slots[PARTIDX]@[it3.index@]); }' + m.group(1) + m.group(2), f.text)
    n = f.text.count('PARTIDX')
    if n == 2:
        f.text = f.text.replace('PARTIDX', '0', 1).replace('PARTIDX', '1', 1)
    else:
        f.text = f.text.replace('PARTIDX', '0')
    U.add("pub struct MetaStoreQuery {}\nimpl MetaStoreQuery {\n")
    U.add_fn(f)
    U.add("}\n} // verus!\nfn main() {}\n")
    U.trust('derived Clone of ClusterName/ClusterConfig/RangeList/SlotRange is structural (r == *self)')

MUST_FAIL = '''
proof fn must_fail_view_ok_not_trivial(cs: ClusterStore, cl: Cluster)
    requires inv_idx(cs), cs.chunks@.len() == 1, cl.nodes@.len() == 4, cl.epoch == cs.epoch, cl.name == cs.name, cl.config == cs.config
    ensures view_ok(cs, cl)
{ }
proof fn must_fail_table_wrong(rp: ChunkRolePosition) ensures master_node(rp, 0) == 0 { }
'''
