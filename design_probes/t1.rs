use vstd::prelude::*;
verus! {
global size_of usize == 8;

pub const LF: u8 = 10;
pub const CR: u8 = 13;
pub enum ParseError { InvalidProtocol, NotEnoughData, UnexpectedErr }

pub struct DataIndex(pub usize, pub usize);
pub enum BulkStr<T> { Str(T), Nil }
pub enum Array<T> { Arr(Vec<Resp<T>>), Nil }
pub enum Resp<T> { Error(T), Simple(T), Bulk(BulkStr<T>), Integer(T), Arr(Array<T>) }
pub type BulkStrIndex = BulkStr<DataIndex>;
pub type ArrayIndex = Array<DataIndex>;
pub type RespIndex = Resp<DataIndex>;

// ---- "all indices inside [lo, hi]" ----
pub open spec fn di_in(d: DataIndex, lo: int, hi: int) -> bool { lo <= d.0 <= d.1 <= hi }
pub open spec fn bulk_in(b: BulkStrIndex, lo: int, hi: int) -> bool { match b { BulkStr::Str(d) => di_in(d, lo, hi), BulkStr::Nil => true } }
pub open spec fn resp_in(r: RespIndex, lo: int, hi: int) -> bool
    decreases r
{
    match r {
        Resp::Error(d) => di_in(d, lo, hi),
        Resp::Simple(d) => di_in(d, lo, hi),
        Resp::Integer(d) => di_in(d, lo, hi),
        Resp::Bulk(b) => bulk_in(b, lo, hi),
        Resp::Arr(a) => arr_in(a, lo, hi),
    }
}
pub open spec fn arr_in(a: ArrayIndex, lo: int, hi: int) -> bool
    decreases a
{
    match a { Array::Arr(v) => forall|i: int| 0 <= i < v@.len() ==> resp_in(#[trigger] v@[i], lo, hi), Array::Nil => true }
}


pub proof fn lemma_resp_in_mono(r: RespIndex, lo: int, hi: int, lo2: int, hi2: int)
    requires resp_in(r, lo, hi), lo2 <= lo, hi <= hi2
    ensures resp_in(r, lo2, hi2)
    decreases r
{
    match r {
        Resp::Arr(a) => lemma_arr_in_mono(a, lo, hi, lo2, hi2),
        _ => {}
    }
}
pub proof fn lemma_arr_in_mono(a: ArrayIndex, lo: int, hi: int, lo2: int, hi2: int)
    requires arr_in(a, lo, hi), lo2 <= lo, hi <= hi2
    ensures arr_in(a, lo2, hi2)
    decreases a
{
    match a {
        Array::Arr(v) => {
            assert forall|i: int| 0 <= i < v@.len() implies resp_in(#[trigger] v@[i], lo2, hi2) by {
                lemma_resp_in_mono(v@[i], lo, hi, lo2, hi2);
            }
        }
        Array::Nil => {}
    }
}
pub open spec const MAX_BUF: int = 0x3fff_ffff_ffff_ffff;

// ---- trusted shims ----
pub broadcast axiom fn axiom_slice_len(s: &[u8]) ensures #[trigger] s@.len() <= isize::MAX;

#[verifier::external_body]
fn memchr(c: u8, s: &[u8]) -> (r: Option<usize>)
    ensures match r {
        Some(i) => i < s@.len() && s@[i as int] == c && forall|j: int| 0 <= j < i ==> s@[j] != c,
        None => forall|j: int| 0 <= j < s@.len() ==> s@[j] != c,
    }
{ unimplemented!() }

#[verifier::external_body]
fn btoi(s: &[u8]) -> (r: Result<i64, ()>) { unimplemented!() }

#[verifier::external_body]
fn shim_with_capacity(n: usize, Ghost(budget): Ghost<int>) -> (v: Vec<RespIndex>)
    requires n <= budget
    ensures v@.len() == 0
{ Vec::with_capacity(n) }

#[verifier::external_body]
fn shim_advance_di(v: &mut DataIndex, count: usize)
    requires old(v).1 + count <= usize::MAX
    ensures final(v).0 == old(v).0 + count, final(v).1 == old(v).1 + count
{ unimplemented!() }
#[verifier::external_body]
fn shim_advance_bulk(v: &mut BulkStrIndex, count: usize, Ghost(hi): Ghost<int>)
    requires bulk_in(*old(v), 0, hi), hi + count <= usize::MAX
    ensures bulk_in(*final(v), count as int, hi + count), (*old(v) is Nil) == (*final(v) is Nil)
{ unimplemented!() }
#[verifier::external_body]
fn shim_advance_arr(v: &mut ArrayIndex, count: usize, Ghost(hi): Ghost<int>)
    requires arr_in(*old(v), 0, hi), hi + count <= usize::MAX
    ensures arr_in(*final(v), count as int, hi + count)
{ unimplemented!() }
#[verifier::external_body]
fn shim_advance_resp(v: &mut RespIndex, count: usize, Ghost(hi): Ghost<int>)
    requires resp_in(*old(v), 0, hi), hi + count <= usize::MAX
    ensures resp_in(*final(v), count as int, hi + count)
{ unimplemented!() }


#[verifier::external_body]
fn shim_get_from(s: &[u8], a: usize) -> (r: Option<&[u8]>)
    ensures match r { Some(t) => a <= s@.len() && t@ == s@.subrange(a as int, s@.len() as int), None => a > s@.len() }
{ s.get(a..) }
#[verifier::external_body]
fn shim_get_range(s: &[u8], a: usize, b: usize) -> (r: Option<&[u8]>)
    ensures match r { Some(t) => a <= b <= s@.len() && t@ == s@.subrange(a as int, b as int), None => !(a <= b <= s@.len()) }
{ s.get(a..b) }

fn min(a: usize, b: usize) -> (r: usize) ensures r == (if a <= b { a } else { b }) { if a <= b { a } else { b } }

// ---- extracted: src/protocol/stateless.rs (with the planned fix in parse_array) ----
pub fn parse_resp(buf: &[u8]) -> (res: Result<(RespIndex, usize), ParseError>)
    requires buf@.len() <= MAX_BUF
    ensures match res { Ok((v, c)) => 0 < c <= buf@.len() && resp_in(v, 0, c as int), Err(_) => true }
    decreases buf@.len(), 1int
{
    broadcast use axiom_slice_len;
    if buf.is_empty() {
        return Err(ParseError::NotEnoughData);
    }

    let prefix = *buf.first().ok_or(ParseError::UnexpectedErr)?;
    let next_buf = shim_get_from(buf, 1).ok_or(ParseError::InvalidProtocol)?;

    match prefix {
        b'$' => {
            let (mut v, consumed) = parse_bulk_str(next_buf)?;
            shim_advance_bulk(&mut v, 1, Ghost(consumed as int));
            Ok((RespIndex::Bulk(v), 1 + consumed))
        }
        b'+' => {
            let (mut v, consumed) = parse_line(next_buf)?;
            shim_advance_di(&mut v, 1);
            Ok((RespIndex::Simple(v), 1 + consumed))
        }
        b':' => {
            let (mut v, consumed) = parse_line(next_buf)?;
            shim_advance_di(&mut v, 1);
            Ok((RespIndex::Integer(v), 1 + consumed))
        }
        b'-' => {
            let (mut v, consumed) = parse_line(next_buf)?;
            shim_advance_di(&mut v, 1);
            Ok((RespIndex::Error(v), 1 + consumed))
        }
        b'*' => {
            let (mut v, consumed) = parse_array(next_buf)?;
            shim_advance_arr(&mut v, 1, Ghost(consumed as int));
            proof { lemma_arr_in_mono(v, 1, consumed + 1, 0, consumed + 1); }
            Ok((RespIndex::Arr(v), 1 + consumed))
        }
        prefix => {
            Err(ParseError::InvalidProtocol)
        }
    }
}

fn parse_array(buf: &[u8]) -> (res: Result<(ArrayIndex, usize), ParseError>)
    requires buf@.len() <= MAX_BUF
    ensures match res { Ok((v, c)) => 0 < c <= buf@.len() && arr_in(v, 0, c as int), Err(_) => true }
    decreases buf@.len(), 0int
{
    broadcast use axiom_slice_len;
    let (len, mut consumed) = parse_len(buf)?;
    if len < 0 {
        return Ok((ArrayIndex::Nil, consumed));
    }

    let array_size = len as usize;
    let mut array = shim_with_capacity(min(array_size, buf.len()), Ghost(buf@.len() as int));

    for _i in 0..array_size
        invariant
            buf@.len() <= MAX_BUF,
            0 < consumed <= buf@.len(),
            forall|i: int| 0 <= i < array@.len() ==> resp_in(#[trigger] array@[i], 0, consumed as int),
    {
        let next_buf = shim_get_from(buf, consumed).ok_or(ParseError::InvalidProtocol)?;
        let (mut v, element_consumed) = parse_resp(next_buf)?;
        assert(next_buf@.len() == buf@.len() - consumed);
        shim_advance_resp(&mut v, consumed, Ghost(element_consumed as int));
        let ghost old_consumed = consumed as int;
        let ghost old_array = array@;
        consumed += element_consumed;
        proof {
            lemma_resp_in_mono(v, old_consumed, old_consumed + element_consumed, 0, consumed as int);
            assert forall|i: int| 0 <= i < old_array.len() implies resp_in(#[trigger] old_array[i], 0, consumed as int) by {
                lemma_resp_in_mono(old_array[i], 0, old_consumed, 0, consumed as int);
            }
        }
        array.push(v);
    }

    Ok((ArrayIndex::Arr(array), consumed))
}

fn parse_bulk_str(buf: &[u8]) -> (res: Result<(BulkStrIndex, usize), ParseError>)
    requires buf@.len() <= MAX_BUF
    ensures match res { Ok((v, c)) => 0 < c <= buf@.len() && bulk_in(v, 0, c as int), Err(_) => true }
{
    broadcast use axiom_slice_len;
    let (len, consumed) = parse_len(buf)?;
    if len < 0 {
        return Ok((BulkStrIndex::Nil, consumed));
    }

    let content_size = len as usize;
    assert(content_size == len);
    assert(consumed <= MAX_BUF);
    if buf.len() < consumed + content_size + 2 {
        return Err(ParseError::NotEnoughData);
    }

    let s = DataIndex(consumed, consumed + content_size);
    Ok((BulkStrIndex::Str(s), consumed + content_size + 2))
}

fn parse_len(buf: &[u8]) -> (res: Result<(i64, usize), ParseError>)
    ensures match res { Ok((l, c)) => 2 <= c <= buf@.len(), Err(_) => true }
{
    let (data_index, consumed) = parse_line(buf)?;
    let next_buf = buf
        .get(data_index.0..data_index.1)
        .ok_or(ParseError::UnexpectedErr)?;

    let len = btoi(next_buf).map_err(|_e: ()| ParseError::InvalidProtocol)?;
    Ok((len, consumed))
}

fn parse_line(buf: &[u8]) -> (res: Result<(DataIndex, usize), ParseError>)
    ensures match res { Ok((d, c)) => 2 <= c <= buf@.len() && d.0 == 0 && d.1 + 2 == c, Err(_) => true }
{
    broadcast use axiom_slice_len;
    let lf_index = memchr(LF, buf).ok_or(ParseError::NotEnoughData)?;
    if lf_index == 0 {
        return Err(ParseError::InvalidProtocol);
    }

    // s >= 2
    // Just ignore the CR
    let line = DataIndex(0, lf_index + 1 - 2);
    Ok((line, lf_index + 1))
}

} // verus!
fn main() {}
