# C04 / C13 (what each proxy is served): MetaStoreQuery::get_proxy_by_address and get_cluster_store (src/broker/query.rs) -
# an unregistered address gets nothing; a registered proxy that belongs to an existing cluster is served that cluster's name, config
# and EPOCH (whatever the migration limit); any other registered proxy is served the GLOBAL epoch, no cluster, no peers and its two
# nodes without slots.  The peer list (filter / cloned / group_by chain, itertools) is abstracted by a shim whose pattern must match
# literally; the node filter is desugared.
import re
import vlib
from units import broker_common

SPEC = '''
impl Clone for ClusterName { #[verifier::external_body] fn clone(&self) -> (r: Self) ensures r == *self { unimplemented!() } }
impl Clone for ClusterConfig { #[verifier::external_body] fn clone(&self) -> (r: Self) ensures r == *self { unimplemented!() } }
#[verifier::external_body] fn shim_clone_node(n: &Node) -> (r: Node) ensures r == *n { unimplemented!() }
// &str keys of a HashMap<String, _>: the String with the same text
pub uninterp spec fn key_str(s: Seq<char>) -> String;
pub broadcast axiom fn axiom_key_str(s: Seq<char>) ensures #[trigger] key_str(s)@ == s;
pub broadcast axiom fn axiom_key_str_inv(k: String) ensures #[trigger] key_str(k@) == k;
#[verifier::external_body] fn shim_get_by_str<'a, V>(m: &'a HashMap<String, V>, k: &str) -> (r: Option<&'a V>)
    ensures match r { Some(v) => m@.contains_key(key_str(k@)) && *v == m@[key_str(k@)], None => !m@.contains_key(key_str(k@)) }
{ unimplemented!() }
#[verifier::external_body] fn shim_to_string(s: &str) -> (r: String) ensures r@ == s@ { unimplemented!() }
#[verifier::external_body] fn shim_str_eq(a: &str, b: &str) -> (r: bool) ensures r == (a@ == b@) { unimplemented!() }
// R-peers: the peer list (itertools group_by chain) - some list determined by the cluster view and the address
pub uninterp spec fn peers_of(nodes: Seq<Node>, addr: Seq<char>) -> Seq<PeerProxy>;
#[verifier::external_body] fn shim_peers(nodes: &[Node], address: &str) -> (r: Vec<PeerProxy>) ensures r@ == peers_of(nodes@, address@) { unimplemented!() }
pub open spec fn nodes_on(ns: Seq<Node>, addr: Seq<char>, n: nat) -> Seq<Node>
    decreases n
{ if n == 0 || n > ns.len() { Seq::<Node>::empty() } else if ns[n - 1].proxy_address@ == addr { nodes_on(ns, addr, (n - 1) as nat).push(ns[n - 1]) } else { nodes_on(ns, addr, (n - 1) as nat) } }
// what a registered proxy is served
pub open spec fn served(s: MetaStore, addr: Seq<char>, p: Proxy) -> bool {
    let res = s.all_proxies@[key_str(addr)];
    p.address@ == addr
    && (match res.cluster {
        Some(name) if s.clusters@.contains_key(name) =>
            // (the source notes that the global epoch would serve as well: both choices version every change of this cluster's metadata)
            (p.epoch == s.clusters@[name].epoch || p.epoch == s.global_epoch) && p.cluster_name == Some(s.clusters@[name].name) && p.cluster_config == Some(s.clusters@[name].config),
        _ => p.epoch == s.global_epoch && p.cluster_name is None && p.cluster_config is None && p.peers@.len() == 0
            && p.nodes@.len() == res.node_addresses@.len() && (forall|i: int| 0 <= i < p.nodes@.len() ==> (#[trigger] p.nodes@[i]).slots@.len() == 0 && p.nodes@[i].proxy_address == res.proxy_address && p.nodes@[i].address == res.node_addresses@[i]),
    })
}
'''

CL_TYPES = [('struct', 'MigrationMeta'), ('enum', 'SlotRangeTag'), ('struct', 'Range'), ('struct', 'RangeList'), ('struct', 'SlotRange'),
            ('struct', 'ReplPeer'), ('enum', 'Role'), ('struct', 'ReplMeta'), ('struct', 'Node'), ('struct', 'Cluster'), ('struct', 'PeerProxy'), ('struct', 'Proxy')]

def build(U):
    broker_common.head(U)
    T = broker_common.types(U, CL_TYPES, broker_common.STORE_TYPES)
    T = T.replace('pub enum Role', '#[derive(Clone, Copy, PartialEq, Eq, Structural)]\npub enum Role')
    T = vlib.pub_fields(T)
    U.log.rules.append({'rule': 'R-vis', 'file': 'src/common/cluster.rs', 'fn': '-', 'note': 'struct fields made pub (visibility only)'})
    U.add(T)
    U.add(SPEC)
    C = U.src('src/common/cluster.rs')
    Q = U.src('src/broker/query.rs')
    HDR = {
        ('ReplMeta', 'new_free'): "    pub fn new_free() -> (r: Self)\n        ensures r.peers@.len() == 0",
        ('Node', 'new'): "    pub fn new(\n        address: String,\n        proxy_address: String,\n        slots: Vec<SlotRange>,\n        repl: ReplMeta,\n    ) -> (r: Self)\n        ensures r.address == address, r.proxy_address == proxy_address, r.slots == slots, r.repl == repl",
        ('Node', 'get_proxy_address'): "    pub fn get_proxy_address(&self) -> (r: &str)\n        ensures r@ == self.proxy_address@",
        ('Cluster', 'get_name'): "    pub fn get_name(&self) -> (r: &ClusterName)\n        ensures *r == self.name",
        ('Cluster', 'get_epoch'): "    pub fn get_epoch(&self) -> (r: u64)\n        ensures r == self.epoch",
        ('Cluster', 'get_nodes'): "    pub fn get_nodes(&self) -> (r: &[Node])\n        ensures r@ == self.nodes@",
        ('Cluster', 'get_config'): "    pub fn get_config(&self) -> (r: ClusterConfig)\n        ensures r == self.config",
        ('Proxy', 'new'): "    pub fn new(\n        cluster_name: Option<ClusterName>,\n        address: String,\n        epoch: u64,\n        nodes: Vec<Node>,\n        peers: Vec<PeerProxy>,\n        cluster_config: Option<ClusterConfig>,\n    ) -> (r: Self)\n        ensures r.cluster_name == cluster_name, r.address == address, r.epoch == epoch, r.nodes == nodes, r.peers == peers, r.cluster_config == cluster_config",
    }
    for (imp, names) in (('ReplMeta', ['new_free']), ('Node', ['new', 'get_proxy_address']), ('Cluster', ['get_name', 'get_epoch', 'get_nodes', 'get_config']), ('Proxy', ['new'])):
        U.add('impl %s {\n' % imp)
        for nm in names:
            f = C.fn(nm, within=r'impl %s\b' % imp)
            f.header(HDR[(imp, nm)])
            U.add_fn(f)
        U.add('}\n')
    U.add('''impl ClusterStore {
    // proved in unit limit_migration (lm_post); here only its first line: the static parts are copied
    #[verifier::external_body] pub fn limit_migration(&self, migration_limit: u64) -> (r: ClusterStore)
        ensures r.epoch == self.epoch, r.name == self.name, r.config == self.config { unimplemented!() }
}
pub struct MetaStoreQuery<'a> { pub store: &'a MetaStore }
impl<'a> MetaStoreQuery<'a> {
    // proved in unit query_view (view_ok); here only its first line: epoch, name and config of the view are those of the store
    #[verifier::external_body] pub fn cluster_store_to_cluster(cluster_store: &ClusterStore) -> (r: Cluster)
        ensures r.epoch == cluster_store.epoch, r.name == cluster_store.name, r.config == cluster_store.config { unimplemented!() }
''')
    CS_ENS = "match o { Some(cs) => CL@.contains_key(*NAME) && cs.epoch == CL@[*NAME].epoch && cs.name == CL@[*NAME].name && cs.config == CL@[*NAME].config, None => !CL@.contains_key(*NAME) }"
    g = Q.fn('get_cluster_store')
    g.sub('closure-spec', r'\.map\(\|c\| (.+)\)\n', r'.map(|c: &ClusterStore| -> (o: ClusterStore) ensures o.epoch == c.epoch, o.name == c.name, o.config == c.config { \1 })\n', count=1)
    g.header('''    fn get_cluster_store(
        clusters: &HashMap<ClusterName, ClusterStore>,
        cluster_name: &ClusterName,
        migration_limit: u64,
    ) -> (o: Option<ClusterStore>)
        requires vstd::std_specs::hash::obeys_key_model::<ClusterName>()
        ensures ''' + CS_ENS.replace('CL', 'clusters').replace('NAME', 'cluster_name'))
    g.body_start('        proof { axiom_key_of_same::<ClusterName>(cluster_name); }')
    U.add_fn(g)
    f = Q.fn('get_proxy_by_address')
    f.r1_logging()
    f.replace('R-strkey', 'all_proxies.get(address)?', 'shim_get_by_str(all_proxies, address)?', count=1)
    f.sub('R-tostr', r'\baddress\.to_string\(\)', 'shim_to_string(address)', count=2)
    # R-peers: the whole peer chain, literally
    m = re.search(r'let peers = cluster\s*\.get_nodes\(\)\s*\.iter\(\)\s*\.filter\(\|n\| n\.get_role\(\) == Role::Master && n\.get_proxy_address\(\) != address\)\s*\.cloned\(\)\s*'
                  r'\.group_by\(\|node\| node\.get_proxy_address\(\)\.to_string\(\)\)\s*\.into_iter\(\)\s*\.map\(\|\(proxy_address, nodes\)\| \{\s*(?://[^\n]*\n\s*)*let slots = nodes\.flat_map\(Node::into_slots\)\.collect\(\);\s*'
                  r'PeerProxy \{\s*proxy_address,\s*slots,\s*\}\s*\}\)\s*\.collect\(\);', f.text)
    if not m:
        f._lost('R-peers: the peer chain changed')
    f.text = f.text[:m.start()] + 'let peers = shim_peers(cluster.get_nodes(), address);' + f.text[m.end():]
    U.log.rule('R-peers', f, 'peer list chain (filter / cloned / group_by / map / collect) -> shim_peers (uninterpreted)')
    # D18: let X: Vec<T> = R.iter().filter(|p| C).cloned().collect();  -> push loop
    m = re.search(r'let nodes: Vec<Node> = cluster\s*\.get_nodes\(\)\s*\.iter\(\)\s*\.filter\(\|node\| ([^\n]+)\)\s*\.cloned\(\)\s*\.collect\(\);', f.text)
    if not m:
        f._lost('D18: nodes filter chain')
    cond = m.group(1).replace('node.get_proxy_address() == address', 'shim_str_eq(node.get_proxy_address(), address)')
    f.text = (f.text[:m.start()] + 'let mut nodes: Vec<Node> = Vec::new();\n        for node in cluster.get_nodes().iter() {\n            if %s {\n                nodes.push(shim_clone_node(node));\n            }\n        }' % cond + f.text[m.end():])
    U.log.rule('D18', f, 'iter().filter(closure).cloned().collect() -> push loop; &str == &str by shim_str_eq')
    vlib.d2_map_collect(f, 'Node') if '.map(|address|' in f.text else None
    f.sub('closure-spec', r'\.and_then\(\|name\| (.+)\);\n', r'.and_then(|name: &ClusterName| -> (o: Option<ClusterStore>) requires vstd::std_specs::hash::obeys_key_model::<ClusterName>() ensures '
          + CS_ENS.replace('CL', 'clusters').replace('NAME', 'name') + r' { \1 });\n', count=1)
    f.apply_overlay('get_proxy_by_address')
    U.add_fn(f)
    U.add('}\n} // verus!\nfn main() {}\n')
    U.trust('limit_migration / cluster_store_to_cluster through the epoch / name / config line of their proved contracts (their index preconditions are not established here; only that line is used)',
            'HashMap<String, _>::get(&str) by shim over key_str (the String with the same text); str == str, to_string by shims; derived Clone structural',
            'the peer list chain is abstracted (R-peers, literal pattern): peers are NOT under contract')

MUST_FAIL = '''
proof fn must_fail_proxy_view_served_trivial(s: MetaStore, addr: Seq<char>, p: Proxy) requires s.all_proxies@.contains_key(key_str(addr)) ensures served(s, addr, p) { }
'''
