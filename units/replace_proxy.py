# C06 / C04: MetaStoreUpdate::replace_failed_proxy (src/broker/update.rs), verified modularly:
# takeover_master is visible only through the contract proved in unit `takeover` (same text, taken from its overlay);
# generate_new_free_proxy through the contract proved in unit new_free_proxy (text imported); get_proxy_by_address by an assumed contract.
# Text = real function + rules R1, R-clone + overlay contracts/replace_failed_proxy.overlay.json.
import re
import vlib
from vlib import Undecided
from units import broker_common, takeover, new_free_proxy, free_proxy


def set_epoch(U):
    S = U.src('src/broker/store.rs')
    f = S.fn('set_epoch', within=r'impl ClusterStore\b')
    f.header("    pub fn set_epoch(&mut self, new_epoch: u64)\n        ensures final(self).epoch == new_epoch, final(self).chunks == old(self).chunks, final(self).config == old(self).config, final(self).name == old(self).name")
    return f


def function(U):
    S = U.src('src/broker/update.rs')
    f = S.fn('replace_failed_proxy')
    f.r1_logging()
    f.replace('R-clone', "Some(proxy) => proxy.cluster.clone(),", "Some(proxy) => shim_clone_opt_name(&proxy.cluster),", count=1)
    f.apply_overlay('replace_failed_proxy')
    return f


def build(U):
    broker_common.head(U)
    T = takeover.parts(vlib.Unit('takeover-contract-only'))
    types = broker_common.types(U)
    spec = open(vlib.VERIF + '/verus/replace_proxy_spec.rs').read()
    spec = spec.replace('//@@SET_EPOCH@@', set_epoch(U).text)
    spec = spec.replace('//@@UPDATE_STRUCT@@', takeover.UPDATE_STRUCT)
    spec = spec.replace('//@@NEW_FREE_CONTRACT@@', new_free_proxy.NEW_FREE_HEADER)
    spec = spec.replace('//@@FREE_SPEC@@', free_proxy.ALLOCATABLE_SPEC + new_free_proxy.INDEX_INV_SPEC)
    spec = spec.replace('//@@TAKEOVER_CONTRACT@@', "    // verified in unit `takeover`; here only its contract is visible\n    #[verifier::external_body]\n" + T['contract'] + "    { unimplemented!() }\n")
    U.add(types + T['specs'] + spec)
    U.add_fn(function(U))
    U.add("}\n} // verus!\nfn main() {}\n")
    U.trust('generate_new_free_proxy through its contract proved in unit new_free_proxy; get_proxy_by_address by assumed contract (Some iff registered); index invariant of the store as precondition',
            'derived Clone of ProxyResource / Option<ClusterName> is structural')
