// ---- C04 over histories: what any sequence of steps that each satisfy the per-mutator contract guarantees ----
pub open spec fn versioned(o: MetaStore, n: MetaStore) -> bool {
    &&& n.global_epoch >= o.global_epoch
    &&& inv_epoch(n)
    // a cluster that exists before and after: its epoch never decreases and strictly increases when its content (chunks, config, name) differs
    &&& forall|k: ClusterName| o.clusters@.contains_key(k) && n.clusters@.contains_key(k) ==>
            (#[trigger] n.clusters@[k]).epoch >= o.clusters@[k].epoch && (!content_eq(o.clusters@[k], n.clusters@[k]) ==> n.clusters@[k].epoch > o.clusters@[k].epoch)
    // a cluster that did not exist before is stamped above everything served before
    &&& forall|k: ClusterName| !o.clusters@.contains_key(k) && n.clusters@.contains_key(k) ==> (#[trigger] n.clusters@[k]).epoch > o.global_epoch
    // the set of clusters or the proxy table differs => the global epoch (what free proxies are served) is strictly larger
    &&& (o.clusters@.dom() != n.clusters@.dom() || o.all_proxies@ != n.all_proxies@) ==> n.global_epoch > o.global_epoch
}
pub proof fn lemma_versioned_refl(s: MetaStore)
    requires inv_epoch(s)
    ensures versioned(s, s)
{ }
// one step under the per-mutator contract
pub proof fn lemma_step_versioned(o: MetaStore, n: MetaStore)
    requires inv_epoch(o), epoch_contract(o, n)
    ensures versioned(o, n)
{
    assert forall|k: ClusterName| o.clusters@.contains_key(k) && n.clusters@.contains_key(k) implies
        (#[trigger] n.clusters@[k]).epoch >= o.clusters@[k].epoch && (!content_eq(o.clusters@[k], n.clusters@[k]) ==> n.clusters@[k].epoch > o.clusters@[k].epoch) by {
        assert(o.clusters@[k].epoch <= o.global_epoch);
    }
}
pub proof fn lemma_content_eq_trans(a: ClusterStore, b: ClusterStore, c: ClusterStore)
    requires content_eq(a, b), content_eq(b, c) ensures content_eq(a, c)
{ }
pub proof fn lemma_versioned_trans(a: MetaStore, b: MetaStore, c: MetaStore)
    requires inv_epoch(a), versioned(a, b), versioned(b, c)
    ensures versioned(a, c)
{
    assert forall|k: ClusterName| a.clusters@.contains_key(k) && c.clusters@.contains_key(k) implies
        (#[trigger] c.clusters@[k]).epoch >= a.clusters@[k].epoch && (!content_eq(a.clusters@[k], c.clusters@[k]) ==> c.clusters@[k].epoch > a.clusters@[k].epoch) by {
        assert(a.clusters@[k].epoch <= a.global_epoch);
        if b.clusters@.contains_key(k) {
            assert(b.clusters@[k].epoch >= a.clusters@[k].epoch);
            if !content_eq(a.clusters@[k], c.clusters@[k]) {
                if content_eq(a.clusters@[k], b.clusters@[k]) && content_eq(b.clusters@[k], c.clusters@[k]) { lemma_content_eq_trans(a.clusters@[k], b.clusters@[k], c.clusters@[k]); }
            }
        } else {
            // removed and created again in between: stamped above the old global epoch
            assert(c.clusters@[k].epoch > b.global_epoch);
        }
    }
    assert forall|k: ClusterName| !a.clusters@.contains_key(k) && c.clusters@.contains_key(k) implies (#[trigger] c.clusters@[k]).epoch > a.global_epoch by {
        if b.clusters@.contains_key(k) { assert(b.clusters@[k].epoch > a.global_epoch); assert(c.clusters@[k].epoch >= b.clusters@[k].epoch); }
        else { assert(c.clusters@[k].epoch > b.global_epoch); }
    }
    if a.clusters@.dom() != c.clusters@.dom() || a.all_proxies@ != c.all_proxies@ {
        if a.clusters@.dom() == b.clusters@.dom() && a.all_proxies@ == b.all_proxies@ { assert(b.clusters@.dom() != c.clusters@.dom() || b.all_proxies@ != c.all_proxies@); }
    }
}
// every finite history: h[0] satisfies the epoch invariant and each consecutive pair the per-mutator contract
pub open spec fn history_ok(h: Seq<MetaStore>) -> bool {
    h.len() >= 1 && inv_epoch(h[0]) && forall|i: int| 0 <= i < h.len() - 1 ==> epoch_contract(#[trigger] h[i], h[i + 1])
}
pub proof fn lemma_history(h: Seq<MetaStore>, i: int, j: int)
    requires history_ok(h), 0 <= i <= j < h.len()
    ensures inv_epoch(h[i]), versioned(h[i], h[j])
    decreases j
{
    if j == 0 { lemma_versioned_refl(h[0]); }
    else if i == j {
        lemma_history(h, 0, j - 1);
        assert(epoch_contract(h[j - 1], h[j]));
        lemma_versioned_refl(h[j]);
    } else {
        lemma_history(h, i, j - 1);
        lemma_history(h, j - 1, j - 1);
        assert(epoch_contract(h[j - 1], h[j]));
        lemma_step_versioned(h[j - 1], h[j]);
        lemma_versioned_trans(h[i], h[j - 1], h[j]);
    }
}
