use vstd::prelude::*;
use std::collections::HashSet;
verus! {

pub struct Range(pub usize, pub usize);
pub struct RangeList(pub Vec<Range>);
pub struct MigrationMeta { pub epoch: u64, pub src_proxy_address: String, pub src_node_address: String, pub dst_proxy_address: String, pub dst_node_address: String }
pub enum SlotRangeTag { Migrating(MigrationMeta), Importing(MigrationMeta), None }
pub struct SlotRange { pub range_list: RangeList, pub tag: SlotRangeTag }

#[derive(Clone, Copy, PartialEq, Eq)]
pub enum ChunkRolePosition { Normal, FirstChunkMaster, SecondChunkMaster }

pub struct MigrationMetaStore { pub epoch: u64, pub src_chunk_index: usize, pub src_chunk_part: usize, pub dst_chunk_index: usize, pub dst_chunk_part: usize }
pub struct MigrationSlotRangeStore { pub range_list: RangeList, pub is_migrating: bool, pub meta: MigrationMetaStore }

pub struct ChunkStore {
    pub role_position: ChunkRolePosition,
    pub stable_slots: [Option<SlotRange>; 2],
    pub migrating_slots: [Vec<MigrationSlotRangeStore>; 2],
    pub proxy_addresses: [String; 2],
    pub hosts: [String; 2],
    pub node_addresses: [String; 4],
}
pub struct ClusterStore { pub epoch: u64, pub chunks: Vec<ChunkStore> }

pub enum MetaStoreError { ClusterNotFound }

fn takeover_master_body(cluster: &mut ClusterStore, failed_proxy_address: String, new_epoch: u64) -> Result<(), MetaStoreError>
{
        let mut peer_position = HashSet::new();

        for chunk in cluster.chunks.iter_mut() {
            if chunk.proxy_addresses[0] == failed_proxy_address {
                if chunk.role_position == ChunkRolePosition::SecondChunkMaster {
                    return Ok(());
                }
                chunk.role_position = ChunkRolePosition::SecondChunkMaster;

                for migrating_slot_range in chunk.migrating_slots[0].iter_mut() {
                    migrating_slot_range.meta.epoch = new_epoch;
                    peer_position.insert((
                        migrating_slot_range.meta.src_chunk_index,
                        migrating_slot_range.meta.src_chunk_part,
                    ));
                    peer_position.insert((
                        migrating_slot_range.meta.dst_chunk_index,
                        migrating_slot_range.meta.dst_chunk_part,
                    ));
                }
                break;
            } else if chunk.proxy_addresses[1] == failed_proxy_address {
                if chunk.role_position == ChunkRolePosition::FirstChunkMaster {
                    return Ok(());
                }
                chunk.role_position = ChunkRolePosition::FirstChunkMaster;

                for migrating_slot_range in chunk.migrating_slots[1].iter_mut() {
                    migrating_slot_range.meta.epoch = new_epoch;
                    peer_position.insert((
                        migrating_slot_range.meta.src_chunk_index,
                        migrating_slot_range.meta.src_chunk_part,
                    ));
                    peer_position.insert((
                        migrating_slot_range.meta.dst_chunk_index,
                        migrating_slot_range.meta.dst_chunk_part,
                    ));
                }
                break;
            }
        }

        for chunk in cluster.chunks.iter_mut() {
            for migrating_slots in chunk.migrating_slots.iter_mut() {
                for migrating_slot_range in migrating_slots.iter_mut() {
                    let src_index = migrating_slot_range.meta.src_chunk_index;
                    let src_part = migrating_slot_range.meta.src_chunk_part;
                    let dst_index = migrating_slot_range.meta.dst_chunk_index;
                    let dst_part = migrating_slot_range.meta.dst_chunk_part;
                    if peer_position.contains(&(src_index, src_part))
                        || peer_position.contains(&(dst_index, dst_part))
                    {
                        migrating_slot_range.meta.epoch = new_epoch;
                    }
                }
            }
        }
        cluster.epoch = new_epoch;
        Ok(())
}

} // verus!
fn main() {}
