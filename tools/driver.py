#!/usr/bin/env python3
# ./check <id> quick|thorough            decide one property on /repo's current working tree
# ./check <id> --replay <file>           re-run a recorded replay against the real code
# ./check --setup                        warm the tools (MANIFEST.setup_cmd)
# ./check --rebaseline [unit ...]        (maintainer only) rewrite contracts/baseline.json from the current tree
#
# exit 0: every obligation discharged (KNOWN-FINDING lines allowed)
# exit 1: + "VIOLATION property=<id> replay=<path>"
# exit 2: undecided only (lost anchor, unsupported construct, rlimit, tool error) - never an alarm
import atexit, concurrent.futures, importlib, json, os, re, shutil, subprocess, sys, time, traceback

HERE = os.path.dirname(os.path.abspath(__file__))
VERIF = os.path.dirname(HERE)
sys.path.insert(0, HERE)
sys.path.insert(0, VERIF)
import vlib
from vlib import Undecided
import kanilib
import registry

OUT = os.environ.get('VERIF_OUT', VERIF)     # evidence/ and replays/ go here (self-tests redirect it)
SCRATCH = os.path.join(os.environ.get('VERIF_SCRATCH', '/var/tmp'), 'undermoon-verif.%d' % os.getpid())


def cleanup():
    shutil.rmtree(SCRATCH, ignore_errors=True)


atexit.register(cleanup)


def load_baseline():
    p = os.path.join(VERIF, 'contracts', 'baseline.json')
    try:
        return json.load(open(p))
    except OSError:
        return {}


def load_findings():
    """known_findings.txt: 'finding: property=<id> obligation=<key> [input=<text>] :: what fails' / 'fixed: ...'"""
    res = []
    p = os.path.join(VERIF, 'known_findings.txt')
    if not os.path.exists(p):
        return res
    for l in open(p):
        l = l.strip()
        if not l.startswith('finding:'):
            continue
        m = re.match(r'finding:\s+property=(\S+)\s+obligation=(\S+)(?:\s+input=(\S+))?\s*(?:::\s*(.*))?$', l)
        if m:
            res.append({'property': m.group(1), 'obligation': m.group(2), 'input': m.group(3), 'what': m.group(4) or ''})
    return res


# ------------------------------------------------------------------ Verus leg
def fn_at_line(text_lines, line):
    for i in range(min(line, len(text_lines)) - 1, -1, -1):
        m = re.search(r'\bfn\s+(\w+)', text_lines[i])
        if m and not text_lines[i].lstrip().startswith('//'):
            return m.group(1)
    return '?'


def describe_diag(d, unit_name, lines, linemap):
    spans = d.get('spans') or []
    prim = [s for s in spans if s.get('is_primary')] or spans
    line = prim[0]['line_start'] if prim else 0
    clause = ''
    if prim and prim[0].get('text'):
        clause = ' '.join(t['text'].strip() for t in prim[0]['text'])[:160]
    # function: prefer the non-primary span (the body location) to find the enclosing fn
    body_lines = [s['line_start'] for s in spans if not s.get('is_primary')] or [line]
    fn = fn_at_line(lines, max(body_lines + [line]) if 'postcondition' in d.get('message', '') else line)
    where = 'spec'
    for (a, b, f) in linemap:
        if any(a <= bl <= b for bl in body_lines + [line]):
            where = '%s:%d' % (f.file, f.line)
            fn = f.name
            break
    return {'unit': unit_name, 'fn': fn, 'kind': d.get('message', ''), 'clause': clause, 'at': where,
            'key': '%s/%s/%s' % (unit_name, fn, re.sub(r'[^a-z]+', '-', d.get('message', '').lower()).strip('-')),
            'rendered': d.get('rendered', '')}


def run_unit(unit_name, tier, seed):
    """returns dict: status in ok|violation|undecided, details"""
    t0 = time.time()
    out = {'unit': unit_name, 'status': 'undecided', 'failures': [], 'notes': [], 'functions': [], 'rules': [], 'scans': [],
           'verified': 0, 'errors': 0, 'trusted': [], 'smt_ms': 0, 'wall_s': 0, 'func_times': [], 'vacuity': []}
    try:
        mod = importlib.import_module('units.' + unit_name)
        U = vlib.Unit(unit_name)
        mod.build(U)
        text, linemap = U.render()
    except Undecided as e:
        out['notes'].append('extraction undecided: %s' % e)
        out['wall_s'] = time.time() - t0
        return out
    except Exception as e:
        out['notes'].append('extractor crashed: %s' % traceback.format_exc()[-800:])
        out['wall_s'] = time.time() - t0
        return out
    out['functions'] = U.log.functions
    out['rules'] = U.log.rules
    out['scans'] = U.log.scans
    bad_scans = [s for s in U.log.scans if not s['ok']]
    os.makedirs(SCRATCH, exist_ok=True)
    path = os.path.join(SCRATCH, unit_name + '.rs')
    open(path, 'w').write(text)
    keep = os.environ.get('VERIF_KEEP')
    if keep:
        os.makedirs(keep, exist_ok=True)
        open(os.path.join(keep, unit_name + '.rs'), 'w').write(text)
    out['trusted'] = vlib.scan_trusted(text) + list(U.trusted)
    out['unit_lines'] = text.count('\n')
    lines = text.split('\n')
    rlimit = 20 if tier == 'quick' else 40
    rlimit = max(rlimit, getattr(mod, 'RLIMIT', 0))     # a unit may ask for a larger (fixed) solver budget; stated in its builder
    res = vlib.run_verus(path, rlimit=rlimit)
    # resolution error caused by a ghost hint that names a variable the function no longer has: drop those hints
    # (hints never add assumptions) and retry - the obligations then fail or pass on their own merits
    import threading, overlay as _ov
    for _attempt in range(3):
        if res['status'] != 'tool-error':
            break
        idents = set()
        for d in res['diags']:
            m = re.search(r'cannot find (?:value|function|type) `(\w+)`', d.get('message', ''))
            if m:
                idents.add(m.group(1))
        tid = threading.get_ident()
        if not idents:
            # syntax error: if it sits in (or right next to) a hint inserted by an overlay, drop that hint and retry
            dropped = False
            for d in res['diags']:
                for sp in d.get('spans') or []:
                    ln = sp.get('line_start', 0)
                    for (a, b, fobj) in linemap:
                        if not (a <= ln <= b) or not getattr(fobj, 'overlay_trace', None):
                            continue
                        rel = ln - a
                        best = min(fobj.overlay_trace, key=lambda t: 0 if t[1] <= rel <= t[2] else min(abs(rel - t[1]), abs(rel - t[2])))
                        if (0 if best[1] <= rel <= best[2] else min(abs(rel - best[1]), abs(rel - best[2]))) <= 3:
                            key = (tid, fobj.overlay_name)
                            if best[0] not in _ov.DROP_OPS.get(key, set()):
                                _ov.DROP_OPS.setdefault(key, set()).add(best[0])
                                dropped = True
            if not dropped:
                break
            idents = {'<syntax error in a hint>'}
        else:
            _ov.DROP[tid] = set(_ov.DROP.get(tid, ())) | idents
        try:
            U = vlib.Unit(unit_name)
            mod.build(U)
            text, linemap = U.render()
        except Undecided as e:
            out['notes'].append('extraction undecided on retry: %s' % e)
            break
        finally:
            pass
        open(path, 'w').write(text)
        lines = text.split('\n')
        out['notes'].append('hints naming missing identifier(s) %s dropped' % sorted(idents))
        res = vlib.run_verus(path, rlimit=rlimit)
    _ov.DROP.pop(threading.get_ident(), None)
    for _k in [k for k in _ov.DROP_OPS if k[0] == threading.get_ident()]:
        _ov.DROP_OPS.pop(_k, None)
    out['checker_cmd'] = res['cmd']
    attempts = [res]
    if res['status'] == 'failed':
        # one retry with another Z3 seed and doubled rlimit filters flaky proofs
        res2 = vlib.run_verus(path, seed=(seed % 1000) + 7, rlimit=rlimit * 2)
        attempts.append(res2)
        if res2['status'] == 'ok':
            out['notes'].append('first attempt failed, retry with seed/rlimit passed (flaky proof)')
            res = res2
        else:
            res = res2
    out['verified'] = res['verified']
    out['errors'] = res['errors']
    out['smt_ms'] = res.get('smt_ms', 0)
    out['func_times'] = [{'function': f['function'], 'mode': f['mode'], 'time_us': f['time_us'], 'ok': f['success']} for f in res['funcs']]
    base = load_baseline().get(unit_name)
    if res['status'] == 'ok':
        verified_fns = sorted(f['function'].split('::', 1)[-1] for f in res['funcs'] if f['success'])
        out['verified_fns'] = verified_fns
        if res['verified'] == 0:
            out['notes'].append('vacuity: zero obligations generated')
        elif base and not set(base['functions']) <= set(verified_fns):
            out['notes'].append('obligations missing wrt baseline: %s' % sorted(set(base['functions']) - set(verified_fns)))
        elif base and res['verified'] < base['verified']:
            out['notes'].append('fewer obligations (%d) than baseline (%d)' % (res['verified'], base['verified']))
        elif bad_scans:
            for s in bad_scans:
                out['failures'].append({'unit': unit_name, 'fn': s['file'], 'kind': 'call-site scan failed', 'clause': s['fact'], 'at': s['file'],
                                        'key': '%s/scan/%s' % (unit_name, re.sub(r'[^a-z0-9]+', '-', s['fact'].lower())[:40]), 'rendered': json.dumps(s)})
            out['status'] = 'violation'
        else:
            out['status'] = 'ok'
    elif res['status'] == 'failed':
        diags = [d for d in res['diags'] if d.get('spans')]
        real = [d for d in diags if not vlib.is_resource_diag(d)]
        if not real:
            out['notes'].append('only resource-limit failures: ' + '; '.join(d.get('message', '') for d in diags)[:300])
        else:
            for d in real:
                out['failures'].append(describe_diag(d, unit_name, lines, linemap))
            out['status'] = 'violation'
    else:
        msgs = [d.get('message', '') for d in res['diags']][:5]
        out['notes'].append('verus %s: %s %s' % (res['status'], msgs, res['raw_err'][-600:] if not msgs else ''))
    # ---- vacuity guard: every must-fail lemma of the unit must fail, and nothing else
    mf = getattr(mod, 'MUST_FAIL', None)
    if out['status'] == 'ok' and mf:
        vtext = text.replace('} // verus!', mf + '\n} // verus!', 1) if '} // verus!' in text else None
        if vtext is None:
            out['status'] = 'undecided'
            out['notes'].append('vacuity: cannot place must-fail lemmas')
        else:
            vpath = os.path.join(SCRATCH, unit_name + '_vac.rs')
            open(vpath, 'w').write(vtext)
            vres = vlib.run_verus(vpath, rlimit=rlimit)
            names = re.findall(r'fn\s+(must_fail_\w+)', mf)
            failed = set(f['function'].split('::')[-1] for f in vres['funcs'] if f['success'] is False)
            out['vacuity'] = [{'lemma': n, 'fails_as_required': n in failed} for n in names]
            out['smt_ms'] += vres.get('smt_ms', 0)
            if set(names) != failed:
                out['status'] = 'undecided'
                out['notes'].append('vacuity guard: expected exactly %s to fail, got %s (%s)' % (sorted(names), sorted(failed), vres['status']))
    out['wall_s'] = time.time() - t0
    return out


# ------------------------------------------------------------------ replay files
def write_replay(pid, body):
    d = os.path.join(OUT, 'replays', pid)
    os.makedirs(d, exist_ok=True)
    name = '%s_%s.json' % (time.strftime('%Y%m%dT%H%M%S'), re.sub(r'[^A-Za-z0-9_.-]+', '_', body.get('obligation', 'x'))[:80])
    p = os.path.join(d, name)
    json.dump(body, open(p, 'w'), indent=1)
    return p


def run_replay_file(path):
    body = json.load(open(path))
    print('replay of %s: obligation %s' % (body.get('property'), body.get('obligation')))
    rp = body.get('real_code_replay')
    if not rp:
        print('no failing input recorded (no-failing-input-found); verifier output follows')
        print(body.get('verifier_output', '')[:4000])
        return 0
    r = kanilib.replay_on_real_code(rp['template'], rp['input'], SCRATCH)
    print(r['output'][-3000:])
    print('real code %s the recorded input' % ('FAILS on' if r['failed'] else 'passes on'))
    return 1 if r['failed'] else 0


# ------------------------------------------------------------------ property driver
def decide(pid, tier, seed):
    t0 = time.time()
    P = registry.PROPS[pid]
    units = list(P.get('verus', []))
    if tier == 'thorough':
        units += P.get('verus_thorough', [])
    kharn = [] if os.environ.get('VERIF_SKIP_KANI') else list(P.get('kani', []))
    if tier == 'thorough':
        kharn += P.get('kani_thorough', [])
    results = []
    kres = []
    with concurrent.futures.ThreadPoolExecutor(max_workers=12) as ex:
        futs = [ex.submit(run_unit, u, tier, seed) for u in units]
        kfuts = [ex.submit(kanilib.run_harness_group, k, tier, SCRATCH) for k in kharn]
        for f in futs:
            results.append(f.result())
        for f in kfuts:
            kres.append(f.result())
    thorough_report = {}
    extra_undecided = []
    if tier == 'thorough' and not os.environ.get('VERIF_SELFTEST_CHILD'):
        thorough_report, extra_undecided = thorough_extras(pid, P, units, seed)
    findings = [f for f in load_findings() if f['property'] == pid]
    violations = []
    known = []
    undecided = []
    for r in results:
        if r['status'] == 'undecided':
            undecided.append('%s: %s' % (r['unit'], ' | '.join(r['notes'])))
        for fl in r['failures']:
            violations.append({'leg': 'verus', **fl})
    for k in kres:
        if k['status'] == 'undecided':
            undecided.append('kani %s: %s' % (k['group'], ' | '.join(k['notes'])))
        for h in k['harnesses']:
            if h['status'] == 'refuted':
                violations.append({'leg': 'kani', 'unit': k['group'], 'fn': h['harness'], 'kind': 'kani harness refuted', 'clause': h.get('failed_check', ''),
                                   'at': h.get('target', ''), 'key': 'kani/%s/%s' % (k['group'], h['harness']), 'rendered': h.get('output_tail', ''),
                                   'cex': h.get('cex'), 'replay_template': h.get('replay_template')})
    # pair Verus failures with a Kani counterexample of the same group when there is one
    cex_by_target = {}
    for v in violations:
        if v['leg'] == 'kani' and v.get('cex') is not None:
            for t in (v.get('at') or '').split(','):
                cex_by_target[t.strip()] = v
    vio_lines = []
    seen_v = set()
    for v in violations:
        if (v['key'], v['clause']) in seen_v:
            continue
        seen_v.add((v['key'], v['clause']))
        inp = None
        if v['leg'] == 'kani':
            inp = v.get('cex')
        elif v['fn'] in cex_by_target:
            inp = cex_by_target[v['fn']].get('cex')
        inp_s = kanilib.input_to_text(inp) if inp is not None else None
        kf = [f for f in findings if f['obligation'] == v['key'] and (f['input'] is None or inp_s is None or f['input'] == inp_s)]
        if kf:
            known.append((v, kf[0]))
            continue
        body = {'property': pid, 'obligation': '%s/%s@%s' % (v['key'], v['clause'], v['at']), 'key': v['key'], 'leg': v['leg'],
                'verifier_output': v['rendered'], 'repo': vlib.REPO}
        tail = ' no-failing-input-found'
        tmpl = v.get('replay_template') or (cex_by_target.get(v['fn'], {}).get('replay_template') if v['leg'] == 'verus' else None)
        if inp is not None and tmpl:
            rr = kanilib.replay_on_real_code(tmpl, inp, SCRATCH)
            body['real_code_replay'] = {'template': tmpl, 'input': inp, 'input_text': inp_s, 'failed_on_real_code': rr['failed'], 'output': rr['output'][-3000:], 'cmd': rr['cmd']}
            if rr['failed']:
                tail = ''
        path = write_replay(pid, body)
        vio_lines.append('VIOLATION property=%s replay=%s obligation=%s%s' % (pid, path, v['key'], tail))
    # kani violations whose Verus twin also failed are reported once each (both lines are fine)
    undecided.extend(extra_undecided)
    wall = time.time() - t0
    write_evidence(pid, tier, seed, P, results, kres, violations, known, undecided, wall, thorough_report)
    for v, f in known:
        print('KNOWN-FINDING: property=%s %s %s' % (pid, f['obligation'], f['what']))
    for l in vio_lines:
        # the harness greps for the prefix; the suffix words must end the line
        m = re.match(r'(VIOLATION property=\S+ replay=\S+) obligation=(\S+)( no-failing-input-found)?$', l)
        print('%s%s' % (m.group(1), m.group(3) or ''))
        print('  failed obligation: %s' % m.group(2))
    if vio_lines:
        return 1
    if undecided:
        for u in undecided:
            print('UNDECIDED: %s' % u)
        return 2
    tot = sum(r['verified'] for r in results)
    kt = sum(len(k['harnesses']) for k in kres)
    print('OK property=%s tier=%s verus_obligations=%d kani_harnesses=%d wall=%.1fs' % (pid, tier, tot, kt, wall))
    return 0


def thorough_extras(pid, P, units, seed):
    """thorough tier only: proof stability (two more Z3 seeds, doubled rlimit), liveness of the check against the
    deliberate edits of selftest_cases.py for this property (scratch copies), translation validation of the D-rules
    by the project's own suite (tools/rulecheck.py).  Problems here are machinery problems: exit 2, never an alarm."""
    rep = {}
    und = []
    # 1. stability
    stab = []
    for u in units:
        p = os.path.join(SCRATCH, u + '.rs')
        if not os.path.exists(p):
            continue
        for k in (1, 2):
            r = vlib.run_verus(p, seed=(seed + 17 * k) % 1000 + k, rlimit=max(40, getattr(importlib.import_module('units.' + u), 'RLIMIT', 0)))
            stab.append({'unit': u, 'seed': (seed + 17 * k) % 1000 + k, 'status': r['status'], 'verified': r['verified'], 'errors': r['errors']})
            if r['status'] != 'ok':
                und.append('stability: unit %s fails with another Z3 seed (%s)' % (u, r['status']))
    rep['stability_runs'] = stab
    # 2. liveness against deliberate edits
    try:
        import selftest_cases
        sys.path.insert(0, HERE)
        import selftest as st
        cases = [c for c in selftest_cases.CASES if c[1] == pid]
        live = []
        with concurrent.futures.ThreadPoolExecutor(max_workers=4) as ex:
            for name, _pid, expect, got, tail in ex.map(st.run, cases):
                ok = (got == expect) or (expect == 'not-violation' and got != 'violation')
                # an edit the check could not decide (solver budget under load, lost anchor) is not silent: it is recorded, but only a
                # MISSED edit (expected violation, got ok) or an alarm on a harmless edit makes the machinery suspect
                if not ok and expect == 'violation' and got == 'undecided':
                    live.append({'case': name, 'expect': expect, 'got': got, 'note': 'undecided in this run (not silent); counted as weak, not as a failure of the machinery'})
                    continue
                live.append({'case': name, 'expect': expect, 'got': got})
                if not ok:
                    und.append('self-test %s: expected %s got %s' % (name, expect, got))
        rep['selftest'] = live
    except Exception as e:
        und.append('self-test crashed: %s' % e)
    # 3. translation validation of the D-rules (only for properties whose units use them)
    if P.get('rulecheck'):
        r = subprocess.run([sys.executable, os.path.join(HERE, 'rulecheck.py')], capture_output=True, text=True)
        rep['rulecheck'] = [l for l in r.stdout.splitlines() if l.startswith('RULECHECK')]
        if r.returncode != 0:
            und.append('rulecheck: the rewritten functions do not pass the project suite (%d)' % r.returncode)
    return rep, und


def write_evidence(pid, tier, seed, P, results, kres, violations, known, undecided, wall, thorough_report=None):
    obligations = sum(r['verified'] + r['errors'] for r in results) + sum(len(k['harnesses']) for k in kres)
    discharged = sum(r['verified'] for r in results) + sum(1 for k in kres for h in k['harnesses'] if h['status'] == 'proved')
    trusted = sorted(set(t for r in results for t in r['trusted']) | set(t for k in kres for t in k.get('trusted', [])))
    samples = []
    for r in results:
        for ft in r['func_times'][:400]:
            if ft['mode'] in ('exec', 'proof'):
                samples.append('verus %s::%s [%s] %s in %d us' % (r['unit'], ft['function'].split('::', 1)[-1], ft['mode'], 'discharged' if ft['ok'] else 'FAILED', ft['time_us'] or 0))
    for k in kres:
        for h in k['harnesses']:
            samples.append('kani %s::%s [%s] %s in %.1fs; domain: %s' % (k['group'], h['harness'], h.get('kind', 'bounded'), h['status'], h.get('wall_s', 0), h.get('domain', '')))
    level = P['level']
    expl = P.get('explanation', '')
    cov = {
        'obligations': obligations,
        'discharged': discharged,
        'checker_cmd': '; '.join(sorted(set([r.get('checker_cmd', 'verus <unit>.rs') for r in results] + [k.get('cmd', '') for k in kres if k.get('cmd')]))),
        'trusted_base': trusted,
        'samples': samples[:60],
        'explanation': expl,
        'functions_under_contract': [dict(f, unit=r['unit']) for r in results for f in r['functions']],
        'extraction_rules_applied': [dict(x, unit=r['unit']) for r in results for x in r['rules']],
        'call_site_scans': [dict(x, unit=r['unit']) for r in results for x in r['scans']],
        'back_ends': {'verus': {'units': [{'unit': r['unit'], 'status': r['status'], 'verified': r['verified'], 'errors': r['errors'], 'smt_ms': r['smt_ms'], 'wall_s': round(r['wall_s'], 2), 'unit_lines': r.get('unit_lines'), 'vacuity_guards': r['vacuity'], 'notes': r['notes']} for r in results]},
                      'kani': {'groups': [{'group': k['group'], 'status': k['status'], 'wall_s': round(k.get('wall_s', 0), 1), 'harnesses': [{kk: vv for kk, vv in h.items() if kk not in ('output_tail',)} for h in k['harnesses']], 'notes': k['notes']} for k in kres]}},
        'bounded_stand_ins': [h['harness'] + ': ' + h.get('domain', '') for k in kres for h in k['harnesses'] if h.get('kind') == 'bounded'],
        'not_under_contract': P.get('not_under_contract', []),
        'failed_obligations': [{'key': v['key'], 'clause': v['clause'], 'at': v['at'], 'kind': v['kind']} for v in violations],
        'known_findings_matched': [f['obligation'] for _, f in known],
        'undecided': undecided,
        'thorough_extras': thorough_report or {},
    }
    ev = {'property_id': pid, 'tier': tier, 'seed': seed, 'level': level, 'coverage': cov,
          'assumptions': P.get('assumptions', []) + trusted, 'wall_s': round(wall, 2), 'violations': len(violations) - len(known)}
    os.makedirs(os.path.join(OUT, 'evidence'), exist_ok=True)
    json.dump(ev, open(os.path.join(OUT, 'evidence', pid + '.json'), 'w'), indent=1)


def rebaseline(units):
    base = load_baseline()
    allu = sorted(set(u for P in registry.PROPS.values() for u in P.get('verus', []) + P.get('verus_thorough', [])))
    for u in (units or allu):
        r = run_unit(u, 'quick', 0)
        if r['status'] != 'ok' and not r.get('verified_fns'):
            print('unit %s not ok: %s %s' % (u, r['notes'], [f['key'] for f in r['failures']]))
            continue
        base[u] = {'verified': r['verified'], 'functions': r['verified_fns']}
        print('unit %s: %d verified' % (u, r['verified']))
    os.makedirs(os.path.join(VERIF, 'contracts'), exist_ok=True)
    json.dump(base, open(os.path.join(VERIF, 'contracts', 'baseline.json'), 'w'), indent=1, sort_keys=True)


def main():
    a = sys.argv[1:]
    if not a:
        print(__doc__ or 'usage: check <id> quick|thorough')
        return 2
    if a[0] == '--setup':
        return kanilib.setup(SCRATCH)
    if a[0] == '--rebaseline':
        rebaseline(a[1:])
        return 0
    pid = a[0]
    if pid not in registry.PROPS:
        print('unknown or not-claimed property %s' % pid)
        return 2
    if len(a) >= 3 and a[1] == '--replay':
        return run_replay_file(a[2])
    tier = a[1] if len(a) > 1 else os.environ.get('VERIF_TIER', 'quick')
    seed = int(os.environ.get('VERIF_SEED', '0') or 0)
    return decide(pid, tier, seed)


if __name__ == '__main__':
    sys.exit(main())
