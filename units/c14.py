# C14 (kernel): should_ignore_slots (src/proxy/cluster.rs) - which side of a migration advertises a range
import re
import vlib
from units import broker_common

def build(U):
    P = U.src('src/proxy/cluster.rs')
    T = U.src('src/migration/task.rs')
    C = U.src('src/common/cluster.rs')
    U.add('''use vstd::prelude::*;
use std::collections::HashMap;
verus! {
broadcast use vstd::std_specs::hash::group_hash_axioms;
''')
    for k, n in [('struct', 'Range'), ('struct', 'RangeList')]:
        U.add('#[derive(PartialEq, Eq, Hash)]\n' + vlib.pub_fields(broker_common.strip(C.item(k, n))) + '\n')
    for k, n in [('struct', 'MigrationMeta'), ('enum', 'SlotRangeTag'), ('struct', 'SlotRange')]:
        U.add(vlib.pub_fields(broker_common.strip(C.item(k, n))) + '\n')
    st = broker_common.strip(T.item('enum', 'MigrationState'))
    U.add('#[derive(PartialEq, Eq, Copy, Clone, Structural)]\n' + st + '\n')
    g = C.fn('get_range_list', within=r'impl SlotRange\b')
    g.header("    pub fn get_range_list(&self) -> (r: &RangeList)\n        ensures *r == self.range_list")
    U.add('impl SlotRange {\n'); U.add_fn(g); U.add('}\n')
    U.add('''
// statement-level spec (C14): a migrating slot is advertised at its source before the switch handshake
// (state PreCheck) and at its destination afterwards; a stable range is always advertised
pub open spec fn spec_ignore(tag: SlotRangeTag, st: Option<MigrationState>) -> bool {
    match tag {
        SlotRangeTag::Migrating(_) => st != Some(MigrationState::PreCheck),
        SlotRangeTag::Importing(_) => st == Some(MigrationState::PreCheck),
        SlotRangeTag::None => false,
    }
}
pub open spec fn state_of(m: Map<RangeList, MigrationState>, rl: RangeList) -> Option<MigrationState> { if m.contains_key(rl) { Some(m[rl]) } else { None } }
''')
    f = P.fn('should_ignore_slots')
    f.r1_logging()
    f.header("fn should_ignore_slots(\n    range: &SlotRange,\n    migration_states: &HashMap<RangeList, MigrationState>,\n) -> (r: bool)\n"
             "    requires vstd::std_specs::hash::obeys_key_model::<RangeList>()\n    ensures r == spec_ignore(range.tag, state_of(migration_states@, range.range_list))")
    U.add_fn(f)
    U.add('''
// exactly one side of a migration advertises the range, whatever the state (or no state: a bystander)
pub proof fn lemma_exclusive(m1: MigrationMeta, m2: MigrationMeta, st: Option<MigrationState>)
    ensures spec_ignore(SlotRangeTag::Migrating(m1), st) != spec_ignore(SlotRangeTag::Importing(m2), st),
            !spec_ignore(SlotRangeTag::None, st),
            st is None ==> spec_ignore(SlotRangeTag::Migrating(m1), st) && !spec_ignore(SlotRangeTag::Importing(m2), st),
{}
''')
    U.add("} // verus!\nfn main() {}\n")
    U.trust('derived Hash/Eq of RangeList obey the key model (precondition obeys_key_model::<RangeList>())')

MUST_FAIL = '''
proof fn must_fail_c14_both_advertise(m1: MigrationMeta, m2: MigrationMeta, st: Option<MigrationState>)
    ensures spec_ignore(SlotRangeTag::Migrating(m1), st) == spec_ignore(SlotRangeTag::Importing(m2), st) {}
'''
