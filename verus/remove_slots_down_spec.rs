// ---- scale-down start (remove_slots_from_src_to_scale_down): the trailing chunks give all their slots to the first n chunks ----
pub open spec fn half_of(cs: Seq<ChunkStore>, j: int) -> Option<SlotRange> { cs[j / 2].stable_slots[j % 2] }
pub open spec fn dfin(j: int, avg: int, rem: int) -> int { avg + (if j < rem { 1int } else { 0int }) }
pub open spec fn all_some_ok(cs: Seq<ChunkStore>) -> bool {
    forall|i: int, p: int| 0 <= i < cs.len() && 0 <= p < 2 ==> ((#[trigger] cs[i].stable_slots[p]) matches Some(sr) && rl_ok(sr.range_list))
}
// no kept master holds more than its final share (a balanced cluster: every master holds the old average or one more, and the new shares are not smaller); it may hold exactly its share
pub open spec fn dst_have_room(cs: Seq<ChunkStore>, n: int, avg: int, rem: int) -> bool {
    forall|j: int| 0 <= j < 2 * n ==> slots_num((#[trigger] half_of(cs, j))->Some_0.range_list.0@) <= dfin(j, avg, rem)
}
pub open spec fn meta_ok_down(m: MigrationMetaStore, n: int, len: int, epoch: u64) -> bool {
    m.epoch == epoch && n <= m.src_chunk_index < len && m.src_chunk_part < 2 && 0 <= m.dst_chunk_index < n && m.dst_chunk_part < 2
}
pub open spec fn metas_ok_down(ms: Seq<MigrationSlots>, n: int, len: int, epoch: u64) -> bool { forall|i: int| 0 <= i < ms.len() ==> meta_ok_down((#[trigger] ms[i]).meta, n, len, epoch) }
// a source chunk afterwards: both halves empty, everything else as before
pub open spec fn drained(o: ChunkStore, n: ChunkStore) -> bool {
    n.role_position == o.role_position && n.migrating_slots == o.migrating_slots && n.proxy_addresses == o.proxy_addresses && n.hosts == o.hosts && n.node_addresses == o.node_addresses
    && n.stable_slots[0] is None && n.stable_slots[1] is None
}
pub proof fn lemma_slots_num_first(v: Seq<Range>)
    requires v.len() > 0
    ensures slots_num(v) == rlen(v[0]) + slots_num(v.subrange(1, v.len() as int))
    decreases v.len()
{
    let t = v.subrange(1, v.len() as int);
    if v.len() == 1 {
        assert(v.drop_last() =~= Seq::<Range>::empty()); assert(t =~= Seq::<Range>::empty());
    } else {
        lemma_slots_num_first(v.drop_last());
        assert(t.drop_last() =~= v.drop_last().subrange(1, v.len() - 1));
        assert(t.last() == v.last());
    }
}
pub proof fn lemma_slots_num_update_first(v: Seq<Range>, r: Range)
    requires v.len() > 0
    ensures slots_num(v.update(0, r)) == slots_num(v) - rlen(v[0]) + rlen(r)
{
    let w = v.update(0, r);
    lemma_slots_num_first(v); lemma_slots_num_first(w);
    assert(w.subrange(1, w.len() as int) =~= v.subrange(1, v.len() as int));
}
pub proof fn lemma_wf_tail(v: Seq<Range>)
    requires wf(v), bounded(v), v.len() > 0
    ensures wf(v.subrange(1, v.len() as int)), bounded(v.subrange(1, v.len() as int))
{
    let t = v.subrange(1, v.len() as int);
    assert forall|i: int| 0 <= i < t.len() implies (#[trigger] t[i]).0 <= t[i].1 && t[i].0 < usize::MAX && t[i].1 < usize::MAX by { assert(t[i] == v[i + 1]); }
    assert forall|i: int| 0 <= i < t.len() - 1 implies (#[trigger] t[i]).1 + 1 < t[i + 1].0 by { assert(t[i] == v[i + 1]); assert(t[i + 1] == v[i + 2]); }
}

/// the kept master the cursor points at is not over its share, and is below it once something was handed to it in this round (a full one is left at once)
pub open spec fn room_at(idx: usize, cur: usize, ex: Seq<usize>, avg: int, rem: int) -> bool {
    idx < ex.len() ==> cur + ex[idx as int] <= dfin(idx as int, avg, rem) && (cur > 0 ==> cur + ex[idx as int] < dfin(idx as int, avg, rem))
}

// ---- scale-in: what the migrations out of a trailing half carry (C01) ----
// lowest slot of a well-formed list (above every slot when the list is empty)
pub open spec fn bottom(v: Seq<Range>) -> int { if v.len() == 0 { usize::MAX as int } else { v[0].0 as int } }
// two migrations out of the same half never carry the same slot
pub open spec fn pieces_disjoint(ms: Seq<MigrationSlots>, i: int, p: int) -> bool {
    forall|j: int, k: int, s: int| 0 <= j < k < ms.len() && from_half(ms[j], i, p) && from_half(ms[k], i, p) ==> !(#[trigger] covers(ms[j].ranges.0@, s) && #[trigger] covers(ms[k].ranges.0@, s))
}
// everything the migrations out of half (i, p) carry was owned by that half, and no slot is handed out twice
#[verifier::opaque]
pub open spec fn taken_once(o: Seq<Range>, ms: Seq<MigrationSlots>, i: int, p: int) -> bool {
    &&& forall|s: int| #![trigger pieces_cover(ms, i, p, s)] pieces_cover(ms, i, p, s) ==> covers(o, s)
    &&& pieces_disjoint(ms, i, p)
}
// the cutting loop (pieces are cut from the FRONT of the list): old list == what is left + what was given (to finished migrations or to the
// pending piece list); finished migrations lie below lo, pending pieces in [lo, bottom of what is left)
#[verifier::opaque]
pub open spec fn split_down_ok(l0: Seq<Range>, cur: Seq<Range>, ms: Seq<MigrationSlots>, cds: Seq<Range>, i: int, p: int, lo_cds: int) -> bool {
    &&& forall|s: int| #![trigger covers(l0, s)] #![trigger covers(cur, s)] #![trigger given(ms, cds, i, p, s)] covers(l0, s) <==> (covers(cur, s) || given(ms, cds, i, p, s))
    &&& forall|s: int| #![trigger pieces_cover(ms, i, p, s)] pieces_cover(ms, i, p, s) ==> s < lo_cds
    &&& forall|s: int| #![trigger covers(cds, s)] covers(cds, s) ==> lo_cds <= s < bottom(cur)
    &&& lo_cds <= bottom(cur)
    &&& pieces_disjoint(ms, i, p)
}
pub proof fn lemma_wf_bottom(v: Seq<Range>, s: int)
    requires wf(v), bounded(v), covers(v, s)
    ensures s >= bottom(v), s < usize::MAX
{
    let k = choose|k: int| 0 <= k < v.len() && lo(#[trigger] v[k]) <= s <= hi(v[k]);
    lemma_wf_sorted(v, 0, k);
}
pub proof fn lemma_covers_first(v: Seq<Range>, s: int)
    requires v.len() > 0
    ensures covers(v, s) <==> (in_range(v[0], s) || covers(v.subrange(1, v.len() as int), s))
{
    let t = v.subrange(1, v.len() as int);
    if covers(v, s) { let k = choose|k: int| 0 <= k < v.len() && lo(#[trigger] v[k]) <= s <= hi(v[k]); if k > 0 { assert(t[k - 1] == v[k]); } }
    if covers(t, s) { let k = choose|k: int| 0 <= k < t.len() && lo(#[trigger] t[k]) <= s <= hi(t[k]); assert(v[k + 1] == t[k]); }
}
pub proof fn lemma_split_down_init(l0: Seq<Range>, ms: Seq<MigrationSlots>, i: int, p: int)
    requires forall|s: int| !(#[trigger] pieces_cover(ms, i, p, s)), forall|j: int| 0 <= j < ms.len() ==> !from_half(#[trigger] ms[j], i, p)
    ensures split_down_ok(l0, l0, ms, Seq::<Range>::empty(), i, p, bottom(l0))
{
    reveal(split_down_ok);
    let c0 = Seq::<Range>::empty();
    assert forall|s: int| #![trigger covers(l0, s)] #![trigger given(ms, c0, i, p, s)] !given(ms, c0, i, p, s) by { assert(!pieces_cover(ms, i, p, s)); }
}
// the whole first range goes to the pending pieces
pub proof fn lemma_split_down_pop(l0: Seq<Range>, v0: Seq<Range>, ms: Seq<MigrationSlots>, cds: Seq<Range>, i: int, p: int, lo_cds: int)
    requires split_down_ok(l0, v0, ms, cds, i, p, lo_cds), wf(v0), bounded(v0), v0.len() > 0
    ensures split_down_ok(l0, v0.subrange(1, v0.len() as int), ms, cds.push(v0[0]), i, p, lo_cds)
{
    reveal(split_down_ok);
    let d = v0.subrange(1, v0.len() as int); let r = v0[0]; let c2 = cds.push(r);
    assert(bottom(d) > r.1) by { if d.len() > 0 { assert(d[0] == v0[1]); assert(v0[0].1 + 1 < v0[1].0); } }
    assert forall|s: int| #![trigger covers(l0, s)] #![trigger covers(d, s)] #![trigger given(ms, c2, i, p, s)] #![trigger covers(c2, s)]
        (covers(l0, s) <==> (covers(d, s) || given(ms, c2, i, p, s))) && (covers(c2, s) ==> lo_cds <= s < bottom(d)) by {
        lemma_covers_first(v0, s); lemma_covers_push(cds, r, s);
        if given(ms, cds, i, p, s) { }
        if covers(cds, s) { }
    }
}
// the first rn slots of the first range go to the pending pieces
pub proof fn lemma_split_down_cut(l0: Seq<Range>, v0: Seq<Range>, ms: Seq<MigrationSlots>, cds: Seq<Range>, i: int, p: int, lo_cds: int, rn: int)
    requires split_down_ok(l0, v0, ms, cds, i, p, lo_cds), wf(v0), bounded(v0), v0.len() > 0, 1 <= rn < rlen(v0[0])
    ensures split_down_ok(l0, v0.update(0, Range((v0[0].0 + rn) as usize, v0[0].1)), ms, cds.push(Range(v0[0].0, (v0[0].0 + rn - 1) as usize)), i, p, lo_cds)
{
    reveal(split_down_ok);
    let a = v0[0].0; let b = v0[0].1;
    let nr = Range((a + rn) as usize, b); let piece = Range(a, (a + rn - 1) as usize);
    let w = v0.update(0, nr); let c2 = cds.push(piece);
    assert(w.subrange(1, w.len() as int) =~= v0.subrange(1, v0.len() as int));
    assert forall|s: int| #![trigger covers(l0, s)] #![trigger covers(w, s)] #![trigger given(ms, c2, i, p, s)] #![trigger covers(c2, s)]
        (covers(l0, s) <==> (covers(w, s) || given(ms, c2, i, p, s))) && (covers(c2, s) ==> lo_cds <= s < bottom(w)) by {
        lemma_covers_first(v0, s); lemma_covers_first(w, s); lemma_covers_push(cds, piece, s);
        if given(ms, cds, i, p, s) { }
        if covers(cds, s) { }
    }
}
// the pending pieces become a migration out of this half
pub proof fn lemma_split_down_emit(l0: Seq<Range>, cur: Seq<Range>, ms: Seq<MigrationSlots>, cds: Seq<Range>, e: MigrationSlots, i: int, p: int, lo_cds: int)
    requires split_down_ok(l0, cur, ms, cds, i, p, lo_cds), from_half(e, i, p), forall|s: int| covers(e.ranges.0@, s) <==> covers(cds, s)
    ensures split_down_ok(l0, cur, ms.push(e), Seq::<Range>::empty(), i, p, bottom(cur))
{
    reveal(split_down_ok);
    let m2 = ms.push(e); let c2 = Seq::<Range>::empty();
    assert forall|s: int| #![trigger covers(l0, s)] #![trigger covers(cur, s)] #![trigger given(m2, c2, i, p, s)] #![trigger pieces_cover(m2, i, p, s)]
        (covers(l0, s) <==> (covers(cur, s) || given(m2, c2, i, p, s))) && (pieces_cover(m2, i, p, s) ==> s < bottom(cur)) by {
        lemma_pieces_push(ms, e, i, p, s);
        if given(ms, cds, i, p, s) { }
        if pieces_cover(ms, i, p, s) { }
        if covers(cds, s) { }
        assert(!covers(c2, s));
    }
    assert(pieces_disjoint(m2, i, p)) by {
        assert forall|j: int, k: int, s: int| 0 <= j < k < m2.len() && from_half(m2[j], i, p) && from_half(m2[k], i, p) implies !(#[trigger] covers(m2[j].ranges.0@, s) && #[trigger] covers(m2[k].ranges.0@, s)) by {
            if k < ms.len() { assert(m2[j] == ms[j] && m2[k] == ms[k]); }
            else {
                assert(m2[k] == e); assert(m2[j] == ms[j]);
                if covers(ms[j].ranges.0@, s) && covers(e.ranges.0@, s) { assert(pieces_cover(ms, i, p, s)); assert(covers(cds, s)); }
            }
        }
    }
}
pub proof fn lemma_split_down_done(l0: Seq<Range>, cur: Seq<Range>, ms: Seq<MigrationSlots>, i: int, p: int, lo_cds: int)
    requires split_down_ok(l0, cur, ms, Seq::<Range>::empty(), i, p, lo_cds)
    ensures taken_once(l0, ms, i, p)
{
    reveal(split_down_ok); reveal(taken_once);
    let c0 = Seq::<Range>::empty();
    assert forall|s: int| #![trigger pieces_cover(ms, i, p, s)] pieces_cover(ms, i, p, s) implies covers(l0, s) by { assert(given(ms, c0, i, p, s)); }
}
pub proof fn lemma_taken_once_push_other(o: Seq<Range>, ms: Seq<MigrationSlots>, e: MigrationSlots, i: int, p: int)
    requires taken_once(o, ms, i, p), !from_half(e, i, p)
    ensures taken_once(o, ms.push(e), i, p)
{
    reveal(taken_once);
    let m2 = ms.push(e);
    assert forall|s: int| #![trigger pieces_cover(m2, i, p, s)] pieces_cover(m2, i, p, s) implies covers(o, s) by { lemma_pieces_push(ms, e, i, p, s); if pieces_cover(ms, i, p, s) { } }
    assert forall|j: int, k: int, s: int| 0 <= j < k < m2.len() && from_half(m2[j], i, p) && from_half(m2[k], i, p) implies !(#[trigger] covers(m2[j].ranges.0@, s) && #[trigger] covers(m2[k].ranges.0@, s)) by {
        assert(m2[k] != e || k < ms.len()); if k < ms.len() { assert(m2[j] == ms[j] && m2[k] == ms[k]); } else { assert(m2[k] == e); }
    }
}
// everything the emit step of the scale-in cutter has to re-establish, in one place (keeps the loop-body query small)
pub proof fn lemma_emit_down(l0: Seq<Range>, cur: Seq<Range>, ms0: Seq<MigrationSlots>, cds: Seq<Range>, e: MigrationSlots, ci: int, pi: int, lo_cds: int,
                             cs0: Seq<ChunkStore>, ss0: [Option<SlotRange>; 2], n: int)
    requires split_down_ok(l0, cur, ms0, cds, ci, pi, lo_cds), from_half(e, ci, pi), forall|s: int| covers(e.ranges.0@, s) <==> covers(cds, s),
        metas_upto(ms0, ci, pi), n <= ci, 0 <= pi < 2,
        forall|p: int| 0 <= p < pi ==> taken_once((#[trigger] ss0[p])->Some_0.range_list.0@, ms0, ci, p),
        forall|i: int, p: int| n <= i < ci && 0 <= p < 2 ==> taken_once((#[trigger] cs0[i].stable_slots[p])->Some_0.range_list.0@, ms0, i, p),
        forall|p: int| 0 <= p < pi ==> all_moved((#[trigger] ss0[p])->Some_0.range_list.0@, ms0, ci, p),
        forall|i: int, p: int| n <= i < ci && 0 <= p < 2 ==> all_moved((#[trigger] cs0[i].stable_slots[p])->Some_0.range_list.0@, ms0, i, p),
    ensures split_down_ok(l0, cur, ms0.push(e), Seq::<Range>::empty(), ci, pi, bottom(cur)), metas_upto(ms0.push(e), ci, pi),
        forall|p: int| 0 <= p < pi ==> taken_once((#[trigger] ss0[p])->Some_0.range_list.0@, ms0.push(e), ci, p),
        forall|i: int, p: int| n <= i < ci && 0 <= p < 2 ==> taken_once((#[trigger] cs0[i].stable_slots[p])->Some_0.range_list.0@, ms0.push(e), i, p),
        forall|p: int| 0 <= p < pi ==> all_moved((#[trigger] ss0[p])->Some_0.range_list.0@, ms0.push(e), ci, p),
        forall|i: int, p: int| n <= i < ci && 0 <= p < 2 ==> all_moved((#[trigger] cs0[i].stable_slots[p])->Some_0.range_list.0@, ms0.push(e), i, p),
{
    let ms1 = ms0.push(e);
    lemma_split_down_emit(l0, cur, ms0, cds, e, ci, pi, lo_cds);
    assert forall|p: int| 0 <= p < pi implies taken_once((#[trigger] ss0[p])->Some_0.range_list.0@, ms1, ci, p) by {
        lemma_taken_once_push_other(ss0[p]->Some_0.range_list.0@, ms0, e, ci, p);
    }
    assert forall|i: int, p: int| n <= i < ci && 0 <= p < 2 implies taken_once((#[trigger] cs0[i].stable_slots[p])->Some_0.range_list.0@, ms1, i, p) by {
        lemma_taken_once_push_other(cs0[i].stable_slots[p]->Some_0.range_list.0@, ms0, e, i, p);
    }
    assert forall|p: int| 0 <= p < pi implies all_moved((#[trigger] ss0[p])->Some_0.range_list.0@, ms1, ci, p) by { lemma_all_moved_push(ss0[p]->Some_0.range_list.0@, ms0, e, ci, p); }
    assert forall|i: int, p: int| n <= i < ci && 0 <= p < 2 implies all_moved((#[trigger] cs0[i].stable_slots[p])->Some_0.range_list.0@, ms1, i, p) by { lemma_all_moved_push(cs0[i].stable_slots[p]->Some_0.range_list.0@, ms0, e, i, p); }
    assert forall|j: int| 0 <= j < ms1.len() implies half_le((#[trigger] ms1[j]).meta.src_chunk_index as int, ms1[j].meta.src_chunk_part as int, ci, pi) by { if j < ms0.len() { assert(ms1[j] == ms0[j]); } }
}

// ---- scale-in: nothing is lost (the global count) ----
pub open spec fn half_slots(cs: Seq<ChunkStore>, h: int) -> int { slots_num(half_of(cs, h)->Some_0.range_list.0@) }
// what the kept masters from..2n-1 still lack
pub open spec fn lack(cs: Seq<ChunkStore>, n: int, avg: int, rem: int, from: int) -> int
    decreases 2 * n - from
{ if from >= 2 * n { 0 } else { dfin(from, avg, rem) - half_slots(cs, from) + lack(cs, n, avg, rem, from + 1) } }
// what the halves h.. (in processing order) hold
pub open spec fn held_from(cs: Seq<ChunkStore>, h: int) -> int
    decreases 2 * cs.len() - h
{ if h >= 2 * cs.len() { 0 } else { half_slots(cs, h) + held_from(cs, h + 1) } }
// every slot the half owned is carried by a migration out of it
#[verifier::opaque]
pub open spec fn all_moved(o: Seq<Range>, ms: Seq<MigrationSlots>, i: int, p: int) -> bool {
    forall|s: int| #![trigger covers(o, s)] covers(o, s) ==> pieces_cover(ms, i, p, s)
}
pub proof fn lemma_all_moved_push(o: Seq<Range>, ms: Seq<MigrationSlots>, e: MigrationSlots, i: int, p: int)
    requires all_moved(o, ms, i, p) ensures all_moved(o, ms.push(e), i, p)
{
    reveal(all_moved);
    assert forall|s: int| #![trigger covers(o, s)] covers(o, s) implies pieces_cover(ms.push(e), i, p, s) by { lemma_pieces_push(ms, e, i, p, s); }
}
pub proof fn lemma_no_slots_is_empty(v: Seq<Range>)
    requires wf(v), slots_num(v) == 0
    ensures v.len() == 0
    decreases v.len()
{
    if v.len() > 0 {
        lemma_slots_num_first(v); lemma_wf_tail_only(v); lemma_slots_num_nonneg(v.subrange(1, v.len() as int));
        assert(rlen(v[0]) >= 1);
    }
}
pub proof fn lemma_wf_tail_only(v: Seq<Range>)
    requires wf(v), v.len() > 0
    ensures wf(v.subrange(1, v.len() as int))
{
    let t = v.subrange(1, v.len() as int);
    assert forall|i: int| 0 <= i < t.len() implies (#[trigger] t[i]).0 <= t[i].1 by { assert(t[i] == v[i + 1]); }
    assert forall|i: int| 0 <= i < t.len() - 1 implies (#[trigger] t[i]).1 + 1 < t[i + 1].0 by { assert(t[i] == v[i + 1]); assert(t[i + 1] == v[i + 2]); }
}
pub proof fn lemma_split_down_all_moved(l0: Seq<Range>, cur: Seq<Range>, ms: Seq<MigrationSlots>, i: int, p: int, lo_cds: int)
    requires split_down_ok(l0, cur, ms, Seq::<Range>::empty(), i, p, lo_cds), cur.len() == 0
    ensures all_moved(l0, ms, i, p)
{
    reveal(split_down_ok); reveal(all_moved);
    let c0 = Seq::<Range>::empty();
    assert forall|s: int| #![trigger covers(l0, s)] covers(l0, s) implies pieces_cover(ms, i, p, s) by {
        assert(!covers(cur, s)); assert(!covers(c0, s)); assert(given(ms, c0, i, p, s));
    }
}

pub proof fn lemma_held_nonneg(cs: Seq<ChunkStore>, h: int)
    requires all_some_ok(cs), 0 <= h
    ensures held_from(cs, h) >= 0
    decreases 2 * cs.len() - h
{
    if h < 2 * cs.len() {
        lemma_held_nonneg(cs, h + 1);
        assert(cs[h / 2].stable_slots[h % 2] matches Some(sr) && rl_ok(sr.range_list));
        lemma_slots_num_nonneg(half_of(cs, h)->Some_0.range_list.0@);
    }
}
// where the count precondition of the scale-in cutter comes from: all 16384 slots are owned by the stable halves and the final shares add up to 16384
pub proof fn lemma_lack_closed_form(cs: Seq<ChunkStore>, n: int, avg: int, rem: int, from: int)
    requires 0 <= from <= 2 * n, 2 * n <= 2 * cs.len(), 0 <= rem <= 2 * n
    ensures lack(cs, n, avg, rem, from) == (2 * n - from) * avg + (if rem > from { rem - from } else { 0 }) - (held_from(cs, from) - held_from(cs, 2 * n))
    decreases 2 * n - from
{
    if from < 2 * n {
        lemma_lack_closed_form(cs, n, avg, rem, from + 1);
        assert((2 * n - from) * avg == (2 * n - (from + 1)) * avg + avg) by (nonlinear_arith);
        assert(held_from(cs, from) == half_slots(cs, from) + held_from(cs, from + 1));
    } else {
        assert((2 * n - from) * avg == 0) by (nonlinear_arith) requires 2 * n - from == 0;
    }
}
pub proof fn lemma_balanced_gives_count(cs: Seq<ChunkStore>, n: int, avg: int, rem: int)
    requires 1 <= n <= cs.len(), avg == 16384int / (2 * n), rem == 16384int - avg * (2 * n), held_from(cs, 0) == 16384
    ensures lack(cs, n, avg, rem, 0) == held_from(cs, 2 * n)
{
    assert(0 <= rem < 2 * n) by (nonlinear_arith) requires avg == 16384int / (2 * n), rem == 16384int - avg * (2 * n), 1 <= n;
    lemma_lack_closed_form(cs, n, avg, rem, 0);
    assert((2 * n - 0) * avg == avg * (2 * n)) by (nonlinear_arith);
}
