#[verifier::external_body] pub struct IoError { x: u8 }
pub type IoResult<T> = Result<T, IoError>;

// ---- code-side view and shims ----
pub uninterp spec fn bytes_of<T>(t: &T) -> Seq<u8>;
pub uninterp spec fn written<W>(w: &W) -> Seq<u8>;       // everything written to the writer so far
pub open spec fn view_bulk<T>(b: BulkStr<T>) -> V { match b { BulkStr::Str(s) => V::Bulk(bytes_of(&s)), BulkStr::Nil => V::BulkNil } }
pub open spec fn view_v<T>(r: Resp<T>) -> V
    decreases r
{
    match r {
        Resp::Error(s) => V::Error(bytes_of(&s)),
        Resp::Simple(s) => V::Simple(bytes_of(&s)),
        Resp::Integer(s) => V::Integer(bytes_of(&s)),
        Resp::Bulk(b) => view_bulk(b),
        Resp::Arr(a) => view_arr(a),
    }
}
pub open spec fn view_arr<T>(a: Array<T>) -> V
    decreases a
{
    match a { Array::Arr(v) => V::Arr(Seq::new(v@.len(), |i: int| if 0 <= i < v@.len() { view_v(v@[i]) } else { V::ArrNil })), Array::Nil => V::ArrNil }
}
// io::Write::write on an arbitrary writer: on Ok the bytes are appended and their number returned (write_all semantics
// of the Vec<u8> / SizeHintWriter writers used by the callers)
#[verifier::allow(undeclared_external_trait)]
#[verifier::external_body] fn shim_write<W: std::io::Write>(w: &mut W, b: &[u8]) -> (r: IoResult<usize>)
    ensures r matches Ok(n) ==> n == b@.len() && written(final(w)) == written(old(w)) + b@
{ unimplemented!() }
#[verifier::allow(undeclared_external_trait)]
#[verifier::external_body] fn shim_as_bytes<T: AsRef<[u8]>>(t: &T) -> (r: &[u8]) ensures r@ == bytes_of(t) { t.as_ref() }
// AsRef<[u8]> for &T delegates to T; for Vec<u8> it is the vector's content (std)
pub broadcast axiom fn axiom_bytes_of_ref<T>(t: &T) ensures #[trigger] bytes_of::<&T>(&t) == bytes_of::<T>(t);
pub broadcast axiom fn axiom_bytes_of_vec(v: &Vec<u8>) ensures #[trigger] bytes_of::<Vec<u8>>(v) == v@;
#[verifier::external_body] fn shim_len_dec(n: usize) -> (r: Vec<u8>) ensures r@ == dec(n as nat) { n.to_string().into_bytes() }


pub open spec fn fits(w: Seq<u8>, e: Seq<u8>) -> bool { w.len() + e.len() <= usize::MAX }

