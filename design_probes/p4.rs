use vstd::prelude::*;
verus! {

pub const LF: u8 = 10;

pub enum ParseError { InvalidProtocol, NotEnoughData, UnexpectedErr }

pub struct DataIndex(pub usize, pub usize);
pub enum BulkStr<T> { Str(T), Nil }
pub enum Array<T> { Arr(Vec<Resp<T>>), Nil }
pub enum Resp<T> { Error(T), Simple(T), Bulk(BulkStr<T>), Integer(T), Arr(Array<T>) }
pub type BulkStrIndex = BulkStr<DataIndex>;
pub type ArrayIndex = Array<DataIndex>;
pub type RespIndex = Resp<DataIndex>;

impl DataIndex {
    pub fn advance(&mut self, count: usize)
        requires old(self).0 + count <= usize::MAX, old(self).1 + count <= usize::MAX
        ensures final(self).0 == old(self).0 + count, final(self).1 == old(self).1 + count
    {
        self.0 += count;
        self.1 += count;
    }
    pub fn to_range(&self) -> (r: core::ops::Range<usize>) ensures r.start == self.0, r.end == self.1 {
        self.0..self.1
    }
}

#[verifier::external_body]
fn memchr(c: u8, s: &[u8]) -> (r: Option<usize>)
    ensures match r {
        Some(i) => i < s@.len() && s@[i as int] == c && forall|j: int| 0 <= j < i ==> s@[j] != c,
        None => forall|j: int| 0 <= j < s@.len() ==> s@[j] != c,
    }
{ unimplemented!() }

#[verifier::external_body]
fn btoi(s: &[u8]) -> (r: Result<i64, ()>)
{ unimplemented!() }

fn parse_line(buf: &[u8]) -> (res: Result<(DataIndex, usize), ParseError>)
    ensures match res { Ok((d, c)) => c <= buf@.len() && d.0 == 0 && d.1 + 2 == c, Err(_) => true }
{
    let lf_index = memchr(LF, buf).ok_or(ParseError::NotEnoughData)?;
    if lf_index == 0 {
        return Err(ParseError::InvalidProtocol);
    }

    // s >= 2
    // Just ignore the CR
    let line = DataIndex(0, lf_index + 1 - 2);
    Ok((line, lf_index + 1))
}

fn parse_len(buf: &[u8]) -> (res: Result<(i64, usize), ParseError>)
    ensures match res { Ok((l, c)) => c <= buf@.len(), Err(_) => true }
{
    let (data_index, consumed) = parse_line(buf)?;
    let next_buf = buf
        .get(data_index.to_range())
        .ok_or(ParseError::UnexpectedErr)?;

    let len = btoi(next_buf).map_err(|_e: ()| ParseError::InvalidProtocol)?;
    Ok((len, consumed))
}

fn parse_bulk_str(buf: &[u8]) -> (res: Result<(BulkStrIndex, usize), ParseError>)
    ensures match res { Ok((l, c)) => c <= buf@.len(), Err(_) => true }
{
    let (len, consumed) = parse_len(buf)?;
    if len < 0 {
        return Ok((BulkStrIndex::Nil, consumed));
    }

    let content_size = len as usize;
    if buf.len() < consumed + content_size + 2 {
        return Err(ParseError::NotEnoughData);
    }

    let s = DataIndex(consumed, consumed + content_size);
    Ok((BulkStrIndex::Str(s), consumed + content_size + 2))
}


pub open spec fn shifted(a: RespIndex, b: RespIndex, k: int) -> bool { true }

#[verifier::external_body]
fn resp_advance(v: &mut RespIndex, count: usize)
{ unimplemented!() }
#[verifier::external_body]
fn bulk_advance(v: &mut BulkStrIndex, count: usize)
{ unimplemented!() }
#[verifier::external_body]
fn arr_advance(v: &mut ArrayIndex, count: usize)
{ unimplemented!() }
#[verifier::external_body]
fn di_advance(v: &mut DataIndex, count: usize)
{ unimplemented!() }

pub fn parse_resp(buf: &[u8]) -> (res: Result<(RespIndex, usize), ParseError>)
    ensures match res { Ok((l, c)) => 0 < c <= buf@.len(), Err(_) => true }
    decreases buf@.len(), 1int
{
    if buf.is_empty() {
        return Err(ParseError::NotEnoughData);
    }

    let prefix = *buf.first().ok_or(ParseError::UnexpectedErr)?;
    let next_buf = buf.get(1..).ok_or(ParseError::InvalidProtocol)?;

    match prefix {
        b'$' => {
            let (mut v, consumed) = parse_bulk_str(next_buf)?;
            bulk_advance(&mut v, 1);
            Ok((RespIndex::Bulk(v), 1 + consumed))
        }
        b'+' => {
            let (mut v, consumed) = parse_line(next_buf)?;
            di_advance(&mut v, 1);
            Ok((RespIndex::Simple(v), 1 + consumed))
        }
        b'*' => {
            let (mut v, consumed) = parse_array(next_buf)?;
            arr_advance(&mut v, 1);
            Ok((RespIndex::Arr(v), 1 + consumed))
        }
        prefix => {
            Err(ParseError::InvalidProtocol)
        }
    }
}

fn parse_array(buf: &[u8]) -> (res: Result<(ArrayIndex, usize), ParseError>)
    ensures match res { Ok((l, c)) => c <= buf@.len(), Err(_) => true }
    decreases buf@.len(), 0int
{
    let (len, mut consumed) = parse_len(buf)?;
    if len < 0 {
        return Ok((ArrayIndex::Nil, consumed));
    }

    let array_size = len as usize;
    let mut array = Vec::with_capacity(array_size);

    for _ in 0..array_size {
        let next_buf = buf.get(consumed..).ok_or(ParseError::InvalidProtocol)?;
        let (mut v, element_consumed) = parse_resp(next_buf)?;
        resp_advance(&mut v, consumed);
        consumed += element_consumed;
        array.push(v);
    }

    Ok((ArrayIndex::Arr(array), consumed))
}

} // verus!
fn main() {}
