import sys,re; sys.path.insert(0,'/tmp/km/x')
from cut import *
comp=open('/repo/src/proxy/compress.rs').read()
cmd=open('/repo/src/proxy/command.rs').read()
conf=open('/repo/src/common/config.rs').read()
f=fn(comp,'try_compressing_cmd_ctx')
g=fn(comp,'compress_one_element')
dct=item(cmd,'enum','DataCmdType')
dct=re.sub(r'#\[derive\([^\]]*\)\]\n','',dct)
dct=re.sub(r'\n\s*//[^\n]*','',dct)
f=f.replace("let key_indices = (2..l).step_by(2).collect();","let key_indices = shim_range_step(2, l, 2);")
g=g.replace("zstd::encode_all(value, 1)","shim_zstd_encode(value)")
head='''use vstd::prelude::*;
verus! {
global size_of usize == 8;
#[derive(PartialEq, Eq, Clone, Copy, Structural)]
'''+dct+'''
#[derive(PartialEq, Eq, Clone, Copy, Structural)]
pub enum CompressionStrategy { Disabled, SetGetOnly, AllowAll }
pub enum OptionalMulti<T> { Single(T), Multi(Vec<T>) }
pub struct IoError;
pub enum CompressionError { Io(IoError), InvalidRequest, InvalidResp, Disabled, UnsupportedCmdType, RestrictedCmd }
// abstract codec (assumption: zstd round-trips)
pub uninterp spec fn enc(x: Seq<u8>) -> Seq<u8>;
#[verifier::external_body] fn shim_zstd_encode(v: &[u8]) -> (r: Result<Vec<u8>, IoError>) ensures r matches Ok(c) ==> c@ == enc(v@) { unimplemented!() }
#[verifier::external_body] fn shim_range_step(a: usize, b: usize, k: usize) -> (r: Vec<usize>)
    requires k > 0
    ensures forall|i: int| 0 <= i < r@.len() ==> r@[i] == a + i * k && r@[i] < b, r@.len() == (if b > a { (b - a + k - 1) / k as int } else { 0 })
{ unimplemented!() }
// opaque command context with the accessor contracts of layer 1
pub struct Command { pub elems: Vec<Vec<u8>>, pub ty: DataCmdType }
pub struct CmdCtx { pub cmd: Command }
impl Command {
    pub fn get_command_len(&self) -> (r: Option<usize>) ensures r == Some(self.elems@.len() as usize) { Some(self.elems.len()) }
    #[verifier::external_body] pub fn get_command_element(&self, index: usize) -> (r: Option<&[u8]>)
        ensures match r { Some(e) => index < self.elems@.len() && e@ == self.elems@[index as int]@, None => index >= self.elems@.len() } { unimplemented!() }
}
impl CmdCtx {
    pub fn get_cmd(&self) -> (r: &Command) ensures *r == self.cmd { &self.cmd }
    pub fn get_data_cmd_type(&self) -> (r: DataCmdType) ensures r == self.cmd.ty { self.cmd.ty }
    #[verifier::external_body] pub fn change_cmd_element(&mut self, index: usize, data: Vec<u8>) -> (r: bool)
        ensures r == (index < old(self).cmd.elems@.len()), final(self).cmd.ty == old(self).cmd.ty,
            r ==> final(self).cmd.elems@ == old(self).cmd.elems@.update(index as int, data),
            !r ==> final(self).cmd.elems@ == old(self).cmd.elems@ { unimplemented!() }
}
pub trait CompressionStrategyConfig { fn get_config(&self) -> CompressionStrategy; }
pub struct CmdCompressor<C: CompressionStrategyConfig> { pub config: C }
impl<C: CompressionStrategyConfig> CmdCompressor<C> {
'''
out=head+f+"\n"+g+"\n}\n} // verus!\nfn main() {}\n"
open('/tmp/km/x/c20.rs','w').write(out)
