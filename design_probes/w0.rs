use vstd::prelude::*;
verus! {
pub broadcast axiom fn axiom_iter_mut_has_resolved<'a, T>(it: vstd::std_specs::iter::VerusForLoopWrapper<core::slice::IterMut<'a, T>>)
    ensures #[trigger] has_resolved(it) ==> forall|i: int| it.index@ <= i < it.seq().len() ==> has_resolved(#[trigger] it.seq()[i]);

pub struct E { pub role: u8, pub k: usize }
pub open spec fn first_hit(v: Seq<E>, key: usize) -> int
    decreases v.len()
{
    if v.len() == 0 { -1 } else if v[0].k == key { 0 } else { let r = first_hit(v.subrange(1, v.len() as int), key); if r < 0 { -1 } else { r + 1 } }
}
fn flip(v: &mut Vec<E>, key: usize) -> (r: bool)
    ensures final(v)@.len() == old(v)@.len(),
        forall|i: int| 0 <= i < old(v)@.len() ==> (#[trigger] final(v)@[i]).k == old(v)@[i].k,
        // exactly the first element with k == key gets role 2 (if not already), nothing else changes
        forall|i: int| 0 <= i < old(v)@.len() && (old(v)@[i].k != key || exists|j: int| 0 <= j < i && old(v)@[j].k == key) ==> (#[trigger] final(v)@[i]).role == old(v)@[i].role,
        forall|i: int| 0 <= i < old(v)@.len() && old(v)@[i].k == key && !(exists|j: int| 0 <= j < i && old(v)@[j].k == key) ==> (#[trigger] final(v)@[i]).role == 2,
{
    broadcast use axiom_iter_mut_has_resolved;
    let mut verif_ret: Option<bool> = None;
    for x in it: v.iter_mut()
        invariant_except_break
            verif_ret is None,
            forall|i: int| 0 <= i < it.index@ ==> old(v)@[i].k != key,
        invariant
            it.seq().len() == old(v)@.len(),
            forall|i: int| 0 <= i < it.seq().len() ==> *(#[trigger] it.seq()[i]) == old(v)@[i],
            forall|i: int| 0 <= i < it.index@ - 1 ==> old(v)@[i].k != key,
            forall|i: int| 0 <= i < it.index@ ==> (final(#[trigger] it.seq()[i])).k == old(v)@[i].k,
            forall|i: int| 0 <= i < it.index@ && old(v)@[i].k != key ==> *final(#[trigger] it.seq()[i]) == old(v)@[i],
            forall|i: int| 0 <= i < it.index@ && old(v)@[i].k == key ==> (final(#[trigger] it.seq()[i])).role == 2,
        ensures
            it.index@ == it.seq().len() || (it.index@ >= 1 && old(v)@[it.index@ - 1].k == key),
    {
        if x.k == key {
            if x.role == 2 {
                { verif_ret = Some(true); break; }
            }
            x.role = 2;
            break;
        }
    }
    if let Some(r) = verif_ret { return r; }
    false
}
}
fn main() {}
