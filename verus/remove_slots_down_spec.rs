// ---- scale-down start (remove_slots_from_src_to_scale_down): the trailing chunks give all their slots to the first n chunks ----
pub open spec fn half_of(cs: Seq<ChunkStore>, j: int) -> Option<SlotRange> { cs[j / 2].stable_slots[j % 2] }
pub open spec fn dfin(j: int, avg: int, rem: int) -> int { avg + (if j < rem { 1int } else { 0int }) }
pub open spec fn all_some_ok(cs: Seq<ChunkStore>) -> bool {
    forall|i: int, p: int| 0 <= i < cs.len() && 0 <= p < 2 ==> ((#[trigger] cs[i].stable_slots[p]) matches Some(sr) && rl_ok(sr.range_list))
}
// no kept master holds more than its final share (a balanced cluster: every master holds the old average or one more, and the new shares are not smaller); it may hold exactly its share
pub open spec fn dst_have_room(cs: Seq<ChunkStore>, n: int, avg: int, rem: int) -> bool {
    forall|j: int| 0 <= j < 2 * n ==> slots_num((#[trigger] half_of(cs, j))->Some_0.range_list.0@) <= dfin(j, avg, rem)
}
pub open spec fn meta_ok_down(m: MigrationMetaStore, n: int, len: int, epoch: u64) -> bool {
    m.epoch == epoch && n <= m.src_chunk_index < len && m.src_chunk_part < 2 && 0 <= m.dst_chunk_index < n && m.dst_chunk_part < 2
}
pub open spec fn metas_ok_down(ms: Seq<MigrationSlots>, n: int, len: int, epoch: u64) -> bool { forall|i: int| 0 <= i < ms.len() ==> meta_ok_down((#[trigger] ms[i]).meta, n, len, epoch) }
// a source chunk afterwards: both halves empty, everything else as before
pub open spec fn drained(o: ChunkStore, n: ChunkStore) -> bool {
    n.role_position == o.role_position && n.migrating_slots == o.migrating_slots && n.proxy_addresses == o.proxy_addresses && n.hosts == o.hosts && n.node_addresses == o.node_addresses
    && n.stable_slots[0] is None && n.stable_slots[1] is None
}
pub proof fn lemma_slots_num_first(v: Seq<Range>)
    requires v.len() > 0
    ensures slots_num(v) == rlen(v[0]) + slots_num(v.subrange(1, v.len() as int))
    decreases v.len()
{
    let t = v.subrange(1, v.len() as int);
    if v.len() == 1 {
        assert(v.drop_last() =~= Seq::<Range>::empty()); assert(t =~= Seq::<Range>::empty());
    } else {
        lemma_slots_num_first(v.drop_last());
        assert(t.drop_last() =~= v.drop_last().subrange(1, v.len() - 1));
        assert(t.last() == v.last());
    }
}
pub proof fn lemma_slots_num_update_first(v: Seq<Range>, r: Range)
    requires v.len() > 0
    ensures slots_num(v.update(0, r)) == slots_num(v) - rlen(v[0]) + rlen(r)
{
    let w = v.update(0, r);
    lemma_slots_num_first(v); lemma_slots_num_first(w);
    assert(w.subrange(1, w.len() as int) =~= v.subrange(1, v.len() as int));
}
pub proof fn lemma_wf_tail(v: Seq<Range>)
    requires wf(v), bounded(v), v.len() > 0
    ensures wf(v.subrange(1, v.len() as int)), bounded(v.subrange(1, v.len() as int))
{
    let t = v.subrange(1, v.len() as int);
    assert forall|i: int| 0 <= i < t.len() implies (#[trigger] t[i]).0 <= t[i].1 && t[i].0 < usize::MAX && t[i].1 < usize::MAX by { assert(t[i] == v[i + 1]); }
    assert forall|i: int| 0 <= i < t.len() - 1 implies (#[trigger] t[i]).1 + 1 < t[i + 1].0 by { assert(t[i] == v[i + 1]); assert(t[i + 1] == v[i + 2]); }
}

/// the kept master the cursor points at is not over its share, and is below it once something was handed to it in this round (a full one is left at once)
pub open spec fn room_at(idx: usize, cur: usize, ex: Seq<usize>, avg: int, rem: int) -> bool {
    idx < ex.len() ==> cur + ex[idx as int] <= dfin(idx as int, avg, rem) && (cur > 0 ==> cur + ex[idx as int] < dfin(idx as int, avg, rem))
}
