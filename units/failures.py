# C04 (two more mutators) / C18 (kernels) / C06 (re-registration clause): MetaStoreUpdate::add_failure and add_proxy
# (src/broker/update.rs): a repeated report by one reporter changes nothing and a new report bumps the global epoch; registering a
# proxy clears its failed mark and its failure reports and bumps the global epoch iff anything changed.
import re
import vlib
from units import broker_common, takeover

SPEC = '''
// R13: chrono::Utc::now() / DateTime::timestamp(): some instant / some i64
#[verifier::external_body] pub struct Instant { x: u8 }
impl Instant { #[verifier::external_body] pub fn timestamp(&self) -> i64 { unimplemented!() } }
#[verifier::external_body] fn shim_now() -> Instant { unimplemented!() }
#[verifier::external_body] pub struct Duration { x: u8 }     // chrono::Duration, opaque
// "the report made at unix time t is younger than ttl at instant now" (chrono arithmetic, uninterpreted)
pub uninterp spec fn fresh(now: Instant, t: i64, ttl: Duration) -> bool;
#[verifier::external_body] fn shim_fresh(now: &Instant, t: i64, ttl: &Duration) -> (r: bool) ensures r == fresh(*now, t, *ttl) { unimplemented!() }
#[verifier::external_body] fn shim_clone_string(s: &String) -> (r: String) ensures r == *s { unimplemented!() }
// D9 / D15: all keys of a map, each once
#[verifier::external_body] fn shim_keys<V>(m: &HashMap<String, V>) -> (r: Vec<String>)
    ensures forall|k: String| m@.contains_key(k) <==> r@.contains(k), r@.no_duplicates()
{ unimplemented!() }
// D16: every entry exactly once, unspecified order
#[verifier::external_body]
fn shim_ref_entries<'a, V>(m: &'a HashMap<String, V>) -> (r: (Vec<(&'a String, &'a V)>, Ghost<Seq<String>>))
    ensures r.1@.no_duplicates(), r.1@.len() == r.0@.len(), forall|k: String| m@.contains_key(k) <==> r.1@.contains(k),
        forall|i: int| 0 <= i < r.0@.len() ==> *(#[trigger] r.0@[i]).0 == r.1@[i] && m@.contains_key(r.1@[i]) && *r.0@[i].1 == m@[r.1@[i]],
{ unimplemented!() }
// string shims: number of pieces of s.split(c), first piece
pub uninterp spec fn pieces_of(s: Seq<char>, c: char) -> Seq<Seq<char>>;
#[verifier::external_body] fn shim_split_count(s: &String, c: char) -> (r: usize) ensures r == pieces_of(s@, c).len() { unimplemented!() }
#[verifier::external_body] fn shim_split_first<'a>(s: &'a String, c: char) -> (r: Option<&'a str>) ensures r is Some <==> pieces_of(s@, c).len() > 0, r matches Some(p) ==> p@ == pieces_of(s@, c)[0] { unimplemented!() }
#[verifier::external_body] fn shim_to_string(s: &str) -> (r: String) ensures r@ == s@ { unimplemented!() }
// the reports of one address that are still fresh at `now` (distinct reporters: the map is keyed by reporter id)
pub open spec fn kept(m: Map<String, i64>, now: Instant, ttl: Duration) -> Map<String, i64> { m.restrict(m.dom().filter(|r: String| fresh(now, m[r], ttl))) }
pub open spec fn pruned(f0: Map<String, HashMap<String, i64>>, f2: Map<String, HashMap<String, i64>>, now: Instant, ttl: Duration) -> bool {
    forall|a: String| #![trigger f2.contains_key(a)] #![trigger f0.contains_key(a)] (f2.contains_key(a) <==> (f0.contains_key(a) && kept(f0[a]@, now, ttl).len() > 0)) && (f2.contains_key(a) ==> f2[a]@ == kept(f0[a]@, now, ttl))
}
pub open spec fn listed(s: MetaStore, now: Instant, ttl: Duration, quorum: u64, r: Seq<String>) -> bool {
    r.no_duplicates() && forall|a: String| #![trigger r.contains(a)] r.contains(a) <==>
        (s.all_proxies@.contains_key(a) && s.failures@.contains_key(a) && kept(s.failures@[a]@, now, ttl).len() >= quorum as usize && kept(s.failures@[a]@, now, ttl).len() > 0)
}
pub open spec fn reporters(s: MetaStore, a: String) -> Set<String> { if s.failures@.contains_key(a) { s.failures@[a]@.dom() } else { Set::<String>::empty() } }
'''

def build(U):
    broker_common.head(U)
    U.add(broker_common.types(U))
    U.prelude('epoch_spec.rs')
    U.add(SPEC)
    U.add('impl MetaStore {\n')
    U.add_fn(takeover.bump_global_epoch(U))
    U.add("}\n" + takeover.UPDATE_STRUCT + "impl<'a> MetaStoreUpdate<'a> {\n")
    X = U.src('src/broker/update.rs')
    f = X.fn('add_failure')
    f.r1_logging()
    f.replace('R13', 'let now = Utc::now();', 'let now = shim_now();', count=1)
    # closure-spec: signature + contract only; the closure body is taken from the current source
    f.sub('closure-spec', r'\.map\(\|failures\| (.+)\)\n',
          r'.map(|failures: &HashMap<String, i64>| -> (b: bool) requires vstd::std_specs::hash::obeys_key_model::<String>() ensures b == failures@.contains_key(reporter_id) { \1 })\n', count=1)
    f.replace('R-orinsert', '.or_insert_with(HashMap::new)', '.or_insert(HashMap::new())', count=1)
    f.apply_overlay('add_failure')
    U.add_fn(f)
    g = X.fn('add_proxy')
    g.r1_logging()
    g.replace('R-split', "proxy_address.split(':').count()", "shim_split_count(&proxy_address, ':')", count=1)
    g.replace('R-split', "proxy_address.split(':').next()", "shim_split_first(&proxy_address, ':')", count=1)
    g.replace('R-tostr', 'h.to_string()', 'shim_to_string(h)', count=1)
    # R-orinsert: the inserted value is built eagerly (construction is pure: moves of `nodes`, `host`, a String clone)
    g.sub('R-orinsert', r'\.or_insert_with\(\|\| (ProxyResource \{.*?\n            \})\);', r'.or_insert(\1);', count=1, flags=re.S)
    g.sub('R-kw', r'\bexists\b', 'verif_exists', count=3)     # `exists` is a Verus keyword: the local variable is renamed
    g.apply_overlay('add_proxy')
    U.add_fn(g)
    h = X.fn('get_failures')
    h.r1_logging()
    h.replace('R13', 'let now = Utc::now();', 'let now = shim_now();', count=1)
    h.replace('R13', 'failure_ttl: chrono::Duration,', 'failure_ttl: Duration,', count=1)
    vlib.d9_values_mut(h)
    vlib.d15_hashmap_retain(h)
    vlib.d15_hashmap_retain(h)
    vlib.d16_filter_filter_map_collect(h, 'String')
    # R13b: the freshness test `now - <report time as DateTime> < failure_ttl` (chrono arithmetic) -> uninterpreted predicate fresh(now, t, ttl);
    # the pattern must match literally, otherwise the run is undecided
    h.sub('R13b', r'\{\s*let report_datetime =\s*DateTime::<Utc>::from_utc\(NaiveDateTime::from_timestamp\(\*report_time, 0\), Utc\);\s*now - report_datetime < failure_ttl\s*\}',
          '{ shim_fresh(&now, *report_time, &failure_ttl) }', count=1)
    h.replace('R-clone', 'Some(address.clone())', 'Some(shim_clone_string(address))', count=1)
    h.apply_overlay('get_failures')
    U.add_fn(h)
    U.add("}\n} // verus!\nfn main() {}\n")
    U.trust('chrono::Utc::now().timestamp() is some i64 (R13)', 'entry(k).or_insert_with(HashMap::new) == entry(k).or_insert(HashMap::new()) (R-orinsert)')

MUST_FAIL = '''
proof fn must_fail_failures_reporters_trivial(s: MetaStore, a: String) ensures reporters(s, a).len() == 0 { }
'''
