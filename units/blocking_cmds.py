# C16: the blocking pops (BLPOP BRPOP BRPOPLPUSH BZPOPMIN BZPOPMAX) are served by a retry loop in the async executor
# (handle_blocking_commands, src/proxy/executor.rs): every round it converts the request into non-blocking commands with
# transfer_cmd_from_blocking_to_non_blocking and sends each of them; a round over an EMPTY command list sends nothing, answers
# nothing, sleeps a second and repeats - for ever, whatever the timeout argument is. So "every request is answered" needs:
#   whenever the argument check get_command_arg_len accepts a request, the converter returns an error reply or at least one command.
# Both are plain (non-async) associated functions and are proved here on their real text. The request accessors are the only
# assumed contracts, and they are stated as weak as the real accessors are: an element of the request array may be absent even
# below the array length (get_array_element answers None for every element that is not a bulk string, src/protocol/resp.rs).
import re
import vlib
from units import broker_common

PRE = '''
#[verifier::external_body] pub struct RespVec { x: u8 }    // a reply value: only passed around here
#[verifier::external_body] pub struct CmdCtx { x: u8 }
impl CmdCtx {
    // length of the request array (None: the request is not an array)  - Command::get_command_len
    pub uninterp spec fn arr_len(&self) -> Option<usize>;
    // element i as a byte string (None: no such element OR the element is not a bulk string) - Command::get_command_element
    pub uninterp spec fn elem(&self, i: int) -> Option<Seq<u8>>;
    #[verifier::external_body] pub fn verif_get_command_len(&self) -> (r: Option<usize>) ensures r == self.arr_len() { unimplemented!() }
    #[verifier::external_body] pub fn verif_get_command_element(&self, index: usize) -> (r: Option<&[u8]>)
        ensures match r { Some(s) => self.elem(index as int) == Some(s@), None => self.elem(index as int) is None } { unimplemented!() }
}
// R-err: an error reply whose text is built with format! / a byte literal
#[verifier::external_body] fn shim_error_reply() -> RespVec { unimplemented!() }
// R-tovec: <[u8]>::to_vec
#[verifier::external_body] fn shim_to_vec(s: &[u8]) -> (r: Vec<u8>) ensures r@ == s@ { unimplemented!() }
// R-build: the two-element bulk array [name, key] (vec! + into_iter().map(Bulk).collect())
#[verifier::external_body] fn shim_name_key_cmd(name: &str, key: &Vec<u8>) -> RespVec { unimplemented!() }
// R-build2: BRPOPLPUSH: the request itself with element 0 renamed and the timeout popped
#[verifier::external_body] fn shim_renamed_without_timeout(cmd_ctx: &CmdCtx, name: &str) -> RespVec { unimplemented!() }

// what the argument check promises about an accepted request
pub open spec fn arg_ok(t: DataCmdType, len: usize) -> bool {
    match t {
        DataCmdType::Blpop | DataCmdType::Brpop | DataCmdType::Bzpopmin | DataCmdType::Bzpopmax => len >= 3,
        DataCmdType::Brpoplpush => len == 4,
        _ => false,
    }
}
'''

ERR_ARM = (r'let cmd_name = cmd_ctx\s*\.get_cmd\(\)\s*\.get_command_name\(\)\s*\.map\(\|s\| s\.to_string\(\)\)\s*'
           r'\.unwrap_or_else\(String::new\);\s*Err\(Resp::Error\(\s*format!\("ERR invalid argument number for \{:\?\}", cmd_name\)\.into_bytes\(\),\s*\)\)')

def build(U):
    CM = U.src('src/proxy/command.rs')
    dct = re.sub(r'\n\s*//[^\n]*', '', broker_common.strip(CM.item('enum', 'DataCmdType')))
    U.add('use vstd::prelude::*;\nverus! {\n#[derive(PartialEq, Eq, Clone, Copy, Structural)]\n' + dct + '\n')
    U.add(PRE)
    S = U.src('src/proxy/executor.rs')
    # ---- the argument check
    f = S.fn('get_command_arg_len')
    f.replace('R-acc', 'cmd_ctx.get_cmd().get_command_len()', 'cmd_ctx.verif_get_command_len()', count=1)
    f.sub('R-err', ERR_ARM, 'Err(shim_error_reply())', count=1)
    f.header('fn get_command_arg_len(cmd_ctx: &CmdCtx, data_cmd_type: DataCmdType) -> (r: Result<usize, RespVec>)\n'
             '        ensures r is Ok ==> cmd_ctx.arr_len() == Some(r->Ok_0) && arg_ok(data_cmd_type, r->Ok_0)')
    U.add_fn(f)
    # ---- the converter
    g = S.fn('transfer_cmd_from_blocking_to_non_blocking')
    g.sub('R-acc', r'cmd_ctx\.get_cmd\(\)\.get_command_element\((\w+)\)', r'cmd_ctx.verif_get_command_element(\1)', count=1)
    g.sub('R-tovec', r'Some\(key\) => key\.to_vec\(\)', 'Some(key) => shim_to_vec(key)', count=1)
    g.sub('R-build', r'let non_blocking_cmd =\s*vec!\[non_blocking_cmd_name\.to_string\(\)\.into_bytes\(\), key\.clone\(\)\];\s*'
                     r'let arr: Vec<RespVec> = non_blocking_cmd\s*\.into_iter\(\)\s*\.map\(\|s\| Resp::Bulk\(BulkStr::Str\(s\)\)\)\s*\.collect\(\);\s*'
                     r'let resp = Resp::Arr\(Array::Arr\(arr\)\);',
          'let resp = shim_name_key_cmd(non_blocking_cmd_name, &key);', count=1)
    g.sub('R-build2', r'let mut resp = cmd_ctx\.get_cmd\(\)\.get_resp_slice\(\)\.map\(\|b\| b\.to_vec\(\)\);\s*'
                      r'change_bulk_array_element\(\s*&mut resp,\s*0,\s*non_blocking_cmd_name\.to_string\(\)\.into_bytes\(\),\s*\);\s*'
                      r'if let Resp::Arr\(Array::Arr\(ref mut resps\)\) = resp \{\s*resps\.pop\(\);[^\n]*\n\s*\}',
          'let resp = shim_renamed_without_timeout(cmd_ctx, non_blocking_cmd_name);', count=1)
    g.sub('R-err', r'Resp::Error\(b"[^"]*"\.to_vec\(\)\)', 'shim_error_reply()')
    g.replace('R-vec', 'let mut cmds = vec![];', 'let mut cmds: Vec<(Vec<u8>, RespVec)> = Vec::new();', count=1)
    g.replace('R-vec', 'cmds.push((vec![], resp));', 'cmds.push((Vec::new(), resp));', count=1)
    g.text = g.text.replace('Result<NonBlockingCommandsWithKey, RespVec>', 'Result<Vec<(Vec<u8>, RespVec)>, RespVec>')
    U.log.rule('R-alias', g, 'type NonBlockingCommandsWithKey = Vec<(Vec<u8>, RespVec)> expanded')
    g.header('fn transfer_cmd_from_blocking_to_non_blocking(\n        cmd_ctx: &CmdCtx,\n        data_cmd_type: DataCmdType,\n        arg_len: usize,\n'
             '        non_blocking_cmd_name: &str,\n    ) -> (r: Result<Vec<(Vec<u8>, RespVec)>, RespVec>)\n'
             '        requires cmd_ctx.arr_len() == Some(arg_len), arg_ok(data_cmd_type, arg_len),   // exactly the postcondition of the argument check; NOTHING about the elements\n'
             '        ensures r is Ok ==> r->Ok_0@.len() >= 1   // a round of the retry loop always sends a command: no silent spin')
    if g.loops():
        g.loop_spec(0, '                invariant cmds@.len() == i - 1, arg_len >= 3', itname='it')
    U.add_fn(g)
    U.add('} // verus!\nfn main() {}\n')
    # ---- the async caller is not under contract: what it has to do for the two contracts to compose is scanned
    S.scan('handle_blocking_commands takes arg_len from get_command_arg_len on the same request and answers at once when it refuses',
           r'let arg_len = match Self::get_command_arg_len\(&cmd_ctx, data_cmd_type\) \{\s*Ok\(len\) => len,\s*(?://[^\n]*\n\s*)*Err\(resp\) => \{\s*cmd_ctx\.set_resp_result\(Ok\(resp\)\);\s*return reply_receiver\.await;',
           expect_count=1)
    S.scan('the retry loop hands that arg_len, the same request and the same command type to the converter and answers at once when it refuses',
           r'match Self::transfer_cmd_from_blocking_to_non_blocking\(\s*&cmd_ctx,\s*data_cmd_type,\s*arg_len,\s*non_blocking_cmd_name,\s*\) \{\s*Ok\(cmds\) => cmds,\s*Err\(resp\) => \{\s*cmd_ctx\.set_resp_result\(Ok\(resp\)\);\s*return reply_receiver\.await;',
           expect_count=1)
    U.trust('Command::get_command_len / get_command_element by assumed contracts (array length; an element may be absent or not a bulk string at any index)',
            'the replies and the built commands are opaque values (R-err, R-build, R-build2): only HOW MANY commands a round sends is decided',
            'handle_blocking_commands itself is async and only scanned: that each sent command is answered by the backend exchange, and the timeout arithmetic of the loop, are not decided')

MUST_FAIL = '''
proof fn must_fail_blocking_vacuity(c: CmdCtx, n: usize) requires c.arr_len() == Some(n), arg_ok(DataCmdType::Blpop, n) ensures false { }
'''
