#!/bin/bash
# devseedcheck.sh <patch.diff> <property id>  -- like seed_check.sh but on the scratch worktree /var/tmp/devrepo (VERIF_REPO), /repo untouched
P="$1"; shift
git -C /var/tmp/devrepo apply "$P" || { echo "does not apply"; exit 3; }
for id in "$@"; do
  VERIF_REPO=/var/tmp/devrepo VERIF_OUT=/var/tmp/seedcheck_out ./check "$id" quick 2>&1 | grep -v conda | head -12; echo "[$id exit=${PIPESTATUS[0]}]"
done
git -C /var/tmp/devrepo checkout -- .
