use vstd::prelude::*;
use std::collections::HashMap;
verus! {
fn f(m: &mut HashMap<u64, u64>, k: u64) { let r = m.is_empty(); }
}
fn main() {}
