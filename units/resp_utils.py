# C16 (command element access never panics) / C20 layer 1: the RESP value helpers of src/common/utils.rs
# get_command_element, get_command_len, change_bulk_str, change_bulk_array_element, left_trim_array
import re
import vlib
from units import broker_common

PRE = '''#![allow(unused_imports)]
use vstd::prelude::*;
verus! {
pub type BinSafeStr = Vec<u8>;
pub type RespVec = Resp<BinSafeStr>;
pub uninterp spec fn bytes_of<T>(t: &T) -> Seq<u8>;
// R-asref: <T as AsRef<[u8]>>::as_ref
#[verifier::allow(undeclared_external_trait)]
#[verifier::external_body] fn shim_as_bytes<T: AsRef<[u8]>>(t: &T) -> (r: &[u8]) ensures r@ == bytes_of(t) { t.as_ref() }
// R6
fn min(a: usize, b: usize) -> (r: usize) ensures r == (if a <= b { a } else { b }) { if a <= b { a } else { b } }
// D6b: v.drain(a..).collect()  (a <= len: otherwise std panics - obligation)
#[verifier::external_body] fn shim_drain_from<T>(v: &mut Vec<T>, a: usize) -> (r: Vec<T>)
    requires a <= old(v)@.len()
    ensures r@ == old(v)@.subrange(a as int, old(v)@.len() as int), final(v)@ == old(v)@.subrange(0, a as int)
{ v.drain(a..).collect() }
pub open spec fn is_bulk_str<T>(r: Resp<T>) -> bool { r matches Resp::Bulk(BulkStr::Str(_)) }
'''

def build(U):
    S = U.src('src/common/utils.rs')
    R = U.src('src/protocol/resp.rs')
    U.add(PRE)
    for n in ('BulkStr', 'Array', 'Resp'):
        U.add(broker_common.strip(R.item('enum', n)) + '\n')

    f = S.fn('get_command_element')
    f.replace('R-asref', 'Some(s.as_ref())', 'Some(shim_as_bytes(s))', count=1)
    f.sub('closure-spec', r'\.and_then\(\|resp\| match resp \{', '''.and_then(|resp: &Resp<T>| -> (o: Option<&[u8]>)
            ensures match o { Some(s) => (match resp { Resp::Bulk(BulkStr::Str(x)) => s@ == bytes_of(x), _ => false }), None => !(resp matches Resp::Bulk(BulkStr::Str(_))) }
            { match resp {''', count=1)
    # close the closure block: the closure body was `match resp { ... }` directly followed by `),`
    f.sub('closure-spec', r'(_ => None,\s*\})\),', r'\1 }),', count=1)
    f.header('''#[verifier::allow(undeclared_external_trait)]
pub fn get_command_element<T: AsRef<[u8]>>(resp: &Resp<T>, index: usize) -> (r: Option<&[u8]>)
    ensures match r {
        Some(s) => resp matches Resp::Arr(Array::Arr(v)) && index < v@.len() && (match v@[index as int] { Resp::Bulk(BulkStr::Str(x)) => s@ == bytes_of(&x), _ => false }),
        None => !(resp matches Resp::Arr(Array::Arr(v)) && index < v@.len() && v@[index as int] matches Resp::Bulk(BulkStr::Str(_))),
    }''')
    U.add_fn(f)

    f = S.fn('get_command_len')
    f.header('''pub fn get_command_len<T>(resp: &Resp<T>) -> (r: Option<usize>)
    ensures match r { Some(n) => resp matches Resp::Arr(Array::Arr(v)) && n == v@.len(), None => !(resp matches Resp::Arr(Array::Arr(_))) }''')
    U.add_fn(f)

    f = S.fn('change_bulk_str')
    f.header('''pub fn change_bulk_str(resp: &mut RespVec, data: Vec<u8>) -> (r: bool)
    ensures r == is_bulk_str(*old(resp)), r ==> *final(resp) == Resp::Bulk(BulkStr::Str(data)), !r ==> *final(resp) == *old(resp)''')
    U.add_fn(f)

    f = S.fn('change_bulk_array_element')
    f.sub('closure-spec', r'\.map\(\|resp\| change_bulk_str\(resp, data\)\)',
          '.map(|resp: &mut RespVec| -> (b: bool) ensures b == is_bulk_str(*old(resp)), b ==> *final(resp) == Resp::Bulk(BulkStr::Str(data)), !b ==> *final(resp) == *old(resp) { change_bulk_str(resp, data) })', count=1)
    f.header('''pub fn change_bulk_array_element(resp: &mut RespVec, index: usize, data: Vec<u8>) -> (r: bool)
    ensures
        r == (*old(resp) matches Resp::Arr(Array::Arr(v)) && index < v@.len() && is_bulk_str(v@[index as int])),
        r ==> (*old(resp) matches Resp::Arr(Array::Arr(v)) && (*final(resp) matches Resp::Arr(Array::Arr(w)) && w@ == v@.update(index as int, Resp::Bulk(BulkStr::Str(data))))),
        !r ==> (match (*old(resp), *final(resp)) { (Resp::Arr(Array::Arr(v)), Resp::Arr(Array::Arr(w))) => w@ == v@, (a, b) => a == b }),''')
    U.add_fn(f)

    f = S.fn('left_trim_array')
    f.replace('D6b', 'let new_resps = resps.drain(start..).collect();', 'let new_resps = shim_drain_from(resps, start);', count=1)
    f.header('''pub fn left_trim_array<T>(resp: &mut Resp<T>, removed_num: usize) -> (r: Option<usize>)
    ensures match r {
        Some(n) => *old(resp) matches Resp::Arr(Array::Arr(v)) && (*final(resp) matches Resp::Arr(Array::Arr(w))
            && w@ == v@.subrange(if removed_num <= v@.len() { removed_num as int } else { v@.len() as int }, v@.len() as int) && n == w@.len()),
        None => !(*old(resp) matches Resp::Arr(Array::Arr(_))) && *final(resp) == *old(resp),
    }''')
    U.add_fn(f)
    U.add('} // verus!\nfn main() {}\n')
    U.trust('AsRef<[u8]>::as_ref by an uninterpreted view (shim_as_bytes); Vec::drain(a..).collect() = split at a (shim_drain_from, adds the obligation a <= len); std::cmp::min')

MUST_FAIL = '''
proof fn must_fail_resp_utils_vacuity(r: Resp<Vec<u8>>) ensures is_bulk_str(r) { }
'''
