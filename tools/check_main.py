#!/usr/bin/env python3
# thin guard around tools/driver.py: a crash of the machinery itself (import error, exception) must never look like a
# violation (exit 1) - it is reported as undecided (exit 2)
import os, sys, traceback
HERE = os.path.dirname(os.path.abspath(__file__))
sys.path.insert(0, HERE)
try:
    import driver
    rc = driver.main()
except SystemExit as e:
    rc = e.code if isinstance(e.code, int) else 2
except BaseException:
    traceback.print_exc()
    print('UNDECIDED: the checking machinery crashed (see traceback); this is not a verdict about /repo')
    rc = 2
sys.exit(rc)
