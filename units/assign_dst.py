# C01: MetaStoreMigrate::assign_dst_slots (src/broker/migrate.rs): every MigrationSlots adds exactly one
# migrating entry at the source half and one importing twin at the destination half with the same range list
# and meta; nothing else changes (then compact_slots, by assumed contract: coverage-preserving on every range list)
import re
import vlib
from units import broker_common

SPEC = '''
impl Clone for RangeList { #[verifier::external_body] fn clone(&self) -> (r: Self) ensures r == *self { unimplemented!() } }
impl Clone for MigrationMetaStore { #[verifier::external_body] fn clone(&self) -> (r: Self) ensures r == *self { unimplemented!() } }
pub uninterp spec fn rl_covers(rl: RangeList, s: int) -> bool;
pub open spec fn rl_same(a: RangeList, b: RangeList) -> bool { forall|s: int| rl_covers(a, s) <==> rl_covers(b, s) }
pub open spec fn valid_meta(m: MigrationMetaStore, n: int) -> bool {
    m.src_chunk_index < n && m.dst_chunk_index < n && m.src_chunk_part < 2 && m.dst_chunk_part < 2
}
pub open spec fn chunk_static_eq(a: ChunkStore, b: ChunkStore) -> bool {
    a.stable_slots == b.stable_slots && a.proxy_addresses == b.proxy_addresses && a.hosts == b.hosts && a.node_addresses == b.node_addresses && a.role_position == b.role_position
}
// entries of half (c,p) after adding the pairs of adds[0..k] in order
pub open spec fn entries_after(base: Seq<MigrationSlotRangeStore>, adds: Seq<MigrationSlots>, k: int, c: int, p: int) -> Seq<MigrationSlotRangeStore>
    decreases k
{
    if k <= 0 { base } else {
        let prev = entries_after(base, adds, k - 1, c, p);
        let m = adds[k - 1];
        let with_src = if m.meta.src_chunk_index == c && m.meta.src_chunk_part == p { prev.push(MigrationSlotRangeStore { range_list: m.ranges, is_migrating: true, meta: m.meta }) } else { prev };
        if m.meta.dst_chunk_index == c && m.meta.dst_chunk_part == p { with_src.push(MigrationSlotRangeStore { range_list: m.ranges, is_migrating: false, meta: m.meta }) } else { with_src }
    }
}
pub open spec fn assigned(o: ClusterStore, n: ClusterStore, adds: Seq<MigrationSlots>, k: int) -> bool {
    n.chunks@.len() == o.chunks@.len() && n.epoch == o.epoch && n.name == o.name && n.config == o.config
    && forall|c: int| 0 <= c < o.chunks@.len() ==> chunk_static_eq(#[trigger] o.chunks@[c], n.chunks@[c])
        && n.chunks@[c].migrating_slots[0]@ =~= entries_after(o.chunks@[c].migrating_slots[0]@, adds, k, c, 0)
        && n.chunks@[c].migrating_slots[1]@ =~= entries_after(o.chunks@[c].migrating_slots[1]@, adds, k, c, 1)
}
// what compact_slots may change: every range list is replaced by one covering the same slots (RangeList::compact,
// proved in unit range_list); structure, metas, flags, addresses unchanged
pub open spec fn entry_compacted(a: MigrationSlotRangeStore, b: MigrationSlotRangeStore) -> bool { a.meta == b.meta && a.is_migrating == b.is_migrating && rl_same(a.range_list, b.range_list) }
pub open spec fn stable_compacted(a: Option<SlotRange>, b: Option<SlotRange>) -> bool {
    match (a, b) { (Some(x), Some(y)) => x.tag == y.tag && rl_same(x.range_list, y.range_list), (None, None) => true, _ => false }
}
pub open spec fn compacted(o: ClusterStore, n: ClusterStore) -> bool {
    n.chunks@.len() == o.chunks@.len() && n.epoch == o.epoch && n.name == o.name && n.config == o.config
    && forall|c: int| 0 <= c < o.chunks@.len() ==> {
        let a = #[trigger] o.chunks@[c]; let b = n.chunks@[c];
        a.proxy_addresses == b.proxy_addresses && a.hosts == b.hosts && a.node_addresses == b.node_addresses && a.role_position == b.role_position
        && stable_compacted(a.stable_slots[0], b.stable_slots[0]) && stable_compacted(a.stable_slots[1], b.stable_slots[1])
        && forall|p: int| 0 <= p < 2 ==> (#[trigger] a.migrating_slots[p])@.len() == b.migrating_slots[p]@.len()
            && forall|i: int| 0 <= i < a.migrating_slots[p]@.len() ==> entry_compacted(#[trigger] a.migrating_slots[p]@[i], b.migrating_slots[p]@[i])
    }
}
pub struct MetaStoreMigrate<'a> { pub store: &'a mut MetaStore }
impl<'a> MetaStoreMigrate<'a> {
    // proved in unit compact_slots (there with covers(..) in place of the uninterpreted rl_covers and the precondition bound < usize::MAX)
    #[verifier::external_body] fn compact_slots(cluster: &mut ClusterStore) ensures compacted(*old(cluster), *final(cluster)) { unimplemented!() }
'''

def build(U):
    broker_common.head(U)
    U.add(broker_common.types(U))
    U.add(SPEC)
    M = U.src('src/broker/migrate.rs')
    f = M.fn('assign_dst_slots')
    f.r1_logging()
    f.header('''    fn assign_dst_slots(cluster: &mut ClusterStore, migration_slots: Vec<MigrationSlots>)
        requires forall|i: int| 0 <= i < migration_slots@.len() ==> valid_meta((#[trigger] migration_slots@[i]).meta, old(cluster).chunks@.len() as int),
        ensures exists|mid: ClusterStore| assigned(*old(cluster), mid, migration_slots@, migration_slots@.len() as int) && compacted(mid, *final(cluster)),''')
    f.loop_spec(0, '''            invariant
                it.seq() == migration_slots@,
                forall|i: int| 0 <= i < migration_slots@.len() ==> valid_meta((#[trigger] migration_slots@[i]).meta, old(cluster).chunks@.len() as int),
                assigned(*old(cluster), *cluster, migration_slots@, it.index@),''', itname='it')
    f.before('Self::compact_slots(cluster);', '        let ghost mid = *cluster;')
    f.after('Self::compact_slots(cluster);', '        proof { assert(assigned(*old(cluster), mid, migration_slots@, migration_slots@.len() as int) && compacted(mid, *cluster)); }')
    U.add_fn(f)
    U.add('}\n} // verus!\nfn main() {}\n')
    U.trust('compact_slots through its contract (every range list keeps its coverage, structure unchanged): proved in unit compact_slots under the precondition that every range bound is < usize::MAX, which is not established here; derived Clone structural')

MUST_FAIL = '''
proof fn must_fail_assigned_not_trivial(o: ClusterStore, n: ClusterStore, adds: Seq<MigrationSlots>)
    requires adds.len() == 1, valid_meta(adds[0].meta, o.chunks@.len() as int), o.chunks@.len() > 0, compacted(o, n)
    ensures assigned(o, n, adds, 1)
{ }
'''
