// ======================= lemmas over the grammar =======================
pub proof fn lemma_first_lf_props(s: Seq<u8>)
    ensures match first_lf(s) {
        Some(i) => 0 <= i < s.len() && s[i] == LF && forall|j: int| 0 <= j < i ==> s[j] != LF,
        None => forall|j: int| 0 <= j < s.len() ==> s[j] != LF,
    }
    decreases s.len()
{
    if s.len() == 0 {} else if s[0] == LF {} else {
        let t = s.subrange(1, s.len() as int);
        lemma_first_lf_props(t);
        match first_lf(t) {
            Some(i) => { assert forall|j: int| 0 <= j < i + 1 implies s[j] != LF by { if j > 0 { assert(t[j - 1] == s[j]); } } assert(t[i] == s[i + 1]); }
            None => { assert forall|j: int| 0 <= j < s.len() implies s[j] != LF by { if j > 0 { assert(t[j - 1] == s[j]); } } }
        }
    }
}
pub proof fn lemma_first_lf_is(s: Seq<u8>, i: int)
    requires 0 <= i < s.len(), s[i] == LF, forall|j: int| 0 <= j < i ==> s[j] != LF
    ensures first_lf(s) == Some(i)
{ lemma_first_lf_props(s); }
pub proof fn lemma_first_lf_none(s: Seq<u8>)
    requires forall|j: int| 0 <= j < s.len() ==> s[j] != LF
    ensures first_lf(s).is_none()
{ lemma_first_lf_props(s); }

// two byte strings agree on their first c bytes
pub open spec fn agree(s: Seq<u8>, t: Seq<u8>, c: int) -> bool { c <= s.len() && c <= t.len() && forall|j: int| 0 <= j < c ==> s[j] == t[j] }

pub proof fn lemma_line_prefix(s: Seq<u8>, t: Seq<u8>)
    requires spec_line(s) is Ok, agree(s, t, spec_line(s)->Ok_1)
    ensures spec_line(t) == spec_line(s)
{
    lemma_first_lf_props(s);
    let i = first_lf(s).unwrap();
    assert(t[i] == LF);
    assert forall|j: int| 0 <= j < i implies t[j] != LF by { assert(s[j] != LF); }
    lemma_first_lf_is(t, i);
}
pub proof fn lemma_line_short(s: Seq<u8>, k: int)
    requires spec_line(s) is Ok, 0 <= k < spec_line(s)->Ok_1
    ensures spec_line(s.subrange(0, k)) is NotEnough
{
    lemma_first_lf_props(s);
    let i = first_lf(s).unwrap();
    let p = s.subrange(0, k);
    assert forall|j: int| 0 <= j < p.len() implies p[j] != LF by { assert(p[j] == s[j]); }
    lemma_first_lf_none(p);
}
pub proof fn lemma_len_prefix(s: Seq<u8>, t: Seq<u8>)
    requires spec_len(s) is Ok, agree(s, t, spec_len(s)->Ok_1)
    ensures spec_len(t) == spec_len(s)
{
    lemma_first_lf_props(s);
    lemma_line_prefix(s, t);
    let e = spec_line(s)->Ok_0;
    assert(0 <= e && e + 2 == spec_line(s)->Ok_1);
    assert(s.subrange(0, e) =~= t.subrange(0, e));
}
pub proof fn lemma_bulk_prefix(s: Seq<u8>, t: Seq<u8>)
    requires spec_bulk(s) is Ok, agree(s, t, spec_bulk(s)->Ok_1)
    ensures spec_bulk(t) == spec_bulk(s)
{
    lemma_first_lf_props(s);
    let c = spec_len(s)->Ok_1;
    assert(c <= spec_bulk(s)->Ok_1);
    lemma_len_prefix(s, t);
}

// consumed positions only grow
pub proof fn lemma_elems_mono(s: Seq<u8>, pos: int, k: int, acc: Seq<SResp>)
    requires spec_elems(s, pos, k, acc) is Ok
    ensures spec_elems(s, pos, k, acc)->Ok_1 >= pos, k > 0 ==> spec_elems(s, pos, k, acc)->Ok_1 <= s.len()
    decreases s.len(), 0int, k
{
    if k <= 0 {} else {
        let sub = s.subrange(pos, s.len() as int);
        let c = spec_resp(sub)->Ok_1;
        lemma_resp_bounds(sub);
        lemma_elems_mono(s, pos + c, k - 1, acc.push(shift(spec_resp(sub)->Ok_0, pos)));
    }
}
pub proof fn lemma_resp_bounds(s: Seq<u8>)
    requires spec_resp(s) is Ok
    ensures 1 <= spec_resp(s)->Ok_1 <= s.len()
    decreases s.len(), 2int, 0int
{
    lemma_first_lf_props(s.subrange(1, s.len() as int));
    let t = s.subrange(1, s.len() as int);
    if s[0] == 42u8 { lemma_array_bounds(t); }
}
pub proof fn lemma_array_bounds(s: Seq<u8>)
    requires spec_array(s) is Ok
    ensures 1 <= spec_array(s)->Ok_1 <= s.len()
    decreases s.len(), 1int, 0int
{
    lemma_first_lf_props(s);
    let n = spec_len(s)->Ok_0; let c = spec_len(s)->Ok_1;
    if n >= 0 {
        lemma_elems_mono(s, c, n, Seq::<SResp>::empty());
    }
}

pub proof fn lemma_resp_prefix(s: Seq<u8>, t: Seq<u8>)
    requires spec_resp(s) is Ok, agree(s, t, spec_resp(s)->Ok_1)
    ensures spec_resp(t) == spec_resp(s)
    decreases s.len(), 2int, 0int
{
    lemma_resp_bounds(s);
    let s1 = s.subrange(1, s.len() as int); let t1 = t.subrange(1, t.len() as int);
    let c = spec_resp(s)->Ok_1;
    assert(t[0] == s[0]);
    assert(agree(s1, t1, c - 1)) by { assert forall|j: int| 0 <= j < c - 1 implies s1[j] == t1[j] by { assert(s[j + 1] == t[j + 1]); } }
    let p = s[0];
    if p == 36u8 { lemma_bulk_prefix(s1, t1); }
    else if p == 43u8 || p == 58u8 || p == 45u8 { lemma_line_prefix(s1, t1); }
    else if p == 42u8 { lemma_array_prefix(s1, t1); }
}
pub proof fn lemma_array_prefix(s: Seq<u8>, t: Seq<u8>)
    requires spec_array(s) is Ok, agree(s, t, spec_array(s)->Ok_1)
    ensures spec_array(t) == spec_array(s)
    decreases s.len(), 1int, 0int
{
    lemma_first_lf_props(s);
    lemma_array_bounds(s);
    let n = spec_len(s)->Ok_0; let c = spec_len(s)->Ok_1;
    if n >= 0 { lemma_elems_mono(s, c, n, Seq::<SResp>::empty()); }
    lemma_len_prefix(s, t);
    if n >= 0 {
        lemma_elems_prefix(s, t, c, n, Seq::<SResp>::empty());
    }
}
pub proof fn lemma_elems_prefix(s: Seq<u8>, t: Seq<u8>, pos: int, k: int, acc: Seq<SResp>)
    requires spec_elems(s, pos, k, acc) is Ok, agree(s, t, spec_elems(s, pos, k, acc)->Ok_1), 1 <= pos,
    ensures spec_elems(t, pos, k, acc) == spec_elems(s, pos, k, acc)
    decreases s.len(), 0int, k
{
    if k <= 0 {} else {
        let ss = s.subrange(pos, s.len() as int); let ts = t.subrange(pos, t.len() as int);
        let c = spec_resp(ss)->Ok_1;
        let acc2 = acc.push(shift(spec_resp(ss)->Ok_0, pos));
        lemma_resp_bounds(ss);
        lemma_elems_mono(s, pos + c, k - 1, acc2);
        let end = spec_elems(s, pos, k, acc)->Ok_1;
        assert(end == spec_elems(s, pos + c, k - 1, acc2)->Ok_1);
        assert(agree(ss, ts, c)) by { assert forall|j: int| 0 <= j < c implies ss[j] == ts[j] by { assert(s[pos + j] == t[pos + j]); } }
        lemma_resp_prefix(ss, ts);
        lemma_elems_prefix(s, t, pos + c, k - 1, acc2);
    }
}

// ---------- no early commit: every proper prefix of a complete packet is NotEnough ----------
pub proof fn lemma_len_short(s: Seq<u8>, k: int)
    requires spec_len(s) is Ok, 0 <= k < spec_len(s)->Ok_1
    ensures spec_len(s.subrange(0, k)) is NotEnough
{
    lemma_first_lf_props(s);
    lemma_line_short(s, k);
}
pub proof fn lemma_bulk_short(s: Seq<u8>, k: int)
    requires spec_bulk(s) is Ok, 0 <= k < spec_bulk(s)->Ok_1
    ensures spec_bulk(s.subrange(0, k)) is NotEnough
{
    lemma_first_lf_props(s);
    let c = spec_len(s)->Ok_1; let n = spec_len(s)->Ok_0;
    let p = s.subrange(0, k);
    if k < c { lemma_len_short(s, k); }
    else {
        assert(agree(s, p, c)) by { assert forall|j: int| 0 <= j < c implies s[j] == p[j] by {} }
        lemma_len_prefix(s, p);
    }
}
pub proof fn lemma_resp_short(s: Seq<u8>, k: int)
    requires spec_resp(s) is Ok, 0 <= k < spec_resp(s)->Ok_1
    ensures spec_resp(s.subrange(0, k)) is NotEnough
    decreases s.len(), 2int, 0int
{
    lemma_resp_bounds(s);
    let p = s.subrange(0, k);
    if k == 0 {} else {
        let s1 = s.subrange(1, s.len() as int);
        assert(p.subrange(1, p.len() as int) =~= s1.subrange(0, k - 1));
        assert(p[0] == s[0]);
        let b = s[0];
        if b == 36u8 { lemma_bulk_short(s1, k - 1); }
        else if b == 43u8 || b == 58u8 || b == 45u8 { lemma_line_short(s1, k - 1); }
        else if b == 42u8 { lemma_array_short(s1, k - 1); }
    }
}
pub proof fn lemma_array_short(s: Seq<u8>, k: int)
    requires spec_array(s) is Ok, 0 <= k < spec_array(s)->Ok_1
    ensures spec_array(s.subrange(0, k)) is NotEnough
    decreases s.len(), 1int, 0int
{
    lemma_first_lf_props(s);
    lemma_array_bounds(s);
    let n = spec_len(s)->Ok_0; let c = spec_len(s)->Ok_1;
    let p = s.subrange(0, k);
    if k < c { lemma_len_short(s, k); }
    else {
        assert(agree(s, p, c)) by { assert forall|j: int| 0 <= j < c implies s[j] == p[j] by {} }
        lemma_len_prefix(s, p);
        // n >= 0 here, because for n == -1 consumed == c <= k
        lemma_elems_short(s, k, c, n, Seq::<SResp>::empty());
    }
}
pub proof fn lemma_elems_short(s: Seq<u8>, k: int, pos: int, cnt: int, acc: Seq<SResp>)
    requires spec_elems(s, pos, cnt, acc) is Ok, 1 <= pos <= k, k < spec_elems(s, pos, cnt, acc)->Ok_1, k <= s.len(),
    ensures spec_elems(s.subrange(0, k), pos, cnt, acc) is NotEnough
    decreases s.len(), 0int, cnt
{
    let p = s.subrange(0, k);
    if cnt <= 0 {} else {
        let ss = s.subrange(pos, s.len() as int); let ps = p.subrange(pos, p.len() as int);
        let c = spec_resp(ss)->Ok_1;
        let acc2 = acc.push(shift(spec_resp(ss)->Ok_0, pos));
        lemma_resp_bounds(ss);
        lemma_elems_mono(s, pos + c, cnt - 1, acc2);
        assert(ps =~= ss.subrange(0, k - pos));
        if k - pos < c {
            lemma_resp_short(ss, k - pos);
        } else {
            assert(agree(ss, ps, c)) by { assert forall|j: int| 0 <= j < c implies ss[j] == ps[j] by {} }
            lemma_resp_prefix(ss, ps);
            lemma_elems_short(s, k, pos + c, cnt - 1, acc2);
        }
    }
}
