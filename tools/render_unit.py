import sys, os
sys.path.insert(0,'/verif/tools'); sys.path.insert(0,'/verif')
import vlib, importlib
u=sys.argv[1]
mod=importlib.import_module('units.'+u); U=vlib.Unit(u); mod.build(U); text,_=U.render()
open('/var/tmp/devunits/%s_raw.rs'%u,'w').write(text)
