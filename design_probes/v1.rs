use vstd::prelude::*;
use std::collections::HashSet;
verus! {

pub struct Range(pub usize, pub usize);
pub struct RangeList(pub Vec<Range>);
pub struct MigrationMeta { pub epoch: u64, pub src_proxy_address: String, pub src_node_address: String, pub dst_proxy_address: String, pub dst_node_address: String }
pub enum SlotRangeTag { Migrating(MigrationMeta), Importing(MigrationMeta), None }
pub struct SlotRange { pub range_list: RangeList, pub tag: SlotRangeTag }

#[derive(Clone, Copy, PartialEq, Eq)]
pub enum ChunkRolePosition { Normal, FirstChunkMaster, SecondChunkMaster }

pub struct MigrationMetaStore { pub epoch: u64, pub src_chunk_index: usize, pub src_chunk_part: usize, pub dst_chunk_index: usize, pub dst_chunk_part: usize }
pub struct MigrationSlotRangeStore { pub range_list: RangeList, pub is_migrating: bool, pub meta: MigrationMetaStore }

pub struct ChunkStore {
    pub role_position: ChunkRolePosition,
    pub stable_slots: [Option<SlotRange>; 2],
    pub migrating_slots: [Vec<MigrationSlotRangeStore>; 2],
    pub proxy_addresses: [String; 2],
    pub hosts: [String; 2],
    pub node_addresses: [String; 4],
}
pub struct ClusterStore { pub epoch: u64, pub chunks: Vec<ChunkStore> }

pub enum MetaStoreError { ClusterNotFound }


pub const CHUNK_NODE_NUM: usize = 4;
pub const CHUNK_HALF_NODE_NUM: usize = 2;
#[derive(Clone, Copy, PartialEq, Eq)]
pub enum Role { Master, Replica }
pub struct ReplPeer { pub node_address: String, pub proxy_address: String }
pub struct ReplMeta { pub role: Role, pub peers: Vec<ReplPeer> }
impl ReplMeta { pub fn new(role: Role, peers: Vec<ReplPeer>) -> (r: Self) ensures r.role == role, r.peers == peers { Self { role, peers } } }
pub struct Node { pub address: String, pub proxy_address: String, pub slots: Vec<SlotRange>, pub repl: ReplMeta }
impl Node { pub fn new(address: String, proxy_address: String, slots: Vec<SlotRange>, repl: ReplMeta) -> (r: Self) ensures r.address == address, r.proxy_address == proxy_address, r.slots == slots, r.repl == repl { Node { address, proxy_address, slots, repl } } }

pub uninterp spec fn spec_to_slot_range(e: MigrationSlotRangeStore, chunks: Seq<ChunkStore>) -> SlotRange;
impl MigrationSlotRangeStore {
    #[verifier::external_body]
    pub fn to_slot_range(&self, chunks: &[ChunkStore]) -> (r: SlotRange) ensures r == spec_to_slot_range(*self, chunks@) { unimplemented!() }
}
#[verifier::external_body]
fn clone_slot_range(s: &SlotRange) -> (r: SlotRange) ensures r == *s { unimplemented!() }

// ---- statement-level spec ----
// replica of node k is node 3-k; the Normal master of half p is node 2p.
pub open spec fn proxy_of_node(k: int) -> int { k / 2 }
pub open spec fn master_node(rp: ChunkRolePosition, p: int) -> int {
    match rp {
        ChunkRolePosition::Normal => 2 * p,
        ChunkRolePosition::FirstChunkMaster => if proxy_of_node(2 * p) == 0 { 2 * p } else { 3 - 2 * p },   // proxy 1 failed
        ChunkRolePosition::SecondChunkMaster => if proxy_of_node(2 * p) == 1 { 2 * p } else { 3 - 2 * p },  // proxy 0 failed
    }
}
pub open spec fn is_master(rp: ChunkRolePosition, k: int) -> bool { k == master_node(rp, 0) || k == master_node(rp, 1) }
pub open spec fn half_slots(cs: ClusterStore, c: int, p: int) -> Seq<SlotRange> {
    let ch = cs.chunks@[c];
    let st = match ch.stable_slots[p] { Some(sr) => seq![sr], None => Seq::<SlotRange>::empty() };
    st + Seq::new(ch.migrating_slots[p]@.len(), |i: int| spec_to_slot_range(ch.migrating_slots[p]@[i], cs.chunks@))
}
pub open spec fn node_ok(cs: ClusterStore, c: int, k: int, n: Node) -> bool {
    let ch = cs.chunks@[c];
    &&& n.address@ == ch.node_addresses[k]@
    &&& n.proxy_address@ == ch.proxy_addresses[k / 2]@
    &&& (n.repl.role == Role::Master) == is_master(ch.role_position, k)
    &&& n.repl.peers@.len() == 1
    &&& n.repl.peers@[0].node_address@ == ch.node_addresses[3 - k]@
    &&& n.repl.peers@[0].proxy_address@ == ch.proxy_addresses[(3 - k) / 2]@
    &&& n.slots@ =~= (if k == master_node(ch.role_position, 0) { half_slots(cs, c, 0) } else if k == master_node(ch.role_position, 1) { half_slots(cs, c, 1) } else { Seq::<SlotRange>::empty() })
}

    pub fn cluster_store_to_cluster(cluster_store: &ClusterStore) -> (nodes: Vec<Node>)
        ensures nodes@.len() == 4 * cluster_store.chunks@.len(),
                forall|c: int, k: int| 0 <= c < cluster_store.chunks@.len() && 0 <= k < 4 ==> node_ok(*cluster_store, c, k, #[trigger] nodes@[4 * c + k]),
{
        let mut verif_acc: Vec<Node> = vec![];
        for chunk in it: cluster_store.chunks.iter()
            invariant
                it.seq().len() == cluster_store.chunks@.len(),
                forall|i: int| 0 <= i < it.seq().len() ==> *(#[trigger] it.seq()[i]) == cluster_store.chunks@[i],
                verif_acc@.len() == 4 * it.index@,
                forall|c: int, k: int| 0 <= c < it.index@ && 0 <= k < 4 ==> node_ok(*cluster_store, c, k, #[trigger] verif_acc@[4 * c + k]),
        {
            let mut verif_part = {
                let mut nodes = vec![];
                for i in it2: 0..CHUNK_NODE_NUM
                    invariant
                        0 <= it.index@ < cluster_store.chunks@.len(),
                        *chunk == cluster_store.chunks@[it.index@],
                        nodes@.len() == i,
                        forall|k: int| 0 <= k < i ==> node_ok(*cluster_store, it.index@, k, #[trigger] nodes@[k]),
                {
                    let address = chunk
                        .node_addresses
                        .get(i)
                        .expect("MetaStore::get_cluster_by_name: failed to get node")
                        .clone();
                    let proxy_address = chunk
                        .proxy_addresses
                        .get(i / 2)
                        .expect("MetaStore::get_cluster_by_name: failed to get proxy")
                        .clone();

                    // get slots
                    let mut slots = vec![];
                    let (first_slot_index, second_slot_index) = match chunk.role_position {
                        ChunkRolePosition::Normal => (0, 2),
                        ChunkRolePosition::FirstChunkMaster => (0, 1),
                        ChunkRolePosition::SecondChunkMaster => (3, 2),
                    };
                    if i == first_slot_index {
                        let mut first_slots = vec![];
                        if let Some(stable_slots) = &chunk.stable_slots[0] {
                            first_slots.push(clone_slot_range(stable_slots));
                        }
                        slots.append(&mut first_slots);
                        let mut slot_ranges: Vec<SlotRange> = vec![];
                        for slot_range_store in it3: chunk.migrating_slots[0].iter()
                            invariant
                                it3.seq().len() == chunk.migrating_slots[0]@.len(),
                                forall|j: int| 0 <= j < it3.seq().len() ==> *(#[trigger] it3.seq()[j]) == chunk.migrating_slots[0]@[j],
                                slot_ranges@ =~= Seq::new(it3.index@ as nat, |j: int| spec_to_slot_range(chunk.migrating_slots[0]@[j], cluster_store.chunks@)),
                        {
                            slot_ranges.push({
                                slot_range_store.to_slot_range(&cluster_store.chunks)
                            });
                        }
                        slots.append(&mut slot_ranges);
                    }
                    if i == second_slot_index {
                        let mut second_slots = vec![];
                        if let Some(stable_slots) = &chunk.stable_slots[1] {
                            second_slots.push(clone_slot_range(stable_slots));
                        }
                        slots.append(&mut second_slots);
                        let mut slot_ranges: Vec<SlotRange> = vec![];
                        for slot_range_store in it3: chunk.migrating_slots[1].iter()
                            invariant
                                it3.seq().len() == chunk.migrating_slots[1]@.len(),
                                forall|j: int| 0 <= j < it3.seq().len() ==> *(#[trigger] it3.seq()[j]) == chunk.migrating_slots[1]@[j],
                                slot_ranges@ =~= Seq::new(it3.index@ as nat, |j: int| spec_to_slot_range(chunk.migrating_slots[1]@[j], cluster_store.chunks@)),
                        {
                            slot_ranges.push({
                                slot_range_store.to_slot_range(&cluster_store.chunks)
                            });
                        }
                        slots.append(&mut slot_ranges);
                    }

                    // get repl
                    let mut role = Role::Master;
                    match chunk.role_position {
                        ChunkRolePosition::Normal if i % 2 == 1 => role = Role::Replica,
                        ChunkRolePosition::FirstChunkMaster if i >= CHUNK_HALF_NODE_NUM => {
                            role = Role::Replica
                        }
                        ChunkRolePosition::SecondChunkMaster if i < CHUNK_HALF_NODE_NUM => {
                            role = Role::Replica
                        }
                        _ => (),
                    }

                    let peer_index = match i {
                        0 => 3,
                        1 => 2,
                        2 => 1,
                        _ => 0,
                    };
                    let peer = ReplPeer {
                        node_address: chunk
                            .node_addresses
                            .get(peer_index)
                            .expect("MetaStore::get_cluster_by_name: failed to get peer node")
                            .clone(),
                        proxy_address: chunk
                            .proxy_addresses
                            .get(peer_index / 2)
                            .expect("MetaStore::get_cluster_by_name: failed to get peer proxy")
                            .clone(),
                    };
                    let repl = ReplMeta::new(role, vec![peer]);

                    let node = Node::new(address, proxy_address, slots, repl);
                    nodes.push(node);
                }
                nodes
            };
            verif_acc.append(&mut verif_part);
        }
        let nodes = verif_acc;

        nodes
    }
} // verus!
fn main() {}
