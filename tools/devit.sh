#!/bin/bash
# authoring aid (not used by the checks): derive the overlay from /var/tmp/ovdump/<overlay>.{src,ann}.rs, render the unit against the
# scratch worktree /var/tmp/devrepo2 and run Verus on it.   usage: tools/devit.sh <overlay> <unit> [rlimit] [max lines]
cd /verif
python3 tools/ovderive.py $1 2>&1 | grep -v conda && VERIF_REPO=${VERIF_REPO:-/var/tmp/devrepo2} python3 tools/render_unit.py $2 2>&1 | grep -v conda
mkdir -p /var/tmp/devunits; cd /var/tmp/devunits; verus $2_raw.rs --rlimit ${3:-80} --multiple-errors 10 2>&1 | grep -A12 "^error\|verification results" | cut -c1-260 | head -${4:-150}
