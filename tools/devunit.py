#!/usr/bin/env python3
# developer helper: build + verify one unit, print diagnostics.  usage: tools/devunit.py <unit> [--keep dir]
import sys, os, json
HERE = os.path.dirname(os.path.abspath(__file__))
sys.path.insert(0, HERE); sys.path.insert(0, os.path.dirname(HERE))
os.environ.setdefault('VERIF_KEEP', '/var/tmp/devunits')
os.environ.setdefault('VERIF_OUT', '/var/tmp/devout')
import driver
for u in sys.argv[1:]:
    r = driver.run_unit(u, 'quick', 0)
    print('== %s: %s verified=%d errors=%d wall=%.1fs' % (u, r['status'], r['verified'], r['errors'], r['wall_s']))
    for n in r['notes']: print('  note:', n[:3000])
    for f in r['failures']:
        print('  FAIL', f['key'], '|', f['clause'], '@', f['at'])
        print(f['rendered'][:1500])
    for v in r['vacuity']: print('  vacuity', v)
