use vstd::prelude::*;
use std::collections::HashMap;
verus! {
global size_of usize == 8;
broadcast use vstd::std_specs::hash::group_hash_axioms;

// ---------------- spec, written from the Redis Cluster specification ----------------
pub open spec fn first_index(s: Seq<u8>, c: u8) -> Option<int>
    decreases s.len()
{
    if s.len() == 0 { None }
    else if s[0] == c { Some(0int) }
    else { match first_index(s.subrange(1, s.len() as int), c) { Some(i) => Some(i + 1), None => None } }
}

// HASH_SLOT = CRC16(key) mod 16384 where only what is between the first '{' and the first '}' after it
// is hashed when that is non-empty
pub open spec fn spec_hash_tag(k: Seq<u8>) -> Seq<u8> {
    match first_index(k, 123u8) {
        None => k,
        Some(b) => match first_index(k.subrange(b + 1, k.len() as int), 125u8) {
            None => k,
            Some(off) => if off == 0 { k } else { k.subrange(b + 1, b + 1 + off) },
        }
    }
}

// CRC-16/XMODEM: width 16, poly 0x1021, init 0, no reflection, xorout 0 (bitwise definition)
pub open spec fn crc_bit(crc: u16) -> u16 {
    if crc & 0x8000u16 != 0 { ((crc << 1u16) ^ 0x1021u16) as u16 } else { (crc << 1u16) as u16 }
}
pub open spec fn crc_byte(crc: u16, b: u8) -> u16 {
    let c0 = crc ^ (((b as u16) << 8u16) as u16);
    crc_bit(crc_bit(crc_bit(crc_bit(crc_bit(crc_bit(crc_bit(crc_bit(c0))))))))
}
pub open spec fn spec_crc16_xmodem(s: Seq<u8>) -> u16
    decreases s.len()
{
    if s.len() == 0 { 0u16 } else { crc_byte(spec_crc16_xmodem(s.drop_last()), s.last()) }
}
pub open spec fn spec_slot(k: Seq<u8>) -> int { (spec_crc16_xmodem(spec_hash_tag(k)) as int) % 16384 }

pub proof fn lemma_first_index(s: Seq<u8>, c: u8)
    ensures match first_index(s, c) {
        Some(i) => 0 <= i < s.len() && s[i] == c && forall|j: int| 0 <= j < i ==> s[j] != c,
        None => forall|j: int| 0 <= j < s.len() ==> s[j] != c,
    }
    decreases s.len()
{
    if s.len() == 0 {} else if s[0] == c {} else {
        let t = s.subrange(1, s.len() as int);
        lemma_first_index(t, c);
        match first_index(t, c) {
            Some(i) => { assert forall|j: int| 0 <= j < i + 1 implies s[j] != c by { if j > 0 { assert(t[j - 1] == s[j]); } } assert(t[i] == s[i + 1]); }
            None => { assert forall|j: int| 0 <= j < s.len() implies s[j] != c by { if j > 0 { assert(t[j - 1] == s[j]); } } }
        }
    }
}
pub proof fn lemma_first_index_unique(s: Seq<u8>, c: u8, i: int)
    requires 0 <= i < s.len(), s[i] == c, forall|j: int| 0 <= j < i ==> s[j] != c
    ensures first_index(s, c) == Some(i)
{
    lemma_first_index(s, c);
}

// ---------------- shims (trusted, R3/R4/R5) ----------------
#[verifier::external_body]
fn shim_position_u8(s: &[u8], c: u8) -> (r: Option<usize>)
    ensures match r {
        Some(i) => i < s@.len() && s@[i as int] == c && forall|j: int| 0 <= j < i ==> s@[j] != c,
        None => forall|j: int| 0 <= j < s@.len() ==> s@[j] != c,
    }
{ s.iter().position(|x| *x == c) }

#[verifier::external_body]
fn shim_get_from(s: &[u8], a: usize) -> (r: Option<&[u8]>)
    ensures match r { Some(t) => a <= s@.len() && t@ == s@.subrange(a as int, s@.len() as int), None => a > s@.len() }
{ s.get(a..) }

#[verifier::external_body]
fn shim_get_range(s: &[u8], a: usize, b: usize) -> (r: Option<&[u8]>)
    ensures match r { Some(t) => a <= b <= s@.len() && t@ == s@.subrange(a as int, b as int), None => !(a <= b <= s@.len()) }
{ s.get(a..b) }

#[verifier::external_body] pub proof fn lemma_slice_len(s: &[u8]) ensures s@.len() <= usize::MAX {}
// crc16::State::<XMODEM>::calculate: the crate's table-driven loop = fold of the bitwise step
// (step commuting square and init proved for every (u16,u8) by the Kani group c09, DESIGN 3.7)
#[verifier::external_body] fn shim_crc16_xmodem(s: &[u8]) -> (r: u16) ensures r == spec_crc16_xmodem(s@) { unimplemented!() }

// ---------------- slot table construction (SlotMapData::new) ----------------
pub open spec fn in_ranges(rs: Seq<(usize, usize)>, s: int) -> bool { exists|j: int| 0 <= j < rs.len() && (#[trigger] rs[j]).0 <= s <= rs[j].1 }
pub open spec fn proc(es: Seq<(String, Vec<(usize, usize)>)>, n: int, s: int) -> bool { exists|i: int| 0 <= i < n && i < es.len() && in_ranges((#[trigger] es[i]).1@, s) }
// D9-style: HashMap::into_iter() yields every entry exactly once in an unspecified order
#[verifier::external_body]
fn shim_into_vec(m: HashMap<String, Vec<(usize, usize)>>) -> (r: Vec<(String, Vec<(usize, usize)>)>)
    ensures forall|i: int| 0 <= i < r@.len() ==> m@.contains_key((#[trigger] r@[i]).0) && m@[r@[i].0] == r@[i].1,
            forall|k: String| m@.contains_key(k) ==> exists|i: int| 0 <= i < r@.len() && (#[trigger] r@[i]).0 == k,
            r@.len() == m@.len(),
{ m.into_iter().collect() }

// number of (start, end) ranges in the first n entries (C16: work bound of SlotMapData::new)
pub open spec fn ranges_upto(es: Seq<(String, Vec<(usize, usize)>)>, n: int) -> int
    decreases n
{ if n <= 0 || n > es.len() { 0 } else { ranges_upto(es, n - 1) + es[n - 1].1@.len() } }

pub open spec fn tab_inv(slot_arr: Seq<Option<usize>>, addrs: Seq<String>, es: Seq<(String, Vec<(usize, usize)>)>, n: int, cur: Seq<(usize, usize)>) -> bool {
    &&& slot_arr.len() == 16384
    &&& forall|s: int| 0 <= s < 16384 ==> match #[trigger] slot_arr[s] {
            Some(i) => i < addrs.len() && i < es.len() && in_ranges(es[i as int].1@, s),
            None => !proc(es, n, s) && !in_ranges(cur, s),
        }
}
