#![feature(allocator_api)]
use vstd::prelude::*;
use std::collections::{HashSet, HashMap};
use std::hash::Hash;
use core::borrow::Borrow;
use core::alloc::Allocator;
verus! {

pub struct Range(pub usize, pub usize);
pub struct RangeList(pub Vec<Range>);
pub struct MigrationMeta { pub epoch: u64, pub src_proxy_address: String, pub src_node_address: String, pub dst_proxy_address: String, pub dst_node_address: String }
pub enum SlotRangeTag { Migrating(MigrationMeta), Importing(MigrationMeta), None }
pub struct SlotRange { pub range_list: RangeList, pub tag: SlotRangeTag }

#[derive(Clone, Copy, PartialEq, Eq)]
pub enum ChunkRolePosition { Normal, FirstChunkMaster, SecondChunkMaster }

pub struct MigrationMetaStore { pub epoch: u64, pub src_chunk_index: usize, pub src_chunk_part: usize, pub dst_chunk_index: usize, pub dst_chunk_part: usize }
pub struct MigrationSlotRangeStore { pub range_list: RangeList, pub is_migrating: bool, pub meta: MigrationMetaStore }

pub struct ChunkStore {
    pub role_position: ChunkRolePosition,
    pub stable_slots: [Option<SlotRange>; 2],
    pub migrating_slots: [Vec<MigrationSlotRangeStore>; 2],
    pub proxy_addresses: [String; 2],
    pub hosts: [String; 2],
    pub node_addresses: [String; 4],
}
pub struct ClusterStore { pub epoch: u64, pub chunks: Vec<ChunkStore> }

pub assume_specification<'a, K: Eq + Hash, V, S: core::hash::BuildHasher, A: Allocator, Q: ?Sized + Hash + Eq>
    [ HashMap::<K, V, S, A>::get_mut::<Q> ] (m: &'a mut HashMap<K, V, S, A>, k: &Q) -> (r: Option<&'a mut V>)
    where K: Borrow<Q>
    ensures
        vstd::std_specs::hash::obeys_key_model::<K>() && vstd::std_specs::hash::builds_valid_hashers::<S>() ==> match r {
            Some(v) => vstd::std_specs::hash::contains_borrowed_key(old(m)@, k)
                && vstd::std_specs::hash::maps_borrowed_key_to_value(old(m)@, k, *v)
                && final(m)@.dom() == old(m)@.dom()
                && vstd::std_specs::hash::maps_borrowed_key_to_value(final(m)@, k, *final(v))
                && (forall|k2: K| old(m)@.contains_key(k2) && old(m)@[k2] != *v ==> final(m)@[k2] == old(m)@[k2]),
            None => !vstd::std_specs::hash::contains_borrowed_key(old(m)@, k) && final(m)@ == old(m)@,
        }
;

pub enum MetaStoreError { ClusterNotFound }
pub struct MetaStore { pub global_epoch: u64, pub clusters: HashMap<String, ClusterStore>, pub failed_proxies: HashSet<String> }
impl MetaStore {
    pub fn bump_global_epoch(&mut self) -> (r: u64)
        requires old(self).global_epoch < u64::MAX
        ensures final(self).global_epoch == old(self).global_epoch + 1, r == final(self).global_epoch, final(self).clusters == old(self).clusters, final(self).failed_proxies == old(self).failed_proxies
    {
        self.global_epoch += 1;
        self.global_epoch
    }
}
pub struct MetaStoreUpdate<'a> { pub store: &'a mut MetaStore }


impl<'a> MetaStoreUpdate<'a> {
fn takeover_master(&mut self, cluster_name: &String, failed_proxy_address: String) -> (r: Result<(), MetaStoreError>)
    requires old(self).store.global_epoch < u64::MAX,
        vstd::std_specs::hash::obeys_key_model::<String>(),
    ensures
        final(self).store.global_epoch == old(self).store.global_epoch + 1,
        final(self).store.failed_proxies == old(self).store.failed_proxies,
        r is Err ==> !old(self).store.clusters@.contains_key(*cluster_name) && final(self).store.clusters@ == old(self).store.clusters@,
        r is Ok ==> final(self).store.clusters@.contains_key(*cluster_name)
            && final(self).store.clusters@[*cluster_name].chunks@.len() == old(self).store.clusters@[*cluster_name].chunks@.len()
            && (final(self).store.clusters@[*cluster_name].epoch == final(self).store.global_epoch || final(self).store.clusters@[*cluster_name].epoch == old(self).store.clusters@[*cluster_name].epoch),
{
        let new_epoch = self.store.bump_global_epoch();

        let cluster = self
            .store
            .clusters
            .get_mut(cluster_name)
            .ok_or(MetaStoreError::ClusterNotFound)?;

        let mut peer_position = HashSet::new();

        for chunk in cluster.chunks.iter_mut()
            invariant self.store.global_epoch == old(self).store.global_epoch + 1, self.store.failed_proxies == old(self).store.failed_proxies,
        {
            if chunk.proxy_addresses[0] == failed_proxy_address {
                if chunk.role_position == ChunkRolePosition::SecondChunkMaster {
                    return Ok(());
                }
                chunk.role_position = ChunkRolePosition::SecondChunkMaster;

                for migrating_slot_range in chunk.migrating_slots[0].iter_mut()
            invariant self.store.global_epoch == old(self).store.global_epoch + 1, self.store.failed_proxies == old(self).store.failed_proxies,
                {
                    migrating_slot_range.meta.epoch = new_epoch;
                    peer_position.insert((
                        migrating_slot_range.meta.src_chunk_index,
                        migrating_slot_range.meta.src_chunk_part,
                    ));
                    peer_position.insert((
                        migrating_slot_range.meta.dst_chunk_index,
                        migrating_slot_range.meta.dst_chunk_part,
                    ));
                }
                break;
            } else if chunk.proxy_addresses[1] == failed_proxy_address {
                if chunk.role_position == ChunkRolePosition::FirstChunkMaster {
                    return Ok(());
                }
                chunk.role_position = ChunkRolePosition::FirstChunkMaster;

                for migrating_slot_range in chunk.migrating_slots[1].iter_mut()
            invariant self.store.global_epoch == old(self).store.global_epoch + 1, self.store.failed_proxies == old(self).store.failed_proxies,
                {
                    migrating_slot_range.meta.epoch = new_epoch;
                    peer_position.insert((
                        migrating_slot_range.meta.src_chunk_index,
                        migrating_slot_range.meta.src_chunk_part,
                    ));
                    peer_position.insert((
                        migrating_slot_range.meta.dst_chunk_index,
                        migrating_slot_range.meta.dst_chunk_part,
                    ));
                }
                break;
            }
        }

        for chunk in cluster.chunks.iter_mut()
            invariant self.store.global_epoch == old(self).store.global_epoch + 1, self.store.failed_proxies == old(self).store.failed_proxies,
        {
            for migrating_slots in chunk.migrating_slots.iter_mut()
            invariant self.store.global_epoch == old(self).store.global_epoch + 1, self.store.failed_proxies == old(self).store.failed_proxies,
            {
                for migrating_slot_range in migrating_slots.iter_mut()
            invariant self.store.global_epoch == old(self).store.global_epoch + 1, self.store.failed_proxies == old(self).store.failed_proxies,
                {
                    let src_index = migrating_slot_range.meta.src_chunk_index;
                    let src_part = migrating_slot_range.meta.src_chunk_part;
                    let dst_index = migrating_slot_range.meta.dst_chunk_index;
                    let dst_part = migrating_slot_range.meta.dst_chunk_part;
                    if peer_position.contains(&(src_index, src_part))
                        || peer_position.contains(&(dst_index, dst_part))
                    {
                        migrating_slot_range.meta.epoch = new_epoch;
                    }
                }
            }
        }
        cluster.epoch = new_epoch;
        Ok(())
}
}

} // verus!
fn main() {}
