use vstd::prelude::*;
verus! {
fn f(v: &mut Vec<usize>, w: Vec<usize>) { let mut w = w; for x in v.iter().flatten() {} }
}
fn main() {}
