#![feature(allocator_api)]
use vstd::prelude::*;
use std::collections::{HashMap, HashSet};
use std::hash::Hash;
use core::borrow::Borrow;
use core::alloc::Allocator;
verus! {
global size_of usize == 8;
broadcast use vstd::std_specs::hash::group_hash_axioms;

// ---- trusted (3.7) ----
pub broadcast axiom fn axiom_iter_mut_has_resolved<'a, T>(it: vstd::std_specs::iter::VerusForLoopWrapper<core::slice::IterMut<'a, T>>)
    ensures #[trigger] has_resolved(it) ==> forall|i: int| it.index@ <= i < it.seq().len() ==> has_resolved(#[trigger] it.seq()[i]);
pub uninterp spec fn key_of<K, Q: ?Sized>(k: &Q) -> K;
#[verifier::external_body] pub proof fn axiom_key_of_same<K>(k: &K) ensures key_of::<K, K>(k) == *k {}
pub assume_specification<'a, K: Eq + Hash, V, S: core::hash::BuildHasher, A: Allocator, Q: ?Sized + Hash + Eq>
    [ HashMap::<K, V, S, A>::get_mut::<Q> ] (m: &'a mut HashMap<K, V, S, A>, k: &Q) -> (r: Option<&'a mut V>)
    where K: Borrow<Q>
    ensures
        vstd::std_specs::hash::obeys_key_model::<K>() && vstd::std_specs::hash::builds_valid_hashers::<S>() ==> match r {
            Some(v) => old(m)@.contains_key(key_of::<K, Q>(k)) && *v == old(m)@[key_of::<K, Q>(k)]
                && final(m)@ == old(m)@.insert(key_of::<K, Q>(k), *final(v)),
            None => !old(m)@.contains_key(key_of::<K, Q>(k)) && final(m)@ == old(m)@,
        };

// opaque external types
pub struct Utc;
#[verifier::external_body] pub struct DateTimeUtc { x: u8 }
impl Utc { #[verifier::external_body] pub fn now() -> DateTimeUtc { unimplemented!() } }
impl DateTimeUtc { #[verifier::external_body] pub fn timestamp(&self) -> i64 { unimplemented!() } }
impl ClusterName { #[verifier::external_body] pub fn to_string(&self) -> String { unimplemented!() } }

#[verifier::external_body] pub struct ClusterName { x: u8 }
#[verifier::external_body] pub struct ClusterConfig { x: u8 }
pub struct InvalidClusterName;
impl Clone for ClusterName { #[verifier::external_body] fn clone(&self) -> Self { unimplemented!() } }
impl<'b> core::convert::TryFrom<&'b str> for ClusterName {
    type Error = InvalidClusterName;
    #[verifier::external_body] fn try_from(s: &'b str) -> Result<Self, InvalidClusterName> { unimplemented!() }
}
impl ClusterConfig {
    #[verifier::external_body] pub fn clone(&self) -> Self { unimplemented!() }
    #[verifier::external_body] pub fn set_field(&mut self, k: &String, v: &String) -> Result<(), String> { unimplemented!() }
}
impl core::cmp::PartialEq for ClusterName { #[verifier::external_body] fn eq(&self, o: &Self) -> bool { unimplemented!() } }
impl core::cmp::Eq for ClusterName {}
impl core::hash::Hash for ClusterName { #[verifier::external_body] fn hash<H: core::hash::Hasher>(&self, state: &mut H) { unimplemented!() } }

pub struct MigrationMeta {
    pub epoch: u64, // The epoch migration starts
    pub src_proxy_address: String,
    pub src_node_address: String,
    pub dst_proxy_address: String,
    pub dst_node_address: String,
}
pub enum SlotRangeTag {
    Migrating(MigrationMeta),
    Importing(MigrationMeta),
    None,
}
pub struct Range(pub usize, pub usize);
pub struct RangeList(Vec<Range>);
pub struct SlotRange {
    pub range_list: RangeList,
    pub tag: SlotRangeTag,
}
pub struct MigrationTaskMeta {
    pub cluster_name: ClusterName,
    pub slot_range: SlotRange,
}
pub const NODES_PER_PROXY: usize = 2;
pub const CHUNK_PARTS: usize = 2;
pub const CHUNK_HALF_NODE_NUM: usize = 2;
pub const CHUNK_NODE_NUM: usize = 4;
pub struct ProxyResource {
    pub proxy_address: String,
    pub node_addresses: [String; NODES_PER_PROXY],
    pub host: String,
    // `index` is only used as the index in StatefulSet of Kubernetes
    // when `enable_ordered_proxy` is true.
    pub index: usize,
    pub cluster: Option<ClusterName>,
}
#[derive(Clone, Copy, PartialEq, Eq, Structural)]
pub enum ChunkRolePosition {
    Normal,
    FirstChunkMaster,
    SecondChunkMaster,
}
pub struct MigrationSlotRangeStore {
    pub range_list: RangeList,
    pub is_migrating: bool, // migrating or importing
    pub meta: MigrationMetaStore,
}
pub struct MigrationMetaStore {
    pub epoch: u64,
    pub src_chunk_index: usize,
    pub src_chunk_part: usize,
    pub dst_chunk_index: usize,
    pub dst_chunk_part: usize,
}
pub struct ChunkStore {
    pub role_position: ChunkRolePosition,
    pub stable_slots: [Option<SlotRange>; CHUNK_PARTS],
    pub migrating_slots: [Vec<MigrationSlotRangeStore>; CHUNK_PARTS],
    pub proxy_addresses: [String; CHUNK_PARTS],
    pub hosts: [String; CHUNK_PARTS],
    pub node_addresses: [String; CHUNK_NODE_NUM],
}
pub struct ClusterStore {
    pub epoch: u64,
    pub name: ClusterName,
    pub chunks: Vec<ChunkStore>,
    pub config: ClusterConfig,
}
pub struct MigrationSlots {
    pub ranges: RangeList,
    pub meta: MigrationMetaStore,
}
pub enum ScaleOp {
    NoOp,
    ScaleOut,
    ScaleDown,
}
pub struct MetaStore {
    pub version: String,
    pub global_epoch: u64,
    pub clusters: HashMap<ClusterName, ClusterStore>,
    // proxy_address => nodes and cluster_name
    pub all_proxies: HashMap<String, ProxyResource>,
    // proxy addresses
    pub failed_proxies: HashSet<String>,
    // failed_proxy_address => reporter_id => time,
    pub failures: HashMap<String, HashMap<String, i64>>,
    // Set it `true` for kubernetes StatefulSet
    // to disable the chunk allocation algorithm
    // and only use ProxyResource.index to allocate chunks.
    pub enable_ordered_proxy: bool,
}
pub enum MetaStoreError {
    InUse,
    NotInUse,
    NoAvailableResource,
    ResourceNotBalance,
    AlreadyExisted,
    ClusterNotFound,
    FreeNodeNotFound,
    FreeNodeFound,
    ProxyNotFound,
    InvalidNodeNum,
    NodeNumAlreadyEnough,
    InvalidClusterName,
    InvalidMigrationTask,
    InvalidProxyAddress,
    MigrationTaskNotFound,
    MigrationRunning,
    InvalidConfig {
        key: String,
        value: String,
        error: String,
    },
    SlotsAlreadyEven,
    
    InvalidMetaVersion,
    SmallEpoch,
    MissingIndex,
    ProxyResourceOutOfOrder,
    OrderedProxyEnabled,
    OneClusterAlreadyExisted,
    ProxyNotSync,
    NodeNumberChanging,
    External,
    Retry,
    EmptyExternalVersion,
    ExternalTimeout,
}


// ---- specs ----
pub open spec fn is_hit(c: ChunkStore, failed: Seq<char>) -> bool { c.proxy_addresses[0]@ == failed || c.proxy_addresses[1]@ == failed }
pub open spec fn hit_half(c: ChunkStore, failed: Seq<char>) -> int { if c.proxy_addresses[0]@ == failed { 0 } else { 1 } }
pub open spec fn flipped(h: int) -> ChunkRolePosition { if h == 0 { ChunkRolePosition::SecondChunkMaster } else { ChunkRolePosition::FirstChunkMaster } }
pub open spec fn touches(m: MigrationMetaStore, p: Set<(usize, usize)>) -> bool { p.contains((m.src_chunk_index, m.src_chunk_part)) || p.contains((m.dst_chunk_index, m.dst_chunk_part)) }
pub open spec fn positions_of(a: Seq<MigrationSlotRangeStore>) -> Set<(usize, usize)>
    decreases a.len()
{
    if a.len() == 0 { Set::<(usize, usize)>::empty() }
    else { positions_of(a.drop_last()).insert((a.last().meta.src_chunk_index, a.last().meta.src_chunk_part)).insert((a.last().meta.dst_chunk_index, a.last().meta.dst_chunk_part)) }
}
// entry b is entry a with epoch := e if stamped, unchanged otherwise
pub open spec fn entry_post(a: MigrationSlotRangeStore, b: MigrationSlotRangeStore, stamped: bool, e: u64) -> bool {
    b.range_list == a.range_list && b.is_migrating == a.is_migrating
    && b.meta.src_chunk_index == a.meta.src_chunk_index && b.meta.src_chunk_part == a.meta.src_chunk_part
    && b.meta.dst_chunk_index == a.meta.dst_chunk_index && b.meta.dst_chunk_part == a.meta.dst_chunk_part
    && b.meta.epoch == (if stamped { e } else { a.meta.epoch })
}
pub open spec fn entries_post(a: Seq<MigrationSlotRangeStore>, b: Seq<MigrationSlotRangeStore>, p: Set<(usize, usize)>, all: bool, e: u64) -> bool {
    a.len() == b.len() && forall|i: int| 0 <= i < a.len() ==> entry_post(#[trigger] a[i], b[i], all || touches(a[i].meta, p), e)
}
pub open spec fn chunk_static_eq(a: ChunkStore, b: ChunkStore) -> bool {
    a.stable_slots == b.stable_slots && a.proxy_addresses == b.proxy_addresses && a.hosts == b.hosts && a.node_addresses == b.node_addresses
}
// first phase, on the hit chunk
pub open spec fn both_moved(a: ChunkStore, h: int) -> bool { a.role_position == flipped(1 - h) }
pub open spec fn hit_peers(a: ChunkStore, h: int) -> Set<(usize, usize)> {
    if both_moved(a, h) { positions_of(a.migrating_slots[h]@ + a.migrating_slots[1 - h]@) } else { positions_of(a.migrating_slots[h]@) }
}
pub open spec fn hit_post(a: ChunkStore, b: ChunkStore, failed: Seq<char>, e: u64, early: bool, peers: Set<(usize, usize)>) -> bool {
    let h = hit_half(a, failed);
    if a.role_position == flipped(h) { early && b == a && peers == Set::<(usize, usize)>::empty() }
    else {
        !early && chunk_static_eq(a, b) && b.role_position == flipped(h)
        && entries_post(a.migrating_slots[1 - h]@, b.migrating_slots[1 - h]@, Set::<(usize, usize)>::empty(), both_moved(a, h), e)
        && entries_post(a.migrating_slots[h]@, b.migrating_slots[h]@, Set::<(usize, usize)>::empty(), true, e)
        && peers == hit_peers(a, h)
    }
}
// second phase
pub open spec fn chunk_post2(a: ChunkStore, b: ChunkStore, p: Set<(usize, usize)>, e: u64) -> bool {
    chunk_static_eq(a, b) && a.role_position == b.role_position
    && entries_post(a.migrating_slots[0]@, b.migrating_slots[0]@, p, false, e)
    && entries_post(a.migrating_slots[1]@, b.migrating_slots[1]@, p, false, e)
}

pub open spec fn is_first_hit(oc: ClusterStore, j: int, failed: Seq<char>) -> bool {
    0 <= j < oc.chunks@.len() && is_hit(oc.chunks@[j], failed) && forall|i: int| 0 <= i < j ==> !is_hit(#[trigger] oc.chunks@[i], failed)
}
pub open spec fn chunk_final(a: ChunkStore, b: ChunkStore, is_j: bool, h: int, p: Set<(usize, usize)>, e: u64) -> bool {
    chunk_static_eq(a, b) && b.role_position == (if is_j { flipped(h) } else { a.role_position })
    && entries_post(a.migrating_slots[0]@, b.migrating_slots[0]@, p, is_j && (h == 0 || both_moved(a, h)), e)
    && entries_post(a.migrating_slots[1]@, b.migrating_slots[1]@, p, is_j && (h == 1 || both_moved(a, h)), e)
}
pub open spec fn takeover_post(oc: ClusterStore, nc: ClusterStore, failed: Seq<char>, e: u64) -> bool {
    &&& nc.chunks@.len() == oc.chunks@.len() && nc.name == oc.name && nc.config == oc.config
    &&& forall|j: int| #![trigger oc.chunks@[j]] is_first_hit(oc, j, failed) && oc.chunks@[j].role_position == flipped(hit_half(oc.chunks@[j], failed)) ==> nc.epoch == oc.epoch && nc.chunks@ =~= oc.chunks@
    &&& forall|j: int| #![trigger oc.chunks@[j]] is_first_hit(oc, j, failed) && oc.chunks@[j].role_position != flipped(hit_half(oc.chunks@[j], failed)) ==> {
            let h = hit_half(oc.chunks@[j], failed);
            nc.epoch == e && forall|c: int| 0 <= c < oc.chunks@.len() ==> chunk_final(#[trigger] oc.chunks@[c], nc.chunks@[c], c == j, h, hit_peers(oc.chunks@[j], h), e)
        }
    &&& (forall|i: int| 0 <= i < oc.chunks@.len() ==> !is_hit(#[trigger] oc.chunks@[i], failed)) ==>
            nc.epoch == e && forall|c: int| 0 <= c < oc.chunks@.len() ==> chunk_final(#[trigger] oc.chunks@[c], nc.chunks@[c], false, 0, Set::<(usize, usize)>::empty(), e)
}

// ---------- property-level clause (*) of C06 ----------
pub open spec fn proxy_of_node(k: int) -> int { k / 2 }
pub open spec fn master_node(rp: ChunkRolePosition, p: int) -> int {
    match rp {
        ChunkRolePosition::Normal => 2 * p,
        ChunkRolePosition::FirstChunkMaster => if proxy_of_node(2 * p) == 0 { 2 * p } else { 3 - 2 * p },
        ChunkRolePosition::SecondChunkMaster => if proxy_of_node(2 * p) == 1 { 2 * p } else { 3 - 2 * p },
    }
}
pub open spec fn valid_meta(m: MigrationMetaStore, n: int) -> bool {
    m.src_chunk_index < n && m.dst_chunk_index < n && m.src_chunk_part < 2 && m.dst_chunk_part < 2
}
// which nodes an entry's rendered addresses name
pub open spec fn rendered(m: MigrationMetaStore, cs: ClusterStore) -> (int, int) {
    (master_node(cs.chunks@[m.src_chunk_index as int].role_position, m.src_chunk_part as int),
     master_node(cs.chunks@[m.dst_chunk_index as int].role_position, m.dst_chunk_part as int))
}
// (*)local: in the chunk whose proxy failed, every half whose master node moves has all its entries re-stamped
pub proof fn lemma_c06_star_local(oc: ClusterStore, nc: ClusterStore, failed: Seq<char>, e: u64, j: int, p: int)
    requires takeover_post(oc, nc, failed, e), is_first_hit(oc, j, failed), 0 <= p < 2,
        oc.chunks@[j].role_position != flipped(hit_half(oc.chunks@[j], failed)),
        master_node(oc.chunks@[j].role_position, p) != master_node(nc.chunks@[j].role_position, p),
    ensures forall|i: int| 0 <= i < nc.chunks@[j].migrating_slots[p]@.len() ==> (#[trigger] nc.chunks@[j].migrating_slots[p]@[i]).meta.epoch == e
{
    let h = hit_half(oc.chunks@[j], failed);
    assert(chunk_final(oc.chunks@[j], nc.chunks@[j], true, h, hit_peers(oc.chunks@[j], h), e));
    if p == h {
        assert forall|i: int| 0 <= i < nc.chunks@[j].migrating_slots[p]@.len() implies (#[trigger] nc.chunks@[j].migrating_slots[p]@[i]).meta.epoch == e by {
            assert(entry_post(oc.chunks@[j].migrating_slots[p]@[i], nc.chunks@[j].migrating_slots[p]@[i], true, e));
        }
    } else {
        // the other half only moves when the failed proxy held both masters
        assert(both_moved(oc.chunks@[j], h));
        assert forall|i: int| 0 <= i < nc.chunks@[j].migrating_slots[p]@.len() implies (#[trigger] nc.chunks@[j].migrating_slots[p]@[i]).meta.epoch == e by {
            assert(entry_post(oc.chunks@[j].migrating_slots[p]@[i], nc.chunks@[j].migrating_slots[p]@[i], true, e));
        }
    }
}
} // verus!
fn main() {}
