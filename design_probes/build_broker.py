import sys,re; sys.path.insert(0,'/tmp/km/x')
from cut import *
R='/repo/src/'
store=open(R+'broker/store.rs').read()
update=open(R+'broker/update.rs').read()
migrate=open(R+'broker/migrate.rs').read()
query=open(R+'broker/query.rs').read()
cluster=open(R+'common/cluster.rs').read()

def strip_attrs(t):
    t=re.sub(r'#\[derive\([^\]]*\)\]\n','',t)
    t=re.sub(r'\s*#\[serde[^\]]*\]\n','\n',t)
    return t
def rm_logs(t):
    # R1: remove logging macro statements (possibly multi-line)
    out=[];i=0
    pat=re.compile(r'\b(error|warn|info|debug)!\(')
    while True:
        m=pat.search(t,i)
        if not m: out.append(t[i:]); break
        out.append(t[i:m.start()])
        j=m.end();d=1
        while d>0:
            c=t[j]
            if c=='"':
                j+=1
                while t[j]!='"':
                    if t[j]=='\\': j+=1
                    j+=1
            elif c=='(':d+=1
            elif c==')':d-=1
            j+=1
        # swallow trailing ';'
        if t[j:j+1]==';': j+=1
        i=j
    return ''.join(out)

types=[]
for k,n in [('struct','MigrationMeta'),('enum','SlotRangeTag'),('struct','Range'),('struct','RangeList'),('struct','SlotRange'),('struct','MigrationTaskMeta')]:
    types.append(strip_attrs(item(cluster,k,n)))
for k,n in [('const','NODES_PER_PROXY'),('const','CHUNK_PARTS'),('const','CHUNK_HALF_NODE_NUM'),('const','CHUNK_NODE_NUM'),('struct','ProxyResource'),('enum','ChunkRolePosition'),('struct','MigrationSlotRangeStore'),('struct','MigrationMetaStore'),('struct','ChunkStore'),('struct','ClusterStore'),('struct','MigrationSlots'),('enum','ScaleOp'),('struct','MetaStore'),('enum','MetaStoreError')]:
    types.append(strip_attrs(item(store,k,n)))
T='\n'.join(types)
T=T.replace('pub enum ChunkRolePosition','#[derive(Clone, Copy, PartialEq, Eq)]\npub enum ChunkRolePosition')
T=T.replace('SyncError(MetaSyncError),','')
print(T[:200],file=sys.stderr)

fns_store_impl_msrs=[fn(store,n) for n in ['to_slot_range','chunk_part_to_proxy_index','chunk_part_to_node_index']]
fns_cluster_store=[fn(store,n) for n in ['set_epoch','is_migrating','get_node_number']]
fns_meta=[fn(store,n) for n in ['restore','get_global_epoch','bump_global_epoch','auto_change_node_number','auto_scale_out_node_number']]
fns_meta.append(fn(store,'commit_migration', after='pub fn migrate_slots_to_scale_down'))
fns_update=[fn(update,n) for n in ['add_failure','add_cluster','auto_add_nodes','auto_delete_free_nodes_if_exists','remove_cluster','remove_proxy','takeover_master','replace_failed_proxy','balance_masters','change_config','auto_scale_up_nodes']]
fns_migrate=[fn(migrate,n) for n in ['migrate_slots','assign_dst_slots','migrate_slots_to_scale_down','check_running_tasks']]
fns_query=[fn(query,n) for n in ['get_free_proxy_resource']]

out='''#![feature(allocator_api)]
use vstd::prelude::*;
use std::collections::{HashMap, HashSet};
use std::hash::Hash;
use core::borrow::Borrow;
use core::alloc::Allocator;
use std::num::NonZeroUsize;
use std::cmp::Ordering;
verus! {
pub const SLOT_NUM: usize = 16384;

pub uninterp spec fn key_of<K, Q: ?Sized>(k: &Q) -> K;
pub assume_specification<'a, K: Eq + Hash, V, S: core::hash::BuildHasher, A: Allocator, Q: ?Sized + Hash + Eq>
    [ HashMap::<K, V, S, A>::get_mut::<Q> ] (m: &'a mut HashMap<K, V, S, A>, k: &Q) -> (r: Option<&'a mut V>)
    where K: Borrow<Q>;

// opaque external types
pub struct Utc;
#[verifier::external_body] pub struct DateTimeUtc { x: u8 }
impl Utc { #[verifier::external_body] pub fn now() -> DateTimeUtc { unimplemented!() } }
impl DateTimeUtc { #[verifier::external_body] pub fn timestamp(&self) -> i64 { unimplemented!() } }
impl ClusterName { #[verifier::external_body] pub fn to_string(&self) -> String { unimplemented!() } }

#[verifier::external_body] pub struct ClusterName { x: u8 }
#[verifier::external_body] pub struct ClusterConfig { x: u8 }
pub struct InvalidClusterName;
impl Clone for ClusterName { #[verifier::external_body] fn clone(&self) -> Self { unimplemented!() } }
impl<'b> core::convert::TryFrom<&'b str> for ClusterName {
    type Error = InvalidClusterName;
    #[verifier::external_body] fn try_from(s: &'b str) -> Result<Self, InvalidClusterName> { unimplemented!() }
}
impl ClusterConfig {
    #[verifier::external_body] pub fn clone(&self) -> Self { unimplemented!() }
    #[verifier::external_body] pub fn set_field(&mut self, k: &String, v: &String) -> Result<(), String> { unimplemented!() }
}
impl core::cmp::PartialEq for ClusterName { #[verifier::external_body] fn eq(&self, o: &Self) -> bool { unimplemented!() } }
impl core::cmp::Eq for ClusterName {}
impl core::hash::Hash for ClusterName { #[verifier::external_body] fn hash<H: core::hash::Hasher>(&self, state: &mut H) { unimplemented!() } }

'''+T+'''

impl Clone for RangeList { #[verifier::external_body] fn clone(&self) -> Self { unimplemented!() } }
impl RangeList {
    #[verifier::external_body] pub fn compact(&mut self) { unimplemented!() }
}
impl Clone for MigrationMetaStore { #[verifier::external_body] fn clone(&self) -> Self { unimplemented!() } }
impl Clone for MigrationSlots { #[verifier::external_body] fn clone(&self) -> Self { unimplemented!() } }
impl Clone for ProxyResource { #[verifier::external_body] fn clone(&self) -> Self { unimplemented!() } }

impl MigrationSlotRangeStore {
'''+'\n'.join(fns_store_impl_msrs)+'''
}
impl ClusterStore {
'''+'\n'.join(fns_cluster_store)+'''
}
impl MetaStore {
    #[verifier::external_body] pub fn auto_delete_free_nodes(&mut self, cluster_name: String) -> Result<(), MetaStoreError> { unimplemented!() }
    #[verifier::external_body] pub fn auto_scale_up_nodes(&mut self, cluster_name: String, n: usize) -> Result<Vec<Node>, MetaStoreError> { unimplemented!() }
'''+'\n'.join(fns_meta)+'''
}
pub struct MetaStoreUpdate<'a> { store: &'a mut MetaStore }
impl<'a> MetaStoreUpdate<'a> { pub fn new(store: &'a mut MetaStore) -> Self { Self { store } } }
pub struct Proxy { x: u8 }
pub struct Node { x: u8 }
impl<'a> MetaStoreUpdate<'a> {
    #[verifier::external_body] fn generate_new_free_proxy(&self, failed_proxy_address: String) -> Result<ProxyResource, MetaStoreError> { unimplemented!() }
    #[verifier::external_body] fn get_proxy_by_address_ext(&self, a: &String, l: u64) -> Option<Proxy> { unimplemented!() }
    #[verifier::external_body] fn generate_free_chunks_for_ordered_proxy_index(&self, proxy_num: NonZeroUsize, first_index: usize) -> Result<Vec<[ProxyResource; CHUNK_HALF_NODE_NUM]>, MetaStoreError> { unimplemented!() }
    #[verifier::external_body] fn generate_free_chunks(&self, proxy_num: NonZeroUsize) -> Result<Vec<[ProxyResource; CHUNK_HALF_NODE_NUM]>, MetaStoreError> { unimplemented!() }
    #[verifier::external_body] fn proxy_resource_to_chunk_store(proxy_resource_arr: Vec<[ProxyResource; CHUNK_HALF_NODE_NUM]>, with_slots: bool) -> Vec<ChunkStore> { unimplemented!() }
    #[verifier::external_body] pub fn auto_delete_free_nodes(&mut self, cluster_name: String) -> Result<(), MetaStoreError> { unimplemented!() }
'''+'\n'.join(fns_update)+'''
}
pub struct MetaStoreMigrate<'a> { store: &'a mut MetaStore }
impl<'a> MetaStoreMigrate<'a> {
    #[verifier::external_body] pub fn commit_migration(&mut self, task: MigrationTaskMeta) -> Result<(), MetaStoreError> { unimplemented!() }
    pub fn new(store: &'a mut MetaStore) -> Self { Self { store } }
    #[verifier::external_body] fn remove_slots_from_src(cluster: &mut ClusterStore, epoch: u64) -> Vec<MigrationSlots> { unimplemented!() }
    #[verifier::external_body] fn remove_slots_from_src_to_scale_down(cluster: &mut ClusterStore, epoch: u64, n: usize) -> Vec<MigrationSlots> { unimplemented!() }
    #[verifier::external_body] fn print_migration_slot(cluster: &ClusterStore, mgr_slots: &[MigrationSlots]) { }
    #[verifier::external_body] fn compact_slots(cluster: &mut ClusterStore) { unimplemented!() }
'''+'\n'.join(fns_migrate)+'''
}
pub struct MetaStoreQuery<'a> { store: &'a MetaStore }
impl<'a> MetaStoreQuery<'a> {
    pub fn new(store: &'a MetaStore) -> Self { Self { store } }
    #[verifier::external_body] pub fn get_proxy_by_address(&self, address: &str, migration_limit: u64) -> Option<Proxy> { unimplemented!() }
'''+'\n'.join(fns_query)+'''
}
} // verus!
fn main() {}
'''
out=rm_logs(out)
out=out.replace('|_|','|_e|')  # R2

# D8 by hand (throw-away): balance_masters and get_free_proxy_resource
out=out.replace('''                    if failed_proxy_exists(&chunk.proxy_addresses) {
                        continue;
                    }
                    chunk.role_position = ChunkRolePosition::Normal;''','''                    if !(failed_proxy_exists(&chunk.proxy_addresses)) {
                    chunk.role_position = ChunkRolePosition::Normal;
                    }''')
out=out.replace('''            if proxy_resource.cluster.is_some() {
                continue;
            }
            let proxy_address = &proxy_resource.proxy_address;
            if failed_proxies.contains(proxy_address) {
                continue;
            }
            if failures.contains_key(proxy_address) {
                continue;
            }
            free_proxies.push(proxy_resource.clone());''','''            if !(proxy_resource.cluster.is_some()) {
            let proxy_address = &proxy_resource.proxy_address;
            if !(failed_proxies.contains(proxy_address)) {
            if !(failures.contains_key(proxy_address)) {
            free_proxies.push(proxy_resource.clone());
            }}}''')
open('/tmp/km/x/broker_unit.rs','w').write(out)
