#![feature(allocator_api)]
use vstd::prelude::*;
use std::collections::{HashMap, HashSet};
use std::hash::Hash;
use core::borrow::Borrow;
use core::alloc::Allocator;
use std::num::NonZeroUsize;
use std::cmp::Ordering;
verus! {
pub const SLOT_NUM: usize = 16384;

pub uninterp spec fn key_of<K, Q: ?Sized>(k: &Q) -> K;
pub assume_specification<'a, K: Eq + Hash, V, S: core::hash::BuildHasher, A: Allocator, Q: ?Sized + Hash + Eq>
    [ HashMap::<K, V, S, A>::get_mut::<Q> ] (m: &'a mut HashMap<K, V, S, A>, k: &Q) -> (r: Option<&'a mut V>)
    where K: Borrow<Q>;

// opaque external types
pub struct Utc;
#[verifier::external_body] pub struct DateTimeUtc { x: u8 }
impl Utc { #[verifier::external_body] pub fn now() -> DateTimeUtc { unimplemented!() } }
impl DateTimeUtc { #[verifier::external_body] pub fn timestamp(&self) -> i64 { unimplemented!() } }
impl ClusterName { #[verifier::external_body] pub fn to_string(&self) -> String { unimplemented!() } }

#[verifier::external_body] pub struct ClusterName { x: u8 }
#[verifier::external_body] pub struct ClusterConfig { x: u8 }
pub struct InvalidClusterName;
impl Clone for ClusterName { #[verifier::external_body] fn clone(&self) -> Self { unimplemented!() } }
impl<'b> core::convert::TryFrom<&'b str> for ClusterName {
    type Error = InvalidClusterName;
    #[verifier::external_body] fn try_from(s: &'b str) -> Result<Self, InvalidClusterName> { unimplemented!() }
}
impl ClusterConfig {
    #[verifier::external_body] pub fn clone(&self) -> Self { unimplemented!() }
    #[verifier::external_body] pub fn set_field(&mut self, k: &String, v: &String) -> Result<(), String> { unimplemented!() }
}
impl core::cmp::PartialEq for ClusterName { #[verifier::external_body] fn eq(&self, o: &Self) -> bool { unimplemented!() } }
impl core::cmp::Eq for ClusterName {}
impl core::hash::Hash for ClusterName { #[verifier::external_body] fn hash<H: core::hash::Hasher>(&self, state: &mut H) { unimplemented!() } }

pub struct MigrationMeta {
    pub epoch: u64, // The epoch migration starts
    pub src_proxy_address: String,
    pub src_node_address: String,
    pub dst_proxy_address: String,
    pub dst_node_address: String,
}
pub enum SlotRangeTag {
    Migrating(MigrationMeta),
    Importing(MigrationMeta),
    None,
}
pub struct Range(pub usize, pub usize);
pub struct RangeList(Vec<Range>);
pub struct SlotRange {
    pub range_list: RangeList,
    pub tag: SlotRangeTag,
}
pub struct MigrationTaskMeta {
    pub cluster_name: ClusterName,
    pub slot_range: SlotRange,
}
pub const NODES_PER_PROXY: usize = 2;
pub const CHUNK_PARTS: usize = 2;
pub const CHUNK_HALF_NODE_NUM: usize = 2;
pub const CHUNK_NODE_NUM: usize = 4;
pub struct ProxyResource {
    pub proxy_address: String,
    pub node_addresses: [String; NODES_PER_PROXY],
    pub host: String,
    // `index` is only used as the index in StatefulSet of Kubernetes
    // when `enable_ordered_proxy` is true.
    pub index: usize,
    pub cluster: Option<ClusterName>,
}
#[derive(Clone, Copy, PartialEq, Eq)]
pub enum ChunkRolePosition {
    Normal,
    FirstChunkMaster,
    SecondChunkMaster,
}
pub struct MigrationSlotRangeStore {
    pub range_list: RangeList,
    pub is_migrating: bool, // migrating or importing
    pub meta: MigrationMetaStore,
}
pub struct MigrationMetaStore {
    pub epoch: u64,
    pub src_chunk_index: usize,
    pub src_chunk_part: usize,
    pub dst_chunk_index: usize,
    pub dst_chunk_part: usize,
}
pub struct ChunkStore {
    pub role_position: ChunkRolePosition,
    pub stable_slots: [Option<SlotRange>; CHUNK_PARTS],
    pub migrating_slots: [Vec<MigrationSlotRangeStore>; CHUNK_PARTS],
    pub proxy_addresses: [String; CHUNK_PARTS],
    pub hosts: [String; CHUNK_PARTS],
    pub node_addresses: [String; CHUNK_NODE_NUM],
}
pub struct ClusterStore {
    pub epoch: u64,
    pub name: ClusterName,
    pub chunks: Vec<ChunkStore>,
    pub config: ClusterConfig,
}
pub struct MigrationSlots {
    pub ranges: RangeList,
    pub meta: MigrationMetaStore,
}
pub enum ScaleOp {
    NoOp,
    ScaleOut,
    ScaleDown,
}
pub struct MetaStore {
    pub version: String,
    pub global_epoch: u64,
    pub clusters: HashMap<ClusterName, ClusterStore>,
    // proxy_address => nodes and cluster_name
    pub all_proxies: HashMap<String, ProxyResource>,
    // proxy addresses
    pub failed_proxies: HashSet<String>,
    // failed_proxy_address => reporter_id => time,
    pub failures: HashMap<String, HashMap<String, i64>>,
    // Set it `true` for kubernetes StatefulSet
    // to disable the chunk allocation algorithm
    // and only use ProxyResource.index to allocate chunks.
    pub enable_ordered_proxy: bool,
}
pub enum MetaStoreError {
    InUse,
    NotInUse,
    NoAvailableResource,
    ResourceNotBalance,
    AlreadyExisted,
    ClusterNotFound,
    FreeNodeNotFound,
    FreeNodeFound,
    ProxyNotFound,
    InvalidNodeNum,
    NodeNumAlreadyEnough,
    InvalidClusterName,
    InvalidMigrationTask,
    InvalidProxyAddress,
    MigrationTaskNotFound,
    MigrationRunning,
    InvalidConfig {
        key: String,
        value: String,
        error: String,
    },
    SlotsAlreadyEven,
    
    InvalidMetaVersion,
    SmallEpoch,
    MissingIndex,
    ProxyResourceOutOfOrder,
    OrderedProxyEnabled,
    OneClusterAlreadyExisted,
    ProxyNotSync,
    NodeNumberChanging,
    External,
    Retry,
    EmptyExternalVersion,
    ExternalTimeout,
}

impl Clone for RangeList { #[verifier::external_body] fn clone(&self) -> Self { unimplemented!() } }
impl RangeList {
    #[verifier::external_body] pub fn compact(&mut self) { unimplemented!() }
}
impl Clone for MigrationMetaStore { #[verifier::external_body] fn clone(&self) -> Self { unimplemented!() } }
impl Clone for MigrationSlots { #[verifier::external_body] fn clone(&self) -> Self { unimplemented!() } }
impl Clone for ProxyResource { #[verifier::external_body] fn clone(&self) -> Self { unimplemented!() } }

impl MigrationSlotRangeStore {
pub fn to_slot_range(&self, chunks: &[ChunkStore]) -> SlotRange {
        let src_chunk = chunks.get(self.meta.src_chunk_index).expect("get_cluster");
        let src_proxy_index =
            Self::chunk_part_to_proxy_index(self.meta.src_chunk_part, src_chunk.role_position);
        let src_proxy_address = src_chunk
            .proxy_addresses
            .get(src_proxy_index)
            .expect("get_cluster")
            .clone();
        let src_node_index =
            Self::chunk_part_to_node_index(self.meta.src_chunk_part, src_chunk.role_position);
        let src_node_address = src_chunk
            .node_addresses
            .get(src_node_index)
            .expect("get_cluster")
            .clone();

        let dst_chunk = chunks.get(self.meta.dst_chunk_index).expect("get_cluster");
        let dst_proxy_index =
            Self::chunk_part_to_proxy_index(self.meta.dst_chunk_part, dst_chunk.role_position);
        let dst_proxy_address = dst_chunk
            .proxy_addresses
            .get(dst_proxy_index)
            .expect("get_cluster")
            .clone();
        let dst_node_index =
            Self::chunk_part_to_node_index(self.meta.dst_chunk_part, dst_chunk.role_position);
        let dst_node_address = dst_chunk
            .node_addresses
            .get(dst_node_index)
            .expect("get_cluster")
            .clone();

        let meta = MigrationMeta {
            epoch: self.meta.epoch,
            src_proxy_address,
            src_node_address,
            dst_proxy_address,
            dst_node_address,
        };
        if self.is_migrating {
            SlotRange {
                range_list: self.range_list.clone(),
                tag: SlotRangeTag::Migrating(meta),
            }
        } else {
            SlotRange {
                range_list: self.range_list.clone(),
                tag: SlotRangeTag::Importing(meta),
            }
        }
    }
fn chunk_part_to_proxy_index(chunk_part: usize, role_position: ChunkRolePosition) -> usize {
        match (chunk_part, role_position) {
            (0, ChunkRolePosition::SecondChunkMaster) => 1,
            (1, ChunkRolePosition::FirstChunkMaster) => 0,
            (i, _) => i,
        }
    }
fn chunk_part_to_node_index(chunk_part: usize, role_position: ChunkRolePosition) -> usize {
        match (chunk_part, role_position) {
            (0, ChunkRolePosition::SecondChunkMaster) => 3,
            (1, ChunkRolePosition::FirstChunkMaster) => 1,
            (i, _) => 2 * i,
        }
    }
}
impl ClusterStore {
pub fn set_epoch(&mut self, new_epoch: u64) {
        self.epoch = new_epoch;
    }
pub fn is_migrating(&self) -> bool {
        self.chunks
            .iter()
            .any(|chunk| chunk.migrating_slots.iter().any(|slots| !slots.is_empty()))
    }
pub fn get_node_number(&self) -> usize {
        self.chunks.len() * CHUNK_NODE_NUM
    }
}
impl MetaStore {
    #[verifier::external_body] pub fn auto_delete_free_nodes(&mut self, cluster_name: String) -> Result<(), MetaStoreError> { unimplemented!() }
    #[verifier::external_body] pub fn auto_scale_up_nodes(&mut self, cluster_name: String, n: usize) -> Result<Vec<Node>, MetaStoreError> { unimplemented!() }
pub fn restore(&mut self, other: MetaStore) -> Result<(), MetaStoreError> {
        if self.version != other.version {
            return Err(MetaStoreError::InvalidMetaVersion);
        }
        if self.global_epoch > other.global_epoch {
            return Err(MetaStoreError::SmallEpoch);
        }
        *self = other;
        Ok(())
    }
pub fn get_global_epoch(&self) -> u64 {
        self.global_epoch
    }
pub fn bump_global_epoch(&mut self) -> u64 {
        self.global_epoch += 1;
        self.global_epoch
    }
pub fn auto_change_node_number(
        &mut self,
        cluster_name: String,
        expected_num: usize,
    ) -> Result<(ScaleOp, Vec<String>, u64), MetaStoreError> {
        let name = ClusterName::try_from(cluster_name.as_str())
            .map_err(|_e| MetaStoreError::InvalidClusterName)?;

        let is_migrating = match self.clusters.get(&name) {
            None => return Err(MetaStoreError::ClusterNotFound),
            Some(cluster) => cluster.is_migrating(),
        };

        if is_migrating {
            return Err(MetaStoreError::MigrationRunning);
        }

        // Remove the free nodes first so that this API could be easy to retry.
        if let Err(err) = self.auto_delete_free_nodes(cluster_name.clone()) {
            if err != MetaStoreError::FreeNodeNotFound {
                return Err(err);
            }
        }

        let existing_node_num = match self.clusters.get(&name) {
            None => return Err(MetaStoreError::ClusterNotFound),
            Some(cluster) => cluster.chunks.len() * CHUNK_NODE_NUM,
        };

        let scale_op = match existing_node_num.cmp(&expected_num) {
            Ordering::Equal => ScaleOp::NoOp,
            Ordering::Less => {
                self.auto_scale_up_nodes(cluster_name, expected_num)?;
                // Need to wait for the new proxy to have metadata synced
                // and call `auto_scale_out_node_number` to start migration.
                ScaleOp::ScaleOut
            }
            Ordering::Greater => {
                MetaStoreMigrate::new(self)
                    .migrate_slots_to_scale_down(cluster_name, expected_num)?;
                ScaleOp::ScaleDown
            }
        };

        let (proxy_addresses, cluster_epoch) = match self.clusters.get(&name) {
            None => return Err(MetaStoreError::ClusterNotFound),
            Some(cluster) => (cluster.get_proxy_addresses(), cluster.epoch),
        };

        Ok((scale_op, proxy_addresses, cluster_epoch))
    }
pub fn auto_scale_out_node_number(
        &mut self,
        cluster_name: String,
        expected_num: usize,
    ) -> Result<(), MetaStoreError> {
        let name = ClusterName::try_from(cluster_name.as_str())
            .map_err(|_e| MetaStoreError::InvalidClusterName)?;

        let node_num_with_slots = match self.clusters.get(&name) {
            None => return Err(MetaStoreError::ClusterNotFound),
            Some(cluster) => cluster.get_node_number_with_slots(),
        };

        match node_num_with_slots.cmp(&expected_num) {
            Ordering::Equal | Ordering::Greater => (),
            Ordering::Less => {
                MetaStoreMigrate::new(self).migrate_slots(cluster_name)?;
            }
        }

        Ok(())
    }
pub fn commit_migration(
        &mut self,
        task: MigrationTaskMeta,
        clear_free_nodes: bool,
    ) -> Result<(), MetaStoreError> {
        let cluster_name = task.cluster_name.to_string();
        MetaStoreMigrate::new(self).commit_migration(task)?;
        if clear_free_nodes {
            MetaStoreUpdate::new(self).auto_delete_free_nodes_if_exists(cluster_name)
        } else {
            Ok(())
        }
    }
}
pub struct MetaStoreUpdate<'a> { store: &'a mut MetaStore }
impl<'a> MetaStoreUpdate<'a> { pub fn new(store: &'a mut MetaStore) -> Self { Self { store } } }
pub struct Proxy { x: u8 }
pub struct Node { x: u8 }
impl<'a> MetaStoreUpdate<'a> {
    #[verifier::external_body] fn generate_new_free_proxy(&self, failed_proxy_address: String) -> Result<ProxyResource, MetaStoreError> { unimplemented!() }
    #[verifier::external_body] fn get_proxy_by_address_ext(&self, a: &String, l: u64) -> Option<Proxy> { unimplemented!() }
    #[verifier::external_body] fn generate_free_chunks_for_ordered_proxy_index(&self, proxy_num: NonZeroUsize, first_index: usize) -> Result<Vec<[ProxyResource; CHUNK_HALF_NODE_NUM]>, MetaStoreError> { unimplemented!() }
    #[verifier::external_body] fn generate_free_chunks(&self, proxy_num: NonZeroUsize) -> Result<Vec<[ProxyResource; CHUNK_HALF_NODE_NUM]>, MetaStoreError> { unimplemented!() }
    #[verifier::external_body] fn proxy_resource_to_chunk_store(proxy_resource_arr: Vec<[ProxyResource; CHUNK_HALF_NODE_NUM]>, with_slots: bool) -> Vec<ChunkStore> { unimplemented!() }
    #[verifier::external_body] pub fn auto_delete_free_nodes(&mut self, cluster_name: String) -> Result<(), MetaStoreError> { unimplemented!() }
pub fn add_failure(&mut self, address: String, reporter_id: String) -> bool {
        let now = Utc::now();
        if let Some(true) = self
            .store
            .failures
            .get(&address)
            .map(|failures| failures.contains_key(&reporter_id))
        {
            return false;
        }
        self.store.bump_global_epoch();
        self.store
            .failures
            .entry(address)
            .or_insert_with(HashMap::new)
            .insert(reporter_id, now.timestamp());
        true
    }
pub fn add_cluster(
        &mut self,
        cluster_name: String,
        node_num: usize,
        default_cluster_config: ClusterConfig,
    ) -> Result<(), MetaStoreError> {
        if self.store.enable_ordered_proxy && !self.store.clusters.is_empty() {
            return Err(MetaStoreError::OneClusterAlreadyExisted);
        }

        let cluster_name = ClusterName::try_from(cluster_name.as_str())
            .map_err(|_e| MetaStoreError::InvalidClusterName)?;
        if self.store.clusters.contains_key(&cluster_name) {
            return Err(MetaStoreError::AlreadyExisted);
        }

        if node_num % 4 != 0 {
            return Err(MetaStoreError::InvalidNodeNum);
        }
        let proxy_num = NonZeroUsize::new(node_num / 2).ok_or(MetaStoreError::InvalidNodeNum)?;

        let proxy_resource_arr = if self.store.enable_ordered_proxy {
            self.generate_free_chunks_for_ordered_proxy_index(proxy_num, 0)?
        } else {
            self.generate_free_chunks(proxy_num)?
        };
        let chunk_stores = Self::proxy_resource_to_chunk_store(proxy_resource_arr, true);

        let epoch = self.store.bump_global_epoch();

        let cluster_store = ClusterStore {
            epoch,
            name: cluster_name.clone(),
            chunks: chunk_stores,
            config: default_cluster_config,
        };

        // Tag the proxies as occupied
        for chunk in cluster_store.chunks.iter() {
            for proxy_address in chunk.proxy_addresses.iter() {
                let proxy = self
                    .store
                    .all_proxies
                    .get_mut(proxy_address)
                    .expect("add_cluster: failed to get back proxy");
                proxy.cluster = Some(cluster_name.clone());
            }
        }

        self.store.clusters.insert(cluster_name, cluster_store);
        Ok(())
    }
pub fn auto_add_nodes(
        &mut self,
        cluster_name: String,
        num: usize,
    ) -> Result<Vec<Node>, MetaStoreError> {
        let cluster_name = ClusterName::try_from(cluster_name.as_str())
            .map_err(|_e| MetaStoreError::InvalidClusterName)?;

        let existing_proxy_num = match self.store.clusters.get(&cluster_name) {
            None => return Err(MetaStoreError::ClusterNotFound),
            Some(cluster) => {
                if cluster
                    .chunks
                    .iter()
                    .any(|chunk| chunk.migrating_slots.iter().any(|slots| !slots.is_empty()))
                {
                    return Err(MetaStoreError::MigrationRunning);
                }
                cluster.chunks.len() * CHUNK_PARTS
            }
        };

        if num % 4 != 0 {
            return Err(MetaStoreError::InvalidNodeNum);
        }
        let proxy_num = NonZeroUsize::new(num / 2).ok_or(MetaStoreError::InvalidNodeNum)?;

        let proxy_resource_arr = if self.store.enable_ordered_proxy {
            self.generate_free_chunks_for_ordered_proxy_index(proxy_num, existing_proxy_num)?
        } else {
            self.generate_free_chunks(proxy_num)?
        };
        let mut chunks = Self::proxy_resource_to_chunk_store(proxy_resource_arr, false);

        let new_epoch = self.store.bump_global_epoch();

        let cluster = match self.store.clusters.get_mut(&cluster_name) {
            None => return Err(MetaStoreError::ClusterNotFound),
            Some(cluster_store) => {
                cluster_store.chunks.append(&mut chunks);
                cluster_store.epoch = new_epoch;
                MetaStoreQuery::cluster_store_to_cluster(cluster_store)
            }
        };

        // Tag the proxies as occupied
        for node in cluster.get_nodes().iter() {
            let proxy_address = node.get_proxy_address();
            let proxy = self
                .store
                .all_proxies
                .get_mut(proxy_address)
                .expect("add_cluster: failed to get back proxy");
            proxy.cluster = Some(cluster_name.clone());
        }

        let nodes = cluster.get_nodes();
        let new_nodes = nodes
            .get((nodes.len() - num)..)
            .expect("auto_add_nodes: get nodes")
            .to_vec();

        Ok(new_nodes)
    }
pub fn auto_delete_free_nodes_if_exists(
        &mut self,
        cluster_name: String,
    ) -> Result<(), MetaStoreError> {
        match self.auto_delete_free_nodes(cluster_name) {
            Ok(()) => Ok(()),
            Err(err) => match err {
                MetaStoreError::MigrationRunning | MetaStoreError::FreeNodeNotFound => Ok(()),
                other_err => Err(other_err),
            },
        }
    }
pub fn remove_cluster(&mut self, cluster_name: String) -> Result<(), MetaStoreError> {
        let cluster_name = ClusterName::try_from(cluster_name.as_str())
            .map_err(|_e| MetaStoreError::InvalidClusterName)?;

        let cluster_store = match self.store.clusters.remove(&cluster_name) {
            None => return Err(MetaStoreError::ClusterNotFound),
            Some(cluster_store) => cluster_store,
        };

        // Set proxies free.
        for chunk in cluster_store.chunks.iter() {
            for proxy_address in chunk.proxy_addresses.iter() {
                if let Some(proxy) = self.store.all_proxies.get_mut(proxy_address) {
                    proxy.cluster = None;
                }
            }
        }

        self.store.bump_global_epoch();
        Ok(())
    }
pub fn remove_proxy(&mut self, proxy_address: String) -> Result<(), MetaStoreError> {
        match self.store.all_proxies.get(&proxy_address) {
            None => return Err(MetaStoreError::ProxyNotFound),
            Some(proxy) => {
                if proxy.cluster.is_some() {
                    return Err(MetaStoreError::InUse);
                }
            }
        }

        self.store.all_proxies.remove(&proxy_address);
        self.store.failed_proxies.remove(&proxy_address);
        self.store.failures.remove(&proxy_address);
        self.store.bump_global_epoch();
        Ok(())
    }
fn takeover_master(
        &mut self,
        cluster_name: &ClusterName,
        failed_proxy_address: String,
    ) -> Result<(), MetaStoreError> {
        let new_epoch = self.store.bump_global_epoch();

        let cluster = self
            .store
            .clusters
            .get_mut(cluster_name)
            .ok_or(MetaStoreError::ClusterNotFound)?;

        let mut peer_position = HashSet::new();

        for chunk in cluster.chunks.iter_mut() {
            if chunk.proxy_addresses[0] == failed_proxy_address {
                // We should never reset the tasks that they does not need to be.
                // And note that `replace_failed_proxy` will be called again and again,
                // which make the migration get reset again and again.
                if chunk.role_position == ChunkRolePosition::SecondChunkMaster {
                    return Ok(());
                }
                chunk.role_position = ChunkRolePosition::SecondChunkMaster;

                for migrating_slot_range in chunk.migrating_slots[0].iter_mut() {
                    migrating_slot_range.meta.epoch = new_epoch;
                    peer_position.insert((
                        migrating_slot_range.meta.src_chunk_index,
                        migrating_slot_range.meta.src_chunk_part,
                    ));
                    peer_position.insert((
                        migrating_slot_range.meta.dst_chunk_index,
                        migrating_slot_range.meta.dst_chunk_part,
                    ));
                }
                break;
            } else if chunk.proxy_addresses[1] == failed_proxy_address {
                if chunk.role_position == ChunkRolePosition::FirstChunkMaster {
                    return Ok(());
                }
                chunk.role_position = ChunkRolePosition::FirstChunkMaster;

                for migrating_slot_range in chunk.migrating_slots[1].iter_mut() {
                    migrating_slot_range.meta.epoch = new_epoch;
                    peer_position.insert((
                        migrating_slot_range.meta.src_chunk_index,
                        migrating_slot_range.meta.src_chunk_part,
                    ));
                    peer_position.insert((
                        migrating_slot_range.meta.dst_chunk_index,
                        migrating_slot_range.meta.dst_chunk_part,
                    ));
                }
                break;
            }
        }

        for chunk in cluster.chunks.iter_mut() {
            for migrating_slots in chunk.migrating_slots.iter_mut() {
                for migrating_slot_range in migrating_slots.iter_mut() {
                    let src_index = migrating_slot_range.meta.src_chunk_index;
                    let src_part = migrating_slot_range.meta.src_chunk_part;
                    let dst_index = migrating_slot_range.meta.dst_chunk_index;
                    let dst_part = migrating_slot_range.meta.dst_chunk_part;
                    if peer_position.contains(&(src_index, src_part))
                        || peer_position.contains(&(dst_index, dst_part))
                    {
                        migrating_slot_range.meta.epoch = new_epoch;
                    }
                }
            }
        }
        cluster.epoch = new_epoch;
        Ok(())
    }
pub fn replace_failed_proxy(
        &mut self,
        failed_proxy_address: String,
        migration_limit: u64,
    ) -> Result<Option<Proxy>, MetaStoreError> {
        let cluster_name = match self.store.all_proxies.get(&failed_proxy_address) {
            None => return Err(MetaStoreError::ProxyNotFound),
            Some(proxy) => proxy.cluster.clone(),
        };

        let cluster_name = match cluster_name {
            None => {
                self.store.failures.remove(&failed_proxy_address);
                self.store.failed_proxies.insert(failed_proxy_address);
                return Ok(None);
            }
            Some(cluster_name) => cluster_name,
        };

        self.takeover_master(&cluster_name, failed_proxy_address.clone())?;

        // If enable_ordered_proxy is true, we won't replace the proxy.
        if self.store.enable_ordered_proxy {
            self.store.bump_global_epoch();
            return Ok(None);
        }

        self.store
            .failed_proxies
            .insert(failed_proxy_address.clone());

        let proxy_resource = self.generate_new_free_proxy(failed_proxy_address.clone())?;
        let new_epoch = self.store.bump_global_epoch();
        {
            let cluster = self
                .store
                .clusters
                .get_mut(&cluster_name)
                .expect("replace_failed_proxy: get cluster");
            for chunk in cluster.chunks.iter_mut() {
                if chunk.proxy_addresses[0] == failed_proxy_address {
                    chunk.hosts[0] = proxy_resource.host.clone();
                    chunk.proxy_addresses[0] = proxy_resource.proxy_address.clone();
                    chunk.node_addresses[0] = proxy_resource.node_addresses[0].clone();
                    chunk.node_addresses[1] = proxy_resource.node_addresses[1].clone();
                    break;
                } else if chunk.proxy_addresses[1] == failed_proxy_address {
                    chunk.hosts[1] = proxy_resource.host.clone();
                    chunk.proxy_addresses[1] = proxy_resource.proxy_address.clone();
                    chunk.node_addresses[2] = proxy_resource.node_addresses[0].clone();
                    chunk.node_addresses[3] = proxy_resource.node_addresses[1].clone();
                    break;
                }
            }
            cluster.set_epoch(new_epoch);
        }

        // Set this proxy free
        if let Some(proxy) = self.store.all_proxies.get_mut(&failed_proxy_address) {
            proxy.cluster = None;
        }
        // Tag the new proxy as occupied
        if let Some(proxy) = self
            .store
            .all_proxies
            .get_mut(&proxy_resource.proxy_address)
        {
            proxy.cluster = Some(cluster_name);
        }

        let proxy = MetaStoreQuery::new(self.store)
            .get_proxy_by_address(&proxy_resource.proxy_address, migration_limit)
            .expect("replace_failed_proxy");
        Ok(Some(proxy))
    }
pub fn balance_masters(&mut self, cluster_name: String) -> Result<(), MetaStoreError> {
        let cluster_name = ClusterName::try_from(cluster_name.as_str())
            .map_err(|_e| MetaStoreError::InvalidClusterName)?;
        let new_epoch = self.store.get_global_epoch() + 1;

        let failed_proxies = &self.store.failed_proxies;
        let failures = &self.store.failures;

        let failed_proxy_exists = |addresses: &[String; CHUNK_PARTS]| -> bool {
            for address in addresses.iter() {
                if failed_proxies.contains(address) || failures.contains_key(address) {
                    return true;
                }
            }
            false
        };

        match self.store.clusters.get_mut(&cluster_name) {
            None => return Err(MetaStoreError::ClusterNotFound),
            Some(ref mut cluster) => {
                for chunk in cluster.chunks.iter_mut() {
                    if !(failed_proxy_exists(&chunk.proxy_addresses)) {
                    chunk.role_position = ChunkRolePosition::Normal;
                    }
                }
                cluster.set_epoch(new_epoch);
            }
        }

        self.store.bump_global_epoch();
        Ok(())
    }
pub fn change_config(
        &mut self,
        cluster_name: String,
        config: HashMap<String, String>,
    ) -> Result<(), MetaStoreError> {
        let cluster_name = ClusterName::try_from(cluster_name.as_str())
            .map_err(|_e| MetaStoreError::InvalidClusterName)?;
        // Will bump epoch later on success.
        let new_epoch = self.store.get_global_epoch() + 1;
        match self.store.clusters.get_mut(&cluster_name) {
            None => return Err(MetaStoreError::ClusterNotFound),
            Some(ref mut cluster) => {
                if cluster.is_migrating() {
                    return Err(MetaStoreError::MigrationRunning);
                }

                let mut cluster_config = cluster.config.clone();
                for (k, v) in config.iter() {
                    cluster_config.set_field(k, v).map_err(|err| {
                        MetaStoreError::InvalidConfig {
                            key: k.clone(),
                            value: v.clone(),
                            error: err.to_string(),
                        }
                    })?;
                }
                cluster.config = cluster_config;
                cluster.set_epoch(new_epoch);
            }
        }

        self.store.bump_global_epoch();
        Ok(())
    }
pub fn auto_scale_up_nodes(
        &mut self,
        cluster_name: String,
        expected_num: usize,
    ) -> Result<Vec<Node>, MetaStoreError> {
        let name = ClusterName::try_from(cluster_name.as_str())
            .map_err(|_e| MetaStoreError::InvalidClusterName)?;

        let existing_node_num = match self.store.clusters.get(&name) {
            None => return Err(MetaStoreError::ClusterNotFound),
            Some(cluster) => cluster.chunks.len() * 4,
        };

        let added_num = match expected_num.checked_sub(existing_node_num) {
            None | Some(0) => return Err(MetaStoreError::NodeNumAlreadyEnough),
            Some(added_num) => added_num,
        };

        self.auto_add_nodes(cluster_name, added_num)
    }
}
pub struct MetaStoreMigrate<'a> { store: &'a mut MetaStore }
impl<'a> MetaStoreMigrate<'a> {
    #[verifier::external_body] pub fn commit_migration(&mut self, task: MigrationTaskMeta) -> Result<(), MetaStoreError> { unimplemented!() }
    pub fn new(store: &'a mut MetaStore) -> Self { Self { store } }
    #[verifier::external_body] fn remove_slots_from_src(cluster: &mut ClusterStore, epoch: u64) -> Vec<MigrationSlots> { unimplemented!() }
    #[verifier::external_body] fn remove_slots_from_src_to_scale_down(cluster: &mut ClusterStore, epoch: u64, n: usize) -> Vec<MigrationSlots> { unimplemented!() }
    #[verifier::external_body] fn print_migration_slot(cluster: &ClusterStore, mgr_slots: &[MigrationSlots]) { }
    #[verifier::external_body] fn compact_slots(cluster: &mut ClusterStore) { unimplemented!() }
pub fn migrate_slots(&mut self, cluster_name: String) -> Result<(), MetaStoreError> {
        let cluster_name = ClusterName::try_from(cluster_name.as_str())
            .map_err(|_e| MetaStoreError::InvalidClusterName)?;
        let new_epoch = self.store.bump_global_epoch();

        let cluster = match self.store.clusters.get_mut(&cluster_name) {
            None => return Err(MetaStoreError::ClusterNotFound),
            Some(cluster) => cluster,
        };

        let empty_exists = cluster
            .chunks
            .iter()
            .any(|chunk| chunk.stable_slots.iter().any(|slots| slots.is_none()));
        if !empty_exists {
            return Err(MetaStoreError::SlotsAlreadyEven);
        }

        Self::check_running_tasks(cluster)?;

        let migration_slots = Self::remove_slots_from_src(cluster, new_epoch);
        Self::assign_dst_slots(cluster, migration_slots.clone());
        cluster.set_epoch(new_epoch);

        Self::print_migration_slot(cluster, &migration_slots);
        Ok(())
    }
fn assign_dst_slots(cluster: &mut ClusterStore, migration_slots: Vec<MigrationSlots>) {
        for migration_slot_range in migration_slots.into_iter() {
            let MigrationSlots { ranges, meta } = migration_slot_range;

            {
                let src_chunk = cluster
                    .chunks
                    .get_mut(meta.src_chunk_index)
                    .expect("assign_dst_slots");
                let migrating_slots = src_chunk
                    .migrating_slots
                    .get_mut(meta.src_chunk_part)
                    .expect("assign_dst_slots");
                let slot_range = MigrationSlotRangeStore {
                    range_list: ranges.clone(),
                    is_migrating: true,
                    meta: meta.clone(),
                };
                migrating_slots.push(slot_range);
            }
            {
                let dst_chunk = cluster
                    .chunks
                    .get_mut(meta.dst_chunk_index)
                    .expect("assign_dst_slots");
                let migrating_slots = dst_chunk
                    .migrating_slots
                    .get_mut(meta.dst_chunk_part)
                    .expect("assign_dst_slots");
                let slot_range = MigrationSlotRangeStore {
                    range_list: ranges.clone(),
                    is_migrating: false,
                    meta,
                };
                migrating_slots.push(slot_range);
            }
        }

        Self::compact_slots(cluster);
    }
pub fn migrate_slots_to_scale_down(
        &mut self,
        cluster_name: String,
        new_node_num: usize,
    ) -> Result<(), MetaStoreError> {
        let cluster_name = ClusterName::try_from(cluster_name.as_str())
            .map_err(|_e| MetaStoreError::InvalidClusterName)?;
        let new_epoch = self.store.bump_global_epoch();

        let cluster = match self.store.clusters.get_mut(&cluster_name) {
            None => return Err(MetaStoreError::ClusterNotFound),
            Some(cluster) => cluster,
        };

        let empty_exists = cluster
            .chunks
            .iter()
            .any(|chunk| chunk.stable_slots.iter().any(|slots| slots.is_none()));
        if empty_exists {
            return Err(MetaStoreError::FreeNodeFound);
        }

        Self::check_running_tasks(cluster)?;

        if new_node_num == 0
            || new_node_num % CHUNK_NODE_NUM != 0
            || new_node_num >= cluster.chunks.len() * CHUNK_NODE_NUM
        {
            return Err(MetaStoreError::InvalidNodeNum);
        }

        let new_chunk_num = new_node_num / 4;
        let migration_slots =
            Self::remove_slots_from_src_to_scale_down(cluster, new_epoch, new_chunk_num);
        Self::assign_dst_slots(cluster, migration_slots.clone());
        cluster.set_epoch(new_epoch);

        Self::print_migration_slot(cluster, &migration_slots);
        Ok(())
    }
fn check_running_tasks(cluster: &mut ClusterStore) -> Result<(), MetaStoreError> {
        let running_migration = cluster
            .chunks
            .iter()
            .any(|chunk| chunk.migrating_slots.iter().any(|slots| !slots.is_empty()));
        if running_migration {
            return Err(MetaStoreError::MigrationRunning);
        }

        Ok(())
    }
}
pub struct MetaStoreQuery<'a> { store: &'a MetaStore }
impl<'a> MetaStoreQuery<'a> {
    pub fn new(store: &'a MetaStore) -> Self { Self { store } }
    #[verifier::external_body] pub fn get_proxy_by_address(&self, address: &str, migration_limit: u64) -> Option<Proxy> { unimplemented!() }
pub fn get_free_proxy_resource(&self) -> Vec<ProxyResource> {
        let failed_proxies = self.store.failed_proxies.clone();
        let failures = self.store.failures.clone();

        let mut free_proxies = vec![];
        for proxy_resource in self.store.all_proxies.values() {
            if !(proxy_resource.cluster.is_some()) {
            let proxy_address = &proxy_resource.proxy_address;
            if !(failed_proxies.contains(proxy_address)) {
            if !(failures.contains_key(proxy_address)) {
            free_proxies.push(proxy_resource.clone());
            }}}
        }
        free_proxies
    }
}
} // verus!
fn main() {}
