import sys,re; sys.path.insert(0,'/tmp/km/x')
from cut import *
w1=open('/tmp/km/x/w1.rs').read()
i=w1.index("// ---- specs ----")
head=w1[:i]
store=open('/repo/src/broker/store.rs').read()
f=fn(store,'limit_migration')
# D8: continue in for
f=f.replace('''                    if !slot_range_store.is_migrating {
                        continue;
                    }
''','''                    if !(!slot_range_store.is_migrating) {
''')
f=f.replace('''                        migration_num += 1;
                        *migrating_out_count += 1;
                    }
                }''','''                        migration_num += 1;
                        *migrating_out_count += 1;
                    }
                    }
                }''')
open('/tmp/km/x/l1_body.rs','w').write(f)
spec='''
pub assume_specification<'a, T, F: FnOnce() -> T>[ Option::<T>::get_or_insert_with ](o: &'a mut Option<T>, f: F) -> (r: &'a mut T)
    ensures
        match *old(o) { Some(v) => *r == v, None => f.ensures((), *r) },
        *final(o) == Some(*final(r)),
;
// ---- range coverage (contracts of the RangeList unit, assumed here) ----
pub uninterp spec fn rl_covers(rl: RangeList, s: int) -> bool;
impl Clone for RangeList { #[verifier::external_body] fn clone(&self) -> (r: Self) ensures r == *self { unimplemented!() } }
impl Clone for MigrationSlotRangeStore { #[verifier::external_body] fn clone(&self) -> (r: Self) ensures r == *self { unimplemented!() } }
impl Clone for ClusterConfig { #[verifier::external_body] fn clone(&self) -> (r: Self) ensures r == *self { unimplemented!() } }
impl RangeList {
    #[verifier::external_body] pub fn new(ranges: Vec<Range>) -> (r: Self) ensures ranges@.len() == 0 ==> forall|s: int| !rl_covers(r, s) { unimplemented!() }
    #[verifier::external_body] pub fn merge_another(&mut self, range_list: &mut RangeList)
        ensures forall|s: int| rl_covers(*final(self), s) <==> (rl_covers(*old(self), s) || rl_covers(*old(range_list), s)) { unimplemented!() }
}
impl SlotRange {
    pub fn get_mut_range_list(&mut self) -> (r: &mut RangeList)
        ensures *r == old(self).range_list, final(self).range_list == *final(r), final(self).tag == old(self).tag
    { &mut self.range_list }
}
#[verifier::external_body] fn clone_stable(s: &[Option<SlotRange>; 2]) -> (r: [Option<SlotRange>; 2]) ensures r == *s { unimplemented!() }
#[verifier::external_body] fn clone_s2(s: &[String; 2]) -> (r: [String; 2]) ensures r == *s { unimplemented!() }
#[verifier::external_body] fn clone_s4(s: &[String; 4]) -> (r: [String; 4]) ensures r == *s { unimplemented!() }
'''
out=head+spec+"impl ClusterStore {\n"+f+"\n}\n} // verus!\nfn main() {}\n"
# array clones: derived Clone on arrays -> trusted structural clones (same assumption as derived Clone)
out=out.replace("stable_slots: chunk.stable_slots.clone(),","stable_slots: clone_stable(&chunk.stable_slots),").replace("proxy_addresses: chunk.proxy_addresses.clone(),","proxy_addresses: clone_s2(&chunk.proxy_addresses),").replace("hosts: chunk.hosts.clone(),","hosts: clone_s2(&chunk.hosts),").replace("node_addresses: chunk.node_addresses.clone(),","node_addresses: clone_s4(&chunk.node_addresses),")
out=out.replace("            return self.clone();","            return clone_cluster_store(self);")
out=out.replace("impl ClusterStore {\n","#[verifier::external_body] fn clone_cluster_store(s: &ClusterStore) -> (r: ClusterStore) ensures r == *s { unimplemented!() }\nimpl ClusterStore {\n",1)
out=out.replace('impl Clone for ClusterName { #[verifier::external_body] fn clone(&self) -> Self { unimplemented!() } }','impl Clone for ClusterName { #[verifier::external_body] fn clone(&self) -> (r: Self) ensures r == *self { unimplemented!() } }')
out=out.replace('    #[verifier::external_body] pub fn clone(&self) -> Self { unimplemented!() }\n    #[verifier::external_body] pub fn set_field','    #[verifier::external_body] pub fn set_field')
open('/tmp/km/x/l1.rs','w').write(out)
