#![feature(allocator_api)]
use vstd::prelude::*;
use std::collections::HashMap;
use std::hash::Hash;
use core::borrow::Borrow;
use core::alloc::Allocator;
verus! {
use vstd::std_specs::hash::*;
broadcast use {vstd::std_specs::hash::group_hash_axioms, vstd::std_specs::hash::axiom_random_state_builds_valid_hashers, vstd::std_specs::hash::axiom_u64_obeys_hash_table_key_model};

pub uninterp spec fn key_of<K, Q: ?Sized>(k: &Q) -> K;
pub broadcast axiom fn axiom_key_of_same<K>(k: &K)
    ensures #[trigger] key_of::<K, K>(k) == *k;

pub assume_specification<'a, K: Eq + Hash, V, S: core::hash::BuildHasher, A: Allocator, Q: ?Sized + Hash + Eq>
    [ HashMap::<K, V, S, A>::get_mut::<Q> ] (m: &'a mut HashMap<K, V, S, A>, k: &Q) -> (r: Option<&'a mut V>)
    where K: Borrow<Q>
    ensures
        obeys_key_model::<K>() && builds_valid_hashers::<S>() ==> match r {
            Some(v) => old(m)@.contains_key(key_of::<K, Q>(k))
                && *v == old(m)@[key_of::<K, Q>(k)]
                && final(m)@ == old(m)@.insert(key_of::<K, Q>(k), *final(v)),
            None => !old(m)@.contains_key(key_of::<K, Q>(k)) && final(m)@ == old(m)@,
        }
;

#[verifier::external_body]
fn shim_keys<V>(m: &HashMap<u64, V>) -> (r: Vec<u64>)
    ensures forall|k: u64| m@.contains_key(k) <==> r@.contains(k), r@.no_duplicates()
{ m.keys().cloned().collect() }

pub struct ClusterStore { pub epoch: u64, pub x: u64 }
pub struct MetaStore {
    pub global_epoch: u64,
    pub clusters: HashMap<u64, ClusterStore>,
}
fn max(a: u64, b: u64) -> (r: u64) ensures r == (if a >= b { a } else { b }) { if a >= b { a } else { b } }

impl MetaStore {
    pub fn recover_epoch(&mut self, exsting_largest_epoch: u64)
        requires old(self).global_epoch < u64::MAX
        ensures final(self).global_epoch > old(self).global_epoch,
                final(self).global_epoch >= exsting_largest_epoch,
                final(self).clusters@.dom() == old(self).clusters@.dom(),
                forall|k: u64| final(self).clusters@.contains_key(k) ==> (#[trigger] final(self).clusters@[k]).epoch == final(self).global_epoch && final(self).clusters@[k].x == old(self).clusters@[k].x,
    {
        let new_epoch = max(exsting_largest_epoch, self.global_epoch + 1);
        self.global_epoch = new_epoch;

        broadcast use axiom_key_of_same;
        let ks = shim_keys(&self.clusters);
        for k in it: ks.iter()
            invariant
                self.global_epoch == new_epoch,
                self.clusters@.dom() == old(self).clusters@.dom(),
                forall|kk: u64| self.clusters@.contains_key(kk) <==> ks@.contains(kk),
                ks@.no_duplicates(),
                forall|i: int| 0 <= i < it.index@ ==> (#[trigger] self.clusters@[ks@[i]]).epoch == new_epoch,
                forall|kk: u64| self.clusters@.contains_key(kk) ==> (#[trigger] self.clusters@[kk]).x == old(self).clusters@[kk].x,
        {
            assert(*k == ks@[it.index@]);
            assert(ks@.contains(*k));
            assert(self.clusters@.contains_key(*k));
            assert(obeys_key_model::<u64>());
            assert(builds_valid_hashers::<std::hash::RandomState>());
            proof { axiom_key_of_same::<u64>(k); }
            assert(key_of::<u64, u64>(k) == *k);
            let cluster = self.clusters.get_mut(k).unwrap();
            cluster.epoch = new_epoch;
        }
        proof {
            assert forall|kk: u64| self.clusters@.contains_key(kk) implies (#[trigger] self.clusters@[kk]).epoch == new_epoch by {
                assert(ks@.contains(kk));
                let i = choose|i: int| 0 <= i < ks@.len() && ks@[i] == kk;
                assert(self.clusters@[ks@[i]].epoch == new_epoch);
            }
        }
    }
}

} // verus!
fn main() {}
