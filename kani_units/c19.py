import os, vlib
def build(log):
    S = vlib.Src('src/migration/scan_migration.rs', log)
    parts = []
    import re
    for c in re.findall(r'pub const ((?:PTTL|RESTORE)_\w+): &\[u8\] = b"', S.text):
        parts.append(S.item('const', c))
    parts.append(S.fn('pttl_to_restore_expire_time').text)
    parts.append(S.fn('pttl_need_to_be_no_expire').text)
    parts.append(open(os.path.join(vlib.VERIF, 'kani', 'c19.rs')).read())
    replay = {'file': 'src/migration/scan_migration.rs', 'name': 'c19_replay', 'test': '''
    fn value(s: &[u8]) -> Option<i128> {
        if s.is_empty() { return None; }
        let (neg, d) = match s[0] { b'-' => (true, &s[1..]), b'+' => (false, &s[1..]), _ => (false, s) };
        if d.is_empty() || !d.iter().all(|c| c.is_ascii_digit()) { return None; }
        let mut v: i128 = 0;
        for c in d { v = v.checked_mul(10)?.checked_add((c - b'0') as i128)?; }
        let v = if neg { -v } else { v };
        if v < i64::MIN as i128 || v > i64::MAX as i128 { None } else { Some(v) }
    }
    #[test]
    fn c19_replay() {
        let pttl: Vec<u8> = {BYTES}.to_vec();
        let out = pttl_to_restore_expire_time(pttl.clone());
        println!("PTTL reply {:?} -> RESTORE ttl {:?}", String::from_utf8_lossy(&pttl), String::from_utf8_lossy(&out));
        match value(&pttl) {
            Some(n) if n >= 1 => assert!(matches!(value(&out), Some(m) if m >= 1 && m <= n), "ttl not preserved"),
            Some(0) => assert!(matches!(value(&out), Some(m) if m >= 1), "key with an expiry restored as persistent"),
            Some(-1) => assert_eq!(out, b"0".to_vec()),
            _ => {}
        }
    }
'''}
    hs = [
        {'name': 'c19_ttl_le3', 'kind': 'bounded', 'domain': 'all PTTL replies of <= 3 bytes through the real btoi crate', 'decode': 'LB', 'replay': replay,
         'target': 'pttl_to_restore_expire_time, pttl_need_to_be_no_expire'},
        {'name': 'c19_btoi_contract_le3', 'kind': 'bounded', 'domain': 'all byte strings of <= 3 bytes: assumed btoi::<i64> contract vs the real crate', 'decode': 'LB',
         'target': 'btoi::btoi::<i64>'},
    ]
    return '\n'.join(parts), ['btoi = "0.4"'], hs
