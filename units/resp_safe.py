from units.resp_common import build_resp
def build(U):
    build_resp(U, 'safe')
    U.add("} // verus!\nfn main() {}\n")
MUST_FAIL = '''
proof fn must_fail_resp_safe_shims_consistent(s: Seq<u8>) requires s.len() > 3, s.len() <= MAX_BUF ensures false { lemma_first_lf(s); }
'''
