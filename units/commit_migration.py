# C01 / C04 (the step that transfers ownership): MetaStoreMigrate::commit_migration (src/broker/migrate.rs).
# Modular: RangeList::merge_another (unit range_list), compact_slots (unit compact_slots), set_epoch, bump_global_epoch through
# their proved contracts (texts imported).  check_slots_balance only logs (takes &ClusterStore): external.
import re, json, os
import vlib
from units import broker_common, takeover, replace_proxy, compact_slots, range_list

FIND_CHAIN = (r'let \((\w+), (\w+)\) = cluster\s*\.chunks\s*\.iter\(\)\s*\.enumerate\(\)\s*'
              r'\.flat_map\(\|\(i, chunk\)\| \{\s*chunk\s*\.migrating_slots\s*\.iter\(\)\s*\.enumerate\(\)\s*\.map\(move \|\(j, slot_range_stores\)\| \(i, j, slot_range_stores\)\)\s*\}\)\s*'
              r'\.flat_map\(\|\(i, j, slot_range_stores\)\| \{\s*slot_range_stores\s*\.iter\(\)\s*\.map\(move \|slot_range_store\| \(i, j, slot_range_store\)\)\s*\}\)\s*'
              r'\.find\(\|\(_, _, slot_range_store\)\| \{(.*?)\}\)\s*\.map\(\|\(i, j, _\)\| \(i, j\)\)\s*\.ok_or\(MetaStoreError::MigrationTaskNotFound\)\?;')

def d22_find_entry(f, n):
    """D22: first (chunk index, half index) in iteration order whose entry satisfies PRED, else Err - the enumerate / flat_map / flat_map /
    find / map / ok_or chain as three nested loops with counters and a first-match latch (PRED verbatim)."""
    m = re.search(FIND_CHAIN, f.text, re.S)
    if not m:
        f._lost('D22 enumerate/flat_map/flat_map/find/map/ok_or chain #%d' % n)
    a, b, pred = m.group(1), m.group(2), m.group(3).strip()
    new = ('let mut verif_hit%d: Option<(usize, usize)> = None;\n'
           '            let mut verif_i%d: usize = 0;\n'
           '            for chunk in cluster.chunks.iter() {\n'
           '                let mut verif_j%d: usize = 0;\n'
           '                for slot_range_stores in chunk.migrating_slots.iter() {\n'
           '                    for slot_range_store in slot_range_stores.iter() {\n'
           '                        if verif_hit%d.is_none() && (%s) {\n'
           '                            verif_hit%d = Some((verif_i%d, verif_j%d));\n'
           '                        }\n'
           '                    }\n'
           '                    verif_j%d += 1;\n'
           '                }\n'
           '                verif_i%d += 1;\n'
           '            }\n'
           '            let (%s, %s) = verif_hit%d.ok_or(MetaStoreError::MigrationTaskNotFound)?;') % (n, n, n, n, pred, n, n, n, n, n, a, b, n)
    f.text = f.text[:m.start()] + new + f.text[m.end():]
    f.log.rule('D22', f, 'enumerate/flat_map/flat_map/find/map/ok_or chain -> nested loops with counters and a first-match latch (predicate verbatim)')

FIND_MAP = (r'let removed_slots = chunk\.migrating_slots\.iter_mut\(\)\.enumerate\(\)\.find_map\(\s*\|\(j, migrating_slots\)\| \{\s*migrating_slots\s*\.iter\(\)\s*'
            r'\.position\(\|slot_range_store\| \{(.*?)\}\)\s*\.map\(\|index\| \(j, migrating_slots\.remove\(index\)\.range_list\)\)\s*\},\s*\);')

def d23_find_map_remove(f):
    """D23: iter_mut().enumerate().find_map(|(j, v)| v.iter().position(P).map(|index| (j, v.remove(index).F))) -> loop over the halves; in the
    first half that has a match the first matching entry is removed (find_map stops at the first Some; position is the first index)."""
    m = re.search(FIND_MAP, f.text, re.S)
    if not m:
        f._lost('D23 iter_mut().enumerate().find_map(.. position(..).map(.. remove ..))')
    pred = m.group(1).strip()
    new = ('let mut removed_slots: Option<(usize, RangeList)> = None;\n'
           '                let mut verif_j: usize = 0;\n'
           '                for migrating_slots in chunk.migrating_slots.iter_mut() {\n'
           '                    let j = verif_j;\n'
           '                    verif_j += 1;\n'
           '                    if removed_slots.is_none() {\n'
           '                        let mut verif_pos: Option<usize> = None;\n'
           '                        let mut verif_k: usize = 0;\n'
           '                        for slot_range_store in migrating_slots.iter() {\n'
           '                            if verif_pos.is_none() && (%s) {\n'
           '                                verif_pos = Some(verif_k);\n'
           '                            }\n'
           '                            verif_k += 1;\n'
           '                        }\n'
           '                        if let Some(index) = verif_pos {\n'
           '                            removed_slots = Some((j, migrating_slots.remove(index).range_list));\n'
           '                        }\n'
           '                    }\n'
           '                }') % pred
    f.text = f.text[:m.start()] + new + f.text[m.end():]
    f.log.rule('D23', f, 'find_map over the halves with position + remove -> loops; first half with a match loses its first matching entry (predicate verbatim)')

SPEC = '''
#[verifier::external_body] fn shim_take_all<T>(v: &mut Vec<T>) -> (r: Vec<T>) ensures r@ == old(v)@, final(v)@.len() == 0 { unimplemented!() }
// derived PartialEq of RangeList / MigrationMetaStore is structural
#[verifier::external_body] fn shim_rl_eq(a: &RangeList, b: &RangeList) -> (r: bool) ensures r == (a.0@ == b.0@) { unimplemented!() }
#[verifier::external_body] fn shim_meta_eq(a: &MigrationMetaStore, b: &MigrationMetaStore) -> (r: bool) ensures r == (*a == *b) { unimplemented!() }
impl Clone for ClusterName { #[verifier::external_body] fn clone(&self) -> (r: Self) ensures r == *self { unimplemented!() } }
'''

def build(U):
    broker_common.head(U)
    T = broker_common.types(U, cluster_types=broker_common.CLUSTER_TYPES + [('struct', 'MigrationTaskMeta')])
    T = T.replace('pub struct RangeList(Vec<Range>);', 'pub struct RangeList(pub Vec<Range>);').replace('pub struct Range(usize, usize);', 'pub struct Range(pub usize, pub usize);')
    U.add(T)
    U.prelude('range_spec.rs')
    U.prelude('epoch_spec.rs')
    U.add(compact_slots.SPEC)
    U.add(SPEC)
    U.prelude('commit_spec.rs')
    C = U.src('src/common/cluster.rs')
    S = U.src('src/broker/store.rs')
    M = U.src('src/broker/migrate.rs')
    U.add('impl RangeList {\n    // proved in unit range_list on the real text; the contract text is imported from that unit\n    #[verifier::external_body]\n' + range_list.MERGE_ANOTHER_HEADER + '\n    { unimplemented!() }\n}\nimpl SlotRange {\n')
    g = C.fn('get_mut_range_list', within=r'impl SlotRange\b')
    g.header("    pub fn get_mut_range_list(&mut self) -> (r: &mut RangeList)\n        ensures *r == old(self).range_list, final(self).range_list == *final(r), final(self).tag == old(self).tag")
    U.add_fn(g)
    U.add('}\nimpl ClusterStore {\n')
    U.add_fn(replace_proxy.set_epoch(U))
    U.add('}\nimpl MetaStore {\n')
    U.add_fn(takeover.bump_global_epoch(U))
    g = S.fn('get_global_epoch', within=r'impl MetaStore\b')
    g.header("    pub fn get_global_epoch(&self) -> (r: u64)\n        ensures r == self.global_epoch")
    U.add_fn(g)
    ov = json.load(open(os.path.join(vlib.VERIF, 'contracts', 'compact_slots.overlay.json')))
    compact_header = [op for op in ov['ops'] if op['op'] == 'header'][0]['text']
    U.add("}\npub struct MetaStoreMigrate<'a> { pub store: &'a mut MetaStore }\nimpl<'a> MetaStoreMigrate<'a> {\n")
    U.add('    // proved in unit compact_slots on the real text; the contract text is the header of contracts/compact_slots.overlay.json\n    #[verifier::external_body]\n    '
          + compact_header.rstrip().rstrip(',') + '\n    { unimplemented!() }\n')
    U.add('    // logging only (takes &ClusterStore)\n    #[verifier::external_body] fn check_slots_balance(cluster: &ClusterStore) { unimplemented!() }\n')
    f = M.fn('commit_migration')
    f.r1_logging()
    d22_find_entry(f, 0)
    d22_find_entry(f, 1)
    # D13 (pure predicate): retain
    lifted = vlib.d13_retain(f, 'migrating_slots', 'MigrationSlotRangeStore', [('task', '&MigrationTaskMeta', '&task'), ('meta', '&MigrationMetaStore', '&meta')],
                             fname='verif_retain_0', call_prefix='Self::', recv_is_ref=True)
    d23_find_map_remove(f)
    f.replace('R-iter', 'for chunk in &mut cluster.chunks {', 'for chunk in cluster.chunks.iter_mut() {', count=1)
    # R-eq: derived == on RangeList / MigrationMetaStore -> structural shims
    n1 = f.text.count('slot_range_store.range_list == task.slot_range.range_list')
    f.text = f.text.replace('slot_range_store.range_list == task.slot_range.range_list', 'shim_rl_eq(&slot_range_store.range_list, &task.slot_range.range_list)')
    n2 = f.text.count('slot_range_store.meta == meta')
    f.text = f.text.replace('slot_range_store.meta == meta', 'shim_meta_eq(&slot_range_store.meta, &meta)')
    lifted = lifted.replace('slot_range_store.range_list == task.slot_range.range_list', 'shim_rl_eq(&slot_range_store.range_list, &task.slot_range.range_list)').replace('slot_range_store.meta == meta', 'shim_meta_eq(&slot_range_store.meta, meta)')
    U.log.rule('R-eq', f, 'derived == on RangeList (%d) / MigrationMetaStore (%d) -> structural shims' % (n1, n2))
    L = vlib.Fn('verif_retain_0', f.file, f.line, '    ' + lifted, U.log)
    L.apply_overlay('commit_retain')
    U.add_fn(L)
    f.apply_overlay('commit_migration')
    U.add_fn(f)
    U.add('}\n} // verus!\nfn main() {}\n')
    U.trust('derived PartialEq of RangeList / MigrationMetaStore is structural (shim_rl_eq, shim_meta_eq); Vec::retain semantics (D13); D22 / D23',
            'merge_another, compact_slots, set_epoch, bump_global_epoch through contracts proved in their own units; check_slots_balance (logging) external')

MUST_FAIL = '''
proof fn must_fail_commit_post_trivial(o: ClusterStore, n: ClusterStore, rl: Seq<Range>, e: u64) requires n.name == o.name, n.config == o.config, n.chunks@ == o.chunks@ ensures commit_post(o, n, rl, e) { }
'''
