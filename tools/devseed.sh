#!/bin/bash
# devseed.sh <patch.diff> <unit> [unit..]  -- developer helper: apply a patch to the scratch worktree /var/tmp/devrepo, run units there, undo
P="$1"; shift
git -C /var/tmp/devrepo apply "$P" || { echo "does not apply"; exit 3; }
VERIF_REPO=/var/tmp/devrepo python3 /verif/tools/devunit.py "$@" 2>&1 | grep -v conda | grep -v "^note\|^ *$" | cut -c1-400 | head -${LINES_MAX:-40}
git -C /var/tmp/devrepo checkout -- .
