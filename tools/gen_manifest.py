#!/usr/bin/env python3
# writes MANIFEST.json from registry.py (claimed properties) and registry.NOT_APPLICABLE
import json, os, sys
HERE = os.path.dirname(os.path.abspath(__file__)); VERIF = os.path.dirname(HERE)
sys.path.insert(0, VERIF)
import registry
checks = []
for pid in sorted(registry.PROPS):
    P = registry.PROPS[pid]
    checks.append({
        'property_id': pid,
        'quick_cmd': './check %s quick' % pid,
        'thorough_cmd': './check %s thorough' % pid,
        'evidence_file': 'evidence/%s.json' % pid,
        'replay_cmd_template': './check %s --replay {path}' % pid,
        'engine': 'contracts',
        'level_claimed': {'category': P['level'], 'text': P['level_text'], 'design_ref': P.get('design_ref', '')},
        'level_note': P['level_note'],
        'technique': P['technique'],
    })
m = {
    'version': 1,
    'setup_cmd': './check --setup',
    'hooks': {'guard': 'undermoon_verif', 'enable': 'none needed: the checks read /repo sources and never build /repo with a flag (no hook commits)',
              'baseline_off_cmd': 'cd /repo && cargo test --workspace --no-fail-fast --offline', 'source_commits': [], 'add_only': True},
    'engines': [{'name': 'contracts', 'path': 'tools/driver.py', 'serves_properties': sorted(registry.PROPS),
                 'kind_free_text': 'contract-based deductive verification: Verus on functions extracted mechanically from /repo on every run (tools/vlib.py + units/*.py overlays), Kani/CBMC on byte-level functions compiled verbatim in a mini crate (tools/kanilib.py + kani_units/)'}],
    'checks': checks,
    'notes': registry.NOTES,
    'not_applicable': [{'property_id': k, 'reason': v} for k, v in sorted(registry.NOT_APPLICABLE.items()) if k not in registry.PROPS],
}
json.dump(m, open(os.path.join(VERIF, 'MANIFEST.json'), 'w'), indent=1)
print('MANIFEST.json: %d checks, %d n/a' % (len(checks), len(m['not_applicable'])))
