// ---- C14 common: which slot ranges a proxy advertises, and the ranges listed under one node (shared by the CLUSTER SLOTS and
// the CLUSTER NODES units, so that "the two commands agree" is a statement about ONE definition) ----
pub open spec fn spec_ignore(tag: SlotRangeTag, st: Option<MigrationState>) -> bool {
    match tag {
        SlotRangeTag::Migrating(_) => st != Some(MigrationState::PreCheck),
        SlotRangeTag::Importing(_) => st == Some(MigrationState::PreCheck),
        SlotRangeTag::None => false,
    }
}
pub open spec fn state_of(m: Map<RangeList, MigrationState>, rl: RangeList) -> Option<MigrationState> { if m.contains_key(rl) { Some(m[rl]) } else { None } }
pub open spec fn advertised(sr: SlotRange, states: Map<RangeList, MigrationState>) -> bool { !spec_ignore(sr.tag, state_of(states, sr.range_list)) }
// the ranges listed under a node that carries the slot ranges srs (first n of them): all ranges of every advertised one, in order
pub open spec fn adv_ranges(srs: Seq<SlotRange>, states: Map<RangeList, MigrationState>, n: nat) -> Seq<Range>
    decreases n
{
    if n == 0 || n > srs.len() { Seq::<Range>::empty() } else {
        adv_ranges(srs, states, (n - 1) as nat) + (if advertised(srs[n - 1], states) { srs[n - 1].range_list.0@ } else { Seq::<Range>::empty() })
    }
}
pub open spec fn is_order_of(ks: Seq<String>, m: Map<String, Vec<SlotRange>>) -> bool { ks.no_duplicates() && forall|k: String| m.contains_key(k) <==> ks.contains(k) }
// all slot ranges of the first n nodes in the order ks
pub open spec fn flat(ks: Seq<String>, m: Map<String, Vec<SlotRange>>, n: nat) -> Seq<SlotRange>
    decreases n
{
    if n == 0 || n > ks.len() { Seq::<SlotRange>::empty() } else { flat(ks, m, (n - 1) as nat) + m[ks[n - 1]]@ }
}
pub proof fn lemma_single_key(ks: Seq<String>, k: String)
    requires ks.no_duplicates(), forall|x: String| x == k <==> ks.contains(x)
    ensures ks == seq![k]
{
    assert(ks.contains(k));
    let i = choose|i: int| 0 <= i < ks.len() && ks[i] == k;
    assert forall|j: int| 0 <= j < ks.len() implies ks[j] == k by { assert(ks.contains(ks[j])); }
    if ks.len() > 1 { assert(ks[0] == ks[1]); }
    assert(ks =~= seq![k]);
}

// ---- local / remote cluster (the map handed to the helper) ----
pub trait CmdTaskSender {}
#[verifier::external_body] #[verifier::reject_recursive_types(S)] pub struct SenderMap<S: CmdTaskSender> { x: core::marker::PhantomData<S> }   // out of reach, never touched here
#[verifier::external_body] pub struct ClusterConfig { x: u8 }
#[verifier::external_body] pub struct SlotMap { x: u8 }
