import sys,re; sys.path.insert(0,'/tmp/km/x')
from cut import *
src=open('/repo/src/migration/scan_migration.rs').read()
f1=fn(src,'pttl_to_restore_expire_time')
f2=fn(src,'pttl_need_to_be_no_expire')
consts={}
for m in re.finditer(r'pub const (\w+): &\[u8\] = b"([^"]*)";',src):
    consts[m.group(1)]=m.group(2)
# R11: byte-string constants -> const fns with ensures (bytes copied from source)
def cfn(name,val):
    bs=', '.join(str(b)+'u8' for b in val.encode())
    return f"pub fn {name.lower()}() -> (r: &'static [u8]) ensures r@ == seq![{bs}] {{ let x: &'static [u8] = &[{bs}]; assert(x@ =~= seq![{bs}]); x }}\n"
cf=''.join(cfn(k,v) for k,v in consts.items() if k in ('PTTL_NO_EXPIRE','RESTORE_NO_EXPIRE'))
# R10/R5/R11 rewrites
f1=f1.replace("expire_time.extend_from_slice(RESTORE_NO_EXPIRE)","expire_time.extend_from_slice(restore_no_expire())")
f2=f2.replace("if buf == PTTL_NO_EXPIRE {","if shim_slice_eq(buf, pttl_no_expire()) {")
f2=f2.replace("btoi::btoi::<i64>(buf)","shim_btoi_i64(buf)")
f2=f2.replace("Err(_) =>","Err(_e) =>")
head='''use vstd::prelude::*;
verus! {
global size_of usize == 8;
// ---- trusted: btoi::btoi::<i64> (external crate) ----
// decimal literal semantics of btoi::<i64>: optional sign, at least one digit, value must fit i64
pub open spec fn dec_value(s: Seq<u8>) -> Option<int>
    decreases s.len()
{
    if s.len() == 0 { None }
    else if !(48 <= s.last() <= 57) { None }
    else if s.len() == 1 { Some((s.last() - 48) as int) }
    else { match dec_value(s.drop_last()) { Some(v) => Some(v * 10 + (s.last() - 48)), None => None } }
}
pub open spec fn spec_btoi_i64(s: Seq<u8>) -> Option<int> {
    if s.len() == 0 { None }
    else {
        let (neg, digits) = if s[0] == 45u8 { (true, s.subrange(1, s.len() as int)) } else if s[0] == 43u8 { (false, s.subrange(1, s.len() as int)) } else { (false, s) };
        match dec_value(digits) {
            Some(v) => { let x = if neg { -v } else { v }; if -0x8000_0000_0000_0000 <= x <= 0x7fff_ffff_ffff_ffff { Some(x) } else { None } },
            None => None,
        }
    }
}
pub proof fn lemma_btoi_minus1() ensures spec_btoi_i64(seq![45u8, 49u8]) == Some(-1int) {
    let s = seq![45u8, 49u8];
    assert(s.subrange(1, 2) =~= seq![49u8]);
    assert(dec_value(seq![49u8]) == Some(1int));
}
#[verifier::external_body]
fn shim_btoi_i64(buf: &[u8]) -> (r: Result<i64, ()>)
    ensures match r { Ok(n) => spec_btoi_i64(buf@) == Some(n as int), Err(_) => spec_btoi_i64(buf@).is_none() }
{ unimplemented!() }
#[verifier::external_body]
fn shim_slice_eq(a: &[u8], b: &[u8]) -> (r: bool) ensures r == (a@ == b@) { a == b }

// ---- property-level spec, from the statement of C19 ----
pub open spec fn spec_restore_ttl_ok(pttl: Seq<u8>, out: Seq<u8>) -> bool {
    match spec_btoi_i64(pttl) {
        Some(n) => if n >= 1 { out == pttl }
                   else if n == 0 { spec_btoi_i64(out) matches Some(m) && m >= 1 }
                   else { out == seq![48u8] },
        None => out == seq![48u8],
    }
}
'''
c1="pub fn pttl_to_restore_expire_time(pttl: Vec<u8>) -> (out: Vec<u8>)\n    ensures spec_restore_ttl_ok(pttl@, out@)\n"+f1[f1.index('{'):]
c2="fn pttl_need_to_be_no_expire(buf: &[u8]) -> (r: bool)\n    ensures r == (match spec_btoi_i64(buf@) { Some(n) => n < 0, None => true })\n"+f2[f2.index('{'):]
c2=c2.replace("{\n","{\n    proof { lemma_btoi_minus1(); }\n",1)
open('/tmp/km/x/c19.rs','w').write(head+cf+c1+"\n"+c2+"\n} // verus!\nfn main() {}\n")
