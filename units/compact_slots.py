# C01: MetaStoreMigrate::compact_slots (src/broker/migrate.rs) - every range list of the cluster (stable halves, migrating and
# importing entries) is normalised by RangeList::compact without changing the slots it covers; tags, metas, flags, positions,
# addresses and role positions are untouched.  Closes the assumed contract used by unit assign_dst.
import re
import vlib
from units import broker_common

SPEC = '''
// same slot set (that compact() also normalises the list is proved in unit range_list; the property only needs the coverage)
pub open spec fn rl_same(a: RangeList, b: RangeList) -> bool { forall|s: int| covers(b.0@, s) <==> covers(a.0@, s) }
pub open spec fn entry_compacted(a: MigrationSlotRangeStore, b: MigrationSlotRangeStore) -> bool { a.meta == b.meta && a.is_migrating == b.is_migrating && rl_same(a.range_list, b.range_list) }
pub open spec fn stable_compacted(a: Option<SlotRange>, b: Option<SlotRange>) -> bool {
    match a { Some(x) => b matches Some(y) && x.tag == y.tag && rl_same(x.range_list, y.range_list), None => b is None }
}
pub open spec fn entries_compacted(a: Seq<MigrationSlotRangeStore>, b: Seq<MigrationSlotRangeStore>) -> bool { a.len() == b.len() && forall|i: int| 0 <= i < a.len() ==> entry_compacted(a[i], #[trigger] b[i]) }
pub open spec fn chunk_compacted(o: ChunkStore, n: ChunkStore) -> bool {
    n.role_position == o.role_position && n.proxy_addresses == o.proxy_addresses && n.hosts == o.hosts && n.node_addresses == o.node_addresses
    && stable_compacted(o.stable_slots[0], n.stable_slots[0]) && stable_compacted(o.stable_slots[1], n.stable_slots[1])
    && entries_compacted(o.migrating_slots[0]@, n.migrating_slots[0]@) && entries_compacted(o.migrating_slots[1]@, n.migrating_slots[1]@)
}
// precondition of RangeList::compact (s.end() + 1 must not overflow): every bound below usize::MAX
pub open spec fn chunk_bounded(c: ChunkStore) -> bool {
    (forall|p: int| 0 <= p < 2 ==> ((#[trigger] c.stable_slots[p]) matches Some(x) ==> bounded(x.range_list.0@)))
    && (forall|p: int, i: int| 0 <= p < 2 && 0 <= i < c.migrating_slots[p]@.len() ==> bounded((#[trigger] c.migrating_slots[p]@[i]).range_list.0@))
}
'''

def build(U):
    from units import range_list
    broker_common.head(U)
    T = broker_common.types(U)
    T = T.replace('pub struct RangeList(Vec<Range>);', 'pub struct RangeList(pub Vec<Range>);').replace('pub struct Range(usize, usize);', 'pub struct Range(pub usize, pub usize);')
    U.add(T)
    U.prelude('range_spec.rs')
    U.add(SPEC)
    import json, os
    ov = json.load(open(os.path.join(vlib.VERIF, 'contracts', 'range_list.compact.overlay.json')))
    compact_header = [op for op in ov['ops'] if op['op'] == 'header'][0]['text']
    C = U.src('src/common/cluster.rs')
    U.add('impl RangeList {\n    // proved in unit range_list on the real text; the contract text is the header of contracts/range_list.compact.overlay.json\n    #[verifier::external_body]\n    '
          + compact_header.rstrip().rstrip(',') + '\n    { unimplemented!() }\n}\nimpl SlotRange {\n')
    g = C.fn('get_mut_range_list', within=r'impl SlotRange\b')
    g.header("    pub fn get_mut_range_list(&mut self) -> (r: &mut RangeList)\n        ensures *r == old(self).range_list, final(self).range_list == *final(r), final(self).tag == old(self).tag")
    U.add_fn(g)
    U.add("}\npub struct MetaStoreMigrate<'a> { pub store: &'a mut MetaStore }\nimpl<'a> MetaStoreMigrate<'a> {\n")
    M = U.src('src/broker/migrate.rs')
    f = M.fn('compact_slots')
    # D17: `for x in ARR.iter_mut().flatten() {` over Option items -> `for verif_o in ARR.iter_mut() { if let Some(x) = verif_o {` ... `} }`
    m = re.search(r'for (\w+) in ([\w.]+)\.iter_mut\(\)\.flatten\(\) \{', f.text)
    if not m:
        f._lost('D17 for x in A.iter_mut().flatten() {')
    mask = vlib.code_mask(f.text)
    bo = m.end() - 1
    bc = vlib.match_brace(f.text, mask, bo)
    f.text = (f.text[:m.start()] + 'for verif_o in %s.iter_mut() {\n                if let Some(%s) = verif_o {' % (m.group(2), m.group(1)) + f.text[bo + 1:bc] + '}\n            }' + f.text[bc + 1:])
    U.log.rule('D17', f, 'iter_mut().flatten() over Option items -> iter_mut() + if let Some')
    f.apply_overlay('compact_slots')
    U.add_fn(f)
    U.add('}\n} // verus!\nfn main() {}\n')
    U.trust('RangeList::compact through its contract proved in unit range_list (text taken from its overlay); precondition: every range bound < usize::MAX', 'D17; T-iter axiom')

MUST_FAIL = '''
proof fn must_fail_compact_slots_same_trivial(a: RangeList, b: RangeList) ensures rl_same(a, b) { }
'''
