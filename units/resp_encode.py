# C15 (first sentence, encoder half): encode_resp / encode_array / encode_bulk_str / encode_simple_element
# (src/protocol/encoder.rs) write exactly enc(value) - the RESP encoding defined bitwise in verus/resp_encode_spec.rs from
# the RESP specification - to any writer, and return its length.  The writer is abstract (io::Write by shim: on Ok the
# bytes are appended); decimal rendering of lengths is by shim (usize::to_string).
import re
import vlib
from units import broker_common

SRC_TEXT = ['']

def lit_name(bs):
    return 'lit_' + ''.join('%02x' % b for b in bs)

def rules(U, f, lits):
    f.r1_logging()
    # R-io: io::Result<T> -> IoResult<T> (io::Error opaque), io::Write -> std::io::Write
    f.text = f.text.replace('io::Result<', 'IoResult<').replace('W: io::Write', 'W: std::io::Write')
    # R11b: byte-string literals -> const fns with ensures (bytes copied from the source)
    def lit(m):
        bs = bytes(m.group(1), 'utf-8').decode('unicode_escape').encode('latin-1')
        lits[lit_name(bs)] = bs
        return lit_name(bs) + '()'
    f.text, n = re.subn(r'b"((?:[^"\\]|\\.)*)"', lit, f.text)
    if n: U.log.rule('R11b', f, '%d byte-string literal(s)' % n)
    # R11c: module-level `const NAME: &[u8] = b"..";` referenced by the function -> the same literal function (bytes from the source)
    for cm in re.finditer(r'const (\w+): &\[u8\] = b"((?:[^"\\]|\\.)*)";', SRC_TEXT[0]):
        if re.search(r'\b' + cm.group(1) + r'\b', f.text):
            bs = bytes(cm.group(2), 'utf-8').decode('unicode_escape').encode('latin-1')
            lits[lit_name(bs)] = bs
            f.text = re.sub(r'\b' + cm.group(1) + r'\b', lit_name(bs) + '()', f.text)
            U.log.rule('R11c', f, 'byte-string constant %s' % cm.group(1))
    # R-tostr: E.to_string().into_bytes() on a usize length -> shim_len_dec(E)
    f.text, n = re.subn(r'&(\w+(?:\.as_ref\(\))?\.len\(\))\.to_string\(\)\.into_bytes\(\)', r'&shim_len_dec(\1)', f.text)
    if n: U.log.rule('R-tostr', f, '%d usize::to_string().into_bytes()' % n)
    # R-asref
    f.text, n = re.subn(r'\b(\w+)\.as_ref\(\)', r'shim_as_bytes(&\1)', f.text)
    if n: U.log.rule('R-asref', f, '%d as_ref()' % n)
    # R-write
    f.text, n = re.subn(r'\bwriter\.write\(', 'shim_write(writer, ', f.text)
    if n: U.log.rule('R-write', f, '%d writer.write(..)' % n)

REQ = '''    requires fits(written(old(writer)), enc(%(view)s))
    ensures r matches Ok(n) ==> written(final(writer)) == written(old(writer)) + enc(%(view)s) && n == enc(%(view)s).len()'''

def build(U):
    E = U.src('src/protocol/encoder.rs')
    SRC_TEXT[0] = E.text
    R = U.src('src/protocol/resp.rs')
    U.add('use vstd::prelude::*;\nverus! {\n')
    for n in ('BulkStr', 'Array', 'Resp'):
        U.add(broker_common.strip(R.item('enum', n)) + '\n')
    U.prelude('resp_enc_pure.rs')
    U.prelude('resp_encode_spec.rs')
    lits = {}
    fns = {}
    for name in ('encode_resp', 'encode_array', 'encode_bulk_str', 'encode_simple_element'):
        f = E.fn(name)
        rules(U, f, lits)
        fns[name] = f
    for k, bs in sorted(lits.items()):
        q = ', '.join('%du8' % b for b in bs)
        U.add("fn %s() -> (r: &'static [u8]) ensures r@ == seq![%s] { let x: &'static [u8] = &[%s]; assert(x@ =~= seq![%s]); x }\n" % (k, q, q, q))
    BU = "    broadcast use axiom_bytes_of_ref, axiom_bytes_of_vec;"
    f = fns['encode_resp']
    f.header("#[verifier::allow(undeclared_external_trait)]\npub fn encode_resp<W, T: AsRef<[u8]>>(writer: &mut W, resp: &Resp<T>) -> (r: IoResult<usize>)\nwhere\n    W: std::io::Write,\n"
             + REQ % {'view': 'view_v(*resp)'} + "\n    decreases enc(view_v(*resp)).len(), 1int")
    f.body_start(BU)
    U.add_fn(f)
    f = fns['encode_array']
    vlib.d10_question_in_for(f, 0, 'IoResult<usize>')
    f.apply_overlay('encode_array')
    U.add_fn(f)
    f = fns['encode_bulk_str']
    f.header("#[verifier::allow(undeclared_external_trait)]\nfn encode_bulk_str<W, T: AsRef<[u8]>>(writer: &mut W, bulk_str: &BulkStr<T>) -> (r: IoResult<usize>)\nwhere\n    W: std::io::Write,\n"
             + REQ % {'view': 'view_bulk(*bulk_str)'})
    f.body_start(BU)
    U.add_fn(f)
    f = fns['encode_simple_element']
    f.header('''#[verifier::allow(undeclared_external_trait)]
fn encode_simple_element<W, T: AsRef<[u8]>>(
    writer: &mut W,
    prefix: &[u8],
    b: T,
) -> (r: IoResult<usize>)
where
    W: std::io::Write,
    requires written(old(writer)).len() + prefix@.len() + bytes_of(&b).len() + 2 <= usize::MAX
    ensures r matches Ok(n) ==> written(final(writer)) == written(old(writer)) + prefix@ + bytes_of(&b) + crlf() && n == prefix@.len() + bytes_of(&b).len() + 2''')
    U.add_fn(f)
    U.add('} // verus!\nfn main() {}\n')
    U.trust('io::Write::write by shim: on Ok all bytes are appended to the abstract written(w) and their number is returned (Vec<u8> / SizeHintWriter semantics); io::Error opaque',
            'AsRef<[u8]>::as_ref by an uninterpreted view; AsRef for &T delegates to T, for Vec<u8> it is the content (axioms)',
            'usize::to_string().into_bytes() == dec(n) (shim_len_dec)', 'precondition: the total output length fits usize')

MUST_FAIL = '''
proof fn must_fail_enc_nil_array_is_nil_bulk() ensures enc(V::ArrNil) == enc(V::BulkNil) { }
'''
