#![feature(allocator_api)]
use vstd::prelude::*;
use std::collections::{HashMap, HashSet};
use std::hash::Hash;
use core::borrow::Borrow;
use core::alloc::Allocator;
verus! {
global size_of usize == 8;
broadcast use vstd::std_specs::hash::group_hash_axioms;

// ---- trusted (3.7) ----
pub broadcast axiom fn axiom_iter_mut_has_resolved<'a, T>(it: vstd::std_specs::iter::VerusForLoopWrapper<core::slice::IterMut<'a, T>>)
    ensures #[trigger] has_resolved(it) ==> forall|i: int| it.index@ <= i < it.seq().len() ==> has_resolved(#[trigger] it.seq()[i]);
pub uninterp spec fn key_of<K, Q: ?Sized>(k: &Q) -> K;
#[verifier::external_body] pub proof fn axiom_key_of_same<K>(k: &K) ensures key_of::<K, K>(k) == *k {}
pub assume_specification<'a, K: Eq + Hash, V, S: core::hash::BuildHasher, A: Allocator, Q: ?Sized + Hash + Eq>
    [ HashMap::<K, V, S, A>::get_mut::<Q> ] (m: &'a mut HashMap<K, V, S, A>, k: &Q) -> (r: Option<&'a mut V>)
    where K: Borrow<Q>
    ensures
        vstd::std_specs::hash::obeys_key_model::<K>() && vstd::std_specs::hash::builds_valid_hashers::<S>() ==> match r {
            Some(v) => old(m)@.contains_key(key_of::<K, Q>(k)) && *v == old(m)@[key_of::<K, Q>(k)]
                && final(m)@ == old(m)@.insert(key_of::<K, Q>(k), *final(v)),
            None => !old(m)@.contains_key(key_of::<K, Q>(k)) && final(m)@ == old(m)@,
        };

// opaque external types
pub struct Utc;
#[verifier::external_body] pub struct DateTimeUtc { x: u8 }
impl Utc { #[verifier::external_body] pub fn now() -> DateTimeUtc { unimplemented!() } }
impl DateTimeUtc { #[verifier::external_body] pub fn timestamp(&self) -> i64 { unimplemented!() } }
impl ClusterName { #[verifier::external_body] pub fn to_string(&self) -> String { unimplemented!() } }

#[verifier::external_body] pub struct ClusterName { x: u8 }
#[verifier::external_body] pub struct ClusterConfig { x: u8 }
pub struct InvalidClusterName;
impl Clone for ClusterName { #[verifier::external_body] fn clone(&self) -> (r: Self) ensures r == *self { unimplemented!() } }
impl<'b> core::convert::TryFrom<&'b str> for ClusterName {
    type Error = InvalidClusterName;
    #[verifier::external_body] fn try_from(s: &'b str) -> Result<Self, InvalidClusterName> { unimplemented!() }
}
impl ClusterConfig {
    #[verifier::external_body] pub fn set_field(&mut self, k: &String, v: &String) -> Result<(), String> { unimplemented!() }
}
impl core::cmp::PartialEq for ClusterName { #[verifier::external_body] fn eq(&self, o: &Self) -> bool { unimplemented!() } }
impl core::cmp::Eq for ClusterName {}
impl core::hash::Hash for ClusterName { #[verifier::external_body] fn hash<H: core::hash::Hasher>(&self, state: &mut H) { unimplemented!() } }

pub struct MigrationMeta {
    pub epoch: u64, // The epoch migration starts
    pub src_proxy_address: String,
    pub src_node_address: String,
    pub dst_proxy_address: String,
    pub dst_node_address: String,
}
pub enum SlotRangeTag {
    Migrating(MigrationMeta),
    Importing(MigrationMeta),
    None,
}
pub struct Range(pub usize, pub usize);
pub struct RangeList(Vec<Range>);
pub struct SlotRange {
    pub range_list: RangeList,
    pub tag: SlotRangeTag,
}
pub struct MigrationTaskMeta {
    pub cluster_name: ClusterName,
    pub slot_range: SlotRange,
}
pub const NODES_PER_PROXY: usize = 2;
pub const CHUNK_PARTS: usize = 2;
pub const CHUNK_HALF_NODE_NUM: usize = 2;
pub const CHUNK_NODE_NUM: usize = 4;
pub struct ProxyResource {
    pub proxy_address: String,
    pub node_addresses: [String; NODES_PER_PROXY],
    pub host: String,
    // `index` is only used as the index in StatefulSet of Kubernetes
    // when `enable_ordered_proxy` is true.
    pub index: usize,
    pub cluster: Option<ClusterName>,
}
#[derive(Clone, Copy, PartialEq, Eq, Structural)]
pub enum ChunkRolePosition {
    Normal,
    FirstChunkMaster,
    SecondChunkMaster,
}
pub struct MigrationSlotRangeStore {
    pub range_list: RangeList,
    pub is_migrating: bool, // migrating or importing
    pub meta: MigrationMetaStore,
}
pub struct MigrationMetaStore {
    pub epoch: u64,
    pub src_chunk_index: usize,
    pub src_chunk_part: usize,
    pub dst_chunk_index: usize,
    pub dst_chunk_part: usize,
}
pub struct ChunkStore {
    pub role_position: ChunkRolePosition,
    pub stable_slots: [Option<SlotRange>; CHUNK_PARTS],
    pub migrating_slots: [Vec<MigrationSlotRangeStore>; CHUNK_PARTS],
    pub proxy_addresses: [String; CHUNK_PARTS],
    pub hosts: [String; CHUNK_PARTS],
    pub node_addresses: [String; CHUNK_NODE_NUM],
}
pub struct ClusterStore {
    pub epoch: u64,
    pub name: ClusterName,
    pub chunks: Vec<ChunkStore>,
    pub config: ClusterConfig,
}
pub struct MigrationSlots {
    pub ranges: RangeList,
    pub meta: MigrationMetaStore,
}
pub enum ScaleOp {
    NoOp,
    ScaleOut,
    ScaleDown,
}
pub struct MetaStore {
    pub version: String,
    pub global_epoch: u64,
    pub clusters: HashMap<ClusterName, ClusterStore>,
    // proxy_address => nodes and cluster_name
    pub all_proxies: HashMap<String, ProxyResource>,
    // proxy addresses
    pub failed_proxies: HashSet<String>,
    // failed_proxy_address => reporter_id => time,
    pub failures: HashMap<String, HashMap<String, i64>>,
    // Set it `true` for kubernetes StatefulSet
    // to disable the chunk allocation algorithm
    // and only use ProxyResource.index to allocate chunks.
    pub enable_ordered_proxy: bool,
}
pub enum MetaStoreError {
    InUse,
    NotInUse,
    NoAvailableResource,
    ResourceNotBalance,
    AlreadyExisted,
    ClusterNotFound,
    FreeNodeNotFound,
    FreeNodeFound,
    ProxyNotFound,
    InvalidNodeNum,
    NodeNumAlreadyEnough,
    InvalidClusterName,
    InvalidMigrationTask,
    InvalidProxyAddress,
    MigrationTaskNotFound,
    MigrationRunning,
    InvalidConfig {
        key: String,
        value: String,
        error: String,
    },
    SlotsAlreadyEven,
    
    InvalidMetaVersion,
    SmallEpoch,
    MissingIndex,
    ProxyResourceOutOfOrder,
    OrderedProxyEnabled,
    OneClusterAlreadyExisted,
    ProxyNotSync,
    NodeNumberChanging,
    External,
    Retry,
    EmptyExternalVersion,
    ExternalTimeout,
}



pub assume_specification<'a, T, F: FnOnce() -> T>[ Option::<T>::get_or_insert_with ](o: &'a mut Option<T>, f: F) -> (r: &'a mut T)
    ensures
        match *old(o) { Some(v) => *r == v, None => f.ensures((), *r) },
        *final(o) == Some(*final(r)),
;
// ---- range coverage (contracts of the RangeList unit, assumed here) ----
pub uninterp spec fn rl_covers(rl: RangeList, s: int) -> bool;
impl Clone for RangeList { #[verifier::external_body] fn clone(&self) -> (r: Self) ensures r == *self { unimplemented!() } }
impl Clone for MigrationSlotRangeStore { #[verifier::external_body] fn clone(&self) -> (r: Self) ensures r == *self { unimplemented!() } }
impl Clone for ClusterConfig { #[verifier::external_body] fn clone(&self) -> (r: Self) ensures r == *self { unimplemented!() } }
impl RangeList {
    #[verifier::external_body] pub fn new(ranges: Vec<Range>) -> (r: Self) ensures ranges@.len() == 0 ==> forall|s: int| !rl_covers(r, s) { unimplemented!() }
    #[verifier::external_body] pub fn merge_another(&mut self, range_list: &mut RangeList)
        ensures forall|s: int| rl_covers(*final(self), s) <==> (rl_covers(*old(self), s) || rl_covers(*old(range_list), s)) { unimplemented!() }
}
impl SlotRange {
    pub fn get_mut_range_list(&mut self) -> (r: &mut RangeList)
        ensures *r == old(self).range_list, final(self).range_list == *final(r), final(self).tag == old(self).tag
    { &mut self.range_list }
}
#[verifier::external_body] fn clone_stable(s: &[Option<SlotRange>; 2]) -> (r: [Option<SlotRange>; 2]) ensures r == *s { unimplemented!() }
#[verifier::external_body] fn clone_s2(s: &[String; 2]) -> (r: [String; 2]) ensures r == *s { unimplemented!() }
#[verifier::external_body] fn clone_s4(s: &[String; 4]) -> (r: [String; 4]) ensures r == *s { unimplemented!() }
#[verifier::external_body] fn clone_cluster_store(s: &ClusterStore) -> (r: ClusterStore) ensures r == *s { unimplemented!() }

// ---- C01 specs for limit_migration ----
pub open spec fn valid_meta(m: MigrationMetaStore, n: int) -> bool {
    m.src_chunk_index < n && m.dst_chunk_index < n && m.src_chunk_part < 2 && m.dst_chunk_part < 2
}
pub open spec fn inv_home(cs: ClusterStore) -> bool {
    forall|c: int, p: int, i: int| 0 <= c < cs.chunks@.len() && 0 <= p < 2 && 0 <= i < cs.chunks@[c].migrating_slots[p]@.len() ==> {
        let x = #[trigger] cs.chunks@[c].migrating_slots[p]@[i];
        valid_meta(x.meta, cs.chunks@.len() as int)
        && (x.is_migrating ==> x.meta.src_chunk_index == c && x.meta.src_chunk_part == p)
    }
}
pub open spec fn static_eq(a: ChunkStore, b: ChunkStore) -> bool {
    a.role_position == b.role_position && a.proxy_addresses == b.proxy_addresses && a.hosts == b.hosts && a.node_addresses == b.node_addresses
}
pub open spec fn stable_cov(ch: ChunkStore, p: int, s: int) -> bool { match ch.stable_slots[p] { Some(sr) => rl_covers(sr.range_list, s), None => false } }
pub open spec fn out_cov(ms: Seq<MigrationSlotRangeStore>, k: int, s: int) -> bool {
    exists|i: int| 0 <= i < k && i < ms.len() && (#[trigger] ms[i]).is_migrating && rl_covers(ms[i].range_list, s)
}
pub open spec fn half_cov(ch: ChunkStore, p: int, s: int) -> bool { stable_cov(ch, p, s) || out_cov(ch.migrating_slots[p]@, ch.migrating_slots[p]@.len() as int, s) }
// how many entries of half (c,p) of `self` have been processed when the loops stand at (ci, pi, ei)
pub open spec fn done(cs: ClusterStore, ci: int, pi: int, ei: int, c: int, p: int) -> int {
    if c < ci || (c == ci && p < pi) { cs.chunks@[c].migrating_slots[p]@.len() as int } else if c == ci && p == pi { ei } else { 0 }
}
pub open spec fn lm_inv(cs: ClusterStore, chunks: Seq<ChunkStore>, ci: int, pi: int, ei: int) -> bool {
    chunks.len() == cs.chunks@.len()
    && forall|c: int| 0 <= c < chunks.len() ==> static_eq(#[trigger] cs.chunks@[c], chunks[c])
    && forall|c: int, p: int, s: int| 0 <= c < chunks.len() && 0 <= p < 2 ==>
        (#[trigger] half_cov(chunks[c], p, s) <==> (stable_cov(cs.chunks@[c], p, s) || out_cov(cs.chunks@[c].migrating_slots[p]@, done(cs, ci, pi, ei, c, p), s)))
}

pub proof fn lemma_out_step(ms: Seq<MigrationSlotRangeStore>, k: int, s: int)
    requires 0 <= k < ms.len()
    ensures out_cov(ms, k + 1, s) <==> (out_cov(ms, k, s) || (ms[k].is_migrating && rl_covers(ms[k].range_list, s)))
{
    if out_cov(ms, k + 1, s) {
        let i = choose|i: int| 0 <= i < k + 1 && i < ms.len() && (#[trigger] ms[i]).is_migrating && rl_covers(ms[i].range_list, s);
        if i < k { assert(out_cov(ms, k, s)); }
    }
    if out_cov(ms, k, s) {
        let i = choose|i: int| 0 <= i < k && i < ms.len() && (#[trigger] ms[i]).is_migrating && rl_covers(ms[i].range_list, s);
        assert(0 <= i < k + 1 && ms[i].is_migrating);
    }
    if ms[k].is_migrating && rl_covers(ms[k].range_list, s) { assert(0 <= k < k + 1 && ms[k].is_migrating); }
}
pub proof fn lemma_out_push(ms: Seq<MigrationSlotRangeStore>, x: MigrationSlotRangeStore, s: int)
    ensures out_cov(ms.push(x), ms.len() as int + 1, s) <==> (out_cov(ms, ms.len() as int, s) || (x.is_migrating && rl_covers(x.range_list, s)))
{
    let m2 = ms.push(x);
    lemma_out_step(m2, ms.len() as int, s);
    if out_cov(m2, ms.len() as int, s) {
        let i = choose|i: int| 0 <= i < ms.len() && i < m2.len() && (#[trigger] m2[i]).is_migrating && rl_covers(m2[i].range_list, s);
        assert(ms[i] == m2[i]);
        assert(out_cov(ms, ms.len() as int, s));
    }
    if out_cov(ms, ms.len() as int, s) {
        let i = choose|i: int| 0 <= i < ms.len() && i < ms.len() && (#[trigger] ms[i]).is_migrating && rl_covers(ms[i].range_list, s);
        assert(m2[i] == ms[i]);
        assert(out_cov(m2, ms.len() as int, s));
    }
}

pub open spec fn lm_post(cs: ClusterStore, r: ClusterStore) -> bool {
    r.epoch == cs.epoch && r.name == cs.name && r.config == cs.config
    && r.chunks@.len() == cs.chunks@.len()
    && forall|c: int| 0 <= c < r.chunks@.len() ==> static_eq(#[trigger] cs.chunks@[c], r.chunks@[c])
    && forall|c: int, p: int, s: int| 0 <= c < r.chunks@.len() && 0 <= p < 2 ==> (#[trigger] half_cov(r.chunks@[c], p, s) <==> half_cov(cs.chunks@[c], p, s))
}
impl ClusterStore {
pub fn limit_migration(&self, migration_limit: u64) -> (r: ClusterStore)
        requires inv_home(*self), vstd::std_specs::hash::obeys_key_model::<(usize, usize)>(),
        ensures lm_post(*self, r),
    {
        if migration_limit == 0 {
            return clone_cluster_store(self);
        }

        let mut chunks = vec![];
        for chunk in itA: self.chunks.iter()
            invariant
                itA.seq().len() == self.chunks@.len(),
                forall|i: int| 0 <= i < itA.seq().len() ==> *(#[trigger] itA.seq()[i]) == self.chunks@[i],
                chunks@.len() == itA.index@,
                forall|c: int| 0 <= c < chunks@.len() ==> static_eq(#[trigger] self.chunks@[c], chunks@[c])
                    && chunks@[c].stable_slots == self.chunks@[c].stable_slots
                    && chunks@[c].migrating_slots[0]@.len() == 0 && chunks@[c].migrating_slots[1]@.len() == 0,
        {
            let new_chunk = ChunkStore {
                role_position: chunk.role_position,
                stable_slots: clone_stable(&chunk.stable_slots),
                migrating_slots: [vec![], vec![]],
                proxy_addresses: clone_s2(&chunk.proxy_addresses),
                hosts: clone_s2(&chunk.hosts),
                node_addresses: clone_s4(&chunk.node_addresses),
            };
            chunks.push(new_chunk);
        }
        let mut migration_num = 0;

        const MAX_MIGRATING_OUT: usize = 1;
        // When migrating out, the server proxy will have very high CPU usage.
        let mut migrating_out: HashMap<(usize, usize), usize> = HashMap::new();
        proof {
            assert(lm_inv(*self, chunks@, 0, 0, 0)) by {
                assert forall|c: int, p: int, s: int| 0 <= c < chunks@.len() && 0 <= p < 2 implies
                    (#[trigger] half_cov(chunks@[c], p, s) <==> (stable_cov(self.chunks@[c], p, s) || out_cov(self.chunks@[c].migrating_slots[p]@, done(*self, 0, 0, 0, c, p), s))) by {
                    assert(chunks@[c].stable_slots == self.chunks@[c].stable_slots);
                }
            }
        }

        for chunk in itB: self.chunks.iter()
            invariant
                inv_home(*self), vstd::std_specs::hash::obeys_key_model::<(usize, usize)>(),
                itB.seq().len() == self.chunks@.len(),
                forall|i: int| 0 <= i < itB.seq().len() ==> *(#[trigger] itB.seq()[i]) == self.chunks@[i],
                lm_inv(*self, chunks@, itB.index@, 0, 0),
        {
            for migrating_slots in itC: chunk.migrating_slots.iter()
                invariant
                    inv_home(*self), vstd::std_specs::hash::obeys_key_model::<(usize, usize)>(),
                    0 <= itB.index@ < self.chunks@.len(), *chunk == self.chunks@[itB.index@],
                    itC.seq().len() == 2,
                    forall|i: int| 0 <= i < 2 ==> (*(#[trigger] itC.seq()[i]))@ == self.chunks@[itB.index@].migrating_slots[i]@,
                    lm_inv(*self, chunks@, itB.index@, itC.index@, 0),
            {
                for slot_range_store in itD: migrating_slots.iter()
                    invariant
                        inv_home(*self), vstd::std_specs::hash::obeys_key_model::<(usize, usize)>(),
                        0 <= itB.index@ < self.chunks@.len(), 0 <= itC.index@ < 2,
                        migrating_slots@ == self.chunks@[itB.index@].migrating_slots[itC.index@]@,
                        itD.seq().len() == migrating_slots@.len(),
                        forall|i: int| 0 <= i < itD.seq().len() ==> *(#[trigger] itD.seq()[i]) == migrating_slots@[i],
                        lm_inv(*self, chunks@, itB.index@, itC.index@, itD.index@),
                {
                    // The importing part will also be set by the migrating part.
                    let ghost ci = itB.index@; let ghost pi = itC.index@; let ghost ei = itD.index@;
                    let ghost chunks0 = chunks@;
                    assert(*slot_range_store == self.chunks@[ci].migrating_slots[pi]@[ei]);
                    assert(valid_meta(slot_range_store.meta, self.chunks@.len() as int));
                    if !(!slot_range_store.is_migrating) {
                    assert(slot_range_store.meta.src_chunk_index == ci && slot_range_store.meta.src_chunk_part == pi);

                    let mut range_list = slot_range_store.range_list.clone();
                    let meta = &slot_range_store.meta;
                    let migrating_out_count = migrating_out
                        .entry((meta.src_chunk_index, meta.src_chunk_part))
                        .or_insert(0);

                    if migration_num >= migration_limit || *migrating_out_count >= MAX_MIGRATING_OUT
                    {
                        let stable_slots = chunks
                            .get_mut(meta.src_chunk_index)
                            .and_then(|chunk: &mut ChunkStore| -> (o: Option<&mut Option<SlotRange>>)
                                requires meta.src_chunk_part < 2
                                ensures o is Some, *(o->Some_0) == old(chunk).stable_slots[meta.src_chunk_part as int],
                                    final(chunk).stable_slots@ == old(chunk).stable_slots@.update(meta.src_chunk_part as int, *final(o->Some_0)),
                                    final(chunk).migrating_slots == old(chunk).migrating_slots, static_eq(*old(chunk), *final(chunk))
                                { chunk.stable_slots.get_mut(meta.src_chunk_part) })
                            .expect("limit_migration")
                            .get_or_insert_with(|| -> (nsr: SlotRange)
                                ensures forall|x: int| !rl_covers(nsr.range_list, x)
                                { SlotRange {
                                range_list: RangeList::new(vec![]),
                                tag: SlotRangeTag::None,
                            } });
                        stable_slots
                            .get_mut_range_list()
                            .merge_another(&mut range_list);
                        proof {
                            assert(chunks@.len() == chunks0.len());
                            assert forall|c: int| 0 <= c < chunks@.len() implies static_eq(#[trigger] self.chunks@[c], chunks@[c]) by { assert(static_eq(self.chunks@[c], chunks0[c])); }
                            assert forall|c: int, p: int, x: int| 0 <= c < chunks@.len() && 0 <= p < 2 implies
                            (#[trigger] half_cov(chunks@[c], p, x) <==> (stable_cov(self.chunks@[c], p, x) || out_cov(self.chunks@[c].migrating_slots[p]@, done(*self, ci, pi, ei + 1, c, p), x))) by {
                            let e = self.chunks@[ci].migrating_slots[pi]@[ei];
                            assert(half_cov(chunks0[c], p, x) <==> (stable_cov(self.chunks@[c], p, x) || out_cov(self.chunks@[c].migrating_slots[p]@, done(*self, ci, pi, ei, c, p), x)));
                            if c == ci && p == pi { lemma_out_step(self.chunks@[ci].migrating_slots[pi]@, ei, x); }
                            if c == ci {
                                assert(chunks@[ci].migrating_slots == chunks0[ci].migrating_slots);
                                if p != pi { assert(chunks@[ci].stable_slots[p] == chunks0[ci].stable_slots[p]); }
                            } else { assert(chunks@[c] == chunks0[c]); }
                        }
                        assert(lm_inv(*self, chunks@, ci, pi, ei + 1));
                        }
                    } else {
                        chunks
                            .get_mut(meta.src_chunk_index)
                            .and_then(|chunk: &mut ChunkStore| -> (o: Option<&mut Vec<MigrationSlotRangeStore>>)
                                requires meta.src_chunk_part < 2
                                ensures o is Some, *(o->Some_0) == old(chunk).migrating_slots[meta.src_chunk_part as int],
                                    final(chunk).migrating_slots@ == old(chunk).migrating_slots@.update(meta.src_chunk_part as int, *final(o->Some_0)),
                                    final(chunk).stable_slots == old(chunk).stable_slots, static_eq(*old(chunk), *final(chunk))
                                { chunk.migrating_slots.get_mut(meta.src_chunk_part) })
                            .expect("limit_migration")
                            .push(slot_range_store.clone());

                        let mut importing_slot_range_store = slot_range_store.clone();
                        importing_slot_range_store.is_migrating = false;
                        chunks
                            .get_mut(meta.dst_chunk_index)
                            .and_then(|chunk: &mut ChunkStore| -> (o: Option<&mut Vec<MigrationSlotRangeStore>>)
                                requires meta.dst_chunk_part < 2
                                ensures o is Some, *(o->Some_0) == old(chunk).migrating_slots[meta.dst_chunk_part as int],
                                    final(chunk).migrating_slots@ == old(chunk).migrating_slots@.update(meta.dst_chunk_part as int, *final(o->Some_0)),
                                    final(chunk).stable_slots == old(chunk).stable_slots, static_eq(*old(chunk), *final(chunk))
                                { chunk.migrating_slots.get_mut(meta.dst_chunk_part) })
                            .expect("limit_migration")
                            .push(importing_slot_range_store);

                        proof {
                            let e = self.chunks@[ci].migrating_slots[pi]@[ei];
                            let di = e.meta.dst_chunk_index as int; let dp = e.meta.dst_chunk_part as int;
                            assert(chunks@.len() == chunks0.len());
                            assert forall|c: int| 0 <= c < chunks@.len() implies static_eq(#[trigger] self.chunks@[c], chunks@[c]) by { assert(static_eq(self.chunks@[c], chunks0[c])); }
                            assert forall|c: int, p: int, x: int| 0 <= c < chunks@.len() && 0 <= p < 2 implies
                            (#[trigger] half_cov(chunks@[c], p, x) <==> (stable_cov(self.chunks@[c], p, x) || out_cov(self.chunks@[c].migrating_slots[p]@, done(*self, ci, pi, ei + 1, c, p), x))) by {
                            let e = self.chunks@[ci].migrating_slots[pi]@[ei];
                            assert(half_cov(chunks0[c], p, x) <==> (stable_cov(self.chunks@[c], p, x) || out_cov(self.chunks@[c].migrating_slots[p]@, done(*self, ci, pi, ei, c, p), x)));
                            if c == ci && p == pi { lemma_out_step(self.chunks@[ci].migrating_slots[pi]@, ei, x); }
                            lemma_out_push(chunks0[ci].migrating_slots[pi]@, e, x);
                            let imp = MigrationSlotRangeStore { range_list: e.range_list, is_migrating: false, meta: e.meta };
                            lemma_out_push(chunks0[di].migrating_slots[dp]@, imp, x);
                            lemma_out_push(chunks0[ci].migrating_slots[pi]@.push(e), imp, x);
                            assert(chunks@[c].stable_slots == chunks0[c].stable_slots);
                        }
                        assert(lm_inv(*self, chunks@, ci, pi, ei + 1));
                        }
                        migration_num += 1;
                        *migrating_out_count += 1;
                    }
                    } else {
                        proof {
                            assert forall|c: int, p: int, x: int| 0 <= c < chunks@.len() && 0 <= p < 2 implies
                            (#[trigger] half_cov(chunks@[c], p, x) <==> (stable_cov(self.chunks@[c], p, x) || out_cov(self.chunks@[c].migrating_slots[p]@, done(*self, ci, pi, ei + 1, c, p), x))) by {
                            let e = self.chunks@[ci].migrating_slots[pi]@[ei];
                            assert(half_cov(chunks0[c], p, x) <==> (stable_cov(self.chunks@[c], p, x) || out_cov(self.chunks@[c].migrating_slots[p]@, done(*self, ci, pi, ei, c, p), x)));
                            if c == ci && p == pi { lemma_out_step(self.chunks@[ci].migrating_slots[pi]@, ei, x); }
                            
                        }
                        assert(lm_inv(*self, chunks@, ci, pi, ei + 1));
                        }
                    }
                }
            }
        }

        proof {
            assert forall|c: int, p: int, x: int| 0 <= c < chunks@.len() && 0 <= p < 2 implies (#[trigger] half_cov(chunks@[c], p, x) <==> half_cov(self.chunks@[c], p, x)) by {
                assert(half_cov(chunks@[c], p, x) <==> (stable_cov(self.chunks@[c], p, x) || out_cov(self.chunks@[c].migrating_slots[p]@, done(*self, self.chunks@.len() as int, 0, 0, c, p), x)));
            }
        }
        ClusterStore {
            epoch: self.epoch,
            name: self.name.clone(),
            chunks,
            config: self.config.clone(),
        }
    }
}
} // verus!
fn main() {}
