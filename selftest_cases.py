# deliberate edits used to exercise the checks (scratch copies only).  (name, property, file, old, new, expect)
U = 'src/broker/update.rs'; ST = 'src/broker/store.rs'; Q = 'src/broker/query.rs'; CL = 'src/common/cluster.rs'
UT = 'src/common/utils.rs'; SL = 'src/proxy/slot.rs'; PS = 'src/protocol/stateless.rs'; SM = 'src/migration/scan_migration.rs'
PC = 'src/proxy/cluster.rs'; MG = 'src/broker/migrate.rs'
CASES = [
 # ---- C19
 ('c19-zero-maps-to-zero', 'C19', SM, 'expire_time.extend_from_slice(RESTORE_MIN_EXPIRE);', 'expire_time.extend_from_slice(RESTORE_NO_EXPIRE);', 'violation'),
 ('c19-helper-le-zero-harmless', 'C19', SM, '    n < 0\n}', '    n <= 0\n}', 'ok'),   # 0 is handled before the helper is asked: the property still holds
 ('c19-benign-rename', 'C19', SM, 'let mut expire_time = pttl;', 'let mut expire_time: Vec<u8> = pttl;', 'not-violation'),
 # ---- C09
 ('c09-tag-off-by-one', 'C09', UT, '.get(begin + 1..begin + 1 + end_offset)', '.get(begin + 1..begin + end_offset)', 'violation'),
 ('c09-empty-tag', 'C09', UT, 'if end_offset == 0 {\n                return key;', 'if end_offset == 1 {\n                return key;', 'violation'),
 ('c09-arc-crc', 'C09', UT, 'State::<XMODEM>::calculate(get_hash_tag(key)) as usize % SLOT_NUM', 'State::<ARC>::calculate(get_hash_tag(key)) as usize % SLOT_NUM', 'violation'),
 ('c09-mod-16383', 'C09', UT, 'pub const SLOT_NUM: usize = 16384;', 'pub const SLOT_NUM: usize = 16383;', 'violation'),
 ('c09-slotmap-index', 'C09', SL, 'self.addrs.get(addr_index).map(|s| s.as_str())', 'self.addrs.get(addr_index + 1).map(|s| s.as_str())', 'violation'),
 ('c09-table-drops-range-end', 'C09', SL, 'slots.push((range.start(), range.end()));', 'slots.push((range.start(), range.start()));', 'violation'),
 # ---- C15 / C16
 ('c15-no-cr-check-line', 'C15', PS, 'if lf_index == 0 || buf.get(lf_index - 1) != Some(&CR) {', 'if lf_index == 0 {', 'violation'),
 ('c15-bulk-plus-one', 'C15', PS, 'Ok((BulkStrIndex::Str(s), consumed + content_size + 2))', 'Ok((BulkStrIndex::Str(s), consumed + content_size + 1))', 'violation'),
 ('c15-integer-as-simple', 'C15', PS, 'Ok((RespIndex::Integer(v), 1 + consumed))', 'Ok((RespIndex::Simple(v), 1 + consumed))', 'violation'),
 ('c15-neg-len-nil', 'C15', PS, '    if len < -1 {\n        return Err(ParseError::InvalidProtocol);\n    }\n    if len < 0 {\n        return Ok((BulkStrIndex::Nil, consumed));', '    if len < 0 {\n        return Ok((BulkStrIndex::Nil, consumed));', 'violation'),
 ('c16-unclamped-capacity', 'C16', PS, 'Vec::with_capacity(std::cmp::min(array_size, buf.len()))', 'Vec::with_capacity(array_size)', 'violation'),
 ('c16-line-underflow', 'C16', PS, 'if lf_index == 0 || buf.get(lf_index - 1) != Some(&CR) {', 'if buf.get(lf_index - 1) != Some(&CR) {', 'violation'),
 ('c16-benign-comment', 'C16', PS, '    // s >= 2\n', '    // the line has at least CR LF\n', 'ok'),
 # ---- C13
 ('c13-max-without-plus-one', 'C13', ST, 'let new_epoch = max(exsting_largest_epoch, self.global_epoch + 1);', 'let new_epoch = max(exsting_largest_epoch, self.global_epoch);', 'violation'),
 ('c13-force-bump-le', 'C13', ST, 'if new_epoch <= self.global_epoch {', 'if new_epoch < self.global_epoch {', 'violation'),
 ('c13-call-site-no-plus-one', 'C13', 'src/broker/storage.rs', 'self.store.write().recover_epoch(exsting_largest_epoch + 1);', 'self.store.write().recover_epoch(exsting_largest_epoch);', 'violation'),
 ('c13-restore-accepts-older', 'C13', ST, 'if self.global_epoch > other.global_epoch {', 'if self.global_epoch > other.global_epoch + 1 {', 'violation'),
 # ---- C14
 ('c14-importing-state', 'C14', PC, 'migration_states.get(range.get_range_list()).cloned() == Some(MigrationState::PreCheck)', 'migration_states.get(range.get_range_list()).cloned() == Some(MigrationState::PreBlocking)', 'violation'),
 ('c14-migrating-always-ignored', 'C14', PC, 'migration_states.get(range.get_range_list()).cloned() != Some(MigrationState::PreCheck)', 'true', 'violation'),
 # ---- C06
 ('c06-no-role-flip', 'C06', U, 'chunk.role_position = ChunkRolePosition::SecondChunkMaster;', 'chunk.role_position = ChunkRolePosition::FirstChunkMaster;', 'violation'),
 ('c06-no-cluster-epoch', 'C06', U, '        cluster.epoch = new_epoch;\n        Ok(())', '        Ok(())', 'violation'),
 ('c06-other-half-not-restamped', 'C06', U, 'let both_moved = chunk.role_position == ChunkRolePosition::FirstChunkMaster;', 'let both_moved = false;', 'violation'),
 ('c06-peer-and', 'C06', U, '                        || peer_position.contains(&(dst_index, dst_part))', '                        && peer_position.contains(&(dst_index, dst_part))', 'violation'),
 ('c06-benign-reorder', 'C06', U, '                chunk.role_position = ChunkRolePosition::SecondChunkMaster;\n\n                for migrating_slot_range in chunk.migrating_slots[0].iter_mut() {', '                chunk.role_position = ChunkRolePosition::SecondChunkMaster;\n                // promote the replicas on the second proxy\n                for migrating_slot_range in chunk.migrating_slots[0].iter_mut() {', 'ok'),
 ('c06-view-role-table', 'C06', Q, 'ChunkRolePosition::SecondChunkMaster => (3, 2),', 'ChunkRolePosition::SecondChunkMaster => (3, 1),', 'violation'),
 ('c06-view-peer-index', 'C06', Q, '                        1 => 2,', '                        1 => 3,', 'violation'),
 ('c06-node-index-table', 'C06', ST, '(0, ChunkRolePosition::SecondChunkMaster) => 3,', '(0, ChunkRolePosition::SecondChunkMaster) => 2,', 'violation'),
 ('c06-replace-wrong-node-slot', 'C06', U, 'chunk.node_addresses[3] = proxy_resource.node_addresses[1].clone();', 'chunk.node_addresses[2] = proxy_resource.node_addresses[1].clone();', 'violation'),
 ('c06-free-proxy-ignores-reports', 'C06', Q, '            if failures.contains_key(proxy_address) {\n                continue;\n            }\n', '', 'violation'),
 # ---- C04
 ('c04-remove-cluster-no-bump', 'C04', U, '            }\n        }\n\n        self.store.bump_global_epoch();\n        Ok(())\n    }\n\n    pub fn auto_scale_up_nodes', '            }\n        }\n\n        Ok(())\n    }\n\n    pub fn auto_scale_up_nodes', 'violation'),
 ('c04-change-config-stale-epoch', 'C04', U, '// Will bump epoch later on success.\n        let new_epoch = self.store.get_global_epoch() + 1;\n        match self.store.clusters.get_mut(&cluster_name) {\n            None => return Err(MetaStoreError::ClusterNotFound),\n            Some(ref mut cluster) => {\n                if cluster.is_migrating() {\n                    return Err(MetaStoreError::MigrationRunning);\n                }\n\n                let mut cluster_config', '// Will bump epoch later on success.\n        let new_epoch = self.store.get_global_epoch();\n        match self.store.clusters.get_mut(&cluster_name) {\n            None => return Err(MetaStoreError::ClusterNotFound),\n            Some(ref mut cluster) => {\n                if cluster.is_migrating() {\n                    return Err(MetaStoreError::MigrationRunning);\n                }\n\n                let mut cluster_config', 'violation'),
 ('c04-takeover-epoch-minus', 'C04', U, '        cluster.epoch = new_epoch;\n        Ok(())', '        cluster.epoch = new_epoch - 1;\n        Ok(())', 'violation'),
 ('c04-migrate-no-running-guard', 'C04', MG, '        Self::check_running_tasks(cluster)?;\n\n        let migration_slots = Self::remove_slots_from_src(cluster, new_epoch);', '        let migration_slots = Self::remove_slots_from_src(cluster, new_epoch);', 'violation'),
 ('c04-migrate-no-set-epoch', 'C04', MG, '        Self::assign_dst_slots(cluster, migration_slots.clone());\n        cluster.set_epoch(new_epoch);\n\n        Self::print_migration_slot(cluster, &migration_slots);\n        Ok(())\n    }\n\n    fn remove_slots_from_src(', '        Self::assign_dst_slots(cluster, migration_slots.clone());\n\n        Self::print_migration_slot(cluster, &migration_slots);\n        Ok(())\n    }\n\n    fn remove_slots_from_src(', 'violation'),
 ('c04-running-check-inverted', 'C04', MG, '.any(|chunk| chunk.migrating_slots.iter().any(|slots| !slots.is_empty()));\n        if running_migration {', '.any(|chunk| chunk.migrating_slots.iter().any(|slots| slots.is_empty()));\n        if running_migration {', 'violation'),
 ('c04-add-cluster-stale-epoch', 'C04', U, '        let epoch = self.store.bump_global_epoch();\n\n        let cluster_store = ClusterStore {\n            epoch,', '        let epoch = self.store.bump_global_epoch() - 1;\n\n        let cluster_store = ClusterStore {\n            epoch,', 'violation'),
 ('c04-add-cluster-tags-before-refusal', 'C04', U, '        if node_num % 4 != 0 {\n            return Err(MetaStoreError::InvalidNodeNum);\n        }\n        let proxy_num', '        self.store.bump_global_epoch();\n        if node_num % 4 != 0 {\n            return Err(MetaStoreError::InvalidNodeNum);\n        }\n        let proxy_num', 'violation'),
 ('c04-auto-delete-epoch-before-refusal', 'C04', U, '                if removed_chunks.is_empty() {\n                    return Err(MetaStoreError::FreeNodeNotFound);\n                }\n\n                cluster.set_epoch(new_epoch);', '                cluster.set_epoch(new_epoch);\n                if removed_chunks.is_empty() {\n                    return Err(MetaStoreError::FreeNodeNotFound);\n                }\n', 'violation'),
 ('c04-auto-delete-no-bump', 'C04', U, '        // Set proxies free\n        for chunk in removed_chunks.into_iter() {\n            for proxy_address in chunk.proxy_addresses.iter() {\n                if let Some(proxy) = self.store.all_proxies.get_mut(proxy_address) {\n                    proxy.cluster = None;\n                }\n            }\n        }\n\n        self.store.bump_global_epoch();', '        // Set proxies free\n        for chunk in removed_chunks.into_iter() {\n            for proxy_address in chunk.proxy_addresses.iter() {\n                if let Some(proxy) = self.store.all_proxies.get_mut(proxy_address) {\n                    proxy.cluster = None;\n                }\n            }\n        }\n', 'violation'),
 ('c06-balance-ignores-reports', 'C06', U, 'if failed_proxies.contains(address) || failures.contains_key(address) {', 'if failed_proxies.contains(address) {', 'violation'),
 ('c01-auto-delete-ignores-importing', 'C01', U, '                    for slots in chunk.migrating_slots.iter() {\n                        if !slots.is_empty() {\n                            return true;\n                        }\n                    }\n                    removed_chunks.push(chunk.clone());', '                    removed_chunks.push(chunk.clone());', 'violation'),
 ('c14-slots-break-instead-of-continue', 'C14', PC, '            if should_ignore_slots(slot_range, migration_states) {\n                continue;\n            }\n\n            let node_id', '            if should_ignore_slots(slot_range, migration_states) {\n                break;\n            }\n\n            let node_id', 'violation'),
 ('c14-slots-end-is-start', 'C14', PC, 'Resp::Integer(range.end().to_string().into_bytes()),', 'Resp::Integer(range.start().to_string().into_bytes()),', 'violation'),
 ('c15-single-hint-not-remembered', 'C15', 'src/protocol/packet.rs', '                self.curr_hint = Some(h.clone());\n                h', '                if let OptionalMultiHint::Multi(_) = &h {\n                    self.curr_hint = Some(h.clone());\n                }\n                h', 'violation'),
 ('c20-setex-wrong-index', 'C20', 'src/proxy/compress.rs', 'DataCmdType::Psetex | DataCmdType::Setex => OptionalMulti::Single(3),', 'DataCmdType::Psetex | DataCmdType::Setex => OptionalMulti::Single(2),', 'violation'),
 ('c20-mset-compresses-keys', 'C20', 'src/proxy/compress.rs', 'let key_indices = (2..l).step_by(2).collect();', 'let key_indices = (1..l).step_by(2).collect();', 'violation'),
 ('c20-mget-skips-first', 'C20', 'src/proxy/compress.rs', 'if !packet.change_bulk_array_element(i, c) {', 'if i > 0 && !packet.change_bulk_array_element(i, c) {', 'violation'),
 ('c20-restricted-not-refused', 'C20', 'src/proxy/compress.rs', 'CompressionStrategy::SetGetOnly => return Err(CompressionError::RestrictedCmd),', 'CompressionStrategy::SetGetOnly => return Err(CompressionError::UnsupportedCmdType),', 'violation'),
 ('c20-executor-forwards-after-io-error', 'C20', 'src/proxy/executor.rs', '            | Err(CompressionError::UnsupportedCmdType)\n            | Err(CompressionError::Disabled) => (),\n            Err(CompressionError::InvalidRequest)', '            | Err(CompressionError::UnsupportedCmdType)\n            | Err(CompressionError::Io(_))\n            | Err(CompressionError::Disabled) => (),\n            Err(CompressionError::InvalidRequest)', 'violation'),
 ('c20-benign-comment', 'C20', 'src/proxy/compress.rs', '    pub fn try_compressing_cmd_ctx(&self, cmd_ctx: &mut CmdCtx) -> Result<(), CompressionError> {\n        let strategy = self.config.get_config();', '    pub fn try_compressing_cmd_ctx(&self, cmd_ctx: &mut CmdCtx) -> Result<(), CompressionError> {\n        // strategy of the cluster this proxy serves\n        let strategy = self.config.get_config();', 'ok'),
 ('c04-add-proxy-no-bump-on-clear', 'C04', U, '        if !exists || cleared {\n            self.store.bump_global_epoch();', '        if !exists {\n            self.store.bump_global_epoch();', 'violation'),
 ('c04-add-proxy-keeps-reports', 'C04', U, '        cleared = self.store.failures.remove(&proxy_address).is_some() || cleared;', '        cleared = self.store.failures.contains_key(&proxy_address) || cleared;', 'violation'),
 ('c04-add-failure-no-bump', 'C04', U, '            return false;\n        }\n        self.store.bump_global_epoch();\n        self.store\n            .failures', '            return false;\n        }\n        self.store\n            .failures', 'violation'),
 ('c04-add-failure-same-reporter-counts-twice', 'C04', U, '.map(|failures| failures.contains_key(&reporter_id))', '.map(|failures| failures.contains_key(&address))', 'violation'),
 ('c14-nodes-single-slot-token', 'C14', PC, 'if range.start() == range.end() {\n                            range.start().to_string()', 'if range.start() + 1 >= range.end() {\n                            range.start().to_string()', 'violation'),
 ('c14-nodes-ignored-still-listed', 'C14', PC, '                if should_ignore_slots(slot_range, migration_states) {\n                    return None;\n                }\n', '', 'violation'),
 ('c14-nodes-local-flag', 'C14', PC, '            migration_states,\n            true,\n            cluster_nodes_version,', '            migration_states,\n            false,\n            cluster_nodes_version,', 'violation'),
 # ---- C01
 ('c01-compact-adjacent', 'C01', CL, 'if s.end() + 1 >= e.start() {', 'if s.end() >= e.start() {', 'violation'),
 ('c01-compact-truncate', 'C01', CL, 'self.0.truncate(a + 1);', 'self.0.truncate(a);', 'violation'),
 ('c01-limit-fold-into-dst', 'C01', ST, '.and_then(|chunk| chunk.stable_slots.get_mut(meta.src_chunk_part))', '.and_then(|chunk| chunk.stable_slots.get_mut(meta.dst_chunk_part))', 'violation'),
 ('c01-assign-twin-meta', 'C01', MG, '                    is_migrating: false,\n                    meta,', '                    is_migrating: true,\n                    meta,', 'violation'),
 ('c01-view-replica-gets-slots', 'C01', Q, 'if i == second_slot_index {', 'if i == second_slot_index || i == 1 {', 'violation'),
]
