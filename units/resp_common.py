# RESP decoder unit (src/protocol/stateless.rs), shared by C15 (mode 'func': decoder == strict grammar)
# and C16 (mode 'safe': no panic / overflow, consumed <= len, indices in range, allocation <= input).
import re
import vlib

ADV = {'parse_bulk_str': 'bulk', 'parse_array': 'arr', 'parse_resp': 'resp'}


def ens(mode, func, safe):
    return func if mode == 'func' else safe


def build_resp(U, mode):
    S = U.src('src/protocol/stateless.rs')
    R = U.src('src/protocol/resp.rs')
    D = U.src('src/protocol/decoder.rs')
    U.prelude('resp_spec.rs')
    U.prelude('resp_code.rs')
    # constants and types copied from /repo
    U.add(vlib.const_decl(D, 'LF'))
    if re.search(r'const CR: u8', D.text):
        U.add(vlib.const_decl(D, 'CR'))
    elif re.search(r'const CR: u8', S.text):
        U.add(vlib.const_decl(S, 'CR'))
    else:
        U.add('pub const CR: u8 = 13u8;   // not defined in /repo (spec side only)\n')
    U.add(vlib.type_item(S, 'enum', 'ParseError', 'InvalidProtocol,NotEnoughData,UnexpectedErr'))
    U.add(vlib.type_item(R, 'struct', 'DataIndex'))
    U.add(vlib.type_item(R, 'enum', 'BulkStr', 'Str(T),Nil'))
    U.add(vlib.type_item(R, 'enum', 'Array', 'Arr(Vec<Resp<T>>),Nil'))
    U.add(vlib.type_item(R, 'enum', 'Resp', 'Error(T),Simple(T),Bulk(BulkStr<T>),Integer(T),Arr(Array<T>)'))
    for a in ('BulkStrIndex', 'ArrayIndex', 'RespIndex'):
        U.add(R.item('type', a) + '\n')
    # DataIndex::advance / to_range: the real inherent methods
    adv = R.fn('advance', within=r'impl DataIndex\b')
    adv.header("pub fn advance(&mut self, count: usize)\n        requires old(self).1 + count <= usize::MAX, old(self).0 <= old(self).1\n"
               "        ensures final(self).0 == old(self).0 + count, final(self).1 == old(self).1 + count")
    R.scan('DataIndex::to_range is self.0..self.1', r'pub fn to_range\(&self\) -> Range<usize> \{\s*self\.0\.\.self\.1\s*\}', 1)
    U.add('impl DataIndex {\n')
    U.add_fn(adv)
    U.add('}\n')

    # ---------------------------------------------------------------- parse_line
    f = S.fn('parse_line')
    f.r1_logging().r2_closure_underscore()
    f.header("fn parse_line(buf: &[u8]) -> (res: Result<(DataIndex, usize), ParseError>)\n    requires buf@.len() <= MAX_BUF\n" + ens(mode,
             "    ensures match res {\n        Ok((d, c)) => spec_line(buf@) == SRes::Ok(d.1 as int, c as int) && d.0 == 0 && d.1 + 2 == c && c <= buf@.len(),\n        Err(e) => err_matches(e, spec_line(buf@)),\n    }",
             "    ensures match res { Ok((d, c)) => 2 <= c <= buf@.len() && d.0 == 0 && d.1 + 2 == c, Err(_e) => true }"))
    f.body_start("    proof { lemma_first_lf(buf@); }")
    U.add_fn(f)

    # ---------------------------------------------------------------- parse_len
    f = S.fn('parse_len')
    f.r1_logging()
    f.sub('R4', r"(\w+)\s*\.get\((\w+)\.to_range\(\)\)", r"shim_get_range(\1, \2.0, \2.1)", count=1)
    f.replace('closure-spec', "btoi(next_buf).map_err(|_| ParseError::InvalidProtocol)",
              "btoi(next_buf).map_err(|_e: ()| -> (r: ParseError) ensures r is InvalidProtocol { ParseError::InvalidProtocol })", count=1)
    f.header("fn parse_len(buf: &[u8]) -> (res: Result<(i64, usize), ParseError>)\n    requires buf@.len() <= MAX_BUF\n" + ens(mode,
             "    ensures match res {\n        Ok((l, c)) => spec_len(buf@) == SRes::Ok(l as int, c as int) && 2 <= c <= buf@.len(),\n        Err(e) => err_matches(e, spec_len(buf@)),\n    }",
             "    ensures match res { Ok((l, c)) => 2 <= c <= buf@.len(), Err(_e) => true }"))
    U.add_fn(f)

    # ---------------------------------------------------------------- parse_bulk_str
    f = S.fn('parse_bulk_str')
    f.r1_logging().r2_closure_underscore()
    f.header("fn parse_bulk_str(buf: &[u8]) -> (res: Result<(BulkStrIndex, usize), ParseError>)\n    requires buf@.len() <= MAX_BUF\n" + ens(mode,
             "    ensures match res {\n        Ok((v, c)) => spec_bulk(buf@) == SRes::Ok(view_bulk(v), c as int) && 2 <= c <= buf@.len() && bulk_in(v, 0, c as int),\n        Err(e) => err_matches(e, spec_bulk(buf@)),\n    }",
             "    ensures match res { Ok((v, c)) => 2 <= c <= buf@.len() && bulk_in(v, 0, c as int), Err(_e) => true }"))
    U.add_fn(f)

    # ---------------------------------------------------------------- parse_resp
    f = S.fn('parse_resp')
    f.r1_logging().r2_closure_underscore()
    f.sub('R4', r"(\w+)\s*\.get\(([^().]+)\.\.\)", r"shim_get_from(\1, \2)", count=1)
    _advance(f)
    f.header("pub fn parse_resp(buf: &[u8]) -> (res: Result<(RespIndex, usize), ParseError>)\n    requires buf@.len() <= MAX_BUF\n" + ens(mode,
             "    ensures match res {\n        Ok((v, c)) => spec_resp(buf@) == SRes::Ok(view_resp(v), c as int) && 0 < c <= buf@.len() && resp_in(v, 0, c as int),\n        Err(e) => err_matches(e, spec_resp(buf@)),\n    }",
             "    ensures match res { Ok((v, c)) => 0 < c <= buf@.len() && resp_in(v, 0, c as int), Err(_e) => true }") + "\n    decreases buf@.len(), 1int")
    U.add_fn(f)

    # ---------------------------------------------------------------- parse_array
    f = S.fn('parse_array')
    f.r1_logging().r2_closure_underscore()
    f.sub('R4', r"(\w+)\s*\.get\(([^().]+)\.\.\)", r"shim_get_from(\1, \2)", count=1)
    f.sub('R9', r"Vec::with_capacity\((.*)\);", r"shim_with_capacity(\1, Ghost(buf@.len() as int));", count=1)
    f.text, n = re.subn(r'\b(?:std::cmp::|cmp::)min\(', 'min(', f.text)
    if n: U.log.rule('R6', f, 'std::cmp::min')
    f.replace('R2', 'for _ in ', 'for _i in ', count=1)
    _advance(f)
    f.expect_loops(1)
    f.header("fn parse_array(buf: &[u8]) -> (res: Result<(ArrayIndex, usize), ParseError>)\n    requires buf@.len() <= MAX_BUF\n" + ens(mode,
             "    ensures match res {\n        Ok((v, c)) => spec_array(buf@) == SRes::Ok(view_arr(v), c as int) && 0 < c <= buf@.len() && arr_in(v, 0, c as int),\n        Err(e) => err_matches(e, spec_array(buf@)),\n    }",
             "    ensures match res { Ok((v, c)) => 0 < c <= buf@.len() && arr_in(v, 0, c as int), Err(_e) => true }") + "\n    decreases buf@.len(), 0int")
    inv = ["buf@.len() <= MAX_BUF", "0 < consumed <= buf@.len()",
           "forall|i: int| 0 <= i < array@.len() ==> resp_in(#[trigger] array@[i], 0, consumed as int)"]
    if mode == 'func':
        f.after("shim_with_capacity(", """    let ghost c0 = consumed as int;
    let ghost total = spec_elems(buf@, c0, len as int, Seq::<SResp>::empty());
    proof {
        assert(acc_view(array@) =~= Seq::<SResp>::empty());
        assert(spec_array(buf@) == match total { SRes::Ok(sv, c2) => SRes::Ok(SResp::Arr(sv), c2), SRes::NotEnough => SRes::NotEnough, SRes::Invalid => SRes::Invalid });
    }""")
        inv += ["array_size == len", "len >= 0", "array@.len() == it.index@",
                "total == spec_elems(buf@, consumed as int, len - it.index@, acc_view(array@))",
                "spec_len(buf@) == SRes::Ok(len as int, c0)", "2 <= c0 <= buf@.len()",
                "spec_array(buf@) == match total { SRes::Ok(sv, c2) => SRes::Ok(SResp::Arr(sv), c2), SRes::NotEnough => SRes::NotEnough, SRes::Invalid => SRes::Invalid }"]
        f.after("let next_buf = shim_get_from(buf, consumed)", """        proof {
            assert(len - it.index@ > 0);
            assert(next_buf@ == buf@.subrange(consumed as int, buf@.len() as int));
            assert(total == match spec_resp(next_buf@) {
                SRes::Ok(sv, sc) => if sc < 1 { SRes::Invalid } else { spec_elems(buf@, consumed + sc, len - it.index@ - 1, acc_view(array@).push(shift(sv, consumed as int))) },
                SRes::NotEnough => SRes::NotEnough,
                SRes::Invalid => SRes::Invalid,
            });
        }""")
    f.loop_spec(0, "        invariant\n" + ''.join("            %s,\n" % x for x in inv), itname='it')
    f.before("consumed += element_consumed;", "        let ghost old_consumed = consumed as int;\n        let ghost old_array = array@;")
    f.after("consumed += element_consumed;", """        proof {
            lemma_resp_in_mono(v, old_consumed, old_consumed + element_consumed, 0, consumed as int);
            assert forall|i: int| 0 <= i < old_array.len() implies resp_in(#[trigger] old_array[i], 0, consumed as int) by {
                lemma_resp_in_mono(old_array[i], 0, old_consumed, 0, consumed as int);
            }
        }""")
    if mode == 'func':
        f.after("array.push(v);", "        proof { assert(acc_view(array@) =~= acc_view(old_array).push(view_resp(v))); }")
        f.before("Ok((ArrayIndex::Arr(array), consumed))", "    proof {\n        assert(total == SRes::Ok(acc_view(array@), consumed as int));\n        lemma_view_arr(array);\n    }")
    U.add_fn(f)
    U.trust('memchr::memchr by assumed contract (first index of the byte / None)',
            'btoi::btoi::<i64> by assumed contract (uninterpreted spec_btoi: Ok(n) <=> the slice is an i64 literal with value n)',
            '[u8]::get(range) by std documentation (shim_get_from, shim_get_range)',
            'AdvanceIndex::advance on BulkStrIndex/ArrayIndex/RespIndex (repo code behind a GAT Functor: map_in_place) by assumed contract "every index + n"; DataIndex::advance is verified',
            'Vec::with_capacity(n) returns an empty Vec; R9 adds the obligation n <= remaining input length',
            'usize is 64 bit; buffers shorter than 2^62 bytes (stated precondition)')


def _advance(f):
    """R8: `let (mut v, C) = parse_X(..)?; v.advance(K);` -> typed shim (X decides the index type);
    parse_line yields a DataIndex whose real inherent advance() is verified and kept verbatim."""
    pat = re.compile(r"(let \(mut v, (\w+)\) = (parse_\w+)\((\w+)\)\?;\s*)v\.advance\(([^()]*)\);")
    cnt = [0]

    def rep(m):
        kind = ADV.get(m.group(3))
        cnt[0] += 1
        if kind is None:
            return m.group(0)
        extra = ''
        if kind == 'arr':
            extra = "\n            proof { lemma_arr_in_mono(v, %s as int, %s + %s, 0, %s + %s); }" % (m.group(5), m.group(2), m.group(5), m.group(2), m.group(5))
        return "%sshim_advance_%s(&mut v, %s, Ghost(%s as int));%s" % (m.group(1), kind, m.group(5), m.group(2), extra)
    f.text = pat.sub(rep, f.text)
    if cnt[0] == 0 or re.search(r'\.advance\(', re.sub(r'let \(mut v, \w+\) = parse_line\(\w+\)\?;\s*v\.advance\([^()]*\);', '', f.text)):
        f._lost('R8 advance pattern')
    f.log.rule('R8', f, '%d advance call(s)' % cnt[0])
