import re
s=open('/tmp/km/x/w1.rs').read()
def must(old,new,count=1):
    global s
    assert s.count(old)>=1, old[:60]
    s=s.replace(old,new,count)
# 1. early case spec
must("==> nc == oc\n","==> nc.epoch == oc.epoch && nc.chunks@ =~= oc.chunks@\n")
# 2. ghost hit index
must("        let ghost old_cluster = *cluster;\n","        let ghost old_cluster = *cluster;\n        let ghost mut hit_idx: int = -1;\n")
s=s.replace("{ verif_ret = Some(Ok(())); break; }","{ proof { hit_idx = it.index@; } verif_ret = Some(Ok(())); break; }")
s=re.sub(r'(                \}\n)(                break;\n)', lambda m: m.group(1)+"                proof { hit_idx = it.index@; }\n"+m.group(2), s)
must("            invariant_except_break\n                verif_ret is None,","            invariant_except_break\n                hit_idx == -1,\n                verif_ret is None,")
must("            ensures\n                it.index@ == it.seq().len() ||","""            ensures
                hit_idx == -1 ==> it.index@ == it.seq().len() && verif_ret is None,
                hit_idx == -1 ==> forall|i: int| 0 <= i < it.seq().len() ==> !is_hit(#[trigger] old_cluster.chunks@[i], failed_proxy_address@),
                hit_idx != -1 ==> hit_idx == it.index@ - 1 && 0 <= hit_idx < it.seq().len() && is_hit(old_cluster.chunks@[hit_idx], failed_proxy_address@),
                it.index@ == it.seq().len() ||""")
# 3. after loop 1
must("        if let Some(verif_r) = verif_ret { return verif_r; }\n        let ghost mid = *cluster;\n","""        let ghost mid = *cluster;
        proof {
            let oc = old_cluster; let fa = failed_proxy_address@;
            assert(mid.chunks@.len() == oc.chunks@.len());
            assert(mid.epoch == oc.epoch && mid.name == oc.name && mid.config == oc.config);
            if hit_idx == -1 {
                assert forall|c: int| 0 <= c < oc.chunks@.len() implies !is_hit(#[trigger] oc.chunks@[c], fa) && mid.chunks@[c] == oc.chunks@[c] by {}
            } else {
                assert(is_first_hit(oc, hit_idx, fa));
                assert(hit_post(oc.chunks@[hit_idx], mid.chunks@[hit_idx], fa, new_epoch, verif_ret is Some, peer_position@));
                assert forall|c: int| 0 <= c < oc.chunks@.len() && c != hit_idx implies mid.chunks@[c] == #[trigger] oc.chunks@[c] by {}
            }
        }
        if let Some(verif_r) = verif_ret {
            proof {
                assert(cluster.chunks@ =~= old_cluster.chunks@);
                assert forall|j: int| is_first_hit(old_cluster, j, failed_proxy_address@) implies j == hit_idx by {}
            }
            return verif_r;
        }
""")
# 4. end
must("        cluster.epoch = new_epoch;\n        Ok(())\n","""        cluster.epoch = new_epoch;
        proof {
            let oc = old_cluster; let nc = *cluster; let fa = failed_proxy_address@; let pp = peer_position@;
            assert(nc.chunks@.len() == oc.chunks@.len());
            assert forall|c: int| 0 <= c < oc.chunks@.len() implies chunk_post2(mid.chunks@[c], #[trigger] nc.chunks@[c], pp, new_epoch) by {}
            if hit_idx == -1 {
                assert(pp == Set::<(usize, usize)>::empty());
                assert forall|c: int| 0 <= c < oc.chunks@.len() implies chunk_final(#[trigger] oc.chunks@[c], nc.chunks@[c], false, 0, Set::<(usize, usize)>::empty(), new_epoch) by {
                    assert(mid.chunks@[c] == oc.chunks@[c]);
                    assert(chunk_post2(mid.chunks@[c], nc.chunks@[c], pp, new_epoch));
                }
            } else {
                let j = hit_idx; let h = hit_half(oc.chunks@[j], fa);
                assert forall|jj: int| is_first_hit(oc, jj, fa) implies jj == j by {}
                assert(oc.chunks@[j].role_position != flipped(h));
                assert(pp == positions_of(oc.chunks@[j].migrating_slots[h]@));
                assert forall|c: int| 0 <= c < oc.chunks@.len() implies chunk_final(#[trigger] oc.chunks@[c], nc.chunks@[c], c == j, h, pp, new_epoch) by {
                    assert(chunk_post2(mid.chunks@[c], nc.chunks@[c], pp, new_epoch));
                    if c != j { assert(mid.chunks@[c] == oc.chunks@[c]); }
                }
            }
        }
        Ok(())
""")
open('/tmp/km/x/w1.rs','w').write(s)
