use vstd::prelude::*;
use std::mem::swap;
verus! {
global size_of usize == 8;

pub struct Range(pub usize, pub usize);
impl Clone for Range { fn clone(&self) -> (r: Self) ensures r == *self { Range(self.0, self.1) } }
impl Range {
    pub fn start(&self) -> (r: usize) ensures r == self.0 { self.0 }
    pub fn end(&self) -> (r: usize) ensures r == self.1 { self.1 }
}
pub struct RangeList(pub Vec<Range>);

// ---------- specs ----------
pub open spec fn lo(r: Range) -> int { if r.0 <= r.1 { r.0 as int } else { r.1 as int } }
pub open spec fn hi(r: Range) -> int { if r.0 <= r.1 { r.1 as int } else { r.0 as int } }
pub open spec fn covers(v: Seq<Range>, s: int) -> bool { exists|i: int| 0 <= i < v.len() && lo(#[trigger] v[i]) <= s <= hi(v[i]) }
pub open spec fn normalized(v: Seq<Range>) -> bool { forall|i: int| 0 <= i < v.len() ==> (#[trigger] v[i]).0 <= v[i].1 }
pub open spec fn sorted_by_start(v: Seq<Range>) -> bool { forall|i: int, j: int| 0 <= i <= j < v.len() ==> (#[trigger] v[i]).0 <= (#[trigger] v[j]).0 }
pub open spec fn wf(v: Seq<Range>) -> bool {
    normalized(v) && forall|i: int| 0 <= i < v.len() - 1 ==> (#[trigger] v[i]).1 + 1 < v[i + 1].0
}
pub open spec fn bounded(v: Seq<Range>) -> bool { forall|i: int| 0 <= i < v.len() ==> (#[trigger] v[i]).0 < usize::MAX && v[i].1 < usize::MAX }

fn max(a: usize, b: usize) -> (r: usize) ensures r == (if a >= b { a } else { b }) { if a >= b { a } else { b } }

// R7 (trusted): sort_by_key(|r| r.start())
#[verifier::external_body]
fn shim_sort_by_start(v: &mut Vec<Range>)
    ensures final(v)@.len() == old(v)@.len(), sorted_by_start(final(v)@),
            forall|x: Range| final(v)@.contains(x) <==> old(v)@.contains(x),
{ v.sort_by_key(|r| r.0) }


pub broadcast axiom fn axiom_vec_len_bound<T>(v: Vec<T>) ensures #[trigger] v@.len() <= usize::MAX;

pub open spec fn in_range(r: Range, s: int) -> bool { lo(r) <= s <= hi(r) }

pub proof fn lemma_covers_split(v: Seq<Range>, k: int, s: int)
    requires 0 <= k <= v.len()
    ensures covers(v, s) <==> (covers(v.subrange(0, k), s) || covers(v.subrange(k, v.len() as int), s))
{
    let l = v.subrange(0, k); let r = v.subrange(k, v.len() as int);
    if covers(v, s) {
        let i = choose|i: int| 0 <= i < v.len() && lo(#[trigger] v[i]) <= s <= hi(v[i]);
        if i < k { assert(l[i] == v[i]); assert(lo(l[i]) <= s <= hi(l[i])); } else { assert(r[i - k] == v[i]); assert(lo(r[i - k]) <= s <= hi(r[i - k])); }
    }
    if covers(l, s) { let i = choose|i: int| 0 <= i < l.len() && lo(#[trigger] l[i]) <= s <= hi(l[i]); assert(l[i] == v[i]); assert(lo(v[i]) <= s <= hi(v[i])); }
    if covers(r, s) { let i = choose|i: int| 0 <= i < r.len() && lo(#[trigger] r[i]) <= s <= hi(r[i]); assert(r[i] == v[i + k]); assert(lo(v[i + k]) <= s <= hi(v[i + k])); }
}

impl RangeList {
    pub fn compact(&mut self)
        requires bounded(old(self).0@)
        ensures wf(final(self).0@),
                forall|s: int| covers(final(self).0@, s) <==> covers(old(self).0@, s),
    {
        // Goal: for any i < j, i.start <= i.end < j.start <= j.end
        for range in it: self.0.iter_mut()
            invariant
                it.seq().len() == old(self).0@.len(),
                forall|i: int| 0 <= i < it.seq().len() ==> *(#[trigger] it.seq()[i]) == old(self).0@[i],
                forall|i: int| 0 <= i < it.index@ ==> lo(*final(#[trigger] it.seq()[i])) == lo(old(self).0@[i]) && hi(*final(it.seq()[i])) == hi(old(self).0@[i])
                    && final(it.seq()[i]).0 <= final(it.seq()[i]).1,
        {
            if range.start() > range.end() {
                swap(&mut range.0, &mut range.1);
            }
        }
        let ghost norm = self.0@;
        assert(forall|s: int| covers(norm, s) <==> covers(old(self).0@, s)) by {
            assert forall|s: int| covers(norm, s) implies covers(old(self).0@, s) by {
                let i = choose|i: int| 0 <= i < norm.len() && lo(#[trigger] norm[i]) <= s <= hi(norm[i]);
                assert(lo(old(self).0@[i]) <= s <= hi(old(self).0@[i]));
            }
            assert forall|s: int| covers(old(self).0@, s) implies covers(norm, s) by {
                let i = choose|i: int| 0 <= i < old(self).0@.len() && lo(#[trigger] old(self).0@[i]) <= s <= hi(old(self).0@[i]);
                assert(lo(norm[i]) <= s <= hi(norm[i]));
            }
        }
        shim_sort_by_start(&mut self.0);
        let ghost g = self.0@;
        let ghost n = g.len() as int;
        proof {
            // sorting keeps normalization, bounds and coverage
            assert(normalized(g)) by { assert forall|i: int| 0 <= i < g.len() implies (#[trigger] g[i]).0 <= g[i].1 by { assert(norm.contains(g[i])); } }
            assert(bounded(g)) by { assert forall|i: int| 0 <= i < g.len() implies (#[trigger] g[i]).0 < usize::MAX && g[i].1 < usize::MAX by { assert(norm.contains(g[i])); let k = choose|k: int| 0 <= k < norm.len() && norm[k] == g[i]; assert(lo(norm[k]) == lo(old(self).0@[k])); } }
            assert forall|s: int| covers(g, s) <==> covers(norm, s) by {
                if covers(g, s) { let i = choose|i: int| 0 <= i < g.len() && lo(#[trigger] g[i]) <= s <= hi(g[i]); assert(norm.contains(g[i])); let k = choose|k: int| 0 <= k < norm.len() && norm[k] == g[i]; assert(lo(norm[k]) <= s <= hi(norm[k])); }
                if covers(norm, s) { let i = choose|i: int| 0 <= i < norm.len() && lo(#[trigger] norm[i]) <= s <= hi(norm[i]); assert(g.contains(norm[i])); let k = choose|k: int| 0 <= k < g.len() && g[k] == norm[i]; assert(lo(g[k]) <= s <= hi(g[k])); }
            }
        }
        assert(forall|s: int| covers(g, s) <==> covers(old(self).0@, s));
        // After sort, for any i < j,
        // i.start <= i.end
        // j.start <= j.end
        // i.start <= j.start
        let mut a = 0;
        let mut b = 1;
        proof {
            broadcast use axiom_vec_len_bound;
            assert(self.0@.len() <= usize::MAX);
            if n > 0 {
                assert(self.0@.subrange(0, 1)[0] == g[0]);
                assert forall|s: int| (covers(self.0@.subrange(0, 1), s) || covers(g.subrange(1, n), s)) <==> covers(g, s) by {
                    lemma_covers_split(g, 1, s);
                    assert(g.subrange(0, 1) =~= self.0@.subrange(0, 1));
                }
            }
        }
        while let Some(e) = self.0.get(b).cloned()
            invariant
                self.0@.len() == n, n <= usize::MAX,
                forall|s: int| covers(g, s) <==> covers(old(self).0@, s),
                normalized(g), bounded(g), sorted_by_start(g), g.len() == n,
                a < b, n > 0 ==> b <= n, n == 0 ==> (a == 0 && b == 1),
                forall|i: int| b <= i < n ==> self.0@[i] == g[i],
                n > 0 ==> wf(self.0@.subrange(0, a + 1)),
                n > 0 ==> self.0@[a as int].1 < usize::MAX,
                n > 0 ==> forall|j: int| b <= j < n ==> self.0@[a as int].0 <= (#[trigger] g[j]).0,
                n > 0 ==> forall|s: int| (covers(self.0@.subrange(0, a + 1), s) || covers(g.subrange(b as int, n), s)) <==> covers(g, s),
            ensures n > 0 ==> b >= n,
            decreases n - b,
        {
            let ghost v0 = self.0@;
            assert(e == g[b as int]);
            assert(n > 0 && b < n);
            {
                let s = self.0.get_mut(a).expect("RangeList::compact");
                if s.end() + 1 >= e.start() {
                    s.1 = max(s.end(), e.end());
                    proof {
                        let v1 = self.0@;
                        let p0 = v0.subrange(0, a + 1); let p1 = v1.subrange(0, a + 1);
                        assert(v1 == v0.update(a as int, Range(v0[a as int].0, v1[a as int].1)));
                        assert(forall|i: int| 0 <= i < a ==> p1[i] == p0[i]);
                        assert(p0[a as int] == v0[a as int]);
                        assert(p1[a as int] == v1[a as int]);
                        assert(wf(p1)) by {
                            assert forall|i: int| 0 <= i < p1.len() implies (#[trigger] p1[i]).0 <= p1[i].1 by { if i < a { assert(p0[i].0 <= p0[i].1); } }
                            assert forall|i: int| 0 <= i < p1.len() - 1 implies (#[trigger] p1[i]).1 + 1 < p1[i + 1].0 by { assert(p0[i].1 + 1 < p0[i + 1].0); }
                        }
                        assert forall|x: int| (covers(p1, x) || covers(g.subrange(b + 1, n), x)) <==> covers(g, x) by {
                            let t0 = g.subrange(b as int, n); let t1 = g.subrange(b + 1, n);
                            lemma_covers_split(t0, 1, x);
                            assert(t0.subrange(1, t0.len() as int) =~= t1);
                            assert(t0.subrange(0, 1)[0] == e);
                            // covers(t0.subrange(0,1), x) <==> in_range(e, x)
                            assert(covers(t0.subrange(0, 1), x) <==> in_range(e, x)) by {
                                if in_range(e, x) { assert(lo(t0.subrange(0, 1)[0]) <= x <= hi(t0.subrange(0, 1)[0])); }
                            }
                            // covers(p1, x) <==> covers(p0, x) || in_range(e, x)
                            if covers(p1, x) {
                                let i = choose|i: int| 0 <= i < p1.len() && lo(#[trigger] p1[i]) <= x <= hi(p1[i]);
                                if i < a { assert(lo(p0[i]) <= x <= hi(p0[i])); } else {
                                    if x <= v0[a as int].1 { assert(lo(p0[a as int]) <= x <= hi(p0[a as int])); } else { assert(in_range(e, x)); }
                                }
                            }
                            if covers(p0, x) {
                                let i = choose|i: int| 0 <= i < p0.len() && lo(#[trigger] p0[i]) <= x <= hi(p0[i]);
                                if i < a { assert(lo(p1[i]) <= x <= hi(p1[i])); } else { assert(lo(p1[a as int]) <= x <= hi(p1[a as int])); }
                            }
                            if in_range(e, x) { assert(lo(p1[a as int]) <= x <= hi(p1[a as int])); }
                        }
                    }
                    b += 1;
                    continue;
                }
            }
            *self.0.get_mut(a + 1).expect("RangeList::compact") = e;
            proof {
                let v1 = self.0@;
                let p0 = v0.subrange(0, a + 1); let p1 = v1.subrange(0, a + 2);
                assert(v1 == v0.update(a + 1, e));
                assert(forall|i: int| 0 <= i <= a ==> p1[i] == p0[i]);
                assert(p1[a + 1] == e);
                assert(wf(p1)) by {
                    assert forall|i: int| 0 <= i < p1.len() implies (#[trigger] p1[i]).0 <= p1[i].1 by { if i <= a { assert(p0[i].0 <= p0[i].1); } }
                    assert forall|i: int| 0 <= i < p1.len() - 1 implies (#[trigger] p1[i]).1 + 1 < p1[i + 1].0 by { if i < a { assert(p0[i].1 + 1 < p0[i + 1].0); } else { assert(p0[a as int] == v0[a as int]); } }
                }
                assert forall|x: int| (covers(p1, x) || covers(g.subrange(b + 1, n), x)) <==> covers(g, x) by {
                    let t0 = g.subrange(b as int, n); let t1 = g.subrange(b + 1, n);
                    lemma_covers_split(t0, 1, x);
                    assert(t0.subrange(1, t0.len() as int) =~= t1);
                    assert(t0.subrange(0, 1)[0] == e);
                    assert(covers(t0.subrange(0, 1), x) <==> in_range(e, x)) by {
                        if in_range(e, x) { assert(lo(t0.subrange(0, 1)[0]) <= x <= hi(t0.subrange(0, 1)[0])); }
                    }
                    lemma_covers_split(p1, a + 1, x);
                    assert(p1.subrange(0, a + 1) =~= p0);
                    assert(p1.subrange(a + 1, a + 2)[0] == e);
                    assert(covers(p1.subrange(a + 1, a + 2), x) <==> in_range(e, x)) by {
                        if in_range(e, x) { assert(lo(p1.subrange(a + 1, a + 2)[0]) <= x <= hi(p1.subrange(a + 1, a + 2)[0])); }
                    }
                }
            }
            a += 1;
            b += 1;
        }
        let ghost vend = self.0@;
        self.0.truncate(a + 1);
        proof {
            if n > 0 {
                assert(b == n);
                assert(self.0@ =~= vend.subrange(0, a + 1));
                assert forall|x: int| covers(self.0@, x) <==> covers(g, x) by {
                    assert(!covers(g.subrange(n, n), x));
                }
            } else {
                assert(self.0@.len() == 0);
                assert forall|x: int| covers(self.0@, x) <==> covers(g, x) by {}
            }
            assert forall|x: int| covers(self.0@, x) <==> covers(old(self).0@, x) by {
                assert(covers(self.0@, x) <==> covers(g, x));
                assert(covers(g, x) <==> covers(old(self).0@, x));
            }
        }
    }
}
} // verus!
fn main() {}
