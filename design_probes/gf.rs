#![feature(allocator_api)]
use vstd::prelude::*;
use std::collections::{HashMap, HashSet};
use std::hash::Hash;
use core::borrow::Borrow;
use core::alloc::Allocator;
verus! {
global size_of usize == 8;
broadcast use vstd::std_specs::hash::group_hash_axioms;

// ---- trusted (3.7) ----
pub broadcast axiom fn axiom_iter_mut_has_resolved<'a, T>(it: vstd::std_specs::iter::VerusForLoopWrapper<core::slice::IterMut<'a, T>>)
    ensures #[trigger] has_resolved(it) ==> forall|i: int| it.index@ <= i < it.seq().len() ==> has_resolved(#[trigger] it.seq()[i]);
pub uninterp spec fn key_of<K, Q: ?Sized>(k: &Q) -> K;
#[verifier::external_body] pub proof fn axiom_key_of_same<K>(k: &K) ensures key_of::<K, K>(k) == *k {}
pub assume_specification<'a, K: Eq + Hash, V, S: core::hash::BuildHasher, A: Allocator, Q: ?Sized + Hash + Eq>
    [ HashMap::<K, V, S, A>::get_mut::<Q> ] (m: &'a mut HashMap<K, V, S, A>, k: &Q) -> (r: Option<&'a mut V>)
    where K: Borrow<Q>
    ensures
        vstd::std_specs::hash::obeys_key_model::<K>() && vstd::std_specs::hash::builds_valid_hashers::<S>() ==> match r {
            Some(v) => old(m)@.contains_key(key_of::<K, Q>(k)) && *v == old(m)@[key_of::<K, Q>(k)]
                && final(m)@ == old(m)@.insert(key_of::<K, Q>(k), *final(v)),
            None => !old(m)@.contains_key(key_of::<K, Q>(k)) && final(m)@ == old(m)@,
        };

// opaque external types
pub struct Utc;
#[verifier::external_body] pub struct DateTimeUtc { x: u8 }
impl Utc { #[verifier::external_body] pub fn now() -> DateTimeUtc { unimplemented!() } }
impl DateTimeUtc { #[verifier::external_body] pub fn timestamp(&self) -> i64 { unimplemented!() } }
impl ClusterName { #[verifier::external_body] pub fn to_string(&self) -> String { unimplemented!() } }

#[verifier::external_body] pub struct ClusterName { x: u8 }
#[verifier::external_body] pub struct ClusterConfig { x: u8 }
pub struct InvalidClusterName;
impl Clone for ClusterName { #[verifier::external_body] fn clone(&self) -> Self { unimplemented!() } }
impl<'b> core::convert::TryFrom<&'b str> for ClusterName {
    type Error = InvalidClusterName;
    #[verifier::external_body] fn try_from(s: &'b str) -> Result<Self, InvalidClusterName> { unimplemented!() }
}
impl ClusterConfig {
    #[verifier::external_body] pub fn clone(&self) -> Self { unimplemented!() }
    #[verifier::external_body] pub fn set_field(&mut self, k: &String, v: &String) -> Result<(), String> { unimplemented!() }
}
impl core::cmp::PartialEq for ClusterName { #[verifier::external_body] fn eq(&self, o: &Self) -> bool { unimplemented!() } }
impl core::cmp::Eq for ClusterName {}
impl core::hash::Hash for ClusterName { #[verifier::external_body] fn hash<H: core::hash::Hasher>(&self, state: &mut H) { unimplemented!() } }

pub struct MigrationMeta {
    pub epoch: u64, // The epoch migration starts
    pub src_proxy_address: String,
    pub src_node_address: String,
    pub dst_proxy_address: String,
    pub dst_node_address: String,
}
pub enum SlotRangeTag {
    Migrating(MigrationMeta),
    Importing(MigrationMeta),
    None,
}
pub struct Range(pub usize, pub usize);
pub struct RangeList(Vec<Range>);
pub struct SlotRange {
    pub range_list: RangeList,
    pub tag: SlotRangeTag,
}
pub struct MigrationTaskMeta {
    pub cluster_name: ClusterName,
    pub slot_range: SlotRange,
}
pub const NODES_PER_PROXY: usize = 2;
pub const CHUNK_PARTS: usize = 2;
pub const CHUNK_HALF_NODE_NUM: usize = 2;
pub const CHUNK_NODE_NUM: usize = 4;
pub struct ProxyResource {
    pub proxy_address: String,
    pub node_addresses: [String; NODES_PER_PROXY],
    pub host: String,
    // `index` is only used as the index in StatefulSet of Kubernetes
    // when `enable_ordered_proxy` is true.
    pub index: usize,
    pub cluster: Option<ClusterName>,
}
#[derive(Clone, Copy, PartialEq, Eq, Structural)]
pub enum ChunkRolePosition {
    Normal,
    FirstChunkMaster,
    SecondChunkMaster,
}
pub struct MigrationSlotRangeStore {
    pub range_list: RangeList,
    pub is_migrating: bool, // migrating or importing
    pub meta: MigrationMetaStore,
}
pub struct MigrationMetaStore {
    pub epoch: u64,
    pub src_chunk_index: usize,
    pub src_chunk_part: usize,
    pub dst_chunk_index: usize,
    pub dst_chunk_part: usize,
}
pub struct ChunkStore {
    pub role_position: ChunkRolePosition,
    pub stable_slots: [Option<SlotRange>; CHUNK_PARTS],
    pub migrating_slots: [Vec<MigrationSlotRangeStore>; CHUNK_PARTS],
    pub proxy_addresses: [String; CHUNK_PARTS],
    pub hosts: [String; CHUNK_PARTS],
    pub node_addresses: [String; CHUNK_NODE_NUM],
}
pub struct ClusterStore {
    pub epoch: u64,
    pub name: ClusterName,
    pub chunks: Vec<ChunkStore>,
    pub config: ClusterConfig,
}
pub struct MigrationSlots {
    pub ranges: RangeList,
    pub meta: MigrationMetaStore,
}
pub enum ScaleOp {
    NoOp,
    ScaleOut,
    ScaleDown,
}
pub struct MetaStore {
    pub version: String,
    pub global_epoch: u64,
    pub clusters: HashMap<ClusterName, ClusterStore>,
    // proxy_address => nodes and cluster_name
    pub all_proxies: HashMap<String, ProxyResource>,
    // proxy addresses
    pub failed_proxies: HashSet<String>,
    // failed_proxy_address => reporter_id => time,
    pub failures: HashMap<String, HashMap<String, i64>>,
    // Set it `true` for kubernetes StatefulSet
    // to disable the chunk allocation algorithm
    // and only use ProxyResource.index to allocate chunks.
    pub enable_ordered_proxy: bool,
}
pub enum MetaStoreError {
    InUse,
    NotInUse,
    NoAvailableResource,
    ResourceNotBalance,
    AlreadyExisted,
    ClusterNotFound,
    FreeNodeNotFound,
    FreeNodeFound,
    ProxyNotFound,
    InvalidNodeNum,
    NodeNumAlreadyEnough,
    InvalidClusterName,
    InvalidMigrationTask,
    InvalidProxyAddress,
    MigrationTaskNotFound,
    MigrationRunning,
    InvalidConfig {
        key: String,
        value: String,
        error: String,
    },
    SlotsAlreadyEven,
    
    InvalidMetaVersion,
    SmallEpoch,
    MissingIndex,
    ProxyResourceOutOfOrder,
    OrderedProxyEnabled,
    OneClusterAlreadyExisted,
    ProxyNotSync,
    NodeNumberChanging,
    External,
    Retry,
    EmptyExternalVersion,
    ExternalTimeout,
}



pub broadcast axiom fn axiom_string_key() ensures #[trigger] vstd::std_specs::hash::obeys_key_model::<String>();
pub assume_specification<T: Clone, S: Clone, A: Allocator + Clone>[ <HashSet<T, S, A> as Clone>::clone ](s: &HashSet<T, S, A>) -> (r: HashSet<T, S, A>) ensures r@ == s@;
// (vstd already specifies HashMap::clone)
impl Clone for ProxyResource { #[verifier::external_body] fn clone(&self) -> (r: Self) ensures r == *self { unimplemented!() } }
// statement of C06: "Proxies marked failed or under failure report are never allocated to a cluster"
pub open spec fn allocatable(s: MetaStore, p: ProxyResource) -> bool {
    p.cluster is None && !s.failed_proxies@.contains(p.proxy_address) && !s.failures@.contains_key(p.proxy_address)
}
pub struct MetaStoreQuery<'a> { pub store: &'a MetaStore }
impl<'a> MetaStoreQuery<'a> {
pub fn get_free_proxy_resource(&self) -> (r: Vec<ProxyResource>)
        requires vstd::std_specs::hash::obeys_key_model::<String>(),
        ensures forall|i: int| 0 <= i < r@.len() ==> allocatable(*self.store, #[trigger] r@[i]),
    {
        let failed_proxies = self.store.failed_proxies.clone();
        let failures = self.store.failures.clone();

        let mut free_proxies = vec![];
        for proxy_resource in it: self.store.all_proxies.values()
            invariant
                vstd::std_specs::hash::obeys_key_model::<String>(),
                failed_proxies@ == self.store.failed_proxies@, failures@.dom() =~= self.store.failures@.dom(),
                forall|i: int| 0 <= i < free_proxies@.len() ==> allocatable(*self.store, #[trigger] free_proxies@[i]),
        {
            if !(proxy_resource.cluster.is_some()) {
            let proxy_address = &proxy_resource.proxy_address;
            if !(failed_proxies.contains(proxy_address)) {
            if !(failures.contains_key(proxy_address)) {
            free_proxies.push(proxy_resource.clone());
            }}}
        }
        free_proxies
    }
}
} // verus!
fn main() {}
