# C20: value compression is transparent - CmdCompressor::try_compressing_cmd_ctx / compress_one_element and
# CmdReplyDecompressor::decompress (src/proxy/compress.rs) against the statement-level value-index table.
# CmdCtx / Command / RespPacket are opaque with the accessor contracts proved on Resp<Vec<u8>> in unit resp_utils; zstd is an
# abstract codec with the assumed round trip.
import re
import vlib
from units import broker_common

def build(U):
    X = U.src('src/proxy/compress.rs')
    CM = U.src('src/proxy/command.rs')
    CF = U.src('src/common/config.rs')
    PK = U.src('src/protocol/packet.rs')
    R = U.src('src/protocol/resp.rs')
    U.add('use vstd::prelude::*;\nverus! {\nglobal size_of usize == 8;\n')
    dct = re.sub(r'\n\s*//[^\n]*', '', broker_common.strip(CM.item('enum', 'DataCmdType')))
    U.add('#[derive(PartialEq, Eq, Clone, Copy, Structural)]\n' + dct + '\n')
    cs = re.sub(r'\n\s*//[^\n]*', '', broker_common.strip(CF.item('enum', 'CompressionStrategy')))
    U.add('#[derive(PartialEq, Eq, Clone, Copy, Structural)]\n' + cs + '\n')
    U.add(broker_common.strip(PK.item('enum', 'OptionalMulti')) + '\n')
    ce = broker_common.strip(X.item('enum', 'CompressionError'))
    ce = ce.replace('Io(io::Error)', 'Io(IoError)')      # std::io::Error opaque
    U.add(ce + '\n')
    for n in ('BulkStr', 'Array', 'Resp'):
        U.add(broker_common.strip(R.item('enum', n)) + '\n')
    U.prelude('c20_spec.rs')
    tr = broker_common.strip(X.item('trait', 'CompressionStrategyConfig'))
    # trait-spec: the strategy is a (ghost) function of the config object
    if tr.count('fn get_config(&self) -> CompressionStrategy;') != 1:
        raise vlib.Undecided('trait CompressionStrategyConfig changed shape')
    tr = tr.replace('fn get_config(&self) -> CompressionStrategy;', 'spec fn cfg(&self) -> CompressionStrategy;\n    fn get_config(&self) -> (r: CompressionStrategy) ensures r == self.cfg();')
    U.add(tr + '\n')
    U.add(vlib.pub_fields(broker_common.strip(X.item('struct', 'CmdCompressor'))) + '\n')
    U.add(vlib.pub_fields(broker_common.strip(X.item('struct', 'CmdReplyDecompressor'))) + '\n')
    f = X.fn('try_compressing_cmd_ctx')
    f.sub('R12', r'\((\w+)\.\.(\w+)\)\.step_by\((\w+)\)\.collect\(\)', r'shim_range_step(\1, \2, \3)', count=1)
    vlib.d10_question_in_for(f, 0, 'Result<(), CompressionError>')
    f.apply_overlay('try_compressing_cmd_ctx')
    g = X.fn('compress_one_element')
    g.replace('R-zstd', 'zstd::encode_all(value, 1)', 'shim_zstd_encode(value, 1)', count=1)
    g.apply_overlay('compress_one_element')
    U.add('impl<C: CompressionStrategyConfig> CmdCompressor<C> {\n'); U.add_fn(f); U.add_fn(g); U.add('}\n')
    d = X.fn('decompress')
    d.r1_logging()
    d.replace('R-zstd', 'zstd::decode_all(', 'shim_zstd_decode(', count=2)
    vlib.d3_enumerate(d)
    d.apply_overlay('decompress')
    U.add('impl<C: CompressionStrategyConfig> CmdReplyDecompressor<C> {\n'); U.add_fn(d); U.add('}\n')
    U.add('''
// ---- property-level statements (C20) ----
// what GET returns for a value written through SET: byte-identical (zstd round trip assumed)
pub proof fn c20_set_then_get_is_identity(x: Seq<u8>)
    ensures read_back(DataCmdType::Get, written(DataCmdType::Set, seq![RV::Bulk(seq![83u8]), RV::Bulk(seq![107u8]), RV::Bulk(x)])[2]) == RV::Bulk(x)
{ broadcast use axiom_zstd_roundtrip; }
pub proof fn c20_value_roundtrip(wty: DataCmdType, rty: DataCmdType, args: Seq<RV>, i: int, x: Seq<u8>)
    requires 0 <= i < args.len(), value_index(wty, i), args[i] == RV::Bulk(x), rty == DataCmdType::Get || rty == DataCmdType::Getset
    ensures read_back(rty, written(wty, args)[i]) == RV::Bulk(x)
{ broadcast use axiom_zstd_roundtrip; }
pub proof fn c20_mget_roundtrip(wty: DataCmdType, args: Seq<RV>, i: int, x: Seq<u8>, reply: Seq<RV>, j: int)
    requires 0 <= i < args.len(), value_index(wty, i), args[i] == RV::Bulk(x), 0 <= j < reply.len(), reply[j] == written(wty, args)[i]
    ensures read_back(DataCmdType::Mget, RV::Arr(reply))->Arr_0[j] == RV::Bulk(x)
{ broadcast use axiom_zstd_roundtrip; }
// keys, options and non-value arguments are never altered
pub proof fn c20_non_values_untouched(ty: DataCmdType, args: Seq<RV>, i: int)
    requires 0 <= i < args.len(), !value_index(ty, i)
    ensures written(ty, args)[i] == args[i]
{ }
''')
    # call-site scans (syntactic, declared as such): the request is forwarded / the reply handed on only after Ok, UnsupportedCmdType
    # or Disabled; every other outcome returns an error reply instead
    EX = U.src('src/proxy/executor.rs')
    EX.scan('executor forwards a data command only after try_compressing_cmd_ctx returned Ok / UnsupportedCmdType / Disabled (other arms return)',
            r'match self\.compressor\.try_compressing_cmd_ctx\(&mut cmd_ctx\) \{\s*Ok\(\(\)\)\s*\| Err\(CompressionError::UnsupportedCmdType\)\s*\| Err\(CompressionError::Disabled\) => \(\),\s*'
            r'Err\(CompressionError::InvalidRequest\) \| Err\(CompressionError::InvalidResp\) => \{\s*return cmd_ctx\s*\.set_resp_result\(.*?\}\s*Err\(CompressionError::RestrictedCmd\) => \{.*?return cmd_ctx\.set_resp_result\(.*?\}\s*'
            r'Err\(CompressionError::Io\(err\)\) => \{\s*return cmd_ctx\.set_resp_result\(.*?\)\)\);\s*\}\s*\}\s*self\.manager\.send\(cmd_ctx\);', flags=re.S, expect_count=1)
    EX.scan('try_compressing_cmd_ctx has no other caller in the executor', r'try_compressing_cmd_ctx\(', expect_count=1)
    RP = U.src('src/proxy/reply.rs')
    RP.scan('the reply handler passes every backend reply to decompress (nothing between taking the packet and the call) and hands it on only after Ok / UnsupportedCmdType / Disabled (otherwise a nil bulk string is returned)',
            r'let mut packet = match result \{\s*Ok\(pkt\) => pkt,\s*Err\(err\) => \{[^;]*;\s*\}\s*\};\s*match self\.decompressor\.decompress\(&cmd_ctx, &mut packet\) \{\s*Ok\(\(\)\)\s*\| Err\(CompressionError::UnsupportedCmdType\)\s*\| Err\(CompressionError::Disabled\) => \(\),\s*Err\(err\) => \{.*?return cmd_ctx\.set_resp_result\(Ok\(Resp::Bulk\(BulkStr::Nil\)\)\);\s*\}\s*\}\s*cmd_ctx\.set_result\(Ok\(Box::new\(packet\)\)\)', expect_count=1, flags=re.S)
    U.add('} // verus!\nfn main() {}\n')
    U.trust('zstd::encode_all / decode_all as an abstract codec with the ASSUMED round trip zdec(zenc(x)) == x (axiom_zstd_roundtrip)',
            'CmdCtx / Command / RespPacket opaque; accessor contracts (get_command_len, get_command_element, change_cmd_element, to_resp_slice, change_bulk_str, change_bulk_array_element) assumed in the form proved for common::utils on Resp<Vec<u8>> in unit resp_utils; the one-line delegations are read, not verified',
            'R12: (a..b).step_by(k).collect() by shim_range_step (arithmetic progression below b, complete)', 'D3: enumerate() by an explicit counter',
            'the callers (executor::handle_single_key_data_cmd, reply::handle_task) forward only on Ok / UnsupportedCmdType / Disabled: call-site scan, not a proof')

MUST_FAIL = '''
proof fn must_fail_c20_key_is_compressed(args: Seq<RV>) requires args.len() > 1, args[1] is Bulk ensures written(DataCmdType::Set, args)[1] != args[1] { }
proof fn must_fail_c20_codec_not_identity(x: Seq<u8>) ensures zenc(x) == x { }
'''
