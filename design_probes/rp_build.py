import sys,re; sys.path.insert(0,'/tmp/km/x')
from cut import *
w3=open('/tmp/km/x/w3.rs').read()
i=w3.index("pub struct MetaStoreUpdate<'a>")
head=w3[:i]          # prelude, trusted, types, all specs incl. takeover_post (fixed form), MetaStore::bump_global_epoch
update=open('/repo/src/broker/update.rs').read()
f=fn(update,'replace_failed_proxy')
spec='''
pub struct Proxy { pub x: u8 }
#[verifier::external_body] fn shim_clone_opt_name(x: &Option<ClusterName>) -> (r: Option<ClusterName>) ensures r == *x { unimplemented!() }
pub broadcast axiom fn axiom_string_key() ensures #[trigger] vstd::std_specs::hash::obeys_key_model::<String>();
impl Clone for ProxyResource { #[verifier::external_body] fn clone(&self) -> (r: Self) ensures r == *self { unimplemented!() } }
impl ClusterStore {
    pub fn set_epoch(&mut self, new_epoch: u64) ensures final(self).epoch == new_epoch, final(self).chunks == old(self).chunks, final(self).config == old(self).config, final(self).name == old(self).name {
        self.epoch = new_epoch;
    }
}
// address replacement on the first chunk that holds the failed proxy
pub open spec fn slot_replaced(a: ChunkStore, b: ChunkStore, k: int, n: ProxyResource) -> bool {
    b.role_position == a.role_position && b.stable_slots == a.stable_slots && b.migrating_slots == a.migrating_slots
    && b.hosts[k]@ == n.host@ && b.hosts[1 - k] == a.hosts[1 - k]
    && b.proxy_addresses[k]@ == n.proxy_address@ && b.proxy_addresses[1 - k] == a.proxy_addresses[1 - k]
    && b.node_addresses[2 * k]@ == n.node_addresses[0]@ && b.node_addresses[2 * k + 1]@ == n.node_addresses[1]@
    && b.node_addresses[2 * (1 - k)] == a.node_addresses[2 * (1 - k)] && b.node_addresses[2 * (1 - k) + 1] == a.node_addresses[2 * (1 - k) + 1]
}
pub open spec fn replaced_post(m: ClusterStore, n: ClusterStore, failed: Seq<char>, res: ProxyResource, e: u64) -> bool {
    n.epoch == e && n.name == m.name && n.config == m.config && n.chunks@.len() == m.chunks@.len()
    && (forall|j: int| #![trigger m.chunks@[j]] is_first_hit(m, j, failed) ==> slot_replaced(m.chunks@[j], n.chunks@[j], hit_half(m.chunks@[j], failed), res))
    && (forall|c: int| 0 <= c < m.chunks@.len() && !is_first_hit(m, c, failed) ==> n.chunks@[c] == #[trigger] m.chunks@[c])
}
pub struct MetaStoreQuery<'a> { pub store: &'a MetaStore }
impl<'a> MetaStoreQuery<'a> {
    pub fn new(store: &'a MetaStore) -> (r: Self) ensures r.store == store { Self { store } }
    // out of reach (filter/cloned/group_by): assumed to return Some for a registered address
    #[verifier::external_body] pub fn get_proxy_by_address(&self, address: &str, migration_limit: u64) -> (r: Option<Proxy>)
        ensures r is Some <==> exists|k: String| #![trigger self.store.all_proxies@.contains_key(k)] self.store.all_proxies@.contains_key(k) && k@ == address@ { unimplemented!() }
}
pub struct MetaStoreUpdate<'a> { pub store: &'a mut MetaStore }
impl<'a> MetaStoreUpdate<'a> {
    // verified in its own unit (w3.rs); here only its contract is visible
    #[verifier::external_body]
    fn takeover_master(&mut self, cluster_name: &ClusterName, failed_proxy_address: String) -> (r: Result<(), MetaStoreError>)
        requires old(self).store.global_epoch < u64::MAX,
        ensures
            final(self).store.global_epoch == old(self).store.global_epoch + 1,
            final(self).store.failed_proxies == old(self).store.failed_proxies, final(self).store.failures == old(self).store.failures,
            final(self).store.all_proxies == old(self).store.all_proxies, final(self).store.enable_ordered_proxy == old(self).store.enable_ordered_proxy,
            r is Err ==> final(self).store.clusters@ == old(self).store.clusters@ && !old(self).store.clusters@.contains_key(*cluster_name),
            r is Ok ==> old(self).store.clusters@.contains_key(*cluster_name)
                && final(self).store.clusters@ == old(self).store.clusters@.insert(*cluster_name, final(self).store.clusters@[*cluster_name])
                && takeover_post(old(self).store.clusters@[*cluster_name], final(self).store.clusters@[*cluster_name], failed_proxy_address@, final(self).store.global_epoch),
    { unimplemented!() }
    // out of reach (HashMap<String,Vec<String>> + min_by): assumed contract
    #[verifier::external_body]
    fn generate_new_free_proxy(&self, failed_proxy_address: String) -> (r: Result<ProxyResource, MetaStoreError>)
        ensures r matches Ok(p) ==> old(self.store).all_proxies@.contains_key(p.proxy_address) && old(self.store).all_proxies@[p.proxy_address] == p
    { unimplemented!() }
'''
contract='''    pub fn replace_failed_proxy(
        &mut self,
        failed_proxy_address: String,
        migration_limit: u64,
    ) -> (r: Result<Option<Proxy>, MetaStoreError>)
        requires old(self).store.global_epoch < u64::MAX - 1,
            vstd::std_specs::hash::obeys_key_model::<String>(), vstd::std_specs::hash::obeys_key_model::<ClusterName>(),
        ensures
            final(self).store.global_epoch >= old(self).store.global_epoch,
            r matches Ok(Some(_)) ==> {
                &&& old(self).store.all_proxies@.contains_key(failed_proxy_address)
                &&& old(self).store.all_proxies@[failed_proxy_address].cluster is Some
                &&& final(self).store.failed_proxies@.contains(failed_proxy_address)
                &&& final(self).store.global_epoch == old(self).store.global_epoch + 2
                &&& {
                    let cn = old(self).store.all_proxies@[failed_proxy_address].cluster->Some_0;
                    old(self).store.clusters@.contains_key(cn) && final(self).store.clusters@.contains_key(cn)
                    && final(self).store.clusters@[cn].epoch == final(self).store.global_epoch
                    && exists|mid: ClusterStore, res: ProxyResource|
                        takeover_post(old(self).store.clusters@[cn], mid, failed_proxy_address@, (old(self).store.global_epoch + 1) as u64)
                        && replaced_post(mid, final(self).store.clusters@[cn], failed_proxy_address@, res, final(self).store.global_epoch)
                }
            },
'''
body=f[f.index(') -> Result<Option<Proxy>, MetaStoreError> {')+len(') -> Result<Option<Proxy>, MetaStoreError> '):]
body=body.replace("Some(proxy) => proxy.cluster.clone(),","Some(proxy) => shim_clone_opt_name(&proxy.cluster),")
out=head+spec+contract+body+"\n}\n} // verus!\nfn main() {}\n"
out=out.replace("impl Clone for ProxyResource { #[verifier::external_body] fn clone(&self) -> Self { unimplemented!() } }\n","")
open('/tmp/km/x/rp.rs','w').write(out)
