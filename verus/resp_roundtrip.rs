// ======================= C15, first sentence at spec level: decode(encode(v)) == v =======================
// enc / dec: the encoding the real encoder is proved to write (unit resp_encode); spec_resp: the grammar the real decoder is
// proved equal to (unit resp_func).  The only link that is NOT proved is the decimal literal: btoi (uninterpreted in the grammar)
// inverts dec on lengths and accepts "-1" - stated as the hypothesis btoi_inverts_dec().
pub open spec fn btoi_inverts_dec() -> bool {
    &&& forall|n: nat| n <= 0x7fff_ffff_ffff_ffff ==> #[trigger] spec_btoi(dec(n)) == Some(n as int)
    &&& spec_btoi(seq![45u8, 49u8]) == Some(-1int)
}
pub open spec fn no_lf(p: Seq<u8>) -> bool { forall|j: int| 0 <= j < p.len() ==> p[j] != LF }
// values the wire format can carry: single-line kinds contain no LF; lengths fit the i64 length field
pub open spec fn valid_v(v: V) -> bool
    decreases v
{
    match v {
        V::Error(p) => no_lf(p),
        V::Simple(p) => no_lf(p),
        V::Integer(p) => no_lf(p),
        V::BulkNil => true,
        V::Bulk(p) => p.len() <= 0x7fff_ffff_ffff_ffff,
        V::ArrNil => true,
        V::Arr(vs) => vs.len() <= 0x7fff_ffff_ffff_ffff && forall|i: int| 0 <= i < vs.len() ==> valid_v(#[trigger] vs[i]),
    }
}
// the value denoted by an index tree over the bytes u
pub open spec fn val(r: SResp, u: Seq<u8>) -> V
    decreases r
{
    match r {
        SResp::Error(a, b) => V::Error(u.subrange(a, b)),
        SResp::Simple(a, b) => V::Simple(u.subrange(a, b)),
        SResp::Integer(a, b) => V::Integer(u.subrange(a, b)),
        SResp::BulkNil => V::BulkNil,
        SResp::Bulk(a, b) => V::Bulk(u.subrange(a, b)),
        SResp::ArrNil => V::ArrNil,
        SResp::Arr(v) => V::Arr(Seq::new(v.len(), |i: int| if 0 <= i < v.len() { val(v[i], u) } else { V::ArrNil })),
    }
}
// u, from offset off on, starts with the bytes e
pub open spec fn starts_at(u: Seq<u8>, off: int, e: Seq<u8>) -> bool { 0 <= off && off + e.len() <= u.len() && forall|j: int| 0 <= j < e.len() ==> u[off + j] == e[j] }

pub proof fn lemma_dec_digits(n: nat)
    ensures dec(n).len() >= 1, forall|j: int| 0 <= j < dec(n).len() ==> 48 <= #[trigger] dec(n)[j] <= 57
    decreases n
{
    if n >= 10 { lemma_dec_digits(n / 10); }
}
pub proof fn lemma_shift_add(r: SResp, a: int, b: int)
    ensures shift(shift(r, a), b) == shift(r, a + b)
    decreases r
{
    match r {
        SResp::Arr(v) => {
            let x = shift(r, a)->Arr_0;
            let y = shift(shift(r, a), b)->Arr_0;
            let z = shift(r, a + b)->Arr_0;
            assert forall|i: int| 0 <= i < v.len() implies y[i] == z[i] by { lemma_shift_add(v[i], a, b); }
            assert(y =~= z);
        }
        _ => {}
    }
}
pub proof fn lemma_enc_len_pos(v: V)
    ensures enc(v).len() >= 3
{
    match v { V::Bulk(s) => { lemma_dec_digits(s.len()); } V::Arr(vs) => { lemma_dec_digits(vs.len()); } _ => {} }
}
// a line whose content is p (no LF) followed by CR LF
pub proof fn lemma_line_of(w: Seq<u8>, p: Seq<u8>)
    requires no_lf(p), starts_at(w, 0, p + crlf())
    ensures spec_line(w) == SRes::<int>::Ok(p.len() as int, (p.len() + 2) as int)
{
    let e = p + crlf();
    let i = p.len() as int;
    assert(e[i] == 13u8 && e[i + 1] == 10u8);
    assert(w[i] == CR && w[i + 1] == LF);
    assert forall|j: int| 0 <= j < i + 1 implies w[j] != LF by { if j < i { assert(e[j] == p[j]); assert(w[0 + j] == e[j]); } }
    lemma_first_lf_is(w, i + 1);
}
pub proof fn lemma_len_of(w: Seq<u8>, n: nat)
    requires btoi_inverts_dec(), n <= 0x7fff_ffff_ffff_ffff, starts_at(w, 0, dec(n) + crlf())
    ensures spec_len(w) == SRes::<int>::Ok(n as int, (dec(n).len() + 2) as int)
{
    lemma_dec_digits(n);
    let p = dec(n);
    assert(no_lf(p)) by { assert forall|j: int| 0 <= j < p.len() implies p[j] != LF by { assert(48 <= p[j]); } }
    lemma_line_of(w, p);
    assert(w.subrange(0, p.len() as int) =~= p) by { assert forall|j: int| 0 <= j < p.len() implies w[j] == p[j] by { assert((p + crlf())[j] == p[j]); assert(w[0 + j] == (p + crlf())[j]); } }
}
pub proof fn lemma_len_minus_one(w: Seq<u8>)
    requires btoi_inverts_dec(), starts_at(w, 0, seq![45u8, 49u8, 13u8, 10u8])
    ensures spec_len(w) == SRes::<int>::Ok(-1int, 4int)
{
    let p = seq![45u8, 49u8];
    assert(p + crlf() =~= seq![45u8, 49u8, 13u8, 10u8]);
    assert(no_lf(p));
    lemma_line_of(w, p);
    assert(w.subrange(0, 2) =~= p) by { assert(w[0int + 0] == 45u8); assert(w[0int + 1] == 49u8); }
}

// ---- per-kind pieces (kept apart so that every solver query stays small) ----
pub open spec fn tail1(u: Seq<u8>, off: int) -> Seq<u8> { u.subrange(off + 1, u.len() as int) }
pub proof fn lemma_rt_line(tag: u8, p: Seq<u8>, u: Seq<u8>, off: int)
    requires no_lf(p), starts_at(u, off, seq![tag] + (p + crlf()))
    ensures spec_line(tail1(u, off)) == SRes::<int>::Ok(p.len() as int, (p.len() + 2) as int), u[off] == tag, u.subrange(off + 1, off + 1 + p.len()) == p
{
    let e = seq![tag] + (p + crlf());
    let t = tail1(u, off);
    assert(u[off + 0] == e[0]);
    assert(starts_at(t, 0, p + crlf())) by {
        assert forall|j: int| 0 <= j < (p + crlf()).len() implies t[0 + j] == (p + crlf())[j] by { assert(e[j + 1] == (p + crlf())[j]); assert(u[off + (j + 1)] == e[j + 1]); }
    }
    lemma_line_of(t, p);
    assert(u.subrange(off + 1, off + 1 + p.len()) =~= p) by { assert forall|j: int| 0 <= j < p.len() implies u[off + 1 + j] == p[j] by { assert(e[j + 1] == p[j]); assert(u[off + (j + 1)] == e[j + 1]); } }
}
pub proof fn lemma_rt_nil(tag: u8, u: Seq<u8>, off: int)
    requires btoi_inverts_dec(), starts_at(u, off, seq![tag, 45u8, 49u8, 13u8, 10u8])
    ensures spec_len(tail1(u, off)) == SRes::<int>::Ok(-1int, 4int), u[off] == tag
{
    let e = seq![tag, 45u8, 49u8, 13u8, 10u8];
    let t = tail1(u, off);
    assert(u[off + 0] == e[0]);
    assert(starts_at(t, 0, seq![45u8, 49u8, 13u8, 10u8])) by {
        assert forall|j: int| 0 <= j < 4 implies t[0 + j] == seq![45u8, 49u8, 13u8, 10u8][j] by { assert(u[off + (j + 1)] == e[j + 1]); }
    }
    lemma_len_minus_one(t);
}
// header `tag <decimal n> CR LF` followed by body
pub proof fn lemma_rt_header(tag: u8, n: nat, body: Seq<u8>, u: Seq<u8>, off: int)
    requires btoi_inverts_dec(), n <= 0x7fff_ffff_ffff_ffff, starts_at(u, off, seq![tag] + ((dec(n) + crlf()) + body))
    ensures spec_len(tail1(u, off)) == SRes::<int>::Ok(n as int, (dec(n).len() + 2) as int), u[off] == tag, starts_at(u, off + 1 + dec(n).len() + 2, body), dec(n).len() >= 1
{
    let d = dec(n) + crlf();
    let e = seq![tag] + (d + body);
    let t = tail1(u, off);
    lemma_dec_digits(n);
    assert(u[off + 0] == e[0]);
    assert(starts_at(t, 0, d)) by { assert forall|j: int| 0 <= j < d.len() implies t[0 + j] == d[j] by { assert(e[j + 1] == d[j]); assert(u[off + (j + 1)] == e[j + 1]); } }
    lemma_len_of(t, n);
    let c = d.len() as int;
    assert forall|j: int| 0 <= j < body.len() implies u[off + 1 + c + j] == body[j] by { assert(e[1 + c + j] == body[j]); assert(u[off + (1 + c + j)] == e[1 + c + j]); }
}
pub proof fn lemma_rt_bulk(p: Seq<u8>, u: Seq<u8>, off: int)
    requires btoi_inverts_dec(), p.len() <= 0x7fff_ffff_ffff_ffff, starts_at(u, off, enc(V::Bulk(p)))
    ensures spec_bulk(tail1(u, off)) == SRes::<SResp>::Ok(SResp::Bulk((dec(p.len()).len() + 2) as int, (dec(p.len()).len() + 2 + p.len()) as int), (dec(p.len()).len() + 2 + p.len() + 2) as int),
        u[off] == 36u8, u.subrange(off + 1 + dec(p.len()).len() + 2, off + 1 + dec(p.len()).len() + 2 + p.len()) == p
{
    let n = p.len();
    let body = p + crlf();
    assert(enc(V::Bulk(p)) =~= seq![36u8] + ((dec(n) + crlf()) + body));
    lemma_rt_header(36u8, n, body, u, off);
    let c = (dec(n).len() + 2) as int;
    let t = tail1(u, off);
    assert(t.len() >= c + n + 2);
    assert(t[c + n] == CR && t[c + n + 1] == LF) by { assert(u[off + 1 + c + n] == body[n as int]); assert(u[off + 1 + c + (n + 1)] == body[(n + 1) as int]); }
    assert(u.subrange(off + 1 + c, off + 1 + c + n) =~= p) by { assert forall|j: int| 0 <= j < n implies u[off + 1 + c + j] == p[j] by { assert(body[j] == p[j]); } }
}

// ---- the round trip, parametric in an outer buffer u and an offset (so that no index-bound lemma is needed) ----
pub proof fn lemma_roundtrip_at(v: V, u: Seq<u8>, off: int)
    requires btoi_inverts_dec(), valid_v(v), starts_at(u, off, enc(v))
    ensures spec_resp(u.subrange(off, u.len() as int)) matches SRes::Ok(r, c) && c == enc(v).len() && val(shift(r, off), u) == v
    decreases v, 1nat
{
    let w = u.subrange(off, u.len() as int);
    lemma_enc_len_pos(v);
    assert(w.len() >= 3 && w[0] == u[off]);
    assert(w.subrange(1, w.len() as int) =~= tail1(u, off));
    match v {
        V::Error(p) => { assert(enc(v) =~= seq![45u8] + (p + crlf())); lemma_rt_line(45u8, p, u, off); }
        V::Simple(p) => { assert(enc(v) =~= seq![43u8] + (p + crlf())); lemma_rt_line(43u8, p, u, off); }
        V::Integer(p) => { assert(enc(v) =~= seq![58u8] + (p + crlf())); lemma_rt_line(58u8, p, u, off); }
        V::BulkNil => { lemma_rt_nil(36u8, u, off); }
        V::ArrNil => { lemma_rt_nil(42u8, u, off); }
        V::Bulk(p) => { lemma_rt_bulk(p, u, off); }
        V::Arr(vs) => {
            let k = vs.len();
            let body = enc_all(vs, k);
            assert(enc(v) =~= seq![42u8] + ((dec(k) + crlf()) + body));
            lemma_rt_header(42u8, k, body, u, off);
            let c = (dec(k).len() + 2) as int;
            let t = tail1(u, off);
            lemma_roundtrip_elems(vs, u, off + 1, c, 0, Seq::<SResp>::empty());
            let res = spec_elems(t, c, k as int, Seq::<SResp>::empty())->Ok_0;
            // shift(shift(Arr(res), 1), off) == Arr(map shift(., off + 1))
            let r0 = SResp::Arr(res);
            lemma_shift_add(r0, 1, off);
            let got = val(shift(r0, 1 + off), u)->Arr_0;
            assert forall|i: int| 0 <= i < k implies got[i] == vs[i] by {
                assert(shift(r0, 1 + off)->Arr_0[i] == shift(res[i], off + 1));
                assert(res[0 + i - 0] == res[i]);
                assert(val(shift(res[0 + i - 0], off + 1), u) == vs[i]);
                assert(got[i] == val(shift(r0, 1 + off)->Arr_0[i], u));
            }
            assert(got =~= vs);
        }
    }
}
// elements i.. of an array whose body starts at u[off + base]: spec_elems over w = u[off..] from position base + |enc_all(vs, i)|
pub proof fn lemma_roundtrip_elems(vs: Seq<V>, u: Seq<u8>, off: int, base: int, i: nat, acc: Seq<SResp>)
    requires btoi_inverts_dec(), forall|j: int| 0 <= j < vs.len() ==> valid_v(#[trigger] vs[j]), i <= vs.len(), base >= 1, 0 <= off,
        starts_at(u, off + base, enc_all(vs, vs.len())),
    ensures spec_elems(u.subrange(off, u.len() as int), base + enc_all(vs, i).len(), vs.len() - i, acc) matches SRes::Ok(res, c)
            && c == base + enc_all(vs, vs.len()).len() && res.len() == acc.len() + vs.len() - i
            && (forall|j: int| 0 <= j < acc.len() ==> res[j] == acc[j])
            && (forall|j: int| i <= j < vs.len() ==> val(shift(#[trigger] res[acc.len() + j - i], off), u) == vs[j]),
    decreases vs, 0nat, vs.len() - i
{
    let w = u.subrange(off, u.len() as int);
    let k = vs.len();
    if i < k {
        let pos = base + enc_all(vs, i).len();
        lemma_enc_all_step(vs, i + 1);
        lemma_enc_all_mono(vs, i + 1, k);
        let ei = enc(vs[i as int]);
        lemma_enc_len_pos(vs[i as int]);
        let body = enc_all(vs, k);
        // the prefix structure of enc_all: body[|enc_all(vs,i)| + j] == ei[j]
        lemma_enc_all_prefix(vs, i + 1, k);
        assert(starts_at(u, off + pos, ei)) by {
            assert forall|j: int| 0 <= j < ei.len() implies u[off + pos + j] == ei[j] by {
                let q = enc_all(vs, i).len() + j;
                assert(enc_all(vs, i + 1)[q] == ei[j]);
                assert(body[q] == enc_all(vs, i + 1)[q]);
                assert(u[off + base + q] == body[q]);
            }
        }
        lemma_roundtrip_at(vs[i as int], u, off + pos);
        assert(w.subrange(pos, w.len() as int) =~= u.subrange(off + pos, u.len() as int));
        let r = spec_resp(w.subrange(pos, w.len() as int))->Ok_0;
        let ci = ei.len() as int;
        let acc2 = acc.push(shift(r, pos));
        assert(pos + ci == base + enc_all(vs, i + 1).len());
        lemma_roundtrip_elems(vs, u, off, base, i + 1, acc2);
        let res = spec_elems(w, pos + ci, k - i - 1, acc2)->Ok_0;
        assert(res[acc.len() as int] == acc2[acc.len() as int]);
        lemma_shift_add(r, pos, off);
        assert forall|j: int| i <= j < k implies val(shift(#[trigger] res[acc.len() + j - i], off), u) == vs[j] by {
            if j > i { assert(res[acc2.len() + j - (i + 1)] == res[acc.len() + j - i]); }
        }
        assert forall|j: int| 0 <= j < acc.len() implies res[j] == acc[j] by { assert(acc2[j] == acc[j]); }
    }
}
pub proof fn lemma_enc_all_prefix(vs: Seq<V>, a: nat, b: nat)
    requires a <= b <= vs.len()
    ensures enc_all(vs, a).len() <= enc_all(vs, b).len(), forall|q: int| 0 <= q < enc_all(vs, a).len() ==> enc_all(vs, b)[q] == enc_all(vs, a)[q]
    decreases b - a
{
    if a < b { lemma_enc_all_prefix(vs, a, (b - 1) as nat); lemma_enc_all_step(vs, b); }
}

// ---- property-level statement (C15, first sentence, over the two specs the real code is proved against) ----
pub proof fn c15_decode_of_encode_is_identity(v: V, rest: Seq<u8>)
    requires btoi_inverts_dec(), valid_v(v)
    ensures spec_resp(enc(v) + rest) matches SRes::Ok(r, c) && c == enc(v).len() && val(r, enc(v) + rest) == v
{
    let u = enc(v) + rest;
    assert(starts_at(u, 0, enc(v)));
    lemma_roundtrip_at(v, u, 0);
    assert(u.subrange(0, u.len() as int) =~= u);
    let r = spec_resp(u)->Ok_0;
    lemma_shift_zero(r);
}
pub proof fn lemma_shift_zero(r: SResp)
    ensures shift(r, 0) == r
    decreases r
{
    match r {
        SResp::Arr(v) => {
            let y = shift(r, 0)->Arr_0;
            assert forall|i: int| 0 <= i < v.len() implies y[i] == v[i] by { lemma_shift_zero(v[i]); }
            assert(y =~= v);
        }
        _ => {}
    }
}
// the hypothesis btoi_inverts_dec() is satisfiable: dec is injective and never renders "-1"
pub proof fn lemma_dec_injective(a: nat, b: nat)
    requires dec(a) == dec(b)
    ensures a == b
    decreases a
{
    lemma_dec_digits(a / 10); lemma_dec_digits(b / 10);
    if a < 10 && b < 10 {
        assert(dec(a)[0] == dec(b)[0]);
        assert(dec(a)[0] == (48 + a) as u8);
        assert(dec(b)[0] == (48 + b) as u8);
    } else if a >= 10 && b >= 10 {
        let x = dec(a / 10); let y = dec(b / 10);
        assert(dec(a) == x.push((48 + a % 10) as u8));
        assert(dec(b) == y.push((48 + b % 10) as u8));
        assert(dec(a).drop_last() =~= x); assert(dec(b).drop_last() =~= y);
        assert(dec(a).last() == (48 + a % 10) as u8); assert(dec(b).last() == (48 + b % 10) as u8);
        assert(x == y);
        lemma_dec_injective(a / 10, b / 10);
        assert(a % 10 == b % 10) by { assert((48 + a % 10) as u8 == (48 + b % 10) as u8); }
        assert(a == 10 * (a / 10) + a % 10 && b == 10 * (b / 10) + b % 10);
    } else if a < 10 {
        assert(dec(a).len() == 1);
        assert(dec(b).len() >= 2);
    } else {
        assert(dec(b).len() == 1);
        assert(dec(a).len() >= 2);
    }
}
pub proof fn lemma_dec_not_minus_one(n: nat) ensures dec(n) != seq![45u8, 49u8] { lemma_dec_digits(n); assert(seq![45u8, 49u8][0] == 45u8); if dec(n) == seq![45u8, 49u8] { assert(dec(n)[0] == 45u8); } }
