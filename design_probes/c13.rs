#![feature(allocator_api)]
use vstd::prelude::*;
use std::collections::{HashMap, HashSet};
use std::hash::Hash;
use core::borrow::Borrow;
use core::alloc::Allocator;
verus! {
global size_of usize == 8;
broadcast use vstd::std_specs::hash::group_hash_axioms;

// ---- trusted (3.7) ----
pub broadcast axiom fn axiom_iter_mut_has_resolved<'a, T>(it: vstd::std_specs::iter::VerusForLoopWrapper<core::slice::IterMut<'a, T>>)
    ensures #[trigger] has_resolved(it) ==> forall|i: int| it.index@ <= i < it.seq().len() ==> has_resolved(#[trigger] it.seq()[i]);
pub uninterp spec fn key_of<K, Q: ?Sized>(k: &Q) -> K;
#[verifier::external_body] pub proof fn axiom_key_of_same<K>(k: &K) ensures key_of::<K, K>(k) == *k {}
pub assume_specification<'a, K: Eq + Hash, V, S: core::hash::BuildHasher, A: Allocator, Q: ?Sized + Hash + Eq>
    [ HashMap::<K, V, S, A>::get_mut::<Q> ] (m: &'a mut HashMap<K, V, S, A>, k: &Q) -> (r: Option<&'a mut V>)
    where K: Borrow<Q>
    ensures
        vstd::std_specs::hash::obeys_key_model::<K>() && vstd::std_specs::hash::builds_valid_hashers::<S>() ==> match r {
            Some(v) => old(m)@.contains_key(key_of::<K, Q>(k)) && *v == old(m)@[key_of::<K, Q>(k)]
                && final(m)@ == old(m)@.insert(key_of::<K, Q>(k), *final(v)),
            None => !old(m)@.contains_key(key_of::<K, Q>(k)) && final(m)@ == old(m)@,
        };

// opaque external types
pub struct Utc;
#[verifier::external_body] pub struct DateTimeUtc { x: u8 }
impl Utc { #[verifier::external_body] pub fn now() -> DateTimeUtc { unimplemented!() } }
impl DateTimeUtc { #[verifier::external_body] pub fn timestamp(&self) -> i64 { unimplemented!() } }
impl ClusterName { #[verifier::external_body] pub fn to_string(&self) -> String { unimplemented!() } }

#[verifier::external_body] pub struct ClusterName { x: u8 }
#[verifier::external_body] pub struct ClusterConfig { x: u8 }
pub struct InvalidClusterName;
impl Clone for ClusterName { #[verifier::external_body] fn clone(&self) -> Self { unimplemented!() } }
impl<'b> core::convert::TryFrom<&'b str> for ClusterName {
    type Error = InvalidClusterName;
    #[verifier::external_body] fn try_from(s: &'b str) -> Result<Self, InvalidClusterName> { unimplemented!() }
}
impl ClusterConfig {
    #[verifier::external_body] pub fn clone(&self) -> Self { unimplemented!() }
    #[verifier::external_body] pub fn set_field(&mut self, k: &String, v: &String) -> Result<(), String> { unimplemented!() }
}
impl core::cmp::PartialEq for ClusterName { #[verifier::external_body] fn eq(&self, o: &Self) -> bool { unimplemented!() } }
impl core::cmp::Eq for ClusterName {}
impl core::hash::Hash for ClusterName { #[verifier::external_body] fn hash<H: core::hash::Hasher>(&self, state: &mut H) { unimplemented!() } }

pub struct MigrationMeta {
    pub epoch: u64, // The epoch migration starts
    pub src_proxy_address: String,
    pub src_node_address: String,
    pub dst_proxy_address: String,
    pub dst_node_address: String,
}
pub enum SlotRangeTag {
    Migrating(MigrationMeta),
    Importing(MigrationMeta),
    None,
}
pub struct Range(pub usize, pub usize);
pub struct RangeList(Vec<Range>);
pub struct SlotRange {
    pub range_list: RangeList,
    pub tag: SlotRangeTag,
}
pub struct MigrationTaskMeta {
    pub cluster_name: ClusterName,
    pub slot_range: SlotRange,
}
pub const NODES_PER_PROXY: usize = 2;
pub const CHUNK_PARTS: usize = 2;
pub const CHUNK_HALF_NODE_NUM: usize = 2;
pub const CHUNK_NODE_NUM: usize = 4;
pub struct ProxyResource {
    pub proxy_address: String,
    pub node_addresses: [String; NODES_PER_PROXY],
    pub host: String,
    // `index` is only used as the index in StatefulSet of Kubernetes
    // when `enable_ordered_proxy` is true.
    pub index: usize,
    pub cluster: Option<ClusterName>,
}
#[derive(Clone, Copy, PartialEq, Eq, Structural)]
pub enum ChunkRolePosition {
    Normal,
    FirstChunkMaster,
    SecondChunkMaster,
}
pub struct MigrationSlotRangeStore {
    pub range_list: RangeList,
    pub is_migrating: bool, // migrating or importing
    pub meta: MigrationMetaStore,
}
pub struct MigrationMetaStore {
    pub epoch: u64,
    pub src_chunk_index: usize,
    pub src_chunk_part: usize,
    pub dst_chunk_index: usize,
    pub dst_chunk_part: usize,
}
pub struct ChunkStore {
    pub role_position: ChunkRolePosition,
    pub stable_slots: [Option<SlotRange>; CHUNK_PARTS],
    pub migrating_slots: [Vec<MigrationSlotRangeStore>; CHUNK_PARTS],
    pub proxy_addresses: [String; CHUNK_PARTS],
    pub hosts: [String; CHUNK_PARTS],
    pub node_addresses: [String; CHUNK_NODE_NUM],
}
pub struct ClusterStore {
    pub epoch: u64,
    pub name: ClusterName,
    pub chunks: Vec<ChunkStore>,
    pub config: ClusterConfig,
}
pub struct MigrationSlots {
    pub ranges: RangeList,
    pub meta: MigrationMetaStore,
}
pub enum ScaleOp {
    NoOp,
    ScaleOut,
    ScaleDown,
}
pub struct MetaStore {
    pub version: String,
    pub global_epoch: u64,
    pub clusters: HashMap<ClusterName, ClusterStore>,
    // proxy_address => nodes and cluster_name
    pub all_proxies: HashMap<String, ProxyResource>,
    // proxy addresses
    pub failed_proxies: HashSet<String>,
    // failed_proxy_address => reporter_id => time,
    pub failures: HashMap<String, HashMap<String, i64>>,
    // Set it `true` for kubernetes StatefulSet
    // to disable the chunk allocation algorithm
    // and only use ProxyResource.index to allocate chunks.
    pub enable_ordered_proxy: bool,
}
pub enum MetaStoreError {
    InUse,
    NotInUse,
    NoAvailableResource,
    ResourceNotBalance,
    AlreadyExisted,
    ClusterNotFound,
    FreeNodeNotFound,
    FreeNodeFound,
    ProxyNotFound,
    InvalidNodeNum,
    NodeNumAlreadyEnough,
    InvalidClusterName,
    InvalidMigrationTask,
    InvalidProxyAddress,
    MigrationTaskNotFound,
    MigrationRunning,
    InvalidConfig {
        key: String,
        value: String,
        error: String,
    },
    SlotsAlreadyEven,
    
    InvalidMetaVersion,
    SmallEpoch,
    MissingIndex,
    ProxyResourceOutOfOrder,
    OrderedProxyEnabled,
    OneClusterAlreadyExisted,
    ProxyNotSync,
    NodeNumberChanging,
    External,
    Retry,
    EmptyExternalVersion,
    ExternalTimeout,
}



fn max(a: u64, b: u64) -> (r: u64) ensures r == (if a >= b { a } else { b }) { if a >= b { a } else { b } }
#[verifier::external_body]
fn shim_keys<V>(m: &HashMap<ClusterName, V>) -> (r: Vec<ClusterName>)
    ensures forall|k: ClusterName| m@.contains_key(k) <==> r@.contains(k), r@.no_duplicates()
{ unimplemented!() }
pub open spec fn same_but_epoch(a: ClusterStore, b: ClusterStore) -> bool { a.chunks == b.chunks && a.config == b.config && a.name == b.name }
pub open spec fn all_epochs(s: MetaStore, e: u64) -> bool { forall|k: ClusterName| s.clusters@.contains_key(k) ==> (#[trigger] s.clusters@[k]).epoch == e }
pub open spec fn rest_same(o: MetaStore, n: MetaStore) -> bool {
    n.version == o.version && n.all_proxies == o.all_proxies && n.failed_proxies == o.failed_proxies && n.failures == o.failures
    && n.clusters@.dom() == o.clusters@.dom() && forall|k: ClusterName| n.clusters@.contains_key(k) ==> same_but_epoch(#[trigger] n.clusters@[k], o.clusters@[k])
}
impl MetaStore {
pub fn recover_epoch(&mut self, exsting_largest_epoch: u64)
        requires old(self).global_epoch < u64::MAX, vstd::std_specs::hash::obeys_key_model::<ClusterName>(),
        ensures final(self).global_epoch > old(self).global_epoch, final(self).global_epoch >= exsting_largest_epoch,
            final(self).global_epoch == (if exsting_largest_epoch >= old(self).global_epoch + 1 { exsting_largest_epoch } else { (old(self).global_epoch + 1) as u64 }),
            all_epochs(*final(self), final(self).global_epoch), rest_same(*old(self), *final(self)),
    {
        let new_epoch = max(exsting_largest_epoch, self.global_epoch + 1);
        self.global_epoch = new_epoch;

        let verif_keys = shim_keys(&self.clusters);
        for verif_k in it: verif_keys.iter()
            invariant
                vstd::std_specs::hash::obeys_key_model::<ClusterName>(),
                self.global_epoch == new_epoch, self.version == old(self).version,
                self.all_proxies == old(self).all_proxies, self.failed_proxies == old(self).failed_proxies, self.failures == old(self).failures,
                self.clusters@.dom() == old(self).clusters@.dom(),
                forall|kk: ClusterName| self.clusters@.contains_key(kk) <==> verif_keys@.contains(kk),
                forall|i: int| 0 <= i < it.index@ ==> (#[trigger] self.clusters@[verif_keys@[i]]).epoch == new_epoch,
                forall|kk: ClusterName| self.clusters@.contains_key(kk) ==> same_but_epoch(#[trigger] self.clusters@[kk], old(self).clusters@[kk]),
        {
            proof { axiom_key_of_same::<ClusterName>(verif_k); assert(*verif_k == verif_keys@[it.index@]); assert(verif_keys@.contains(*verif_k)); }
            let cluster = self.clusters.get_mut(verif_k).unwrap();
            cluster.epoch = new_epoch;
        }
        proof {
            assert forall|kk: ClusterName| self.clusters@.contains_key(kk) implies (#[trigger] self.clusters@[kk]).epoch == new_epoch by {
                assert(verif_keys@.contains(kk));
                let i = choose|i: int| 0 <= i < verif_keys@.len() && verif_keys@[i] == kk;
                assert(self.clusters@[verif_keys@[i]].epoch == new_epoch);
            }
        }
    }
pub fn force_bump_all_epoch(&mut self, new_epoch: u64) -> (r: Result<(), MetaStoreError>)
        requires vstd::std_specs::hash::obeys_key_model::<ClusterName>(),
        ensures r is Ok <==> new_epoch > old(self).global_epoch,
            r is Ok ==> final(self).global_epoch == new_epoch && all_epochs(*final(self), new_epoch) && rest_same(*old(self), *final(self)),
            r is Err ==> *final(self) == *old(self),
    {
        if new_epoch <= self.global_epoch {
            return Err(MetaStoreError::SmallEpoch);
        }
        self.global_epoch = new_epoch;

        let verif_keys = shim_keys(&self.clusters);
        for verif_k in it: verif_keys.iter()
            invariant
                vstd::std_specs::hash::obeys_key_model::<ClusterName>(),
                self.global_epoch == new_epoch, self.version == old(self).version,
                self.all_proxies == old(self).all_proxies, self.failed_proxies == old(self).failed_proxies, self.failures == old(self).failures,
                self.clusters@.dom() == old(self).clusters@.dom(),
                forall|kk: ClusterName| self.clusters@.contains_key(kk) <==> verif_keys@.contains(kk),
                forall|i: int| 0 <= i < it.index@ ==> (#[trigger] self.clusters@[verif_keys@[i]]).epoch == new_epoch,
                forall|kk: ClusterName| self.clusters@.contains_key(kk) ==> same_but_epoch(#[trigger] self.clusters@[kk], old(self).clusters@[kk]),
        {
            proof { axiom_key_of_same::<ClusterName>(verif_k); assert(*verif_k == verif_keys@[it.index@]); assert(verif_keys@.contains(*verif_k)); }
            let cluster = self.clusters.get_mut(verif_k).unwrap();
            cluster.epoch = new_epoch;
        }
        proof {
            assert forall|kk: ClusterName| self.clusters@.contains_key(kk) implies (#[trigger] self.clusters@[kk]).epoch == new_epoch by {
                assert(verif_keys@.contains(kk));
                let i = choose|i: int| 0 <= i < verif_keys@.len() && verif_keys@[i] == kk;
                assert(self.clusters@[verif_keys@[i]].epoch == new_epoch);
            }
        }
        Ok(())
    }
pub fn restore(&mut self, other: MetaStore) -> (r: Result<(), MetaStoreError>)
        ensures r is Ok <==> (old(self).version@ == other.version@ && old(self).global_epoch <= other.global_epoch),
            r is Ok ==> *final(self) == other, r is Err ==> *final(self) == *old(self),
    {
        if self.version != other.version {
            return Err(MetaStoreError::InvalidMetaVersion);
        }
        if self.global_epoch > other.global_epoch {
            return Err(MetaStoreError::SmallEpoch);
        }
        *self = other;
        Ok(())
    }
}
// call site src/broker/storage.rs: `self.store.write().recover_epoch(exsting_largest_epoch + 1)`
pub proof fn lemma_recovered_epoch_exceeds_every_proxy(old_global: u64, new_global: u64, m: u64)
    requires m < u64::MAX, old_global < u64::MAX,
        new_global == (if m + 1 >= old_global + 1 { (m + 1) as u64 } else { (old_global + 1) as u64 }),
    ensures new_global > m, new_global > old_global
{}
} // verus!
fn main() {}
