use vstd::prelude::*;
use std::collections::HashMap;
verus! {

pub struct ClusterStore { pub epoch: u64 }
pub struct MetaStore {
    pub global_epoch: u64,
    pub clusters: HashMap<String, ClusterStore>,
}
fn max(a: u64, b: u64) -> (r: u64) ensures r == (if a >= b { a } else { b }) { if a >= b { a } else { b } }

impl MetaStore {
    pub fn recover_epoch(&mut self, exsting_largest_epoch: u64)
        requires old(self).global_epoch < u64::MAX
    {
        let new_epoch = max(exsting_largest_epoch, self.global_epoch + 1);
        self.global_epoch = new_epoch;

        for cluster in self.clusters.values_mut() {
            cluster.epoch = new_epoch;
        }
    }
}

} // verus!
fn main() {}
