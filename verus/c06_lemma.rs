// ---------- property-level clause (*) of C06 ----------
pub open spec fn proxy_of_node(k: int) -> int { k / 2 }
pub open spec fn master_node(rp: ChunkRolePosition, p: int) -> int {
    match rp {
        ChunkRolePosition::Normal => 2 * p,
        ChunkRolePosition::FirstChunkMaster => if proxy_of_node(2 * p) == 0 { 2 * p } else { 3 - 2 * p },
        ChunkRolePosition::SecondChunkMaster => if proxy_of_node(2 * p) == 1 { 2 * p } else { 3 - 2 * p },
    }
}
pub open spec fn valid_meta(m: MigrationMetaStore, n: int) -> bool {
    m.src_chunk_index < n && m.dst_chunk_index < n && m.src_chunk_part < 2 && m.dst_chunk_part < 2
}
// which nodes an entry's rendered addresses name
pub open spec fn rendered(m: MigrationMetaStore, cs: ClusterStore) -> (int, int) {
    (master_node(cs.chunks@[m.src_chunk_index as int].role_position, m.src_chunk_part as int),
     master_node(cs.chunks@[m.dst_chunk_index as int].role_position, m.dst_chunk_part as int))
}
// (*)local: in the chunk whose proxy failed, every half whose master node moves has all its entries re-stamped
pub proof fn lemma_c06_star_local(oc: ClusterStore, nc: ClusterStore, failed: Seq<char>, e: u64, j: int, p: int)
    requires takeover_post(oc, nc, failed, e), is_first_hit(oc, j, failed), 0 <= p < 2,
        oc.chunks@[j].role_position != flipped(hit_half(oc.chunks@[j], failed)),
        master_node(oc.chunks@[j].role_position, p) != master_node(nc.chunks@[j].role_position, p),
    ensures forall|i: int| 0 <= i < nc.chunks@[j].migrating_slots[p]@.len() ==> (#[trigger] nc.chunks@[j].migrating_slots[p]@[i]).meta.epoch == e
{
    let h = hit_half(oc.chunks@[j], failed);
    assert(chunk_final(oc.chunks@[j], nc.chunks@[j], true, h, hit_peers(oc.chunks@[j], h), e));
    if p == h {
        assert forall|i: int| 0 <= i < nc.chunks@[j].migrating_slots[p]@.len() implies (#[trigger] nc.chunks@[j].migrating_slots[p]@[i]).meta.epoch == e by {
            assert(entry_post(oc.chunks@[j].migrating_slots[p]@[i], nc.chunks@[j].migrating_slots[p]@[i], true, e));
        }
    } else {
        // the other half only moves when the failed proxy held both masters
        assert(both_moved(oc.chunks@[j], h));
        assert forall|i: int| 0 <= i < nc.chunks@[j].migrating_slots[p]@.len() implies (#[trigger] nc.chunks@[j].migrating_slots[p]@[i]).meta.epoch == e by {
            assert(entry_post(oc.chunks@[j].migrating_slots[p]@[i], nc.chunks@[j].migrating_slots[p]@[i], true, e));
        }
    }
}

// ---------- global form of clause (*): for EVERY entry of the cluster ----------
// twin invariant (the part of INV_twin of DESIGN 4.1 that this lemma needs): every entry has valid indices and the
// cluster holds its migrating copy in the source half and its importing copy in the destination half
pub open spec fn has_copy(cs: ClusterStore, c: int, p: int, m: MigrationMetaStore, migrating: bool) -> bool {
    exists|i: int| 0 <= i < cs.chunks@[c].migrating_slots[p]@.len() && (#[trigger] cs.chunks@[c].migrating_slots[p]@[i]).meta == m
        && cs.chunks@[c].migrating_slots[p]@[i].is_migrating == migrating
}
pub open spec fn inv_twin(cs: ClusterStore) -> bool {
    forall|c: int, p: int, i: int| 0 <= c < cs.chunks@.len() && 0 <= p < 2 && 0 <= i < cs.chunks@[c].migrating_slots[p]@.len() ==> {
        let x = #[trigger] cs.chunks@[c].migrating_slots[p]@[i];
        valid_meta(x.meta, cs.chunks@.len() as int)
        && has_copy(cs, x.meta.src_chunk_index as int, x.meta.src_chunk_part as int, x.meta, true)
        && has_copy(cs, x.meta.dst_chunk_index as int, x.meta.dst_chunk_part as int, x.meta, false)
    }
}
pub proof fn lemma_positions_of_contains(a: Seq<MigrationSlotRangeStore>, i: int)
    requires 0 <= i < a.len()
    ensures positions_of(a).contains((a[i].meta.src_chunk_index, a[i].meta.src_chunk_part)),
            positions_of(a).contains((a[i].meta.dst_chunk_index, a[i].meta.dst_chunk_part)),
    decreases a.len()
{
    if i < a.len() - 1 {
        lemma_positions_of_contains(a.drop_last(), i);
        assert(a.drop_last()[i] == a[i]);
    } else {
        assert(a.last() == a[i]);
    }
}
// which halves of the hit chunk change their master node
pub proof fn lemma_moved_half(rp: ChunkRolePosition, h: int, p: int)
    requires 0 <= h < 2, 0 <= p < 2, rp != flipped(h), master_node(rp, p) != master_node(flipped(h), p)
    ensures p == h || rp == flipped(1 - h)
{ }
// every entry of a re-stamped half contributes its source and destination position to the peer set
pub proof fn lemma_peers_of_moved_half(ch: ChunkStore, h: int, q: int, k: int)
    requires 0 <= h < 2, 0 <= q < 2, q == h || both_moved(ch, h), 0 <= k < ch.migrating_slots[q]@.len()
    ensures ({ let x = ch.migrating_slots[q]@[k];
        hit_peers(ch, h).contains((x.meta.src_chunk_index, x.meta.src_chunk_part)) && hit_peers(ch, h).contains((x.meta.dst_chunk_index, x.meta.dst_chunk_part)) })
{
    let a = ch.migrating_slots[h]@; let b = ch.migrating_slots[1 - h]@;
    if q == h {
        if both_moved(ch, h) { lemma_positions_of_contains(a + b, k); assert((a + b)[k] == a[k]); } else { lemma_positions_of_contains(a, k); }
    } else {
        lemma_positions_of_contains(a + b, a.len() + k); assert((a + b)[a.len() + k] == b[k]);
    }
}
// role positions after the takeover: only the hit chunk changes, to flipped(h)
pub proof fn lemma_roles_after(oc: ClusterStore, nc: ClusterStore, failed: Seq<char>, e: u64, j: int, k: int)
    requires takeover_post(oc, nc, failed, e), is_first_hit(oc, j, failed),
        oc.chunks@[j].role_position != flipped(hit_half(oc.chunks@[j], failed)), 0 <= k < oc.chunks@.len(),
    ensures nc.chunks@[k].role_position == (if k == j { flipped(hit_half(oc.chunks@[j], failed)) } else { oc.chunks@[k].role_position })
{
    let h = hit_half(oc.chunks@[j], failed);
    assert(chunk_final(oc.chunks@[k], nc.chunks@[k], k == j, h, hit_peers(oc.chunks@[j], h), e));
}
// what the takeover does to one entry
pub proof fn lemma_entry_after(oc: ClusterStore, nc: ClusterStore, failed: Seq<char>, e: u64, j: int, c: int, p: int, i: int)
    requires takeover_post(oc, nc, failed, e), is_first_hit(oc, j, failed),
        oc.chunks@[j].role_position != flipped(hit_half(oc.chunks@[j], failed)),
        0 <= c < oc.chunks@.len(), 0 <= p < 2, 0 <= i < oc.chunks@[c].migrating_slots[p]@.len(),
    ensures ({
        let h = hit_half(oc.chunks@[j], failed);
        let x = oc.chunks@[c].migrating_slots[p]@[i];
        0 <= i < nc.chunks@[c].migrating_slots[p]@.len()
        && entry_post(x, nc.chunks@[c].migrating_slots[p]@[i], (c == j && (h == p || both_moved(oc.chunks@[j], h))) || touches(x.meta, hit_peers(oc.chunks@[j], h)), e)
    })
{
    let h = hit_half(oc.chunks@[j], failed);
    assert(chunk_final(oc.chunks@[c], nc.chunks@[c], c == j, h, hit_peers(oc.chunks@[j], h), e));
}
pub proof fn lemma_twin_copies(oc: ClusterStore, c: int, p: int, i: int)
    requires inv_twin(oc), 0 <= c < oc.chunks@.len(), 0 <= p < 2, 0 <= i < oc.chunks@[c].migrating_slots[p]@.len(),
    ensures ({ let x = oc.chunks@[c].migrating_slots[p]@[i];
        valid_meta(x.meta, oc.chunks@.len() as int)
        && has_copy(oc, x.meta.src_chunk_index as int, x.meta.src_chunk_part as int, x.meta, true)
        && has_copy(oc, x.meta.dst_chunk_index as int, x.meta.dst_chunk_part as int, x.meta, false) })
{ }
// (*) global: any entry whose rendered source or destination master node changes carries the new migration epoch
pub proof fn lemma_c06_star_global(oc: ClusterStore, nc: ClusterStore, failed: Seq<char>, e: u64, j: int, c: int, p: int, i: int)
    requires takeover_post(oc, nc, failed, e), inv_twin(oc), is_first_hit(oc, j, failed),
        oc.chunks@[j].role_position != flipped(hit_half(oc.chunks@[j], failed)),
        0 <= c < oc.chunks@.len(), 0 <= p < 2, 0 <= i < oc.chunks@[c].migrating_slots[p]@.len(),
    ensures ({
        let x = oc.chunks@[c].migrating_slots[p]@[i];
        let y = nc.chunks@[c].migrating_slots[p]@[i];
        &&& 0 <= i < nc.chunks@[c].migrating_slots[p]@.len()
        &&& y.meta.src_chunk_index == x.meta.src_chunk_index && y.meta.src_chunk_part == x.meta.src_chunk_part
        &&& y.meta.dst_chunk_index == x.meta.dst_chunk_index && y.meta.dst_chunk_part == x.meta.dst_chunk_part
        &&& y.range_list == x.range_list && y.is_migrating == x.is_migrating
        &&& (rendered(x.meta, oc) != rendered(y.meta, nc) ==> y.meta.epoch == e)
        &&& (y.meta.epoch == e || y.meta.epoch == x.meta.epoch)
    })
{
    hide(takeover_post);
    hide(inv_twin);
    let h = hit_half(oc.chunks@[j], failed);
    let chj = oc.chunks@[j];
    let peers = hit_peers(chj, h);
    let x = oc.chunks@[c].migrating_slots[p]@[i];
    lemma_entry_after(oc, nc, failed, e, j, c, p, i);
    lemma_twin_copies(oc, c, p, i);
    let y = nc.chunks@[c].migrating_slots[p]@[i];
    let si = x.meta.src_chunk_index as int; let sp = x.meta.src_chunk_part as int;
    let di = x.meta.dst_chunk_index as int; let dp = x.meta.dst_chunk_part as int;
    lemma_roles_after(oc, nc, failed, e, j, si);
    lemma_roles_after(oc, nc, failed, e, j, di);
    if rendered(x.meta, oc) != rendered(y.meta, nc) {
        if master_node(oc.chunks@[si].role_position, sp) != master_node(nc.chunks@[si].role_position, sp) {
            lemma_moved_half(chj.role_position, h, sp);
            let k = choose|k: int| 0 <= k < oc.chunks@[si].migrating_slots[sp]@.len() && (#[trigger] oc.chunks@[si].migrating_slots[sp]@[k]).meta == x.meta && oc.chunks@[si].migrating_slots[sp]@[k].is_migrating == true;
            lemma_peers_of_moved_half(chj, h, sp, k);
        } else {
            lemma_moved_half(chj.role_position, h, dp);
            let k = choose|k: int| 0 <= k < oc.chunks@[di].migrating_slots[dp]@.len() && (#[trigger] oc.chunks@[di].migrating_slots[dp]@[k]).meta == x.meta && oc.chunks@[di].migrating_slots[dp]@[k].is_migrating == false;
            lemma_peers_of_moved_half(chj, h, dp, k);
        }
        assert(touches(x.meta, peers));
    }
}
