import sys,re; sys.path.insert(0,'/tmp/km/x')
from cut import *
src=open('/repo/src/proxy/cluster.rs').read()
task=open('/repo/src/migration/task.rs').read()
f=fn(src,'should_ignore_slots')
st=item(task,'enum','MigrationState')
head='''use vstd::prelude::*;
use std::collections::HashMap;
verus! {
broadcast use vstd::std_specs::hash::group_hash_axioms;
#[derive(PartialEq, Eq, Hash)]
pub struct Range(pub usize, pub usize);
#[derive(PartialEq, Eq, Hash)]
pub struct RangeList(pub Vec<Range>);
pub struct MigrationMeta { pub epoch: u64, pub src_proxy_address: String, pub src_node_address: String, pub dst_proxy_address: String, pub dst_node_address: String }
pub enum SlotRangeTag { Migrating(MigrationMeta), Importing(MigrationMeta), None }
pub struct SlotRange { pub range_list: RangeList, pub tag: SlotRangeTag }
impl SlotRange { pub fn get_range_list(&self) -> (r: &RangeList) ensures *r == self.range_list { &self.range_list } }
#[derive(PartialEq, Eq, Copy, Clone, Structural)]
'''+re.sub(r'#\[derive\([^\]]*\)\]\n','',st)+'''
// trusted: derived Hash/Eq of RangeList are consistent
pub broadcast axiom fn axiom_rangelist_key() ensures #[trigger] vstd::std_specs::hash::obeys_key_model::<RangeList>();

// statement-level spec: who advertises a range
pub open spec fn spec_ignore(tag: SlotRangeTag, st: Option<MigrationState>) -> bool {
    match tag {
        SlotRangeTag::Migrating(_) => st != Some(MigrationState::PreCheck),   // source advertises only before the handshake
        SlotRangeTag::Importing(_) => st == Some(MigrationState::PreCheck),   // destination advertises afterwards
        SlotRangeTag::None => false,
    }
}
pub open spec fn state_of(m: Map<RangeList, MigrationState>, rl: RangeList) -> Option<MigrationState> { if m.contains_key(rl) { Some(m[rl]) } else { None } }
'''
c="fn should_ignore_slots(\n    range: &SlotRange,\n    migration_states: &HashMap<RangeList, MigrationState>,\n) -> (r: bool)\n    requires vstd::std_specs::hash::obeys_key_model::<RangeList>()\n    ensures r == spec_ignore(range.tag, state_of(migration_states@, range.range_list))\n"+f[f.index(') -> bool {')+len(') -> bool '):]
lemma='''
// exactly one side of a migration advertises the range, whatever the state (or no state: a bystander)
pub proof fn lemma_exclusive(m1: MigrationMeta, m2: MigrationMeta, st: Option<MigrationState>)
    ensures spec_ignore(SlotRangeTag::Migrating(m1), st) != spec_ignore(SlotRangeTag::Importing(m2), st),
            !spec_ignore(SlotRangeTag::None, st),
            st is None ==> spec_ignore(SlotRangeTag::Migrating(m1), st) && !spec_ignore(SlotRangeTag::Importing(m2), st),
{}
'''
open('/tmp/km/x/c14.rs','w').write(head+c+lemma+"} // verus!\nfn main() {}\n")
