# C16: small scalar helpers on the request path that take client-controlled numbers - panic freedom for every input
#   SlowLogRateLimiter::check_current_enabled (src/proxy/slowlog.rs): sample-rate arithmetic (CONFIG SET slowlog_sample_rate)
# + a declared syntactic scan of allocation sites: every Vec::with_capacity / reserve whose size is not a constant or
#   derived from a length of received data must be in the committed list contracts/alloc_sites.json
import json, os, re
import vlib

PRE = '''use vstd::prelude::*;
verus! {
pub struct SlowLogRateLimiter { pub count: u64 }   // AtomicU64: only fetch_add is used, modelled as "returns any u64" (R-atomic)
pub struct RelaxedOrdering;
impl SlowLogRateLimiter {
    #[verifier::external_body] fn verif_fetch_add(&self, v: u64) -> (r: u64) { unimplemented!() }
'''

BOUNDED = re.compile(r'^(?:\d+|[A-Z_][A-Z0-9_]*|[\w.&()\[\]:]*\.len\(\)(?:\s*[-+*/]\s*(?:\d+|[A-Z_][A-Z0-9_]*))*|(?:std::cmp::|cmp::)?min\(.*\)|[\w.]+\.len\(\)\s*\+\s*[\w.]+\.len\(\)|\w+\.size_hint\(\)\.0)$')

def alloc_sites(root):
    sites = []
    for dp, dn, fn in os.walk(os.path.join(root, 'src')):
        for f in fn:
            if not f.endswith('.rs'):
                continue
            p = os.path.join(dp, f)
            t = open(p).read()
            cut = t.find('#[cfg(test)]')
            code = t if cut < 0 else t[:cut]
            mask = vlib.code_mask(code)
            for m in re.finditer(r'(?:with_capacity|reserve|reserve_exact)\(', code):
                if not mask[m.start()]:
                    continue
                e = vlib._match_paren(code, mask, m.end() - 1)
                arg = re.sub(r'\s+', ' ', code[m.end():e]).strip()
                if BOUNDED.match(arg):
                    continue
                sites.append('%s: %s(%s)' % (os.path.relpath(p, root), m.group(0)[:-1], arg))
    return sorted(set(sites))

def build(U):
    S = U.src('src/proxy/slowlog.rs')
    U.add(PRE)
    f = S.fn('check_current_enabled', within=r'impl SlowLogRateLimiter\b')
    f.sub('R-atomic', r'self\.count\.fetch_add\((\w+), atomic::Ordering::\w+\)', r'self.verif_fetch_add(\1)', count=1)
    f.header("    pub fn check_current_enabled(&self, slowlog_sample_rate: u64) -> (r: bool)\n        ensures true   // obligation: no division by zero / overflow for every sample rate (0 included)")
    U.add_fn(f)
    U.add('}\nfn max(a: u64, b: u64) -> (r: u64) ensures r == (if a >= b { a } else { b }) { if a >= b { a } else { b } }\n} // verus!\nfn main() {}\n')
    # allocation-site scan
    known = json.load(open(os.path.join(vlib.VERIF, 'contracts', 'alloc_sites.json')))
    now = alloc_sites(vlib.REPO)
    new = [s for s in now if s not in known]
    U.log.scans.append({'file': 'src/**', 'fact': 'allocation sites sized by a value that is neither a constant nor a length of received data are exactly the reviewed ones (contracts/alloc_sites.json)%s'
                        % ('' if not new else '; NEW: ' + ' | '.join(new)), 'matches': len(now), 'ok': not new})
    U.trust('AtomicU64::fetch_add returns an arbitrary u64 (R-atomic)', 'allocation-site scan is syntactic (declared as a scan, not a proof)')

MUST_FAIL = '''
proof fn must_fail_misc_vacuity() ensures false { }
'''
