# C01: ClusterStore::limit_migration (src/broker/store.rs) - the limited view keeps, for every half and every slot,
# the coverage "stable U migrating-out" of the store, whatever the limit; no expect() can fail (DESIGN 4.1).
# Rules applied explicitly below; contract / invariants / hints: contracts/limit_migration.overlay.json (derived from
# the calibrated probe design_probes/l1.rs).
import re
import vlib
from units import broker_common

CLOSURE = '''.and_then(|chunk: &mut ChunkStore| -> (o: Option<&mut %(ty)s>)
                                requires meta.%(part)s < 2
                                ensures o is Some, *(o->Some_0) == old(chunk).%(field)s[meta.%(part)s as int],
                                    final(chunk).%(field)s@ == old(chunk).%(field)s@.update(meta.%(part)s as int, *final(o->Some_0)),
                                    final(chunk).%(other)s == old(chunk).%(other)s, static_eq(*old(chunk), *final(chunk))
                                { chunk.%(field)s.get_mut(meta.%(part)s) })'''

def rules(f):
    f.r1_logging()
    f.replace('R-clone', 'return self.clone();', 'return clone_cluster_store(self);', count=1)
    f.sub('R-clone', r'stable_slots: chunk\.stable_slots\.clone\(\),', 'stable_slots: clone_stable(&chunk.stable_slots),', count=1)
    f.sub('R-clone', r'proxy_addresses: chunk\.proxy_addresses\.clone\(\),', 'proxy_addresses: clone_s2(&chunk.proxy_addresses),', count=1)
    f.sub('R-clone', r'hosts: chunk\.hosts\.clone\(\),', 'hosts: clone_s2(&chunk.hosts),', count=1)
    f.sub('R-clone', r'node_addresses: chunk\.node_addresses\.clone\(\),', 'node_addresses: clone_s4(&chunk.node_addresses),', count=1)
    vlib.d8_continue(f)
    def clo(m):
        field = m.group(1)
        return CLOSURE % {'field': field, 'part': m.group(2), 'other': 'migrating_slots' if field == 'stable_slots' else 'stable_slots',
                          'ty': 'Option<SlotRange>' if field == 'stable_slots' else 'Vec<MigrationSlotRangeStore>'}
    f.sub('closure-spec', r'\.and_then\(\|chunk\| chunk\.(stable_slots|migrating_slots)\.get_mut\(meta\.(\w+)\)\)', clo, count=3)
    # closure of get_or_insert_with: what the inserted default covers
    m = re.search(r'\.get_or_insert_with\(\|\| SlotRange \{', f.text)
    if not m:
        # the default-inserting closure is gone: nothing to specify; the obligations decide on their own
        f.log.rule('closure-spec', f, 'get_or_insert_with closure not present (skipped)')
        return f
    mask = vlib.code_mask(f.text)
    bo = m.end() - 1
    bc = vlib.match_brace(f.text, mask, bo)
    f.text = (f.text[:m.start()] + '.get_or_insert_with(|| -> (nsr: SlotRange)\n                                ensures forall|x: int| !rl_covers(nsr.range_list, x)\n                                { SlotRange {'
              + f.text[bo + 1:bc] + '} }' + f.text[bc + 1:])
    f.log.rule('closure-spec', f, 'get_or_insert_with default closure')
    return f

def build(U):
    broker_common.head(U)
    U.add(broker_common.types(U))
    S = U.src('src/broker/store.rs')
    C = U.src('src/common/cluster.rs')
    pre = open(vlib.VERIF + '/verus/limit_migration_spec.rs').read()
    # the real get_mut_range_list instead of a hand copy
    g = C.fn('get_mut_range_list', within=r'impl SlotRange\b')
    g.header("    pub fn get_mut_range_list(&mut self) -> (r: &mut RangeList)\n        ensures *r == old(self).range_list, final(self).range_list == *final(r), final(self).tag == old(self).tag")
    a = pre.index('impl SlotRange {')
    b = pre.index('#[verifier::external_body] fn clone_stable')
    U.add(pre[:a] + 'impl SlotRange {\n')
    U.add_fn(g)
    U.add('}\n' + pre[b:])
    f = S.fn('limit_migration', within=r'impl ClusterStore\b')
    rules(f)
    f.apply_overlay('limit_migration')
    U.add('impl ClusterStore {\n')
    U.add_fn(f)
    U.add('}\n} // verus!\nfn main() {}\n')
    U.trust('RangeList::new(vec![]) covers nothing; RangeList::merge_another = union of coverage (contracts of the range-list layer, assumed here; compact is proved in unit range_list)',
            'Option::get_or_insert_with by assume_specification (std documentation)',
            'derived Clone of arrays / ClusterStore / MigrationSlotRangeStore is structural (clone_* shims)')

MUST_FAIL = '''
proof fn must_fail_lm_post_not_trivial(cs: ClusterStore, r: ClusterStore)
    requires inv_home(cs), r.epoch == cs.epoch, r.name == cs.name, r.config == cs.config, r.chunks@.len() == cs.chunks@.len(), cs.chunks@.len() > 0
    ensures lm_post(cs, r)
{ }
'''
