use vstd::prelude::*;
verus! {
global size_of usize == 8;
// ---- trusted: btoi::btoi::<i64> (external crate) ----
// decimal literal semantics of btoi::<i64>: optional sign, at least one digit, value must fit i64
pub open spec fn dec_value(s: Seq<u8>) -> Option<int>
    decreases s.len()
{
    if s.len() == 0 { None }
    else if !(48 <= s.last() <= 57) { None }
    else if s.len() == 1 { Some((s.last() - 48) as int) }
    else { match dec_value(s.drop_last()) { Some(v) => Some(v * 10 + (s.last() - 48)), None => None } }
}
pub open spec fn spec_btoi_i64(s: Seq<u8>) -> Option<int> {
    if s.len() == 0 { None }
    else {
        let (neg, digits) = if s[0] == 45u8 { (true, s.subrange(1, s.len() as int)) } else if s[0] == 43u8 { (false, s.subrange(1, s.len() as int)) } else { (false, s) };
        match dec_value(digits) {
            Some(v) => { let x = if neg { -v } else { v }; if -0x8000_0000_0000_0000 <= x <= 0x7fff_ffff_ffff_ffff { Some(x) } else { None } },
            None => None,
        }
    }
}
pub proof fn lemma_btoi_minus1() ensures spec_btoi_i64(seq![45u8, 49u8]) == Some(-1int) {
    let s = seq![45u8, 49u8];
    assert(s.subrange(1, 2) =~= seq![49u8]);
    assert(dec_value(seq![49u8]) == Some(1int));
}
#[verifier::external_body]
fn shim_btoi_i64(buf: &[u8]) -> (r: Result<i64, ()>)
    ensures match r { Ok(n) => spec_btoi_i64(buf@) == Some(n as int), Err(_) => spec_btoi_i64(buf@).is_none() }
{ unimplemented!() }
#[verifier::external_body]
fn shim_slice_eq(a: &[u8], b: &[u8]) -> (r: bool) ensures r == (a@ == b@) { a == b }

// ---- property-level spec, from the statement of C19 ----
pub open spec fn spec_restore_ttl_ok(pttl: Seq<u8>, out: Seq<u8>) -> bool {
    match spec_btoi_i64(pttl) {
        Some(n) => if n >= 1 { out == pttl }
                   else if n == 0 { spec_btoi_i64(out) matches Some(m) && m >= 1 }
                   else { out == seq![48u8] },
        None => out == seq![48u8],
    }
}
pub fn pttl_no_expire() -> (r: &'static [u8]) ensures r@ == seq![45u8, 49u8] { let x: &'static [u8] = &[45u8, 49u8]; assert(x@ =~= seq![45u8, 49u8]); x }
pub fn restore_no_expire() -> (r: &'static [u8]) ensures r@ == seq![48u8] { let x: &'static [u8] = &[48u8]; assert(x@ =~= seq![48u8]); x }
pub fn restore_min_expire() -> (r: &'static [u8]) ensures r@ == seq![49u8] { let x: &'static [u8] = &[49u8]; assert(x@ =~= seq![49u8]); x }
pub fn pttl_to_restore_expire_time(pttl: Vec<u8>) -> (out: Vec<u8>)
    ensures spec_restore_ttl_ok(pttl@, out@)
{
    let mut expire_time = pttl;
    if pttl_need_to_be_no_expire(&expire_time) {
        // Reuse this vector
        expire_time.clear();
        expire_time.extend_from_slice(restore_no_expire());
        proof { assert(expire_time@ =~= seq![48u8]); }
    } else if pttl_is_zero(&expire_time) {
        // PTTL returns 0 for a key about to expire, while a zero TTL of RESTORE means no expire.
        expire_time.clear();
        expire_time.extend_from_slice(restore_min_expire());
        proof { assert(expire_time@ =~= seq![49u8]); assert(dec_value(seq![49u8]) == Some(1int)); assert(spec_btoi_i64(seq![49u8]) == Some(1int)); }
    }
    expire_time
}

fn pttl_is_zero(buf: &[u8]) -> (r: bool)
    ensures r == (spec_btoi_i64(buf@) == Some(0int))
{
    match shim_btoi_i64(buf) { Ok(0) => true, _ => false }
}

fn pttl_need_to_be_no_expire(buf: &[u8]) -> (r: bool)
    ensures r == (match spec_btoi_i64(buf@) { Some(n) => n < 0, None => true })
{
    proof { lemma_btoi_minus1(); }
    if shim_slice_eq(buf, pttl_no_expire()) {
        return true;
    }

    let n = match shim_btoi_i64(buf) {
        Ok(n) => n,
        Err(_e) => return true, // invalid expire number
    };
    // -1 no expire
    // -2 key not found
    n < 0
}
} // verus!
fn main() {}
