# C06 (last sentence): MetaStoreUpdate::generate_new_free_proxy (src/broker/update.rs) - the substitute handed to
# replace_failed_proxy is a registered proxy that belongs to no cluster, is not marked failed and is under no failure report.
# Modular: get_free_proxies through the contract proved in unit free_proxy (text imported).  Abstracted: the CHOICE of the peer
# host (link table, min_by) - any host may be chosen; the property does not depend on which.  The two expects guarded by the
# link table are taken as partial correctness (a panic there returns nothing to allocate).
import re
import vlib
from units import broker_common, free_proxy

INDEX_INV_SPEC = '''// index invariant of the store (kept by every mutator, see DESIGN 4.1): a proxy is registered under its own address
pub open spec fn index_inv(s: MetaStore) -> bool { forall|k: String| s.all_proxies@.contains_key(k) ==> (#[trigger] s.all_proxies@[k]).proxy_address == k }
'''
SPEC = free_proxy.SPEC + '''
impl Clone for ProxyResource { #[verifier::external_body] fn clone(&self) -> (r: Self) ensures r == *self { unimplemented!() } }
''' + INDEX_INV_SPEC + '''// R-pick: the choice of the peer host among the hosts of the link table that still have a free proxy (filter / min_by chain): abstracted, any host
#[verifier::external_body] fn shim_pick_peer_host<'a>(link_count_table: &'a HashMap<String, usize>, free_host_proxies: &HashMap<String, Vec<String>>) -> (r: Option<&'a String>) { unimplemented!() }
// R-expect: `.expect(msg)` on the link-table lookups - partial correctness (a panic returns nothing)
#[verifier::external_body] fn shim_expect_partial<T>(o: Option<T>) -> (r: T) ensures o == Some(r) { unimplemented!() }
#[verifier::external_body] fn shim_string_eq(a: &String, b: &String) -> (r: bool) ensures r == (*a == *b) { unimplemented!() }
pub struct MetaStoreQuery<'a> { pub store: &'a MetaStore }
impl<'a> MetaStoreQuery<'a> {
    #[verifier::external_body] pub fn new(store: &'a MetaStore) -> (r: Self) ensures r.store == store { unimplemented!() }
    // proved in unit free_proxy on the real text; the contract text is imported from that unit
    #[verifier::external_body]
''' + free_proxy.GET_FREE_PROXIES_HEADER + '''
    { unimplemented!() }
}
pub struct MetaStoreUpdate<'a> { pub store: &'a mut MetaStore }
impl<'a> MetaStoreUpdate<'a> {
    // out of reach and irrelevant to the claim: any table
    #[verifier::external_body] fn generate_free_host_proxies(&self) -> (r: HashMap<String, Vec<String>>) { unimplemented!() }
    #[verifier::external_body] fn build_link_table(&self) -> (r: HashMap<String, HashMap<String, usize>>) { unimplemented!() }
'''

# the contract proved here; replace_proxy imports this text for its (then no longer assumed) callee contract
NEW_FREE_HEADER = '''    fn generate_new_free_proxy(&self, failed_proxy_address: String) -> (r: Result<ProxyResource, MetaStoreError>)
        requires vstd::std_specs::hash::obeys_key_model::<String>(), index_inv(*self.store),
        ensures r matches Ok(p) ==> old(self.store).all_proxies@.contains_key(p.proxy_address) && old(self.store).all_proxies@[p.proxy_address] == p && allocatable(*old(self.store), p)'''


def build(U):
    broker_common.head(U)
    T = broker_common.types(U, store_types=[('struct', 'HostProxy')] + broker_common.STORE_TYPES)
    U.add(T)
    U.add(SPEC)
    S = U.src('src/broker/update.rs')
    f = S.fn('generate_new_free_proxy')
    f.r1_logging()
    # R-pick: the host choice
    m = re.search(r'let peer_host = link_count_table\s*\.iter\(\)\s*\.filter\(\|\(peer_host, _\)\| free_host_proxies\.contains_key\(\*peer_host\)\)\s*\.min_by\(.*?\)\s*\.map\(\|\(peer_host, _\)\| peer_host\)\s*\.ok_or\(MetaStoreError::NoAvailableResource\)\?;', f.text, re.S)
    if not m:
        f._lost('R-pick: link_count_table.iter().filter(..).min_by(..).map(..).ok_or(..)? chain')
    f.text = f.text[:m.start()] + 'let peer_host = shim_pick_peer_host(link_count_table, &free_host_proxies)\n            .ok_or(MetaStoreError::NoAvailableResource)?;' + f.text[m.end():]
    U.log.rule('R-pick', f, 'choice of the peer host (filter / min_by over the link table) abstracted: any host')
    # R-expect on the two lookups the link table guards
    f.replace('R-expect', '.expect("consume_new_proxy: cannot find failed proxy")', '.verif_expect_partial()', count=1)
    f.replace('R-expect', '.expect("consume_new_proxy: get peer address")', '.verif_expect_partial()', count=1)
    # D21: X.iter().find(|v| C) -> first-match loop
    m = re.search(r'let peer_proxy = MetaStoreQuery::new\(self\.store\)\s*\.get_free_proxies\(\)\s*\.iter\(\)\s*\.find\(\|host_proxy\| (.*?)\)\s*\.verif_expect_partial\(\)\s*\.proxy_address\s*\.clone\(\);', f.text, re.S)
    if not m:
        f._lost('D21: get_free_proxies().iter().find(|v| C).expect(..).proxy_address.clone()')
    cond = m.group(1).strip()
    if cond != 'peer_host == &host_proxy.host':
        f._lost('D21: find predicate changed: %s' % cond)
    f.text = (f.text[:m.start()] + 'let verif_free = MetaStoreQuery::new(self.store).get_free_proxies();\n        let mut verif_found: Option<&HostProxy> = None;\n        for host_proxy in verif_free.iter() {\n            if verif_found.is_none() && shim_string_eq(peer_host, &host_proxy.host) {\n                verif_found = Some(host_proxy);\n            }\n        }\n        let peer_proxy = shim_expect_partial(verif_found)\n            .proxy_address\n            .clone();' + f.text[m.end():])
    U.log.rule('D21', f, 'X.iter().find(|v| C) -> first-match loop; `a == &b` on Strings -> shim_string_eq (R-streq)')
    # the remaining partial expect: Option<&HashMap>.expect
    m = re.search(r'let link_count_table = link_table\s*\.get\(&failed_proxy_host\)\s*\.verif_expect_partial\(\);', f.text)
    if not m:
        f._lost('R-expect: link_table.get(..).expect(..)')
    f.text = f.text[:m.start()] + 'let link_count_table = shim_expect_partial(link_table.get(&failed_proxy_host));' + f.text[m.end():]
    f.apply_overlay('generate_new_free_proxy')
    U.add_fn(f)
    U.add('}\n} // verus!\nfn main() {}\n')
    U.trust('index invariant of the store as precondition (a proxy is registered under its own address)',
            'get_free_proxies through its contract proved in unit free_proxy; the choice of the peer host abstracted (R-pick); generate_free_host_proxies / build_link_table havoc',
            'R-expect: the two expects behind the link table are partial correctness only (panic-freedom of generate_new_free_proxy is not claimed)',
            'derived Clone of ProxyResource is structural')

MUST_FAIL = '''
proof fn must_fail_registered_is_not_allocatable(s: MetaStore, p: ProxyResource) requires s.all_proxies@.contains_key(p.proxy_address), s.all_proxies@[p.proxy_address] == p ensures allocatable(s, p) { }
'''
