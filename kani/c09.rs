// Kani harnesses for C09 (appended to get_hash_tag / generate_slot / same_slot cut from src/common/utils.rs).
#[cfg(kani)]
mod verif {
    use super::*;
    use crc16::CrcType;
    // bitwise CRC-16/XMODEM step, executable twin of crc_byte in verus/c09_pre.rs
    fn direct_byte(mut crc: u16, b: u8) -> u16 {
        crc ^= (b as u16) << 8;
        let mut i = 0;
        while i < 8 { crc = if crc & 0x8000 != 0 { (crc << 1) ^ 0x1021 } else { crc << 1 }; i += 1; }
        crc
    }
    fn ref_tag(k: &[u8]) -> &[u8] {
        let mut b = 0;
        while b < k.len() && k[b] != b'{' { b += 1; }
        if b == k.len() { return k; }
        let mut e = b + 1;
        while e < k.len() && k[e] != b'}' { e += 1; }
        if e == k.len() || e == b + 1 { return k; }
        &k[b + 1..e]
    }
    fn ref_slot(k: &[u8]) -> usize {
        let t = ref_tag(k);
        let mut crc = 0u16;
        let mut i = 0;
        while i < t.len() { crc = direct_byte(crc, t[i]); i += 1; }
        (crc as usize) % 16384
    }
    // DOMAIN: every register value (u16) x every byte (u8): complete (constant loop bounds only).
    // The crate keeps its register in the non-direct form, so the per-byte fact is a commuting square.
    #[kani::proof]
    #[kani::unwind(17)]
    fn c09_crc_square() {
        let r: u16 = kani::any();
        let b: u8 = kani::any();
        let msg = [b];
        assert!(XMODEM::get(XMODEM::update(r, &msg)) == direct_byte(XMODEM::get(r), b));
        assert!(XMODEM::get(XMODEM::init()) == 0);
        assert!(XMODEM::update(r, &[]) == r);
    }
    // DOMAIN: every key of at most 4 bytes (bounded): real generate_slot (real crc16 crate) vs an
    // independent hash-tag scan + bitwise CRC
    #[kani::proof]
    #[kani::unwind(18)]
    fn c09_slot_le4() {
        let len: usize = kani::any();
        kani::assume(len <= 4);
        let bytes: [u8; 4] = kani::any();
        let key = &bytes[..len];
        kani::cover!(ref_tag(key).len() < key.len());
        let s = generate_slot(key);
        assert!(s < 16384);
        assert!(s == ref_slot(key));
    }
    // DOMAIN: every key of at most 7 bytes (bounded; thorough tier)
    #[kani::proof]
    #[kani::unwind(18)]
    fn c09_slot_le7() {
        let len: usize = kani::any();
        kani::assume(len <= 7);
        let bytes: [u8; 7] = kani::any();
        let key = &bytes[..len];
        kani::cover!(ref_tag(key).len() + 2 < key.len());
        let s = generate_slot(key);
        assert!(s == ref_slot(key));
    }
    // DOMAIN: at most 4 keys (bounded in the number of keys only), generate_slot replaced by an *arbitrary*
    // function of the key (symbolic table indexed by the key, stub): same_slot == "non-empty and all slots
    // equal" for every slot function, hence for the verified generate_slot
    static mut TABLE: [usize; 5] = [0; 5];
    fn stub_slot(key: &[u8]) -> usize { unsafe { TABLE[key.len()] } }
    #[kani::proof]
    #[kani::unwind(6)]
    #[kani::stub(generate_slot, stub_slot)]
    fn c09_same_slot_le4keys() {
        let t: [usize; 5] = kani::any();
        unsafe { TABLE = t; }
        let n: usize = kani::any();
        kani::assume(n <= 4);
        let bytes = [0u8; 4];
        // key i is the unique key of length idx[i]; repeated keys allowed
        let idx: [usize; 4] = kani::any();
        kani::assume(idx[0] <= 4 && idx[1] <= 4 && idx[2] <= 4 && idx[3] <= 4);
        let keys: [&[u8]; 4] = [&bytes[..idx[0]], &bytes[..idx[1]], &bytes[..idx[2]], &bytes[..idx[3]]];
        let r = same_slot(keys[..n].iter().map(|k| *k));
        let mut expect = n > 0;
        let mut i = 1;
        while i < n { if t[idx[i]] != t[idx[0]] { expect = false; } i += 1; }
        kani::cover!(n == 4 && r);
        kani::cover!(n == 4 && !r);
        assert!(r == expect);
    }
}
