// ---- spec: RESP encoding of a value (written from the RESP specification) ----
pub enum V { Error(Seq<u8>), Simple(Seq<u8>), Integer(Seq<u8>), BulkNil, Bulk(Seq<u8>), ArrNil, Arr(Seq<V>) }
pub open spec fn crlf() -> Seq<u8> { seq![13u8, 10u8] }
pub open spec fn dec(n: nat) -> Seq<u8> decreases n { if n < 10 { seq![(48 + n) as u8] } else { dec(n / 10).push((48 + n % 10) as u8) } }
pub open spec fn enc(v: V) -> Seq<u8>
    decreases v, 0nat
{
    match v {
        V::Error(s) => seq![45u8] + s + crlf(),
        V::Simple(s) => seq![43u8] + s + crlf(),
        V::Integer(s) => seq![58u8] + s + crlf(),
        V::BulkNil => seq![36u8, 45u8, 49u8, 13u8, 10u8],
        V::Bulk(s) => seq![36u8] + dec(s.len()) + crlf() + s + crlf(),
        V::ArrNil => seq![42u8, 45u8, 49u8, 13u8, 10u8],
        V::Arr(vs) => seq![42u8] + dec(vs.len()) + crlf() + enc_all(vs, vs.len()),
    }
}
pub open spec fn enc_all(vs: Seq<V>, n: nat) -> Seq<u8>
    decreases vs, n
{
    if n == 0 || n > vs.len() { Seq::<u8>::empty() } else { enc_all(vs, (n - 1) as nat) + enc(vs[n - 1]) }
}


pub proof fn lemma_enc_all_step(vs: Seq<V>, n: nat)
    requires 1 <= n <= vs.len()
    ensures enc_all(vs, n) == enc_all(vs, (n - 1) as nat) + enc(vs[n - 1])
{ }
pub proof fn lemma_enc_all_mono(vs: Seq<V>, a: nat, b: nat)
    requires a <= b <= vs.len()
    ensures enc_all(vs, a).len() <= enc_all(vs, b).len()
    decreases b - a
{ if a < b { lemma_enc_all_mono(vs, a, (b - 1) as nat); } }
pub proof fn lemma_enc_all_len(vs: Seq<V>, n: nat) ensures true { }

