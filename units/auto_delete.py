# C04 / C10 (release clause) / C01: MetaStoreUpdate::auto_delete_free_nodes (src/broker/update.rs): refused while a migration
# is running; removes exactly the chunks that own no stable, migrating or importing slot (order of the others kept); frees their
# proxies; epoch contract; every refusal leaves the store untouched.
import re
import vlib
from units import broker_common, takeover, replace_proxy, migrate_guards

SPEC = '''
pub struct InvalidClusterName;
impl<'b> core::convert::TryFrom<&'b str> for ClusterName {
    type Error = InvalidClusterName;
    #[verifier::external_body] fn try_from(s: &'b str) -> Result<Self, InvalidClusterName> { unimplemented!() }
}
#[verifier::external_body] fn shim_clone_chunk(c: &ChunkStore) -> (r: ChunkStore) ensures r == *c { unimplemented!() }
#[verifier::external_body] fn shim_take_all<T>(v: &mut Vec<T>) -> (r: Vec<T>) ensures r@ == old(v)@, final(v)@.len() == 0 { unimplemented!() }
pub open spec fn running(c: ClusterStore) -> bool {
    exists|i: int, p: int| 0 <= i < c.chunks@.len() && 0 <= p < 2 && (#[trigger] c.chunks@[i].migrating_slots[p])@.len() > 0
}
pub open spec fn chunk_running(ch: ChunkStore) -> bool { ch.migrating_slots[0]@.len() > 0 || ch.migrating_slots[1]@.len() > 0 }
pub open spec fn store_same_content(o: MetaStore, n: MetaStore) -> bool {
    n.global_epoch == o.global_epoch && n.clusters@.dom() == o.clusters@.dom() && n.all_proxies@ == o.all_proxies@ && n.failed_proxies@ == o.failed_proxies@ && n.failures@ == o.failures@ && n.version == o.version
    && forall|k: ClusterName| o.clusters@.contains_key(k) ==> (#[trigger] n.clusters@[k]).epoch == o.clusters@[k].epoch && content_eq(o.clusters@[k], n.clusters@[k])
}
// a chunk owns something: a stable range in either half, or a migrating / importing entry in either half
pub open spec fn owns_slots(ch: ChunkStore) -> bool { ch.stable_slots[0] is Some || ch.stable_slots[1] is Some || ch.migrating_slots[0]@.len() > 0 || ch.migrating_slots[1]@.len() > 0 }
// the chunks among the first n that are kept / released, in order
pub open spec fn kept(cs: Seq<ChunkStore>, n: nat) -> Seq<ChunkStore>
    decreases n
{ if n == 0 || n > cs.len() { Seq::<ChunkStore>::empty() } else if owns_slots(cs[n - 1]) { kept(cs, (n - 1) as nat).push(cs[n - 1]) } else { kept(cs, (n - 1) as nat) } }
pub open spec fn released(cs: Seq<ChunkStore>, n: nat) -> Seq<ChunkStore>
    decreases n
{ if n == 0 || n > cs.len() { Seq::<ChunkStore>::empty() } else if !owns_slots(cs[n - 1]) { released(cs, (n - 1) as nat).push(cs[n - 1]) } else { released(cs, (n - 1) as nat) } }
pub proof fn lemma_released_own_nothing(cs: Seq<ChunkStore>, n: nat)
    requires n <= cs.len()
    ensures forall|i: int| 0 <= i < released(cs, n).len() ==> !owns_slots(#[trigger] released(cs, n)[i]) && exists|j: int| 0 <= j < n && cs[j] == released(cs, n)[i],
        forall|i: int| 0 <= i < kept(cs, n).len() ==> owns_slots(#[trigger] kept(cs, n)[i]) && exists|j: int| 0 <= j < n && cs[j] == kept(cs, n)[i],
        kept(cs, n).len() + released(cs, n).len() == n,
    decreases n
{
    if n > 0 {
        lemma_released_own_nothing(cs, (n - 1) as nat);
        let r0 = released(cs, (n - 1) as nat); let k0 = kept(cs, (n - 1) as nat);
        assert forall|i: int| 0 <= i < released(cs, n).len() implies !owns_slots(#[trigger] released(cs, n)[i]) && exists|j: int| 0 <= j < n && cs[j] == released(cs, n)[i] by {
            if i < r0.len() { assert(released(cs, n)[i] == r0[i]); let j = choose|j: int| 0 <= j < n - 1 && cs[j] == r0[i]; assert(cs[j] == released(cs, n)[i]); } else { assert(cs[n - 1] == released(cs, n)[i]); }
        }
        assert forall|i: int| 0 <= i < kept(cs, n).len() implies owns_slots(#[trigger] kept(cs, n)[i]) && exists|j: int| 0 <= j < n && cs[j] == kept(cs, n)[i] by {
            if i < k0.len() { assert(kept(cs, n)[i] == k0[i]); let j = choose|j: int| 0 <= j < n - 1 && cs[j] == k0[i]; assert(cs[j] == kept(cs, n)[i]); } else { assert(cs[n - 1] == kept(cs, n)[i]); }
        }
    }
}
pub proof fn lemma_kept_all(cs: Seq<ChunkStore>, n: nat)
    requires n <= cs.len(), released(cs, n).len() == 0
    ensures kept(cs, n) == cs.subrange(0, n as int)
    decreases n
{
    if n > 0 {
        lemma_released_own_nothing(cs, (n - 1) as nat);
        lemma_kept_all(cs, (n - 1) as nat);
        assert(cs.subrange(0, n as int) =~= cs.subrange(0, n - 1).push(cs[n - 1]));
    } else { assert(cs.subrange(0, 0) =~= Seq::<ChunkStore>::empty()); }
}
pub open spec fn named_by(cs: Seq<ChunkStore>, a: String) -> bool { exists|i: int, j: int| 0 <= i < cs.len() && 0 <= j < 2 && #[trigger] cs[i].proxy_addresses[j] == a }
pub proof fn lemma_named_by_step(rel: Seq<ChunkStore>, ci: int, a: String)
    requires 0 <= ci < rel.len()
    ensures named_by(rel.subrange(0, ci + 1), a) <==> (named_by(rel.subrange(0, ci), a) || (exists|j: int| 0 <= j < 2 && rel[ci].proxy_addresses[j] == a))
{
    let s1 = rel.subrange(0, ci + 1); let s0 = rel.subrange(0, ci);
    if named_by(s1, a) {
        let (i, j) = choose|i: int, j: int| 0 <= i < s1.len() && 0 <= j < 2 && #[trigger] s1[i].proxy_addresses[j] == a;
        if i < ci { assert(s0[i].proxy_addresses[j] == a); } else { assert(rel[ci].proxy_addresses[j] == a); }
    }
    if named_by(s0, a) {
        let (i, j) = choose|i: int, j: int| 0 <= i < s0.len() && 0 <= j < 2 && #[trigger] s0[i].proxy_addresses[j] == a;
        assert(s1[i].proxy_addresses[j] == a);
    }
    if exists|j: int| 0 <= j < 2 && rel[ci].proxy_addresses[j] == a {
        let j = choose|j: int| 0 <= j < 2 && rel[ci].proxy_addresses[j] == a;
        assert(s1[ci].proxy_addresses[j] == a);
    }
}
'''

def build(U):
    broker_common.head(U)
    U.add(broker_common.types(U))
    U.prelude('epoch_spec.rs')
    U.add(SPEC)
    U.add('impl ClusterStore {\n')
    U.add_fn(replace_proxy.set_epoch(U))
    U.add('}\nimpl MetaStore {\n')
    S = U.src('src/broker/store.rs')
    g = S.fn('get_global_epoch', within=r'impl MetaStore\b')
    g.header("    pub fn get_global_epoch(&self) -> (r: u64)\n        ensures r == self.global_epoch")
    U.add_fn(g)
    U.add_fn(takeover.bump_global_epoch(U))
    U.add("}\n" + takeover.UPDATE_STRUCT + "impl<'a> MetaStoreUpdate<'a> {\n")
    X = U.src('src/broker/update.rs')
    f = X.fn('auto_delete_free_nodes')
    f.r1_logging().r2_closure_underscore()
    if re.search(r'\.iter\(\)\s*\.any\(', f.text):     # otherwise the text goes on as it is
        vlib.d11_iter_any(f)
    lifted = vlib.d13_retain(f, 'cluster.chunks', 'ChunkStore', [('removed_chunks', '&mut Vec<ChunkStore>', '&mut removed_chunks')], call_prefix='Self::')
    # the lifted closure body as a function of its own (text verbatim), with its statement-level meaning
    L = vlib.Fn('verif_retain_0', f.file, f.line, '    ' + lifted.replace('chunk.clone()', 'shim_clone_chunk(chunk)'), U.log)
    U.log.rule('R-clone', L, 'chunk.clone() -> shim_clone_chunk(chunk)')
    L.apply_overlay('auto_delete_retain')
    U.add_fn(L)
    f.apply_overlay('auto_delete_free_nodes')
    U.add_fn(f)
    U.add("}\n} // verus!\nfn main() {}\n")
    U.trust('D13: Vec::retain visits every element once in order and keeps those for which the closure returns true (std documentation); the FnMut closure body is lifted verbatim into a function',
            'derived Clone of ChunkStore structural (shim_clone_chunk); ClusterName::try_from havoc')

MUST_FAIL = '''
proof fn must_fail_auto_delete_kept_is_all(cs: Seq<ChunkStore>) requires cs.len() > 0 ensures kept(cs, cs.len()) == cs { }
'''
