# C04: MetaStoreUpdate::add_cluster (src/broker/update.rs): a new cluster is stamped with the new global epoch, every
# refusal leaves the store untouched, no expect() can fail given the allocator contract (assumed: out of reach, C12)
import re
import vlib
from units import broker_common, takeover

SPEC = '''
pub struct InvalidClusterName;
impl<'b> core::convert::TryFrom<&'b str> for ClusterName {
    type Error = InvalidClusterName;
    #[verifier::external_body] fn try_from(s: &'b str) -> Result<Self, InvalidClusterName> { unimplemented!() }
}
impl Clone for ClusterName { #[verifier::external_body] fn clone(&self) -> (r: Self) ensures r == *self { unimplemented!() } }
#[verifier::external_body] pub struct NonZeroUsize { x: usize }   // std::num::NonZeroUsize, opaque
impl NonZeroUsize { #[verifier::external_body] fn new(n: usize) -> (r: Option<NonZeroUsize>) ensures r is Some <==> n != 0 { unimplemented!() } }
pub open spec fn resources_registered(s: MetaStore, arr: Seq<[ProxyResource; CHUNK_PARTS]>) -> bool {
    forall|c: int, k: int| 0 <= c < arr.len() && 0 <= k < 2 ==> s.all_proxies@.contains_key(#[trigger] arr[c][k].proxy_address)
}
pub open spec fn chunks_registered(dom: Set<String>, chunks: Seq<ChunkStore>) -> bool {
    forall|c: int, k: int| 0 <= c < chunks.len() && 0 <= k < 2 ==> dom.contains(#[trigger] chunks[c].proxy_addresses[k])
}
'''

def build(U):
    broker_common.head(U)
    U.add(broker_common.types(U).replace('use std::num::NonZeroUsize;', ''))
    U.prelude('epoch_spec.rs')
    U.add(SPEC)
    U.add('impl MetaStore {\n')
    U.add_fn(takeover.bump_global_epoch(U))
    U.add("}\n" + takeover.UPDATE_STRUCT + "impl<'a> MetaStoreUpdate<'a> {\n")
    U.add('''    // allocator: out of reach (nested HashMap<String, ..> with max_by_key / min_by closures, see C12); assumed: pure (&self) and
    // returns only registered proxies
    #[verifier::external_body] fn generate_free_chunks(&self, expected_num: NonZeroUsize) -> (r: Result<Vec<[ProxyResource; CHUNK_PARTS]>, MetaStoreError>)
        ensures r matches Ok(v) ==> resources_registered(*old(self.store), v@)
    { unimplemented!() }
    #[verifier::external_body] fn generate_free_chunks_for_ordered_proxy_index(&self, expected_num: NonZeroUsize, start_index: usize) -> (r: Result<Vec<[ProxyResource; CHUNK_PARTS]>, MetaStoreError>)
        ensures r matches Ok(v) ==> resources_registered(*old(self.store), v@)
    { unimplemented!() }
    // proved in unit chunk_init (chunk_of: chunk c names the proxies / hosts / nodes of resource c); here the part this unit needs
    #[verifier::external_body] fn proxy_resource_to_chunk_store(proxy_resource_arr: Vec<[ProxyResource; CHUNK_PARTS]>, with_slots: bool) -> (r: Vec<ChunkStore>)
        ensures r@.len() == proxy_resource_arr@.len(), forall|c: int, k: int| 0 <= c < r@.len() && 0 <= k < 2 ==> #[trigger] r@[c].proxy_addresses[k] == proxy_resource_arr@[c][k].proxy_address
    { unimplemented!() }
''')
    X = U.src('src/broker/update.rs')
    f = X.fn('add_cluster')
    f.r1_logging().r2_closure_underscore()
    f.header('''    pub fn add_cluster(
        &mut self,
        cluster_name: String,
        node_num: usize,
        default_cluster_config: ClusterConfig,
    ) -> (r: Result<(), MetaStoreError>)
        requires inv_epoch(*old(self).store), old(self).store.global_epoch < u64::MAX,
            vstd::std_specs::hash::obeys_key_model::<ClusterName>(), vstd::std_specs::hash::obeys_key_model::<String>(),
        ensures epoch_contract(*old(self).store, *final(self).store),
            r is Err ==> store_same(*old(self).store, *final(self).store),
            r is Ok ==> exists|k: ClusterName| #![trigger final(self).store.clusters@[k]] !old(self).store.clusters@.contains_key(k) && final(self).store.clusters@.contains_key(k)
                && final(self).store.clusters@[k].epoch == final(self).store.global_epoch && final(self).store.clusters@[k].config == default_cluster_config,''')
    f.after('let chunk_stores = Self::proxy_resource_to_chunk_store(proxy_resource_arr, true);',
            "        proof { assert(chunks_registered(self.store.all_proxies@.dom(), chunk_stores@)); }")
    f.after('let epoch = self.store.bump_global_epoch()', "        let ghost s1 = *self.store;\n        let ghost cn = cluster_name;")
    INV = ("self.store.all_proxies@.dom() == s1.all_proxies@.dom(), self.store.clusters@ == s1.clusters@, self.store.global_epoch == s1.global_epoch,\n"
           "                    self.store.failed_proxies@ == s1.failed_proxies@, self.store.failures@ == s1.failures@, self.store.version == s1.version,\n"
           "                    chunks_registered(s1.all_proxies@.dom(), cluster_store.chunks@), vstd::std_specs::hash::obeys_key_model::<String>(),")
    f.loop_spec(0, "                invariant " + INV, itname='itc')
    f.loop_spec(1, "                    invariant " + INV + "\n                    0 <= itc.index@ < cluster_store.chunks@.len(), *chunk == cluster_store.chunks@[itc.index@ as int],", itname='itp')
    f.before('let proxy = self', "                proof { axiom_key_of_same::<String>(proxy_address); assert(*proxy_address == chunk.proxy_addresses[itp.index@ as int]); }")
    f.before('Ok(())', "        proof { assert(self.store.clusters@.contains_key(cn)); assert(!old(self).store.clusters@.contains_key(cn)); assert(self.store.clusters@[cn].epoch == self.store.global_epoch); assert(self.store.clusters@[cn].config == default_cluster_config); }", nth=None)
    U.add_fn(f)
    U.add("}\n} // verus!\nfn main() {}\n")
    U.trust('generate_free_chunks* (allocator, C12) by assumed contract: pure, returns only registered proxies; proxy_resource_to_chunk_store through the part of its contract proved in unit chunk_init (chunk c names the proxies of resource c)',
            'NonZeroUsize::new by shim (Some iff n != 0)')

MUST_FAIL = '''
proof fn must_fail_add_cluster_resources_any(s: MetaStore, arr: Seq<[ProxyResource; CHUNK_PARTS]>) requires arr.len() > 0 ensures resources_registered(s, arr) { }
'''
