#![feature(allocator_api)]
use vstd::prelude::*;
use std::collections::{HashMap, HashSet};
use std::hash::Hash;
use core::borrow::Borrow;
use core::alloc::Allocator;
verus! {
global size_of usize == 8;
broadcast use vstd::std_specs::hash::group_hash_axioms;

// ---- trusted (3.7) ----
pub broadcast axiom fn axiom_iter_mut_has_resolved<'a, T>(it: vstd::std_specs::iter::VerusForLoopWrapper<core::slice::IterMut<'a, T>>)
    ensures #[trigger] has_resolved(it) ==> forall|i: int| it.index@ <= i < it.seq().len() ==> has_resolved(#[trigger] it.seq()[i]);
pub uninterp spec fn key_of<K, Q: ?Sized>(k: &Q) -> K;
#[verifier::external_body] pub proof fn axiom_key_of_same<K>(k: &K) ensures key_of::<K, K>(k) == *k {}
pub assume_specification<'a, K: Eq + Hash, V, S: core::hash::BuildHasher, A: Allocator, Q: ?Sized + Hash + Eq>
    [ HashMap::<K, V, S, A>::get_mut::<Q> ] (m: &'a mut HashMap<K, V, S, A>, k: &Q) -> (r: Option<&'a mut V>)
    where K: Borrow<Q>
    ensures
        vstd::std_specs::hash::obeys_key_model::<K>() && vstd::std_specs::hash::builds_valid_hashers::<S>() ==> match r {
            Some(v) => old(m)@.contains_key(key_of::<K, Q>(k)) && *v == old(m)@[key_of::<K, Q>(k)]
                && final(m)@ == old(m)@.insert(key_of::<K, Q>(k), *final(v)),
            None => !old(m)@.contains_key(key_of::<K, Q>(k)) && final(m)@ == old(m)@,
        };

// opaque external types
pub struct Utc;
#[verifier::external_body] pub struct DateTimeUtc { x: u8 }
impl Utc { #[verifier::external_body] pub fn now() -> DateTimeUtc { unimplemented!() } }
impl DateTimeUtc { #[verifier::external_body] pub fn timestamp(&self) -> i64 { unimplemented!() } }
impl ClusterName { #[verifier::external_body] pub fn to_string(&self) -> String { unimplemented!() } }

#[verifier::external_body] pub struct ClusterName { x: u8 }
#[verifier::external_body] pub struct ClusterConfig { x: u8 }
pub struct InvalidClusterName;
impl Clone for ClusterName { #[verifier::external_body] fn clone(&self) -> Self { unimplemented!() } }
impl<'b> core::convert::TryFrom<&'b str> for ClusterName {
    type Error = InvalidClusterName;
    #[verifier::external_body] fn try_from(s: &'b str) -> Result<Self, InvalidClusterName> { unimplemented!() }
}
impl ClusterConfig {
    #[verifier::external_body] pub fn clone(&self) -> Self { unimplemented!() }
    #[verifier::external_body] pub fn set_field(&mut self, k: &String, v: &String) -> Result<(), String> { unimplemented!() }
}
impl core::cmp::PartialEq for ClusterName { #[verifier::external_body] fn eq(&self, o: &Self) -> bool { unimplemented!() } }
impl core::cmp::Eq for ClusterName {}
impl core::hash::Hash for ClusterName { #[verifier::external_body] fn hash<H: core::hash::Hasher>(&self, state: &mut H) { unimplemented!() } }

pub struct MigrationMeta {
    pub epoch: u64, // The epoch migration starts
    pub src_proxy_address: String,
    pub src_node_address: String,
    pub dst_proxy_address: String,
    pub dst_node_address: String,
}
pub enum SlotRangeTag {
    Migrating(MigrationMeta),
    Importing(MigrationMeta),
    None,
}
pub struct Range(pub usize, pub usize);
pub struct RangeList(Vec<Range>);
pub struct SlotRange {
    pub range_list: RangeList,
    pub tag: SlotRangeTag,
}
pub struct MigrationTaskMeta {
    pub cluster_name: ClusterName,
    pub slot_range: SlotRange,
}
pub const NODES_PER_PROXY: usize = 2;
pub const CHUNK_PARTS: usize = 2;
pub const CHUNK_HALF_NODE_NUM: usize = 2;
pub const CHUNK_NODE_NUM: usize = 4;
pub struct ProxyResource {
    pub proxy_address: String,
    pub node_addresses: [String; NODES_PER_PROXY],
    pub host: String,
    // `index` is only used as the index in StatefulSet of Kubernetes
    // when `enable_ordered_proxy` is true.
    pub index: usize,
    pub cluster: Option<ClusterName>,
}
#[derive(Clone, Copy, PartialEq, Eq, Structural)]
pub enum ChunkRolePosition {
    Normal,
    FirstChunkMaster,
    SecondChunkMaster,
}
pub struct MigrationSlotRangeStore {
    pub range_list: RangeList,
    pub is_migrating: bool, // migrating or importing
    pub meta: MigrationMetaStore,
}
pub struct MigrationMetaStore {
    pub epoch: u64,
    pub src_chunk_index: usize,
    pub src_chunk_part: usize,
    pub dst_chunk_index: usize,
    pub dst_chunk_part: usize,
}
pub struct ChunkStore {
    pub role_position: ChunkRolePosition,
    pub stable_slots: [Option<SlotRange>; CHUNK_PARTS],
    pub migrating_slots: [Vec<MigrationSlotRangeStore>; CHUNK_PARTS],
    pub proxy_addresses: [String; CHUNK_PARTS],
    pub hosts: [String; CHUNK_PARTS],
    pub node_addresses: [String; CHUNK_NODE_NUM],
}
pub struct ClusterStore {
    pub epoch: u64,
    pub name: ClusterName,
    pub chunks: Vec<ChunkStore>,
    pub config: ClusterConfig,
}
pub struct MigrationSlots {
    pub ranges: RangeList,
    pub meta: MigrationMetaStore,
}
pub enum ScaleOp {
    NoOp,
    ScaleOut,
    ScaleDown,
}
pub struct MetaStore {
    pub version: String,
    pub global_epoch: u64,
    pub clusters: HashMap<ClusterName, ClusterStore>,
    // proxy_address => nodes and cluster_name
    pub all_proxies: HashMap<String, ProxyResource>,
    // proxy addresses
    pub failed_proxies: HashSet<String>,
    // failed_proxy_address => reporter_id => time,
    pub failures: HashMap<String, HashMap<String, i64>>,
    // Set it `true` for kubernetes StatefulSet
    // to disable the chunk allocation algorithm
    // and only use ProxyResource.index to allocate chunks.
    pub enable_ordered_proxy: bool,
}
pub enum MetaStoreError {
    InUse,
    NotInUse,
    NoAvailableResource,
    ResourceNotBalance,
    AlreadyExisted,
    ClusterNotFound,
    FreeNodeNotFound,
    FreeNodeFound,
    ProxyNotFound,
    InvalidNodeNum,
    NodeNumAlreadyEnough,
    InvalidClusterName,
    InvalidMigrationTask,
    InvalidProxyAddress,
    MigrationTaskNotFound,
    MigrationRunning,
    InvalidConfig {
        key: String,
        value: String,
        error: String,
    },
    SlotsAlreadyEven,
    
    InvalidMetaVersion,
    SmallEpoch,
    MissingIndex,
    ProxyResourceOutOfOrder,
    OrderedProxyEnabled,
    OneClusterAlreadyExisted,
    ProxyNotSync,
    NodeNumberChanging,
    External,
    Retry,
    EmptyExternalVersion,
    ExternalTimeout,
}


// ---- specs ----
pub open spec fn is_hit(c: ChunkStore, failed: Seq<char>) -> bool { c.proxy_addresses[0]@ == failed || c.proxy_addresses[1]@ == failed }
pub open spec fn hit_half(c: ChunkStore, failed: Seq<char>) -> int { if c.proxy_addresses[0]@ == failed { 0 } else { 1 } }
pub open spec fn flipped(h: int) -> ChunkRolePosition { if h == 0 { ChunkRolePosition::SecondChunkMaster } else { ChunkRolePosition::FirstChunkMaster } }
pub open spec fn touches(m: MigrationMetaStore, p: Set<(usize, usize)>) -> bool { p.contains((m.src_chunk_index, m.src_chunk_part)) || p.contains((m.dst_chunk_index, m.dst_chunk_part)) }
pub open spec fn positions_of(a: Seq<MigrationSlotRangeStore>) -> Set<(usize, usize)>
    decreases a.len()
{
    if a.len() == 0 { Set::<(usize, usize)>::empty() }
    else { positions_of(a.drop_last()).insert((a.last().meta.src_chunk_index, a.last().meta.src_chunk_part)).insert((a.last().meta.dst_chunk_index, a.last().meta.dst_chunk_part)) }
}
// entry b is entry a with epoch := e if stamped, unchanged otherwise
pub open spec fn entry_post(a: MigrationSlotRangeStore, b: MigrationSlotRangeStore, stamped: bool, e: u64) -> bool {
    b.range_list == a.range_list && b.is_migrating == a.is_migrating
    && b.meta.src_chunk_index == a.meta.src_chunk_index && b.meta.src_chunk_part == a.meta.src_chunk_part
    && b.meta.dst_chunk_index == a.meta.dst_chunk_index && b.meta.dst_chunk_part == a.meta.dst_chunk_part
    && b.meta.epoch == (if stamped { e } else { a.meta.epoch })
}
pub open spec fn entries_post(a: Seq<MigrationSlotRangeStore>, b: Seq<MigrationSlotRangeStore>, p: Set<(usize, usize)>, all: bool, e: u64) -> bool {
    a.len() == b.len() && forall|i: int| 0 <= i < a.len() ==> entry_post(#[trigger] a[i], b[i], all || touches(a[i].meta, p), e)
}
pub open spec fn chunk_static_eq(a: ChunkStore, b: ChunkStore) -> bool {
    a.stable_slots == b.stable_slots && a.proxy_addresses == b.proxy_addresses && a.hosts == b.hosts && a.node_addresses == b.node_addresses
}
// first phase, on the hit chunk
pub open spec fn both_moved(a: ChunkStore, h: int) -> bool { a.role_position == flipped(1 - h) }
pub open spec fn hit_peers(a: ChunkStore, h: int) -> Set<(usize, usize)> {
    if both_moved(a, h) { positions_of(a.migrating_slots[h]@ + a.migrating_slots[1 - h]@) } else { positions_of(a.migrating_slots[h]@) }
}
pub open spec fn hit_post(a: ChunkStore, b: ChunkStore, failed: Seq<char>, e: u64, early: bool, peers: Set<(usize, usize)>) -> bool {
    let h = hit_half(a, failed);
    if a.role_position == flipped(h) { early && b == a && peers == Set::<(usize, usize)>::empty() }
    else {
        !early && chunk_static_eq(a, b) && b.role_position == flipped(h)
        && entries_post(a.migrating_slots[1 - h]@, b.migrating_slots[1 - h]@, Set::<(usize, usize)>::empty(), both_moved(a, h), e)
        && entries_post(a.migrating_slots[h]@, b.migrating_slots[h]@, Set::<(usize, usize)>::empty(), true, e)
        && peers == hit_peers(a, h)
    }
}
// second phase
pub open spec fn chunk_post2(a: ChunkStore, b: ChunkStore, p: Set<(usize, usize)>, e: u64) -> bool {
    chunk_static_eq(a, b) && a.role_position == b.role_position
    && entries_post(a.migrating_slots[0]@, b.migrating_slots[0]@, p, false, e)
    && entries_post(a.migrating_slots[1]@, b.migrating_slots[1]@, p, false, e)
}

pub open spec fn is_first_hit(oc: ClusterStore, j: int, failed: Seq<char>) -> bool {
    0 <= j < oc.chunks@.len() && is_hit(oc.chunks@[j], failed) && forall|i: int| 0 <= i < j ==> !is_hit(#[trigger] oc.chunks@[i], failed)
}
pub open spec fn chunk_final(a: ChunkStore, b: ChunkStore, is_j: bool, h: int, p: Set<(usize, usize)>, e: u64) -> bool {
    chunk_static_eq(a, b) && b.role_position == (if is_j { flipped(h) } else { a.role_position })
    && entries_post(a.migrating_slots[0]@, b.migrating_slots[0]@, p, is_j && (h == 0 || both_moved(a, h)), e)
    && entries_post(a.migrating_slots[1]@, b.migrating_slots[1]@, p, is_j && (h == 1 || both_moved(a, h)), e)
}
pub open spec fn takeover_post(oc: ClusterStore, nc: ClusterStore, failed: Seq<char>, e: u64) -> bool {
    &&& nc.chunks@.len() == oc.chunks@.len() && nc.name == oc.name && nc.config == oc.config
    &&& forall|j: int| #![trigger oc.chunks@[j]] is_first_hit(oc, j, failed) && oc.chunks@[j].role_position == flipped(hit_half(oc.chunks@[j], failed)) ==> nc.epoch == oc.epoch && nc.chunks@ =~= oc.chunks@
    &&& forall|j: int| #![trigger oc.chunks@[j]] is_first_hit(oc, j, failed) && oc.chunks@[j].role_position != flipped(hit_half(oc.chunks@[j], failed)) ==> {
            let h = hit_half(oc.chunks@[j], failed);
            nc.epoch == e && forall|c: int| 0 <= c < oc.chunks@.len() ==> chunk_final(#[trigger] oc.chunks@[c], nc.chunks@[c], c == j, h, hit_peers(oc.chunks@[j], h), e)
        }
    &&& (forall|i: int| 0 <= i < oc.chunks@.len() ==> !is_hit(#[trigger] oc.chunks@[i], failed)) ==>
            nc.epoch == e && forall|c: int| 0 <= c < oc.chunks@.len() ==> chunk_final(#[trigger] oc.chunks@[c], nc.chunks@[c], false, 0, Set::<(usize, usize)>::empty(), e)
}

impl MetaStore {
    pub fn bump_global_epoch(&mut self) -> (r: u64)
        requires old(self).global_epoch < u64::MAX
        ensures final(self).global_epoch == old(self).global_epoch + 1, r == final(self).global_epoch,
            final(self).clusters == old(self).clusters, final(self).all_proxies == old(self).all_proxies,
            final(self).failed_proxies == old(self).failed_proxies, final(self).failures == old(self).failures,
    {
        self.global_epoch += 1;
        self.global_epoch
    }
}
pub struct MetaStoreUpdate<'a> { store: &'a mut MetaStore }
impl<'a> MetaStoreUpdate<'a> {
    fn takeover_master(
        &mut self,
        cluster_name: &ClusterName,
        failed_proxy_address: String,
    ) -> (r: Result<(), MetaStoreError>)
        requires old(self).store.global_epoch < u64::MAX,
            vstd::std_specs::hash::obeys_key_model::<(usize, usize)>(),
            vstd::std_specs::hash::obeys_key_model::<ClusterName>(),
        ensures
            final(self).store.global_epoch == old(self).store.global_epoch + 1,
            final(self).store.failed_proxies == old(self).store.failed_proxies,
            r is Err ==> final(self).store.clusters@ == old(self).store.clusters@ && !old(self).store.clusters@.contains_key(*cluster_name),
            r is Ok ==> old(self).store.clusters@.contains_key(*cluster_name)
                && final(self).store.clusters@ == old(self).store.clusters@.insert(*cluster_name, final(self).store.clusters@[*cluster_name])
                && takeover_post(old(self).store.clusters@[*cluster_name], final(self).store.clusters@[*cluster_name], failed_proxy_address@, final(self).store.global_epoch),
{
        let new_epoch = self.store.bump_global_epoch();

        proof { axiom_key_of_same::<ClusterName>(cluster_name); }
        let ghost old_map = self.store.clusters@;
        let cluster = self
            .store
            .clusters
            .get_mut(cluster_name)
            .ok_or(MetaStoreError::ClusterNotFound)?;

        let mut peer_position = HashSet::new();
        let ghost old_cluster = *cluster;
        let ghost mut hit_idx: int = -1;
        broadcast use axiom_iter_mut_has_resolved;

        let mut verif_ret: Option<Result<(), MetaStoreError>> = None;
        for chunk in it: cluster.chunks.iter_mut()
            invariant_except_break
                hit_idx == -1,
                verif_ret is None,
                peer_position@ == Set::<(usize, usize)>::empty(),
                forall|i: int| 0 <= i < it.index@ ==> !is_hit(old_cluster.chunks@[i], failed_proxy_address@),
            invariant
                vstd::std_specs::hash::obeys_key_model::<(usize, usize)>(),
                verif_ret is Some ==> verif_ret == Some(Ok::<(), MetaStoreError>(())),
                it.seq().len() == old_cluster.chunks@.len(),
                forall|i: int| 0 <= i < it.seq().len() ==> *(#[trigger] it.seq()[i]) == old_cluster.chunks@[i],
                forall|i: int| 0 <= i < it.index@ - 1 ==> !is_hit(old_cluster.chunks@[i], failed_proxy_address@),
                forall|i: int| 0 <= i < it.index@ && !is_hit(old_cluster.chunks@[i], failed_proxy_address@) ==> *final(#[trigger] it.seq()[i]) == old_cluster.chunks@[i],
                forall|i: int| 0 <= i < it.index@ && is_hit(old_cluster.chunks@[i], failed_proxy_address@) ==> hit_post(old_cluster.chunks@[i], *final(#[trigger] it.seq()[i]), failed_proxy_address@, new_epoch, verif_ret is Some, peer_position@),
            ensures
                hit_idx == -1 ==> it.index@ == it.seq().len() && verif_ret is None,
                hit_idx == -1 ==> forall|i: int| 0 <= i < it.seq().len() ==> !is_hit(#[trigger] old_cluster.chunks@[i], failed_proxy_address@),
                hit_idx != -1 ==> hit_idx == it.index@ - 1 && 0 <= hit_idx < it.seq().len() && is_hit(old_cluster.chunks@[hit_idx], failed_proxy_address@),
                it.index@ == it.seq().len() || (it.index@ >= 1 && is_hit(old_cluster.chunks@[it.index@ - 1], failed_proxy_address@)),
                verif_ret is None && !(it.index@ >= 1 && is_hit(old_cluster.chunks@[it.index@ - 1], failed_proxy_address@)) ==> peer_position@ == Set::<(usize, usize)>::empty(),
        {
            if chunk.proxy_addresses[0] == failed_proxy_address {
                // We should never reset the tasks that they does not need to be.
                // And note that `replace_failed_proxy` will be called again and again,
                // which make the migration get reset again and again.
                if chunk.role_position == ChunkRolePosition::SecondChunkMaster {
                    { proof { hit_idx = it.index@; } verif_ret = Some(Ok(())); break; }
                }
                // If this proxy was holding both masters, the master of the other half moves as well.
                let both_moved = chunk.role_position == ChunkRolePosition::FirstChunkMaster;
                chunk.role_position = ChunkRolePosition::SecondChunkMaster;

                for migrating_slot_range in it2: chunk.migrating_slots[0].iter_mut()
                    invariant
                        vstd::std_specs::hash::obeys_key_model::<(usize, usize)>(),
                        0 <= it.index@ < old_cluster.chunks@.len(),
                        it2.seq().len() == old_cluster.chunks@[it.index@].migrating_slots[0]@.len(),
                        forall|i: int| 0 <= i < it2.seq().len() ==> *(#[trigger] it2.seq()[i]) == old_cluster.chunks@[it.index@].migrating_slots[0]@[i],
                        forall|i: int| 0 <= i < it2.index@ ==> entry_post(old_cluster.chunks@[it.index@].migrating_slots[0]@[i], *final(#[trigger] it2.seq()[i]), true, new_epoch),
                        peer_position@ == positions_of(old_cluster.chunks@[it.index@].migrating_slots[0]@.subrange(0, it2.index@)),
                {
                    migrating_slot_range.meta.epoch = new_epoch;
                    peer_position.insert((
                        migrating_slot_range.meta.src_chunk_index,
                        migrating_slot_range.meta.src_chunk_part,
                    ));
                    peer_position.insert((
                        migrating_slot_range.meta.dst_chunk_index,
                        migrating_slot_range.meta.dst_chunk_part,
                    ));
                    proof {
                        let sq = old_cluster.chunks@[it.index@].migrating_slots[0]@;
                        assert(sq.subrange(0, it2.index@ + 1).drop_last() =~= sq.subrange(0, it2.index@));
                        assert(sq.subrange(0, it2.index@ + 1).last() == sq[it2.index@]);
                    }
                }
                proof {
                    let s1 = old_cluster.chunks@[it.index@].migrating_slots[0]@;
                    let s2 = old_cluster.chunks@[it.index@].migrating_slots[1]@;
                    assert(s1.subrange(0, s1.len() as int) =~= s1);
                    assert(s1 + s2.subrange(0, 0) =~= s1);
                }
                if both_moved {
                    for migrating_slot_range in it2: chunk.migrating_slots[1].iter_mut()
                        invariant
                            vstd::std_specs::hash::obeys_key_model::<(usize, usize)>(),
                            0 <= it.index@ < old_cluster.chunks@.len(),
                            it2.seq().len() == old_cluster.chunks@[it.index@].migrating_slots[1]@.len(),
                            forall|i: int| 0 <= i < it2.seq().len() ==> *(#[trigger] it2.seq()[i]) == old_cluster.chunks@[it.index@].migrating_slots[1]@[i],
                            forall|i: int| 0 <= i < it2.index@ ==> entry_post(old_cluster.chunks@[it.index@].migrating_slots[1]@[i], *final(#[trigger] it2.seq()[i]), true, new_epoch),
                            peer_position@ == positions_of(old_cluster.chunks@[it.index@].migrating_slots[0]@ + old_cluster.chunks@[it.index@].migrating_slots[1]@.subrange(0, it2.index@)),
                    {
                        migrating_slot_range.meta.epoch = new_epoch;
                        peer_position.insert((
                            migrating_slot_range.meta.src_chunk_index,
                            migrating_slot_range.meta.src_chunk_part,
                        ));
                        peer_position.insert((
                            migrating_slot_range.meta.dst_chunk_index,
                            migrating_slot_range.meta.dst_chunk_part,
                        ));
                    proof {
                        let s1 = old_cluster.chunks@[it.index@].migrating_slots[0]@;
                        let sq = old_cluster.chunks@[it.index@].migrating_slots[1]@;
                        assert((s1 + sq.subrange(0, it2.index@ + 1)).drop_last() =~= s1 + sq.subrange(0, it2.index@));
                        assert((s1 + sq.subrange(0, it2.index@ + 1)).last() == sq[it2.index@]);
                    }
                    }
                }
                proof {
                    let s1 = old_cluster.chunks@[it.index@].migrating_slots[0]@;
                    let s2 = old_cluster.chunks@[it.index@].migrating_slots[1]@;
                    assert(s1.subrange(0, s1.len() as int) =~= s1);
                    assert(s1 + s2.subrange(0, s2.len() as int) =~= s1 + s2);
                }
                proof {
                    let sq = old_cluster.chunks@[it.index@].migrating_slots[0]@;
                    assert(sq.subrange(0, sq.len() as int) =~= sq);
                }
                proof { hit_idx = it.index@; }
                break;
            } else if chunk.proxy_addresses[1] == failed_proxy_address {
                if chunk.role_position == ChunkRolePosition::FirstChunkMaster {
                    { proof { hit_idx = it.index@; } verif_ret = Some(Ok(())); break; }
                }
                // If this proxy was holding both masters, the master of the other half moves as well.
                let both_moved = chunk.role_position == ChunkRolePosition::SecondChunkMaster;
                chunk.role_position = ChunkRolePosition::FirstChunkMaster;

                for migrating_slot_range in it2: chunk.migrating_slots[1].iter_mut()
                    invariant
                        vstd::std_specs::hash::obeys_key_model::<(usize, usize)>(),
                        0 <= it.index@ < old_cluster.chunks@.len(),
                        it2.seq().len() == old_cluster.chunks@[it.index@].migrating_slots[1]@.len(),
                        forall|i: int| 0 <= i < it2.seq().len() ==> *(#[trigger] it2.seq()[i]) == old_cluster.chunks@[it.index@].migrating_slots[1]@[i],
                        forall|i: int| 0 <= i < it2.index@ ==> entry_post(old_cluster.chunks@[it.index@].migrating_slots[1]@[i], *final(#[trigger] it2.seq()[i]), true, new_epoch),
                        peer_position@ == positions_of(old_cluster.chunks@[it.index@].migrating_slots[1]@.subrange(0, it2.index@)),
                {
                    migrating_slot_range.meta.epoch = new_epoch;
                    peer_position.insert((
                        migrating_slot_range.meta.src_chunk_index,
                        migrating_slot_range.meta.src_chunk_part,
                    ));
                    peer_position.insert((
                        migrating_slot_range.meta.dst_chunk_index,
                        migrating_slot_range.meta.dst_chunk_part,
                    ));
                    proof {
                        let sq = old_cluster.chunks@[it.index@].migrating_slots[1]@;
                        assert(sq.subrange(0, it2.index@ + 1).drop_last() =~= sq.subrange(0, it2.index@));
                        assert(sq.subrange(0, it2.index@ + 1).last() == sq[it2.index@]);
                    }
                }
                proof {
                    let s1 = old_cluster.chunks@[it.index@].migrating_slots[1]@;
                    let s2 = old_cluster.chunks@[it.index@].migrating_slots[0]@;
                    assert(s1.subrange(0, s1.len() as int) =~= s1);
                    assert(s1 + s2.subrange(0, 0) =~= s1);
                }
                if both_moved {
                    for migrating_slot_range in it2: chunk.migrating_slots[0].iter_mut()
                        invariant
                            vstd::std_specs::hash::obeys_key_model::<(usize, usize)>(),
                            0 <= it.index@ < old_cluster.chunks@.len(),
                            it2.seq().len() == old_cluster.chunks@[it.index@].migrating_slots[0]@.len(),
                            forall|i: int| 0 <= i < it2.seq().len() ==> *(#[trigger] it2.seq()[i]) == old_cluster.chunks@[it.index@].migrating_slots[0]@[i],
                            forall|i: int| 0 <= i < it2.index@ ==> entry_post(old_cluster.chunks@[it.index@].migrating_slots[0]@[i], *final(#[trigger] it2.seq()[i]), true, new_epoch),
                            peer_position@ == positions_of(old_cluster.chunks@[it.index@].migrating_slots[1]@ + old_cluster.chunks@[it.index@].migrating_slots[0]@.subrange(0, it2.index@)),
                    {
                        migrating_slot_range.meta.epoch = new_epoch;
                        peer_position.insert((
                            migrating_slot_range.meta.src_chunk_index,
                            migrating_slot_range.meta.src_chunk_part,
                        ));
                        peer_position.insert((
                            migrating_slot_range.meta.dst_chunk_index,
                            migrating_slot_range.meta.dst_chunk_part,
                        ));
                    proof {
                        let s1 = old_cluster.chunks@[it.index@].migrating_slots[1]@;
                        let sq = old_cluster.chunks@[it.index@].migrating_slots[0]@;
                        assert((s1 + sq.subrange(0, it2.index@ + 1)).drop_last() =~= s1 + sq.subrange(0, it2.index@));
                        assert((s1 + sq.subrange(0, it2.index@ + 1)).last() == sq[it2.index@]);
                    }
                    }
                }
                proof {
                    let s1 = old_cluster.chunks@[it.index@].migrating_slots[1]@;
                    let s2 = old_cluster.chunks@[it.index@].migrating_slots[0]@;
                    assert(s1.subrange(0, s1.len() as int) =~= s1);
                    assert(s1 + s2.subrange(0, s2.len() as int) =~= s1 + s2);
                }
                proof {
                    let sq = old_cluster.chunks@[it.index@].migrating_slots[1]@;
                    assert(sq.subrange(0, sq.len() as int) =~= sq);
                }
                proof { hit_idx = it.index@; }
                break;
            }
        }
        let ghost mid = *cluster;
        proof {
            let oc = old_cluster; let fa = failed_proxy_address@;
            assert(mid.chunks@.len() == oc.chunks@.len());
            assert(mid.epoch == oc.epoch && mid.name == oc.name && mid.config == oc.config);
            if hit_idx == -1 {
                assert forall|c: int| 0 <= c < oc.chunks@.len() implies !is_hit(#[trigger] oc.chunks@[c], fa) && mid.chunks@[c] == oc.chunks@[c] by {}
            } else {
                assert(is_first_hit(oc, hit_idx, fa));
                assert(hit_post(oc.chunks@[hit_idx], mid.chunks@[hit_idx], fa, new_epoch, verif_ret is Some, peer_position@));
                assert forall|c: int| 0 <= c < oc.chunks@.len() && c != hit_idx implies mid.chunks@[c] == #[trigger] oc.chunks@[c] by {}
            }
        }
        if let Some(verif_r) = verif_ret {
            proof {
                assert(cluster.chunks@ =~= old_cluster.chunks@);
                assert forall|j: int| is_first_hit(old_cluster, j, failed_proxy_address@) implies j == hit_idx by {}
            }
            return verif_r;
        }

        for chunk in it: cluster.chunks.iter_mut()
            invariant
                vstd::std_specs::hash::obeys_key_model::<(usize, usize)>(),
                it.seq().len() == mid.chunks@.len(),
                forall|i: int| 0 <= i < it.seq().len() ==> *(#[trigger] it.seq()[i]) == mid.chunks@[i],
                forall|i: int| 0 <= i < it.index@ ==> chunk_post2(mid.chunks@[i], *final(#[trigger] it.seq()[i]), peer_position@, new_epoch),
        {
            for migrating_slots in it2: chunk.migrating_slots.iter_mut()
                invariant
                    vstd::std_specs::hash::obeys_key_model::<(usize, usize)>(),
                    0 <= it.index@ < mid.chunks@.len(),
                    it2.seq().len() == 2,
                    forall|i: int| 0 <= i < 2 ==> (*(#[trigger] it2.seq()[i]))@ == mid.chunks@[it.index@].migrating_slots[i]@,
                    forall|i: int| 0 <= i < it2.index@ ==> entries_post(mid.chunks@[it.index@].migrating_slots[i]@, (*final(#[trigger] it2.seq()[i]))@, peer_position@, false, new_epoch),
            {
                for migrating_slot_range in it3: migrating_slots.iter_mut()
                    invariant
                        vstd::std_specs::hash::obeys_key_model::<(usize, usize)>(),
                        0 <= it.index@ < mid.chunks@.len(), 0 <= it2.index@ < 2,
                        it3.seq().len() == mid.chunks@[it.index@].migrating_slots[it2.index@]@.len(),
                        forall|i: int| 0 <= i < it3.seq().len() ==> *(#[trigger] it3.seq()[i]) == mid.chunks@[it.index@].migrating_slots[it2.index@]@[i],
                        forall|i: int| 0 <= i < it3.index@ ==> entry_post(mid.chunks@[it.index@].migrating_slots[it2.index@]@[i], *final(#[trigger] it3.seq()[i]), touches(mid.chunks@[it.index@].migrating_slots[it2.index@]@[i].meta, peer_position@), new_epoch),
                {
                    let src_index = migrating_slot_range.meta.src_chunk_index;
                    let src_part = migrating_slot_range.meta.src_chunk_part;
                    let dst_index = migrating_slot_range.meta.dst_chunk_index;
                    let dst_part = migrating_slot_range.meta.dst_chunk_part;
                    if peer_position.contains(&(src_index, src_part))
                        || peer_position.contains(&(dst_index, dst_part))
                    {
                        migrating_slot_range.meta.epoch = new_epoch;
                    }
                }
            }
        }
        cluster.epoch = new_epoch;
        proof {
            let oc = old_cluster; let nc = *cluster; let fa = failed_proxy_address@; let pp = peer_position@;
            assert(nc.chunks@.len() == oc.chunks@.len());
            assert forall|c: int| 0 <= c < oc.chunks@.len() implies chunk_post2(mid.chunks@[c], #[trigger] nc.chunks@[c], pp, new_epoch) by {}
            if hit_idx == -1 {
                assert(pp == Set::<(usize, usize)>::empty());
                assert forall|c: int| 0 <= c < oc.chunks@.len() implies chunk_final(#[trigger] oc.chunks@[c], nc.chunks@[c], false, 0, Set::<(usize, usize)>::empty(), new_epoch) by {
                    assert(mid.chunks@[c] == oc.chunks@[c]);
                    assert(chunk_post2(mid.chunks@[c], nc.chunks@[c], pp, new_epoch));
                }
            } else {
                let j = hit_idx; let h = hit_half(oc.chunks@[j], fa);
                assert forall|jj: int| is_first_hit(oc, jj, fa) implies jj == j by {}
                assert(oc.chunks@[j].role_position != flipped(h));
                assert(pp == hit_peers(oc.chunks@[j], h));
                assert forall|c: int| 0 <= c < oc.chunks@.len() implies chunk_final(#[trigger] oc.chunks@[c], nc.chunks@[c], c == j, h, pp, new_epoch) by {
                    assert(chunk_post2(mid.chunks@[c], nc.chunks@[c], pp, new_epoch));
                    if c != j { assert(mid.chunks@[c] == oc.chunks@[c]); }
                }
            }
        }
        Ok(())
    }
}
} // verus!
fn main() {}
