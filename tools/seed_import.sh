#!/bin/bash
# seed_import.sh <P> <X|Y> <suffix>   -- copy a sub-agent's change into /verif/seeded/<P>_<suffix>, confirm it (seed_verify.sh), write meta.json
P=$1; V=$2; S=$3; SRC=${SEED_SRC:-/tmp/seedwt/$P.out}/$V; DST=/verif/seeded/${P}_$S
[ -f $SRC/patch.diff ] || { echo "no $SRC/patch.diff"; exit 3; }
mkdir -p $DST; cp $SRC/patch.diff $SRC/demo.diff $DST/; cp $SRC/notes.md $DST/notes.md 2>/dev/null
bash /verif/tools/seed_verify.sh $DST > $DST/verify.log 2>&1
cat $DST/verify.log
