#![feature(allocator_api)]
use vstd::prelude::*;
use std::collections::HashMap;
use std::collections::hash_map::ValuesMut;
use core::alloc::Allocator;
verus! {

#[verifier::external_type_specification]
#[verifier::external_body]
#[verifier::accept_recursive_types(K)]
#[verifier::accept_recursive_types(V)]
pub struct ExValuesMut<'a, K: 'a, V: 'a>(ValuesMut<'a, K, V>);

pub assume_specification<'a, K, V, S, A: Allocator>[ HashMap::<K, V, S, A>::values_mut ](m: &'a mut HashMap<K, V, S, A>) -> (r: ValuesMut<'a, K, V>);

pub struct ClusterStore { pub epoch: u64 }
pub struct MetaStore {
    pub global_epoch: u64,
    pub clusters: HashMap<u64, ClusterStore>,
}
fn max(a: u64, b: u64) -> (r: u64) ensures r == (if a >= b { a } else { b }) { if a >= b { a } else { b } }

impl MetaStore {
    pub fn recover_epoch(&mut self, exsting_largest_epoch: u64)
        requires old(self).global_epoch < u64::MAX
    {
        let new_epoch = max(exsting_largest_epoch, self.global_epoch + 1);
        self.global_epoch = new_epoch;

        for cluster in self.clusters.values_mut() {
            cluster.epoch = new_epoch;
        }
    }
}

} // verus!
fn main() {}
