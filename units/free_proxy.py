# C06 (last sentence): MetaStoreQuery::get_free_proxy_resource (src/broker/query.rs) - proxies marked failed or
# under failure report are never offered for allocation
import re
import vlib
from units import broker_common

ALLOCATABLE_SPEC = '''
// statement of C06: "Proxies marked failed or under failure report are never allocated to a cluster"
pub open spec fn allocatable(s: MetaStore, p: ProxyResource) -> bool {
    p.cluster is None && !s.failed_proxies@.contains(p.proxy_address) && !s.failures@.contains_key(p.proxy_address)
}
'''
SPEC = ALLOCATABLE_SPEC + '''
// a (host, proxy address) pair taken from a registered, allocatable proxy
pub open spec fn from_free(s: MetaStore, hp: HostProxy) -> bool {
    exists|p: ProxyResource| #![trigger s.all_proxies@.values().contains(p)] s.all_proxies@.values().contains(p) && allocatable(s, p) && hp.proxy_address == p.proxy_address && hp.host == p.host
}
'''
GET_FREE_RESOURCE_HEADER = '''    pub fn get_free_proxy_resource(&self) -> (r: Vec<ProxyResource>)
        requires vstd::std_specs::hash::obeys_key_model::<String>(),
        ensures forall|i: int| 0 <= i < r@.len() ==> allocatable(*self.store, #[trigger] r@[i]) && self.store.all_proxies@.values().contains(r@[i]),'''
GET_FREE_PROXIES_HEADER = '''    pub fn get_free_proxies(&self) -> (r: Vec<HostProxy>)
        requires vstd::std_specs::hash::obeys_key_model::<String>(),
        ensures forall|i: int| 0 <= i < r@.len() ==> from_free(*self.store, #[trigger] r@[i]),'''

def build(U):
    broker_common.head(U)
    T = broker_common.types(U, store_types=[('struct', 'HostProxy')] + broker_common.STORE_TYPES)
    U.add(T)
    U.add('''
pub assume_specification<T: Clone, S: Clone, A: Allocator + Clone>[ <HashSet<T, S, A> as Clone>::clone ](s: &HashSet<T, S, A>) -> (r: HashSet<T, S, A>) ensures r@ == s@;
impl Clone for ProxyResource { #[verifier::external_body] fn clone(&self) -> (r: Self) ensures r == *self { unimplemented!() } }
''' + SPEC + '''pub struct MetaStoreQuery<'a> { pub store: &'a MetaStore }
impl<'a> MetaStoreQuery<'a> {
''')
    Q = U.src('src/broker/query.rs')
    f = Q.fn('get_free_proxy_resource')
    f.r1_logging()
    # D8: top-level `if C { continue; }` in the for body -> `if !(C) { rest }`
    n = 0
    while True:
        m = re.search(r'\n([ \t]*)if ([^\n{]+) \{\s*continue;\s*\}\n', f.text)
        if not m:
            break
        # rest of the enclosing block
        start = m.end()
        mask = vlib.code_mask(f.text)
        d = 0; k = start
        while True:
            if mask[k]:
                if f.text[k] == '{': d += 1
                elif f.text[k] == '}':
                    if d == 0: break
                    d -= 1
            k += 1
        rest = f.text[start:k]
        f.text = f.text[:m.start()] + '\n' + m.group(1) + 'if !(' + m.group(2) + ') {\n' + rest + m.group(1) + '}\n' + re.search(r'[ \t]*$', rest).group(0) + f.text[k:]
        n += 1
    if n == 0:
        f._lost('D8 continue pattern')
    U.log.rule('D8', f, '%d continue(s) -> nested if' % n)
    f.header(GET_FREE_RESOURCE_HEADER)
    f.loop_spec(0, '''            invariant
                vstd::std_specs::hash::obeys_key_model::<String>(),
                failed_proxies@ == self.store.failed_proxies@, failures@.dom() =~= self.store.failures@.dom(),
                forall|i: int| 0 <= i < free_proxies@.len() ==> allocatable(*self.store, #[trigger] free_proxies@[i]),
                forall|i: int| 0 <= i < free_proxies@.len() ==> self.store.all_proxies@.values().contains(#[trigger] free_proxies@[i]),''', itname='it')
    U.add_fn(f)
    # get_free_proxies: the same list, reduced to (host, proxy address)
    g = Q.fn('get_free_proxies')
    m = re.search(r'self\.get_free_proxy_resource\(\)\s*\.into_iter\(\)\s*\.map\(\|proxy_resource\| (HostProxy \{.*?\n\s*\})\)\s*\.collect\(\)', g.text, re.S)
    if not m:
        g._lost('D2b: into_iter().map(|x| E).collect() as the result expression')
    g.text = (g.text[:m.start()] + 'let verif_src = self.get_free_proxy_resource();\n        let mut verif_acc: Vec<HostProxy> = Vec::new();\n        for proxy_resource in verif_src.into_iter() {\n            verif_acc.push('
              + m.group(1) + ');\n        }\n        verif_acc' + g.text[m.end():])
    U.log.rule('D2b', g, 'R.into_iter().map(|x| E).collect() as result expression -> push loop (E verbatim)')
    g.header(GET_FREE_PROXIES_HEADER)
    g.loop_spec(0, '''            invariant
                it2.seq() == verif_src@,
                forall|i: int| 0 <= i < verif_src@.len() ==> allocatable(*self.store, #[trigger] verif_src@[i]) && self.store.all_proxies@.values().contains(verif_src@[i]),
                forall|i: int| 0 <= i < verif_acc@.len() ==> from_free(*self.store, #[trigger] verif_acc@[i]),''', itname='it2')
    U.add_fn(g)
    U.add("}\n} // verus!\nfn main() {}\n")
    U.trust('HashSet::clone preserves the view (assume_specification); derived Clone of ProxyResource is structural')

MUST_FAIL = '''
proof fn must_fail_allocatable_not_trivial(s: MetaStore, p: ProxyResource) requires p.cluster is None ensures allocatable(s, p) { }
'''
