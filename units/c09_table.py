# C09 (installed slot map): SlotMap::from_ranges (src/proxy/slot.rs) - the routing table is built from the slot ranges of the
# metadata: slot s is routed to an address only if one of that address's slot ranges covers s, and to nobody only if no slot
# range of any address covers s.  Modular: SlotMapData::new appears through the contract proved in unit c09.
import re
import vlib
from units import broker_common

PRE = '''use vstd::prelude::*;
use std::collections::HashMap;
verus! {
global size_of usize == 8;
broadcast use vstd::std_specs::hash::group_hash_axioms;
pub open spec fn in_ranges(rs: Seq<(usize, usize)>, s: int) -> bool { exists|j: int| 0 <= j < rs.len() && (#[trigger] rs[j]).0 <= s <= rs[j].1 }
pub open spec fn pv(v: Vec<(usize, usize)>) -> Seq<(usize, usize)> { v@ }
// a slot range list of the metadata covers slot s (whatever its tag)
pub open spec fn covers(srs: Seq<SlotRange>, s: int) -> bool {
    exists|i: int, j: int| 0 <= i < srs.len() && 0 <= j < srs[i].range_list.0@.len() && (#[trigger] srs[i].range_list.0@[j]).0 <= s <= srs[i].range_list.0@[j].1
}
pub struct SlotMapData { pub slot_arr: Vec<Option<usize>>, pub addrs: Vec<String> }
impl SlotMapData {
    pub open spec fn wf(&self) -> bool { forall|i: int| 0 <= i < self.slot_arr@.len() ==> ((#[trigger] self.slot_arr@[i]) matches Some(k) ==> k < self.addrs@.len()) }
    // proved in unit c09 on the real text; the contract text is the header of contracts/slot_map_new.overlay.json
    #[verifier::external_body]
@NEW_HEADER@
    { unimplemented!() }
}
// D9b: HashMap::into_iter() yields every entry exactly once (distinct keys) in an unspecified order
#[verifier::external_body]
fn shim_into_entries(m: HashMap<String, Vec<SlotRange>>) -> (r: Vec<(String, Vec<SlotRange>)>)
    ensures forall|i: int| 0 <= i < r@.len() ==> m@.contains_key((#[trigger] r@[i]).0) && m@[r@[i].0] == r@[i].1,
            forall|k: String| m@.contains_key(k) ==> exists|i: int| 0 <= i < r@.len() && (#[trigger] r@[i]).0 == k,
            forall|i: int, j: int| 0 <= i < j < r@.len() ==> (#[trigger] r@[i]).0 != (#[trigger] r@[j]).0,
{ unimplemented!() }
// the (start, end) pairs collected from the first n slot ranges (+ the first m ranges of the next one)
pub open spec fn covers_upto(srs: Seq<SlotRange>, n: int, m: int, s: int) -> bool {
    exists|i: int, j: int| 0 <= i < srs.len() && 0 <= j < srs[i].range_list.0@.len() && (i < n || (i == n && j < m)) && (#[trigger] srs[i].range_list.0@[j]).0 <= s <= srs[i].range_list.0@[j].1
}
'''

def build(U):
    import json, os
    ov = json.load(open(os.path.join(vlib.VERIF, 'contracts', 'slot_map_new.overlay.json')))
    new_header = [op for op in ov['ops'] if op['op'] == 'header'][0]['text']
    L = U.src('src/proxy/slot.rs')
    C = U.src('src/common/cluster.rs')
    U.add(PRE.replace('@NEW_HEADER@', new_header))
    for k, n in [('struct', 'Range'), ('struct', 'RangeList'), ('struct', 'MigrationMeta'), ('enum', 'SlotRangeTag'), ('struct', 'SlotRange')]:
        U.add(vlib.pub_fields(broker_common.strip(C.item(k, n))) + '\n')
    g = C.fn('get_range_list', within=r'impl SlotRange\b')
    g.header("    pub fn get_range_list(&self) -> (r: &RangeList)\n        ensures *r == self.range_list")
    U.add('impl SlotRange {\n'); U.add_fn(g); U.add('}\n')
    g = C.fn('get_ranges', within=r'impl RangeList\b')
    g.header("    pub fn get_ranges(&self) -> (r: &[Range])\n        ensures r@ == self.0@")
    U.add('impl RangeList {\n'); U.add_fn(g); U.add('}\n')
    U.add('impl Range {\n')
    for nm, fld in (('start', '0'), ('end', '1')):
        g = C.fn(nm, within=r'impl Range\b')
        g.header("    pub fn %s(&self) -> (r: usize)\n        ensures r == self.%s" % (nm, fld))
        U.add_fn(g)
    U.add('}\n')
    if not re.search(r'pub struct SlotMap \{\s*data: SlotMapData,\s*\}', L.text):
        raise vlib.Undecided('SlotMap layout changed')
    U.add('pub struct SlotMap { pub data: SlotMapData }\nimpl SlotMap {\n')
    f = L.fn('from_ranges', within=r'impl SlotMap\b')
    f.r1_logging()
    f.replace('D9b', 'for (addr, slot_ranges) in slot_map {', 'let verif_entries = shim_into_entries(slot_map);\n        for (addr, slot_ranges) in verif_entries.into_iter() {', count=1)
    f.replace('R-iter', 'for range in slot_range.get_range_list().get_ranges() {', 'for range in slot_range.get_range_list().get_ranges().iter() {', count=1)
    f.apply_overlay('slot_map_from_ranges')
    U.add_fn(f)
    g = L.fn('get', within=r'impl SlotMap\b')
    g.header('''    pub fn get(&self, slot: usize) -> (r: Option<&str>)
        requires self.data.wf()
        ensures match r { Some(a) => slot < self.data.slot_arr@.len() && (self.data.slot_arr@[slot as int] matches Some(k) && a@ == self.data.addrs@[k as int]@), None => slot >= self.data.slot_arr@.len() || self.data.slot_arr@[slot as int] is None }''')
    U.add_fn(g)
    from units import c09 as _c09
    U.add('''}
impl SlotMapData {
    // proved in unit c09 on the real text; the contract text is imported from that unit
    #[verifier::external_body]
    @GET_HEADER@
    { unimplemented!() }
}
'''.replace('@GET_HEADER@', _c09.GET_HEADER))
    # ---- which command element is the key that gets hashed (CommandInfo::get_key, src/proxy/command.rs)
    CM = U.src('src/proxy/command.rs')
    dct = re.sub(r'\n\s*//[^\n]*', '', broker_common.strip(CM.item('enum', 'DataCmdType')))
    U.add('#[derive(PartialEq, Eq, Clone, Copy, Structural)]\n' + dct + '\n')
    U.add('''#[verifier::external_body] pub struct RespPacket { x: u8 }
impl RespPacket {
    // element i of the command array (None if there is none / it is no bulk string); proved on Resp<Vec<u8>> in unit resp_utils
    pub uninterp spec fn elem(&self, i: int) -> Option<Seq<u8>>;
    #[verifier::external_body] pub fn get_array_element(&self, index: usize) -> (r: Option<&[u8]>)
        ensures match r { Some(s) => self.elem(index as int) == Some(s@), None => self.elem(index as int) is None } { unimplemented!() }
}
// Redis syntax: EVAL script numkeys key [key ...] / EVALSHA sha1 numkeys key [key ...]: the first key is argument 3; every other
// supported data command has its (first) key at argument 1
pub open spec fn key_index(ty: DataCmdType) -> int { if ty == DataCmdType::Eval || ty == DataCmdType::Evalsha { 3 } else { 1 } }
pub struct CommandInfo;
impl CommandInfo {
''')
    k = CM.fn('get_key', within=r'impl CommandInfo\b')
    k.header('''    fn get_key(data_cmd_type: DataCmdType, packet: &RespPacket) -> (r: Option<&[u8]>)
        ensures match r { Some(s) => packet.elem(key_index(data_cmd_type)) == Some(s@), None => packet.elem(key_index(data_cmd_type)) is None }''')
    U.add_fn(k)
    U.add('''}
} // verus!
fn main() {}
''')
    U.trust('RespPacket opaque: get_array_element(i) is element i of the command array (contract proved for common::utils::get_command_element in unit resp_utils; the delegation is read)','SlotMapData::new / get through their contracts proved in unit c09', 'D9b: HashMap::into_iter yields every entry once with distinct keys (shim_into_entries)',
            'R-iter: `for x in slice` == `for x in slice.iter()`', 'derived Hash/Eq of String obey the key model (precondition)')

MUST_FAIL = '''
proof fn must_fail_c09_table_covers_trivial(srs: Seq<SlotRange>, s: int) requires srs.len() > 0 ensures covers(srs, s) { }
'''
