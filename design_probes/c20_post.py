s=open('/tmp/km/x/c20.rs').read()
def must(old,new,count=1):
    global s
    assert s.count(old)>=1, old[:70]
    s=s.replace(old,new,count)
spec='''
// ---- statement-level spec of C20 (write side) ----
pub open spec fn value_index(ty: DataCmdType, i: int) -> bool {
    match ty {
        DataCmdType::Getset | DataCmdType::Set | DataCmdType::Setnx => i == 2,
        DataCmdType::Psetex | DataCmdType::Setex => i == 3,
        DataCmdType::Mset | DataCmdType::Msetnx => i >= 2 && i % 2 == 0,
        _ => false,
    }
}
pub open spec fn compressed(ty: DataCmdType, a: Seq<Vec<u8>>, b: Seq<Vec<u8>>) -> bool {
    a.len() == b.len() && forall|i: int| 0 <= i < a.len() ==> (#[trigger] b[i])@ == (if value_index(ty, i) { enc(a[i]@) } else { a[i]@ })
}
pub open spec fn partly(ty: DataCmdType, a: Seq<Vec<u8>>, b: Seq<Vec<u8>>) -> bool {
    a.len() == b.len() && forall|i: int| 0 <= i < a.len() ==> ((#[trigger] b[i])@ == a[i]@ || (value_index(ty, i) && b[i]@ == enc(a[i]@)))
}
pub open spec fn same(a: Seq<Vec<u8>>, b: Seq<Vec<u8>>) -> bool { a.len() == b.len() && forall|i: int| 0 <= i < a.len() ==> (#[trigger] b[i])@ == a[i]@ }
pub open spec fn is_write_cmd(ty: DataCmdType) -> bool { value_index(ty, 2) || value_index(ty, 3) }
'''
must("pub trait CompressionStrategyConfig {", spec+"pub trait CompressionStrategyConfig {")
must("pub fn try_compressing_cmd_ctx(&self, cmd_ctx: &mut CmdCtx) -> Result<(), CompressionError> {","""pub fn try_compressing_cmd_ctx(&self, cmd_ctx: &mut CmdCtx) -> (r: Result<(), CompressionError>)
        ensures final(cmd_ctx).cmd.ty == old(cmd_ctx).cmd.ty,
            match r {
                Ok(()) => if is_write_cmd(old(cmd_ctx).cmd.ty) { compressed(old(cmd_ctx).cmd.ty, old(cmd_ctx).cmd.elems@, final(cmd_ctx).cmd.elems@) } else { same(old(cmd_ctx).cmd.elems@, final(cmd_ctx).cmd.elems@) },
                Err(CompressionError::Disabled) | Err(CompressionError::RestrictedCmd) | Err(CompressionError::UnsupportedCmdType) => same(old(cmd_ctx).cmd.elems@, final(cmd_ctx).cmd.elems@),
                Err(_) => partly(old(cmd_ctx).cmd.ty, old(cmd_ctx).cmd.elems@, final(cmd_ctx).cmd.elems@),
            },
    {""")
must("fn compress_one_element(cmd_ctx: &mut CmdCtx, index: usize) -> Result<(), CompressionError> {","""fn compress_one_element(cmd_ctx: &mut CmdCtx, index: usize) -> (r: Result<(), CompressionError>)
        ensures final(cmd_ctx).cmd.ty == old(cmd_ctx).cmd.ty,
            match r {
                Ok(()) => index < old(cmd_ctx).cmd.elems@.len() && final(cmd_ctx).cmd.elems@.len() == old(cmd_ctx).cmd.elems@.len()
                    && final(cmd_ctx).cmd.elems@[index as int]@ == enc(old(cmd_ctx).cmd.elems@[index as int]@)
                    && forall|i: int| 0 <= i < old(cmd_ctx).cmd.elems@.len() && i != index ==> (#[trigger] final(cmd_ctx).cmd.elems@[i]) == old(cmd_ctx).cmd.elems@[i],
                Err(e) => final(cmd_ctx).cmd.elems@ == old(cmd_ctx).cmd.elems@ && !(e is Disabled) && !(e is RestrictedCmd) && !(e is UnsupportedCmdType),
            },
    {""")
must("                for index in indices.into_iter() {","""                for index in it: indices.into_iter()
                    invariant
                        cmd_ctx.cmd.ty == old(cmd_ctx).cmd.ty, it.seq() == indices@,
                        forall|i: int| 0 <= i < indices@.len() ==> indices@[i] == 2 + i * 2 && indices@[i] < old(cmd_ctx).cmd.elems@.len(),
                        cmd_ctx.cmd.elems@.len() == old(cmd_ctx).cmd.elems@.len(),
                        forall|i: int| 0 <= i < cmd_ctx.cmd.elems@.len() ==> (#[trigger] cmd_ctx.cmd.elems@[i])@ == (if i >= 2 && i % 2 == 0 && i < 2 + it.index@ * 2 { enc(old(cmd_ctx).cmd.elems@[i]@) } else { old(cmd_ctx).cmd.elems@[i]@ }),
                {""")
open('/tmp/km/x/c20.rs','w').write(s)
