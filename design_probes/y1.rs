use vstd::prelude::*;
verus! {
global size_of usize == 8;

pub const LF: u8 = 10;
pub const CR: u8 = 13;
pub enum ParseError { InvalidProtocol, NotEnoughData, UnexpectedErr }

// ======================= strict RESP grammar as spec =======================
pub enum SResp { Error(int, int), Simple(int, int), Integer(int, int), BulkNil, Bulk(int, int), ArrNil, Arr(Seq<SResp>) }
pub enum SRes<T> { Ok(T, int), NotEnough, Invalid }

pub open spec fn first_lf(s: Seq<u8>) -> Option<int>
    decreases s.len()
{
    if s.len() == 0 { None } else if s[0] == LF { Some(0int) } else { match first_lf(s.subrange(1, s.len() as int)) { Some(i) => Some(i + 1), None => None } }
}
pub uninterp spec fn spec_btoi(s: Seq<u8>) -> Option<int>;   // decimal value if s is a valid i64 literal

// a line: (end of content, consumed)
pub open spec fn spec_line(s: Seq<u8>) -> SRes<int> {
    match first_lf(s) {
        None => SRes::NotEnough,
        Some(i) => if i == 0 || s[i - 1] != CR { SRes::Invalid } else { SRes::Ok(i - 1, i + 1) },
    }
}
pub open spec fn spec_len(s: Seq<u8>) -> SRes<int> {
    match spec_line(s) {
        SRes::Ok(end, c) => match spec_btoi(s.subrange(0, end)) { Some(n) => SRes::Ok(n, c), None => SRes::Invalid },
        SRes::NotEnough => SRes::NotEnough,
        SRes::Invalid => SRes::Invalid,
    }
}
// bulk body (after '$'), indices relative to s
pub open spec fn spec_bulk(s: Seq<u8>) -> SRes<SResp> {
    match spec_len(s) {
        SRes::Ok(n, c) =>
            if n < -1 { SRes::Invalid }
            else if n == -1 { SRes::Ok(SResp::BulkNil, c) }
            else if s.len() < c + n + 2 { SRes::NotEnough }
            else if s[c + n] != CR || s[c + n + 1] != LF { SRes::Invalid }
            else { SRes::Ok(SResp::Bulk(c, c + n), c + n + 2) },
        SRes::NotEnough => SRes::NotEnough,
        SRes::Invalid => SRes::Invalid,
    }
}
pub open spec fn shift(r: SResp, k: int) -> SResp
    decreases r
{
    match r {
        SResp::Error(a, b) => SResp::Error(a + k, b + k),
        SResp::Simple(a, b) => SResp::Simple(a + k, b + k),
        SResp::Integer(a, b) => SResp::Integer(a + k, b + k),
        SResp::BulkNil => SResp::BulkNil,
        SResp::Bulk(a, b) => SResp::Bulk(a + k, b + k),
        SResp::ArrNil => SResp::ArrNil,
        SResp::Arr(v) => SResp::Arr(Seq::new(v.len(), |i: int| if 0 <= i < v.len() { shift(v[i], k) } else { SResp::ArrNil })),
    }
}
pub open spec fn spec_resp(s: Seq<u8>) -> SRes<SResp>
    decreases s.len(), 2int, 0int
{
    if s.len() == 0 { SRes::NotEnough } else {
        let t = s.subrange(1, s.len() as int);
        let p = s[0];
        if p == 36u8 /* $ */ { match spec_bulk(t) { SRes::Ok(v, c) => SRes::Ok(shift(v, 1), c + 1), SRes::NotEnough => SRes::NotEnough, SRes::Invalid => SRes::Invalid } }
        else if p == 43u8 /* + */ { match spec_line(t) { SRes::Ok(e, c) => SRes::Ok(SResp::Simple(1, e + 1), c + 1), SRes::NotEnough => SRes::NotEnough, SRes::Invalid => SRes::Invalid } }
        else if p == 58u8 /* : */ { match spec_line(t) { SRes::Ok(e, c) => SRes::Ok(SResp::Integer(1, e + 1), c + 1), SRes::NotEnough => SRes::NotEnough, SRes::Invalid => SRes::Invalid } }
        else if p == 45u8 /* - */ { match spec_line(t) { SRes::Ok(e, c) => SRes::Ok(SResp::Error(1, e + 1), c + 1), SRes::NotEnough => SRes::NotEnough, SRes::Invalid => SRes::Invalid } }
        else if p == 42u8 /* * */ { match spec_array(t) { SRes::Ok(v, c) => SRes::Ok(shift(v, 1), c + 1), SRes::NotEnough => SRes::NotEnough, SRes::Invalid => SRes::Invalid } }
        else { SRes::Invalid }
    }
}
pub open spec fn spec_array(s: Seq<u8>) -> SRes<SResp>
    decreases s.len(), 1int, 0int
{
    match spec_len(s) {
        SRes::Ok(n, c) =>
            if n < -1 { SRes::Invalid }
            else if n == -1 { SRes::Ok(SResp::ArrNil, c) }
            else if c < 1 || c > s.len() { SRes::Invalid }   // unreachable: a line consumes >= 2
            else { match spec_elems(s, c, n, Seq::<SResp>::empty()) { SRes::Ok(v, c2) => SRes::Ok(SResp::Arr(v), c2), SRes::NotEnough => SRes::NotEnough, SRes::Invalid => SRes::Invalid } },
        SRes::NotEnough => SRes::NotEnough,
        SRes::Invalid => SRes::Invalid,
    }
}
// parse k more elements of s starting at pos (1 <= pos <= len), accumulating
pub open spec fn spec_elems(s: Seq<u8>, pos: int, k: int, acc: Seq<SResp>) -> SRes<Seq<SResp>>
    decreases s.len(), 0int, k
{
    if k <= 0 { SRes::Ok(acc, pos) }
    else if pos < 1 || pos > s.len() { SRes::Invalid }
    else {
        match spec_resp(s.subrange(pos, s.len() as int)) {
            SRes::Ok(v, c) => if c < 1 { SRes::Invalid } else { spec_elems(s, pos + c, k - 1, acc.push(shift(v, pos))) },
            SRes::NotEnough => SRes::NotEnough,
            SRes::Invalid => SRes::Invalid,
        }
    }
}

// ======================= code-side types and views =======================
pub struct DataIndex(pub usize, pub usize);
pub enum BulkStr<T> { Str(T), Nil }
pub enum Array<T> { Arr(Vec<Resp<T>>), Nil }
pub enum Resp<T> { Error(T), Simple(T), Bulk(BulkStr<T>), Integer(T), Arr(Array<T>) }
pub type BulkStrIndex = BulkStr<DataIndex>;
pub type ArrayIndex = Array<DataIndex>;
pub type RespIndex = Resp<DataIndex>;

pub open spec fn view_bulk(b: BulkStrIndex) -> SResp { match b { BulkStr::Str(d) => SResp::Bulk(d.0 as int, d.1 as int), BulkStr::Nil => SResp::BulkNil } }
pub open spec fn view_resp(r: RespIndex) -> SResp
    decreases r
{
    match r {
        Resp::Error(d) => SResp::Error(d.0 as int, d.1 as int),
        Resp::Simple(d) => SResp::Simple(d.0 as int, d.1 as int),
        Resp::Integer(d) => SResp::Integer(d.0 as int, d.1 as int),
        Resp::Bulk(b) => view_bulk(b),
        Resp::Arr(a) => view_arr(a),
    }
}
pub open spec fn view_arr(a: ArrayIndex) -> SResp
    decreases a
{
    match a { Array::Arr(v) => SResp::Arr(Seq::new(v@.len(), |i: int| if 0 <= i < v@.len() { view_resp(v@[i]) } else { SResp::ArrNil })), Array::Nil => SResp::ArrNil }
}
pub open spec fn err_matches<T>(e: ParseError, r: SRes<T>) -> bool {
    match e { ParseError::NotEnoughData => r is NotEnough, ParseError::InvalidProtocol => r is Invalid, ParseError::UnexpectedErr => false }
}

// ======================= trusted shims =======================
pub open spec const MAX_BUF: int = 0x3fff_ffff_ffff_ffff;
#[verifier::external_body]
fn memchr(c: u8, s: &[u8]) -> (r: Option<usize>)
    ensures match r {
        Some(i) => i < s@.len() && s@[i as int] == c && forall|j: int| 0 <= j < i ==> s@[j] != c,
        None => forall|j: int| 0 <= j < s@.len() ==> s@[j] != c,
    }
{ unimplemented!() }
#[verifier::external_body]
fn btoi(s: &[u8]) -> (r: Result<i64, ()>)
    ensures match r { Ok(n) => spec_btoi(s@) == Some(n as int), Err(_) => spec_btoi(s@).is_none() }
{ unimplemented!() }
#[verifier::external_body]
fn shim_get_range(s: &[u8], a: usize, b: usize) -> (r: Option<&[u8]>)
    ensures match r { Some(t) => a <= b <= s@.len() && t@ == s@.subrange(a as int, b as int), None => !(a <= b <= s@.len()) }
{ s.get(a..b) }

pub proof fn lemma_first_lf(s: Seq<u8>)
    ensures match first_lf(s) {
        Some(i) => 0 <= i < s.len() && s[i] == LF && forall|j: int| 0 <= j < i ==> s[j] != LF,
        None => forall|j: int| 0 <= j < s.len() ==> s[j] != LF,
    }
    decreases s.len()
{
    if s.len() == 0 {} else if s[0] == LF {} else {
        let t = s.subrange(1, s.len() as int);
        lemma_first_lf(t);
        match first_lf(t) {
            Some(i) => { assert forall|j: int| 0 <= j < i + 1 implies s[j] != LF by { if j > 0 { assert(t[j - 1] == s[j]); } } assert(t[i] == s[i + 1]); }
            None => { assert forall|j: int| 0 <= j < s.len() implies s[j] != LF by { if j > 0 { assert(t[j - 1] == s[j]); } } }
        }
    }
}

// ======================= extracted code (strict text) =======================
fn parse_line(buf: &[u8]) -> (res: Result<(DataIndex, usize), ParseError>)
    requires buf@.len() <= MAX_BUF
    ensures match res {
        Ok((d, c)) => spec_line(buf@) == SRes::Ok(d.1 as int, c as int) && d.0 == 0 && d.1 + 2 == c && c <= buf@.len(),
        Err(e) => err_matches(e, spec_line(buf@)),
    }
{
    proof { lemma_first_lf(buf@); }
    let lf_index = memchr(LF, buf).ok_or(ParseError::NotEnoughData)?;
    if lf_index == 0 || buf.get(lf_index - 1) != Some(&CR) {
        return Err(ParseError::InvalidProtocol);
    }

    // s >= 2
    // Just ignore the CR
    let line = DataIndex(0, lf_index + 1 - 2);
    Ok((line, lf_index + 1))
}

fn parse_len(buf: &[u8]) -> (res: Result<(i64, usize), ParseError>)
    requires buf@.len() <= MAX_BUF
    ensures match res {
        Ok((l, c)) => spec_len(buf@) == SRes::Ok(l as int, c as int) && 2 <= c <= buf@.len(),
        Err(e) => err_matches(e, spec_len(buf@)),
    }
{
    let (data_index, consumed) = parse_line(buf)?;
    let next_buf = shim_get_range(buf, data_index.0, data_index.1)
        .ok_or(ParseError::UnexpectedErr)?;

    let len = btoi(next_buf).map_err(|_e: ()| -> (r: ParseError) ensures r is InvalidProtocol { ParseError::InvalidProtocol })?;
    Ok((len, consumed))
}

fn parse_bulk_str(buf: &[u8]) -> (res: Result<(BulkStrIndex, usize), ParseError>)
    requires buf@.len() <= MAX_BUF
    ensures match res {
        Ok((v, c)) => spec_bulk(buf@) == SRes::Ok(view_bulk(v), c as int) && 2 <= c <= buf@.len(),
        Err(e) => err_matches(e, spec_bulk(buf@)),
    }
{
    let (len, consumed) = parse_len(buf)?;
    if len < -1 {
        return Err(ParseError::InvalidProtocol);
    }
    if len < 0 {
        return Ok((BulkStrIndex::Nil, consumed));
    }

    let content_size = len as usize;
    if buf.len() < consumed + content_size + 2 {
        return Err(ParseError::NotEnoughData);
    }
    if buf.get(consumed + content_size) != Some(&CR) || buf.get(consumed + content_size + 1) != Some(&LF) {
        return Err(ParseError::InvalidProtocol);
    }

    let s = DataIndex(consumed, consumed + content_size);
    Ok((BulkStrIndex::Str(s), consumed + content_size + 2))
}
} // verus!
fn main() {}
