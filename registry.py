# property -> legs.  Only claimed properties appear here; MANIFEST.json is generated from this table
# by tools/gen_manifest.py.
PROPS = {
 'C19': {
   'verus': ['c19'], 'kani': ['c19'],
   'level': 'proof',
   'explanation': 'pttl_to_restore_expire_time / pttl_need_to_be_no_expire proved (Verus, unbounded) against the statement-level spec spec_restore_ttl_ok for every PTTL reply; the call sites of the three transfer paths are covered by a syntactic scan only; Kani harnesses (<= 3 bytes, bounded) supply counterexamples and cross-check the assumed btoi contract.',
   'not_under_contract': ['forward_entries / produce_entries / get_data_entry (async): only the call-site scan', 'gen_restore_resp: see C20/C19 notes in DESIGN 4.19'],
   'assumptions': ['Redis PTTL/RESTORE semantics as in the statement (0 = no expiry for RESTORE)'],
 },
}
