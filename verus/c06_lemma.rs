// ---------- property-level clause (*) of C06 ----------
pub open spec fn proxy_of_node(k: int) -> int { k / 2 }
pub open spec fn master_node(rp: ChunkRolePosition, p: int) -> int {
    match rp {
        ChunkRolePosition::Normal => 2 * p,
        ChunkRolePosition::FirstChunkMaster => if proxy_of_node(2 * p) == 0 { 2 * p } else { 3 - 2 * p },
        ChunkRolePosition::SecondChunkMaster => if proxy_of_node(2 * p) == 1 { 2 * p } else { 3 - 2 * p },
    }
}
pub open spec fn valid_meta(m: MigrationMetaStore, n: int) -> bool {
    m.src_chunk_index < n && m.dst_chunk_index < n && m.src_chunk_part < 2 && m.dst_chunk_part < 2
}
// which nodes an entry's rendered addresses name
pub open spec fn rendered(m: MigrationMetaStore, cs: ClusterStore) -> (int, int) {
    (master_node(cs.chunks@[m.src_chunk_index as int].role_position, m.src_chunk_part as int),
     master_node(cs.chunks@[m.dst_chunk_index as int].role_position, m.dst_chunk_part as int))
}
// (*)local: in the chunk whose proxy failed, every half whose master node moves has all its entries re-stamped
pub proof fn lemma_c06_star_local(oc: ClusterStore, nc: ClusterStore, failed: Seq<char>, e: u64, j: int, p: int)
    requires takeover_post(oc, nc, failed, e), is_first_hit(oc, j, failed), 0 <= p < 2,
        oc.chunks@[j].role_position != flipped(hit_half(oc.chunks@[j], failed)),
        master_node(oc.chunks@[j].role_position, p) != master_node(nc.chunks@[j].role_position, p),
    ensures forall|i: int| 0 <= i < nc.chunks@[j].migrating_slots[p]@.len() ==> (#[trigger] nc.chunks@[j].migrating_slots[p]@[i]).meta.epoch == e
{
    let h = hit_half(oc.chunks@[j], failed);
    assert(chunk_final(oc.chunks@[j], nc.chunks@[j], true, h, hit_peers(oc.chunks@[j], h), e));
    if p == h {
        assert forall|i: int| 0 <= i < nc.chunks@[j].migrating_slots[p]@.len() implies (#[trigger] nc.chunks@[j].migrating_slots[p]@[i]).meta.epoch == e by {
            assert(entry_post(oc.chunks@[j].migrating_slots[p]@[i], nc.chunks@[j].migrating_slots[p]@[i], true, e));
        }
    } else {
        // the other half only moves when the failed proxy held both masters
        assert(both_moved(oc.chunks@[j], h));
        assert forall|i: int| 0 <= i < nc.chunks@[j].migrating_slots[p]@.len() implies (#[trigger] nc.chunks@[j].migrating_slots[p]@[i]).meta.epoch == e by {
            assert(entry_post(oc.chunks@[j].migrating_slots[p]@[i], nc.chunks@[j].migrating_slots[p]@[i], true, e));
        }
    }
}
