import sys,re; sys.path.insert(0,'/tmp/km/x')
from cut import *
utils=open('/repo/src/common/utils.rs').read()
slot=open('/repo/src/proxy/slot.rs').read()
s1=open('/tmp/km/v/s1.rs').read()     # has spec_hash_tag + shims + verified get_hash_tag (hand-built earlier)
i=s1.index("// ---------------- extracted from src/common/utils.rs")
head=s1[:i]
ght=fn(utils,'get_hash_tag')
gs=fn(utils,'generate_slot')
# R3/R4 on real text
ght=ght.replace("key.iter().position(|x| *x as char == '{')","shim_position_u8(key, '{' as u8)")
ght=ght.replace(""".get(begin + 1..)
            .and_then(|t| t.iter().position(|x| *x as char == '}'))""","""XX""")
ght=ght.replace("key\n            XX","shim_get_from(key, begin + 1)\n            .and_then(|t: &[u8]| -> (o: Option<usize>)\n                ensures match o {\n                    Some(i) => i < t@.len() && t@[i as int] == 125u8 && forall|j: int| 0 <= j < i ==> t@[j] != 125u8,\n                    None => forall|j: int| 0 <= j < t@.len() ==> t@[j] != 125u8,\n                }\n                { shim_position_u8(t, '}' as u8) })")
ght=ght.replace("key\n                .get(begin + 1..begin + 1 + end_offset)","shim_get_range(key, begin + 1, begin + 1 + end_offset)")
ght=ght.replace("pub fn get_hash_tag(key: &[u8]) -> &[u8] {","pub fn get_hash_tag(key: &[u8]) -> (r: &[u8])\n    ensures r@ == spec_hash_tag(key@)\n{\n    proof { lemma_first_index(key@, 123u8); lemma_slice_len(key); }")
ght=ght.replace("    if let Some(begin) = shim_position_u8(key, '{' as u8) {\n","    if let Some(begin) = shim_position_u8(key, '{' as u8) {\n        proof { lemma_first_index_unique(key@, 123u8, begin as int); lemma_first_index(key@.subrange(begin + 1, key@.len() as int), 125u8); }\n")
gs=gs.replace("State::<XMODEM>::calculate(get_hash_tag(key))","shim_crc16_xmodem(get_hash_tag(key))")
gs=gs.replace("pub fn generate_slot(key: &[u8]) -> usize {","pub fn generate_slot(key: &[u8]) -> (r: usize)\n    ensures r == spec_crc16_xmodem(spec_hash_tag(key@)) % 16384, r < 16384\n{")
extra='''
global size_of usize == 8;
pub const SLOT_NUM: usize = 16384;
#[verifier::external_body] pub proof fn lemma_slice_len(s: &[u8]) ensures s@.len() <= usize::MAX {}
pub uninterp spec fn spec_crc16_xmodem(s: Seq<u8>) -> int;     // bitwise CRC-16/XMODEM; tied to the crate by the Kani square (3.7)
#[verifier::external_body] fn shim_crc16_xmodem(s: &[u8]) -> (r: u16) ensures r == spec_crc16_xmodem(s@) { unimplemented!() }
'''
get=fn(slot,'get',after='impl SlotMapData')
get=get.replace("pub fn get(&self, slot: usize) -> Option<&str> {","pub fn get(&self, slot: usize) -> (r: Option<&str>)\n        requires forall|i: int| 0 <= i < self.slot_arr@.len() ==> ((#[trigger] self.slot_arr@[i]) matches Some(k) ==> k < self.addrs@.len())\n        ensures match r { Some(a) => slot < self.slot_arr@.len() && (self.slot_arr@[slot as int] matches Some(k) && a@ == self.addrs@[k as int]@), None => slot >= self.slot_arr@.len() || self.slot_arr@[slot as int] is None }\n    {")
get=get.replace('.and_then(|opt| *opt)?','.and_then(|opt: &Option<usize>| -> (o: Option<usize>) ensures o == *opt { *opt })?')
get=get.replace('.map(|s| s.as_str())','.map(|s: &String| -> (o: &str) ensures o@ == s@ { s.as_str() })')
out=head+extra+"// ---------------- extracted from src/common/utils.rs, src/proxy/slot.rs ----------------\n"+ght+"\n"+gs+"\npub struct SlotMapData { pub slot_arr: Vec<Option<usize>>, pub addrs: Vec<String> }\nimpl SlotMapData {\n"+get+"\n}\n} // verus!\nfn main() {}\n"
open('/tmp/km/x/c09.rs','w').write(out)
