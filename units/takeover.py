# C06 / C04 / C01: MetaStoreUpdate::takeover_master (src/broker/update.rs) against the complete functional
# description takeover_post (verus/takeover_spec.rs, DESIGN 4.6).
# Text = real function + rules R1, D10 + line-anchored overlay contracts/takeover_master.overlay.json
# (contract, 8 loop specs, ghost snapshots, proof hints; derived from the calibrated probes w3_build/w3_post).
import re
import vlib
from vlib import Undecided
from units import broker_common
import overlay as _overlay

UPDATE_STRUCT = "pub struct MetaStoreUpdate<'a> { pub store: &'a mut MetaStore }\n"


def bump_global_epoch(U):
    S = U.src('src/broker/store.rs')
    b = S.fn('bump_global_epoch', within=r'impl MetaStore\b')
    b.header("""    pub fn bump_global_epoch(&mut self) -> (r: u64)
        requires old(self).global_epoch < u64::MAX
        ensures final(self).global_epoch == old(self).global_epoch + 1, r == final(self).global_epoch,
            final(self).clusters == old(self).clusters, final(self).all_proxies == old(self).all_proxies,
            final(self).failed_proxies == old(self).failed_proxies, final(self).failures == old(self).failures,
            final(self).enable_ordered_proxy == old(self).enable_ordered_proxy, final(self).version == old(self).version,""")
    return b


def contract_text():
    """signature + requires/ensures of takeover_master as stored in the overlay (used verbatim by callers' units)"""
    for op in _overlay.load('takeover_master')['ops']:
        if op['op'] == 'header':
            return op['text'] + '\n'
    raise Undecided('takeover_master overlay has no header')


def function(U):
    S = U.src('src/broker/update.rs')
    f = S.fn('takeover_master')
    f.r1_logging()
    vlib.d10_return_in_for(f, 0, 'Result<(), MetaStoreError>')
    f.apply_overlay('takeover_master')
    return f


def parts(U):
    bump = bump_global_epoch(U)
    specs = open(vlib.VERIF + '/verus/takeover_spec.rs').read().replace('//@@BUMP@@', bump.text)
    return {'specs': specs, 'contract': contract_text(), 'fn': function(U), 'bump': bump}


def build(U):
    broker_common.head(U)
    U.add(broker_common.types(U))
    P = parts(U)
    U.add(P['specs'])
    U.add(UPDATE_STRUCT + "impl<'a> MetaStoreUpdate<'a> {\n")
    U.add_fn(P['fn'])
    U.add("}\n")
    U.prelude('c06_lemma.rs')
    U.prelude('epoch_spec.rs')
    U.add(FIRST_HIT_LEMMA)
    U.add(epoch_lemma('takeover_master', P['contract'], 'cluster_name: ClusterName, failed_proxy_address: String, r: Result<(), MetaStoreError>', hint=TAKEOVER_EPOCH_HINT))
    U.add("} // verus!\nfn main() {}\n")


FIRST_HIT_LEMMA = '''
pub proof fn lemma_first_hit(oc: ClusterStore, fa: Seq<char>, n: int) -> (j: int)
    requires 0 <= n <= oc.chunks@.len()
    ensures (j == -1 && forall|i: int| 0 <= i < n ==> !is_hit(#[trigger] oc.chunks@[i], fa)) || (0 <= j < n && is_first_hit(oc, j, fa))
    decreases n
{
    if n == 0 { -1 } else {
        let j = lemma_first_hit(oc, fa, n - 1);
        if j != -1 { j } else if is_hit(oc.chunks@[n - 1], fa) { n - 1 } else { -1 }
    }
}
'''
TAKEOVER_EPOCH_HINT = '''
    if r is Ok {
        let oc = o.clusters@[cluster_name]; let nc = n.clusters@[cluster_name]; let fa = failed_proxy_address@;
        let j = lemma_first_hit(oc, fa, oc.chunks@.len() as int);
        if j != -1 { let tr = oc.chunks@[j]; }
        assert(nc.epoch == n.global_epoch || (nc.epoch == oc.epoch && nc.chunks@ =~= oc.chunks@));
        assert forall|k: ClusterName| o.clusters@.contains_key(k) && n.clusters@.contains_key(k) implies
            (#[trigger] n.clusters@[k]).epoch >= o.clusters@[k].epoch
            && (!content_eq(o.clusters@[k], n.clusters@[k]) ==> n.clusters@[k].epoch == n.global_epoch && n.global_epoch > o.global_epoch) by {
            if k != cluster_name { assert(n.clusters@[k] == o.clusters@[k]); }
        }
        assert(n.clusters@.dom() =~= o.clusters@.dom());
    }
'''


def epoch_lemma(name, contract, params, extra_requires='', hint=''):
    """C04 link: the *proved* postcondition of a mutator implies the epoch contract.  The lemma's requires is the
    ensures clause of the contract, transcribed mechanically (old(self).store -> o, final(self).store -> n)."""
    ens = contract[contract.index('ensures') + len('ensures'):]
    ens = ens.replace('final(self).store', 'n').replace('old(self).store', 'o').replace('*cluster_name', 'cluster_name')
    return '''
pub proof fn lemma_%s_epoch_contract(o: MetaStore, n: MetaStore, %s)
    requires inv_epoch(o), o.global_epoch < u64::MAX - 1, %s
%s
    ensures epoch_contract(o, n)
{ %s }
''' % (name, params, extra_requires, ens.rstrip().rstrip(','), hint)

MUST_FAIL = '''
// the trusted T-iter axiom must not prove that an element modified before `break` is unchanged
fn must_fail_titer_sanity(v: &mut Vec<u64>)
    requires old(v)@.len() > 0
    ensures final(v)@.len() == old(v)@.len(), forall|i: int| 0 <= i < old(v)@.len() ==> final(v)@[i] == old(v)@[i]
{
    broadcast use axiom_iter_mut_has_resolved;
    for x in it: v.iter_mut()
        invariant it.seq().len() == old(v)@.len(), forall|i: int| 0 <= i < it.seq().len() ==> *(#[trigger] it.seq()[i]) == old(v)@[i],
    {
        *x = 7;
        break;
    }
}
proof fn must_fail_takeover_post_not_trivial(oc: ClusterStore, nc: ClusterStore, failed: Seq<char>, e: u64)
    requires oc.chunks@.len() > 0, nc.chunks@.len() == oc.chunks@.len(), nc.name == oc.name, nc.config == oc.config
    ensures takeover_post(oc, nc, failed, e)
{ }
'''
