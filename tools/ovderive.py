#!/usr/bin/env python3
# authoring aid: derive contracts/<name>.overlay.json from <dir>/<name>.src.rs (dumped by VERIF_OVERLAY_DUMP) and the
# hand-annotated <dir>/<name>.ann.rs.   usage: tools/ovderive.py <name> [dir]
import sys, os
HERE = os.path.dirname(os.path.abspath(__file__)); sys.path.insert(0, HERE)
import overlay
name = sys.argv[1]; d = sys.argv[2] if len(sys.argv) > 2 else '/var/tmp/ovdump'
src = open(os.path.join(d, name + '.src.rs')).read(); ann = open(os.path.join(d, name + '.ann.rs')).read()
ov, ok, chk = overlay.derive_and_save(name, src, ann)
print('%d ops, replay reproduces the annotated text: %s' % (len(ov['ops']), ok))
if not ok:
    open(os.path.join(d, name + '.replayed.rs'), 'w').write(chk)
    sys.exit(1)
