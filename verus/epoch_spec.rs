// ---- C04: epochs version every change and never regress (DESIGN 4.4) ----
pub open spec fn inv_epoch(s: MetaStore) -> bool { forall|k: ClusterName| s.clusters@.contains_key(k) ==> (#[trigger] s.clusters@[k]).epoch <= s.global_epoch }
pub open spec fn content_eq(a: ClusterStore, b: ClusterStore) -> bool { a.chunks@ == b.chunks@ && a.config == b.config && a.name == b.name }
pub open spec fn epoch_contract(o: MetaStore, n: MetaStore) -> bool {
    &&& n.global_epoch >= o.global_epoch
    &&& inv_epoch(n)
    &&& forall|k: ClusterName| o.clusters@.contains_key(k) && n.clusters@.contains_key(k) ==>
            (#[trigger] n.clusters@[k]).epoch >= o.clusters@[k].epoch
            && (!content_eq(o.clusters@[k], n.clusters@[k]) ==> n.clusters@[k].epoch == n.global_epoch && n.global_epoch > o.global_epoch)
    &&& forall|k: ClusterName| !o.clusters@.contains_key(k) && n.clusters@.contains_key(k) ==> (#[trigger] n.clusters@[k]).epoch == n.global_epoch && n.global_epoch > o.global_epoch
    // membership / free pool (what a free proxy is served) changed => global epoch bumped.
    // failed_proxies and failures are deliberately not in this clause (not part of served metadata, DESIGN 4.4)
    &&& (o.clusters@.dom() != n.clusters@.dom() || o.all_proxies@ != n.all_proxies@) ==> n.global_epoch > o.global_epoch
}
pub open spec fn store_same(o: MetaStore, n: MetaStore) -> bool {
    n.global_epoch == o.global_epoch && n.clusters@ =~= o.clusters@ && n.all_proxies@ == o.all_proxies@ && n.failed_proxies@ == o.failed_proxies@ && n.failures@ == o.failures@ && n.version == o.version
}
