# C15 (multi-packet decoder): OptionalMultiPacketDecoder::decode (src/protocol/packet.rs) as a state machine over an
# opaque packet decoder D: packets decoded in an earlier read are never dropped, a pending multi-packet request stays
# pending until it completes with exactly the requested number of packets in decode order.
# Termination of the `loop` is NOT claimed (it depends on the byte buffer, which is opaque here).
import re
import vlib
from units import broker_common

PRE = '''use vstd::prelude::*;
verus! {
#[verifier::external_body] pub struct BytesMut { x: u8 }     // bytes::BytesMut, opaque
#[verifier::external_body] pub struct OptionalMultiHintState { x: u8 }   // Arc<AtomicUsize>, opaque
impl OptionalMultiHintState {
    // what the next consume() hands out (the producer side is another task: any value)
    pub uninterp spec fn next(&self) -> Option<OptionalMultiHint<()>>;
    // real signature: consume(&self) on an Arc<atomic>; modelled with a mutable receiver (call text unchanged) so that two calls
    // are NOT assumed to return the same hint
    #[verifier::external_body] fn consume(&mut self) -> (r: Option<OptionalMultiHint<()>>) ensures r == old(self).next() { unimplemented!() }
}
#[verifier::external_body]
fn clone_hint(h: &OptionalMultiHint<()>) -> (r: OptionalMultiHint<()>) ensures r == *h { unimplemented!() }
#[verifier::external_body]
fn shim_take_all<T>(v: &mut Vec<T>) -> (r: Vec<T>) ensures r@ == old(v)@, final(v)@.len() == 0 { unimplemented!() }
// the request this call works on: the pending one, else the one it takes from the hint state
spec fn hint_of<D: DecodedPacket<Hint = ()>>(d: OptionalMultiPacketDecoder<D>) -> Option<OptionalMultiHint<()>> { match d.curr_hint { Some(h) => Some(h), None => d.state.next() } }
pub open spec fn is_prefix<T>(a: Seq<T>, b: Seq<T>) -> bool { a.len() <= b.len() && forall|i: int| 0 <= i < a.len() ==> a[i] == b[i] }
'''

HEADER = '''    #[verifier::exec_allows_no_decreases_clause]
    fn decode(&mut self, buf: &mut BytesMut) -> (r: Result<Option<OptionalMulti<D>>, DecodeError>)
        ensures
            // nothing that was already decoded is dropped
            r matches Ok(None) ==> is_prefix(old(self).buf@, final(self).buf@),
            r matches Ok(Some(OptionalMulti::Multi(v))) ==> (is_prefix(old(self).buf@, v@) || v@.len() == 0) && final(self).curr_hint is None,
            r matches Ok(Some(OptionalMulti::Single(p))) ==> final(self).buf@ == old(self).buf@ && final(self).curr_hint is None,
            // a multi-packet request (pending, or taken from the hint state by this call) completes with exactly as many packets as were requested; a single request with one
            hint_of(*old(self)) matches Some(OptionalMulti::Multi(hs)) ==> (hs@.len() > 0 ==> (r matches Ok(Some(OptionalMulti::Multi(v))) ==> v@.len() == hs@.len()) && !(r matches Ok(Some(OptionalMulti::Single(_))))),
            hint_of(*old(self)) matches Some(OptionalMulti::Single(_)) ==> !(r matches Ok(Some(OptionalMulti::Multi(_)))),
            // an unfinished request - also one taken from the hint state by this very call - stays pending; nothing requested: nothing happens
            r matches Ok(None) ==> final(self).curr_hint == hint_of(*old(self)),
            hint_of(*old(self)) is None ==> (r matches Ok(None)) && final(self).buf@ == old(self).buf@,'''

def build(U):
    P = U.src('src/protocol/packet.rs')
    Dd = U.src('src/protocol/decoder.rs')
    U.add(PRE)
    de = broker_common.strip(Dd.item('enum', 'DecodeError'))
    de = re.sub(r'Io\(io::Error\)', 'Io', de)      # payload type out of reach, never inspected here
    U.add(de + '\n')
    U.add(broker_common.strip(P.item('trait', 'DecodedPacket')) + '\n')
    U.add(broker_common.strip(P.item('enum', 'OptionalMulti')) + '\n')
    U.add(P.item('type', 'OptionalMultiHint') + '\n')
    U.add(vlib.pub_fields(broker_common.strip(P.item('struct', 'OptionalMultiPacketDecoder'))) + '\n')
    f = P.fn('decode', within=r'impl<D: DecodedPacket<Hint = \(\)>> PacketDecoder for OptionalMultiPacketDecoder<D>')
    f.r1_logging()
    # R-trait: the method is cut out of `impl PacketDecoder for ..` into an inherent impl (Self::Pkt = OptionalMulti<D>)
    f.sub('R-trait', r'fn decode\(&mut self, buf: &mut BytesMut\) -> Result<Option<Self::Pkt>, DecodeError>\s*where\s*Self: Sized,\s*\{',
          'fn decode(&mut self, buf: &mut BytesMut) -> Result<Option<OptionalMulti<D>>, DecodeError>\n    {', count=1)
    f.replace('R-clone', 'Some(h) => h.clone(),', 'Some(h) => clone_hint(h),', count=1)
    f.replace('R-clone', 'self.curr_hint = Some(h.clone());', 'self.curr_hint = Some(clone_hint(&h));', count=1)
    f.replace('D6', 'let v = self.buf.drain(..).collect();', 'let v = shim_take_all(&mut self.buf);', count=1)
    f.header(HEADER)
    f.loop_spec(0, '''            invariant is_prefix(old(self).buf@, self.buf@), hint is Single ==> self.buf@ == old(self).buf@,
                hint_of(*old(self)) == Some(hint), self.curr_hint == Some(hint),''')
    U.add('impl<D: DecodedPacket<Hint = ()>> OptionalMultiPacketDecoder<D> {\n')
    U.add_fn(f)
    U.add('}\n} // verus!\nfn main() {}\n')
    U.trust('DecodedPacket::decode (trait-generic) and bytes::BytesMut opaque; OptionalMultiHintState::consume returns an arbitrary hint; derived Clone of OptionalMulti<()> structural; Vec::drain(..).collect() = take all (D6)',
            'termination of the decode loop not claimed')

MUST_FAIL = '''
proof fn must_fail_prefix_not_trivial(a: Seq<u8>, b: Seq<u8>) requires a.len() <= b.len() ensures is_prefix(a, b) { }
'''
