# C19 - migration preserves key expiry: the two PTTL -> RESTORE-ttl functions (DESIGN 4.19)
import re

def cfn(name, val):
    bs = ', '.join('%du8' % b for b in val)
    return ("pub fn %s() -> (r: &'static [u8]) ensures r@ == seq![%s] { let x: &'static [u8] = &[%s]; assert(x@ =~= seq![%s]); x }\n"
            % (name.lower(), bs, bs, bs))

def build(U):
    S = U.src('src/migration/scan_migration.rs')
    U.prelude('c19_pre.rs')
    # R11: byte-string constants, bytes copied from the source on every run
    consts = re.findall(r'pub const ((?:PTTL|RESTORE)_\w+): &\[u8\] = b"', S.text)
    for c in consts:
        U.add(cfn(c, S.const_bytes(c)))
    cre = r'\b(' + '|'.join(consts) + r')\b' 
    f1 = S.fn('pttl_to_restore_expire_time')
    f2 = S.fn('pttl_need_to_be_no_expire')
    for f in (f1, f2):
        f.r1_logging()
        # R11 / R10 / R5
        f.text = re.sub(cre, lambda m: m.group(1).lower() + '()', f.text)
        slice_params = set(re.findall(r'(\w+): &\[u8\]', f.text[:f.text.index('{')]))
        def r10(m):
            lhs = m.group(1)
            return 'if shim_slice_eq(%s, %s) {' % (lhs if lhs in slice_params else '%s.as_slice()' % lhs, m.group(2))
        f.text, n = re.subn(r'\bif (\w+) == (\w+\(\)) \{', r10, f.text)
        if n: U.log.rule('R10', f, '%d slice comparison(s)' % n)
        f.text, n = re.subn(r'btoi::btoi::<i64>\(', 'shim_btoi_i64(', f.text)
        if n: U.log.rule('R5', f, '%d btoi::<i64> call(s)' % n)
        f.text = re.sub(r'(\w+)\(([^()]*)\) == Ok\((\d+)\)', r'(match \1(\2) { Ok(verif_n) => verif_n == \3, Err(_e) => false })', f.text)
        f.text = f.text.replace('Err(_) =>', 'Err(_e) =>')
        f.text = re.sub(r'extend_from_slice\(b"(\d)"\)', lambda m: 'push(%du8)' % ord(m.group(1)), f.text)
    f1.header("pub fn pttl_to_restore_expire_time(pttl: Vec<u8>) -> (out: Vec<u8>)\n    ensures spec_restore_ttl_ok(pttl@, out@)")
    f1.body_start("    proof { lemma_btoi_minus1(); lemma_btoi_digit(49u8); lemma_btoi_digit(48u8); }")
    f2.header("fn pttl_need_to_be_no_expire(buf: &[u8]) -> (r: bool)\n    ensures match spec_btoi_i64(buf@) { Some(n) => (n < 0 ==> r) && (n > 0 ==> !r), None => true }")
    f2.body_start("    proof { lemma_btoi_minus1(); }")
    U.add_fn(f1)
    U.add_fn(f2)
    # ---- on-demand pull path: the RESTORE command is [RESTORE, key, converted ttl, payload] (gen_restore_resp, migration_backend.rs)
    from units import broker_common
    R = U.src('src/protocol/resp.rs')
    for n in ('BulkStr', 'Array', 'Resp'):
        U.add(broker_common.strip(R.item('enum', n)) + '\n')
    U.add('pub type BinSafeStr = Vec<u8>;\npub type RespVec = Resp<BinSafeStr>;\n'
          '#[verifier::external_body] fn shim_slice_to_vec(s: &[u8]) -> (r: Vec<u8>) ensures r@ == s@ { s.into() }\n'
          'pub open spec fn is_bulk_of(r: RespVec, b: Seq<u8>) -> bool { r matches Resp::Bulk(BulkStr::Str(x)) && x@ == b }\n')
    M = U.src('src/proxy/migration_backend.rs')
    g = M.fn('gen_restore_resp')
    lits = {}
    def lit(m):
        bs = m.group(1).encode()
        nm = 'lit_vec_' + ''.join('%02x' % b for b in bs)
        lits[nm] = bs
        return nm + '()'
    g.text, n = re.subn(r'"([A-Za-z]+)"\.to_string\(\)\.into_bytes\(\)', lit, g.text)
    if n != 1: g._lost('R11c: one "LIT".to_string().into_bytes()')
    U.log.rule('R11c', g, '%d string literal -> byte vector constant' % n)
    g.replace('R-into', 'key.into()', 'shim_slice_to_vec(key)', count=1)
    for nm, bs in lits.items():
        q = ', '.join('%du8' % b for b in bs)
        U.add("#[verifier::external_body] fn %s() -> (r: Vec<u8>) ensures r@ == seq![%s] { unimplemented!() }\n" % (nm, q))
    name_bytes = ', '.join('%du8' % b for b in b'RESTORE')
    g.header('''fn gen_restore_resp(key: &[u8], raw_data: BinSafeStr, pttl: BinSafeStr) -> (r: RespVec)
    ensures r matches Resp::Arr(Array::Arr(v)) && v@.len() == 4 && is_bulk_of(v@[0], seq![%s]) && is_bulk_of(v@[1], key@) && is_bulk_of(v@[3], raw_data@)
        && (v@[2] matches Resp::Bulk(BulkStr::Str(t)) && spec_restore_ttl_ok(pttl@, t@))''' % name_bytes)
    U.add_fn(g)
    U.add("} // verus!\nfn main() {}\n")
    # call-site scan (declared as a scan, not a proof): the only producer of RESTORE's ttl argument is
    # pttl_to_restore_expire_time and "key not found" replies are filtered before it is called
    for rel in ('src/migration/scan_migration.rs', 'src/proxy/migration_backend.rs'):
        X = U.src(rel)
        X.scan('RESTORE ttl argument comes from pttl_to_restore_expire_time(pttl)', r'let expire_time = pttl_to_restore_expire_time\(pttl\);', 1)
        X.scan('PTTL_KEY_NOT_FOUND replies are filtered', r'Resp::Integer\(pttl\) if pttl(?:\.as_slice\(\))? [!=]= PTTL_KEY_NOT_FOUND', 1)
    # the RESTORE command is built as RESTORE <key> <converted ttl> <payload> at both construction sites (scan)
    U.src('src/proxy/migration_backend.rs').scan('gen_restore_resp builds [RESTORE, key, expire_time, raw_data]',
        r'Resp::Bulk\(BulkStr::Str\("RESTORE"\.to_string\(\)\.into_bytes\(\)\)\),\s*Resp::Bulk\(BulkStr::Str\(key\.into\(\)\)\),\s*Resp::Bulk\(BulkStr::Str\(expire_time\)\),\s*Resp::Bulk\(BulkStr::Str\(raw_data\)\),\s*\];', 1)
    U.src('src/migration/scan_migration.rs').scan('scan path builds [RESTORE, key, expire_time, raw_data]',
        r'let restore_cmd = vec!\[\s*"RESTORE"\.to_string\(\)\.into_bytes\(\),\s*key,\s*expire_time,\s*raw_data,\s*\];', 1)
    U.trust('btoi::btoi::<i64> by assumed contract spec_btoi_i64 (cross-checked by Kani group c19 on <= 3 bytes)',
            'slice == slice is sequence equality (shim_slice_eq)')

MUST_FAIL = '''
proof fn must_fail_c19_spec_not_trivial() ensures spec_restore_ttl_ok(seq![48u8], seq![48u8]) {
    lemma_btoi_digit(48u8);
}
proof fn must_fail_c19_btoi_contract_consistent(s: Seq<u8>) requires spec_btoi_i64(s) == Some(5int) ensures false {
    lemma_btoi_digit(53u8);
}
'''
