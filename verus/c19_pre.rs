use vstd::prelude::*;
verus! {
global size_of usize == 8;
// ---- trusted: btoi::btoi::<i64> (external crate), decimal literal semantics:
//      optional sign, at least one digit, value must fit i64.  Cross-checked against the real crate
//      by the Kani group c19 (<= 3 bytes).
pub open spec fn dec_value(s: Seq<u8>) -> Option<int>
    decreases s.len()
{
    if s.len() == 0 { None }
    else if !(48 <= s.last() <= 57) { None }
    else if s.len() == 1 { Some((s.last() - 48) as int) }
    else { match dec_value(s.drop_last()) { Some(v) => Some(v * 10 + (s.last() - 48)), None => None } }
}
pub open spec fn spec_btoi_i64(s: Seq<u8>) -> Option<int> {
    if s.len() == 0 { None }
    else {
        let (neg, digits) = if s[0] == 45u8 { (true, s.subrange(1, s.len() as int)) } else if s[0] == 43u8 { (false, s.subrange(1, s.len() as int)) } else { (false, s) };
        match dec_value(digits) {
            Some(v) => { let x = if neg { -v } else { v }; if -0x8000_0000_0000_0000 <= x <= 0x7fff_ffff_ffff_ffff { Some(x) } else { None } },
            None => None,
        }
    }
}
pub proof fn lemma_btoi_minus1() ensures spec_btoi_i64(seq![45u8, 49u8]) == Some(-1int) {
    let s = seq![45u8, 49u8];
    assert(s.subrange(1, 2) =~= seq![49u8]);
    assert(dec_value(seq![49u8]) == Some(1int));
}
pub proof fn lemma_btoi_digit(d: u8) requires 48 <= d <= 57 ensures spec_btoi_i64(seq![d]) == Some((d - 48) as int) {
    assert(dec_value(seq![d]) == Some((d - 48) as int));
}
#[verifier::external_body]
fn shim_btoi_i64(buf: &[u8]) -> (r: Result<i64, ()>)
    ensures match r { Ok(n) => spec_btoi_i64(buf@) == Some(n as int), Err(_) => spec_btoi_i64(buf@).is_none() }
{ unimplemented!() }
#[verifier::external_body]
fn shim_slice_eq(a: &[u8], b: &[u8]) -> (r: bool) ensures r == (a@ == b@) { a == b }

// ---- property-level spec, written from the statement of C19 (not from the code):
//   remaining ttl n >= 1  => restored with a positive ttl no greater than the one read
//   n == 0 (has an expiry, < 1 ms left) => never persistent: restored ttl >= 1
//   n == -1 (persistent)  => stays persistent: RESTORE ttl argument is the literal "0"
//   -2 (no key) is filtered by the callers; malformed replies are not constrained by the statement.
pub open spec fn spec_restore_ttl_ok(pttl: Seq<u8>, out: Seq<u8>) -> bool {
    match spec_btoi_i64(pttl) {
        Some(n) => if n >= 1 { spec_btoi_i64(out) matches Some(m) && 1 <= m <= n }
                   else if n == 0 { spec_btoi_i64(out) matches Some(m) && m >= 1 }
                   else if n == -1 { out.len() == 1 && out[0] == 48u8 }
                   else { true },
        None => true,
    }
}
