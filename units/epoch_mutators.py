# C04: per-mutator epoch contract (never regress; changed => epoch(c)' = global' > global) on the real text of
# MetaStore::restore, bump_global_epoch, MetaStoreUpdate::{remove_cluster, remove_proxy, change_config}
import re
import vlib
from units import broker_common, takeover, replace_proxy

REQ = '''        requires inv_epoch(*old(self).store), old(self).store.global_epoch < u64::MAX,
            vstd::std_specs::hash::obeys_key_model::<ClusterName>(), vstd::std_specs::hash::obeys_key_model::<String>(),
        ensures epoch_contract(*old(self).store, *final(self).store),
            r is Err ==> store_same(*old(self).store, *final(self).store),'''

def build(U):
    broker_common.head(U)
    U.add(broker_common.types(U))
    U.prelude('epoch_spec.rs')
    U.add('''
// C06: a proxy that is marked failed or under failure report
pub open spec fn reported(failed: Set<String>, reports: Set<String>, a: [String; CHUNK_PARTS]) -> bool { exists|j: int| 0 <= j < 2 && (failed.contains(#[trigger] a[j]) || reports.contains(a[j])) }
pub open spec fn same_but_role(a: ChunkStore, b: ChunkStore) -> bool { b == (ChunkStore { role_position: b.role_position, ..a }) }
// balance_masters: nothing but role positions changes, and a chunk is reset to Normal iff it is allowed to (only_if: all clusters; iff: the balanced one)
pub open spec fn balanced_chunks(failed: Set<String>, reports: Set<String>, oc: Seq<ChunkStore>, nc: Seq<ChunkStore>) -> bool {
    nc.len() == oc.len() && forall|i: int| 0 <= i < oc.len() ==> same_but_role(oc[i], #[trigger] nc[i])
        && (if reported(failed, reports, oc[i].proxy_addresses) { nc[i].role_position == oc[i].role_position } else { nc[i].role_position == ChunkRolePosition::Normal })
}
pub open spec fn untouched_or_balanced(failed: Set<String>, reports: Set<String>, o: ClusterStore, n: ClusterStore) -> bool {
    n.name == o.name && n.config == o.config && (n.chunks@ == o.chunks@ || balanced_chunks(failed, reports, o.chunks@, n.chunks@))
}
pub struct InvalidClusterName;
impl<'b> core::convert::TryFrom<&'b str> for ClusterName {
    type Error = InvalidClusterName;
    #[verifier::external_body] fn try_from(s: &'b str) -> Result<Self, InvalidClusterName> { unimplemented!() }
}
impl Clone for ClusterConfig { #[verifier::external_body] fn clone(&self) -> (r: Self) ensures r == *self { unimplemented!() } }
pub struct ConfigError;
impl ConfigError { #[verifier::external_body] pub fn to_string(&self) -> String { unimplemented!() } }
impl ClusterConfig {
    // out of reach (str::parse over a dozen fields): any result, self arbitrary afterwards
    #[verifier::external_body] pub fn set_field(&mut self, k: &String, v: &String) -> Result<(), ConfigError> { unimplemented!() }
    // not called by the functions under contract in the repository text; any map
    #[verifier::external_body] pub fn to_str_map(&self) -> HashMap<String, String> { unimplemented!() }
}
impl ClusterStore {
    // out of reach (iterator any() chain); only its boolean result is used
    #[verifier::external_body] pub fn is_migrating(&self) -> bool { unimplemented!() }
''')
    U.add_fn(replace_proxy.set_epoch(U))
    U.add('}\nimpl MetaStore {\n')
    S = U.src('src/broker/store.rs')
    g = S.fn('get_global_epoch', within=r'impl MetaStore\b')
    g.header("    pub fn get_global_epoch(&self) -> (r: u64)\n        ensures r == self.global_epoch")
    U.add_fn(g)
    U.add_fn(takeover.bump_global_epoch(U))
    rs = S.fn('restore', within=r'impl MetaStore\b')
    rs.header('''    pub fn restore(&mut self, other: MetaStore) -> (r: Result<(), MetaStoreError>)
        requires inv_epoch(*old(self)), inv_epoch(other)
        ensures r is Ok ==> *final(self) == other && final(self).global_epoch >= old(self).global_epoch,
            r is Err ==> *final(self) == *old(self),''')
    U.add_fn(rs)
    U.add("}\n" + takeover.UPDATE_STRUCT + "impl<'a> MetaStoreUpdate<'a> {\n")
    X = U.src('src/broker/update.rs')

    f = X.fn('remove_cluster')
    f.r1_logging().r2_closure_underscore()
    f.header("    pub fn remove_cluster(&mut self, cluster_name: String) -> (r: Result<(), MetaStoreError>)\n" + REQ)
    f.replace('hint', "None => return Err(MetaStoreError::ClusterNotFound),",
              "None => { proof { assert(self.store.clusters@ =~= old(self).store.clusters@); } return Err(MetaStoreError::ClusterNotFound) },", count=1)
    U.add_fn(f)

    f = X.fn('remove_proxy')
    f.r1_logging().r2_closure_underscore()
    f.header("    pub fn remove_proxy(&mut self, proxy_address: String) -> (r: Result<(), MetaStoreError>)\n" + REQ)
    U.add_fn(f)

    f = X.fn('change_config')
    f.r1_logging().r2_closure_underscore()
    f.header("    pub fn change_config(\n        &mut self,\n        cluster_name: String,\n        config: HashMap<String, String>,\n    ) -> (r: Result<(), MetaStoreError>)\n" + REQ)
    vlib.d10_question_in_for(f, 0, 'Result<(), MetaStoreError>')
    f.before('let mut verif_ret', "                let ghost c0 = **cluster;")
    f.loop_spec(0, "                    invariant **cluster == c0, vstd::std_specs::hash::obeys_key_model::<String>(), verif_ret matches Some(vr) ==> vr is Err,", itname='itc')
    U.add_fn(f)
    f = X.fn('balance_masters')
    f.r1_logging().r2_closure_underscore()
    vlib.d8_continue(f)
    # closure-spec: the closure that decides whether a chunk may get its masters back is given its statement-level meaning
    f.replace('closure-spec', 'let failed_proxy_exists = |addresses: &[String; CHUNK_PARTS]| -> bool {',
              'let failed_proxy_exists = |addresses: &[String; CHUNK_PARTS]| -> (b: bool)\n            requires vstd::std_specs::hash::obeys_key_model::<String>()\n'
              '            ensures b == reported(failed_proxies@, failures@.dom(), *addresses)\n        {', count=1)
    f.apply_overlay('balance_masters')
    U.add_fn(f)
    U.add("}\n} // verus!\nfn main() {}\n")
    U.trust('ClusterConfig::set_field, ClusterStore::is_migrating, ClusterName::try_from by havoc contracts (out of reach)')

MUST_FAIL = '''
proof fn must_fail_epoch_contract_not_trivial(o: MetaStore, n: MetaStore) requires inv_epoch(o), inv_epoch(n), n.global_epoch >= o.global_epoch ensures epoch_contract(o, n) { }
'''
