#!/usr/bin/env python3
# run the quick check(s) of the property against every stored seeded change: apply to /repo, check, undo.
# writes seeded/RESULTS.json.  (never commits anything in /repo; refuses to start on a dirty /repo)
import json, os, subprocess, sys
V = os.path.dirname(os.path.dirname(os.path.abspath(__file__)))
if subprocess.run(['git', '-C', '/repo', 'status', '--porcelain'], capture_output=True, text=True).stdout.strip():
    sys.exit('/repo is dirty')
res = json.load(open(V + '/seeded/RESULTS.json')) if os.path.exists(V + '/seeded/RESULTS.json') else {}
for d in sorted(os.listdir(V + '/seeded')):
    p = os.path.join(V, 'seeded', d)
    if not os.path.isdir(p) or (sys.argv[1:] and not any(a in d for a in sys.argv[1:])):
        continue
    meta = json.load(open(p + '/meta.json'))
    pid = meta['property']
    if subprocess.run(['git', '-C', '/repo', 'apply', p + '/patch.diff']).returncode != 0:
        res[d] = {'status': 'patch does not apply'}
        continue
    try:
        r = subprocess.run([V + '/check', pid, 'quick'], capture_output=True, text=True, env=dict(os.environ, VERIF_OUT='/var/tmp/seedcheck_out'))
    finally:
        subprocess.run(['git', '-C', '/repo', 'checkout', '--', '.'])
    vio = [l for l in r.stdout.splitlines() if l.startswith('VIOLATION')]
    obl = [l.strip() for l in r.stdout.splitlines() if 'failed obligation' in l or l.startswith('UNDECIDED')]
    vio = [l for l in r.stdout.splitlines() if l.startswith('VIOLATION')]
    verdict = {0: 'missed', 1: 'detected', 2: 'undecided'}.get(r.returncode, '?')
    if r.returncode == 1 and not vio:
        verdict = 'machinery-error'
    res[d] = {'property': pid, 'exit': r.returncode, 'verdict': verdict,
              'obligations': sorted(set(obl))[:6], 'replayed_on_real_code': any('no-failing-input-found' not in l for l in vio) if vio else False}
    print(d, res[d]['verdict'], res[d]['obligations'][:2])
json.dump(res, open(V + '/seeded/RESULTS.json', 'w'), indent=1, sort_keys=True)
