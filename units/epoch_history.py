# C04 over histories (store level): any finite sequence of steps that each satisfy the per-mutator contract (epoch_contract, proved
# for every primitive mutator in units epoch_mutators, add_cluster, add_nodes, auto_delete, failures, migrate_guards,
# commit_migration, takeover, replace_proxy, epoch_recover) keeps: the global epoch never decreases; a cluster's epoch never
# decreases and is strictly larger whenever its content differs; a re-created cluster is stamped above everything served before;
# a changed proxy table or cluster set comes with a strictly larger global epoch.
# Plus a scan: the composite wrappers change the store only by calling those primitive mutators.
import re
import vlib
from units import broker_common

PRIMITIVE = ['restore', 'bump_global_epoch', 'force_bump_all_epoch', 'recover_epoch']     # proved in epoch_mutators / epoch_recover
MUT = r'(?:self|self\.store)\.(?:global_epoch|clusters|all_proxies|failed_proxies|failures|version|enable_ordered_proxy)\s*(?:=[^=]|[-+*/|&^]=|\.(?:insert|remove|get_mut|clear|retain|entry|values_mut|iter_mut|drain|extend|append)\()'

def scan_wrappers(U):
    S = U.src('src/broker/store.rs')
    text = S.text
    m = re.search(r'\nimpl MetaStore \{', text)
    if not m:
        raise vlib.Undecided('impl MetaStore not found')
    mask = vlib.code_mask(text)
    bo = text.index('{', m.start())
    bc = vlib.match_brace(text, mask, bo)
    region = text[bo:bc]
    rmask = vlib.code_mask(region)
    bad = []
    n = 0
    for f in re.finditer(r'\n    pub fn (\w+)\s*\(\s*&mut self', region):
        name = f.group(1)
        if name in PRIMITIVE:
            continue
        b0 = region.index('{', f.end())
        b1 = vlib.match_brace(region, rmask, b0)
        body = region[b0:b1]
        n += 1
        if re.search(MUT, body):
            bad.append(name)
    U.log.scans.append({'file': 'src/broker/store.rs', 'fact': 'the %d &mut wrappers of impl MetaStore change the store only by calling the primitive mutators' % n, 'ok': not bad and n >= 15, 'found': bad or n})
    X = U.src('src/broker/update.rs')
    for name in ('cleanup_failures', 'auto_scale_up_nodes', 'auto_delete_free_nodes_if_exists'):
        g = X.fn(name)
        ok = not re.search(MUT, g.text)
        U.log.scans.append({'file': 'src/broker/update.rs', 'fact': 'composite %s changes the store only by calling the primitive mutators' % name, 'ok': ok, 'found': 0 if ok else 1})

def build(U):
    broker_common.head(U)
    U.add(broker_common.types(U))
    U.prelude('epoch_spec.rs')
    U.prelude('epoch_history_spec.rs')
    scan_wrappers(U)
    U.add('} // verus!\nfn main() {}\n')
    U.trust('the steps of a history are calls of the primitive mutators (each proved against epoch_contract in its own unit) or of the composite wrappers, which a syntactic scan shows to change the store only through those calls; the callers above MetaStore (MemoryStorage, HTTP service) are not under contract')

MUST_FAIL = '''
proof fn must_fail_versioned_any(a: MetaStore, b: MetaStore) requires inv_epoch(a), inv_epoch(b), b.global_epoch >= a.global_epoch ensures versioned(a, b) { }
'''
