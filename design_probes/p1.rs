use vstd::prelude::*;
verus! {

pub struct Range(pub usize, pub usize);

impl Range {
    pub fn start(&self) -> (r: usize) ensures r == self.0 { self.0 }
    pub fn end(&self) -> (r: usize) ensures r == self.1 { self.1 }
}

pub struct RangeList(pub Vec<Range>);

fn chunk_part_to_proxy_index(chunk_part: usize, role_position: u8) -> (r: usize)
{
    match (chunk_part, role_position) {
        (0, 2) => 1,
        (1, 1) => 0,
        (i, _) => i,
    }
}

pub fn get_hash_tag(key: &[u8]) -> (r: &[u8])
{
    if let Some(begin) = vf_position(key, 123u8) {
        if let Some(end_offset) = vf_get_from(key, begin + 1).and_then(|t: &[u8]| vf_position(t, 125u8))
        {
            if end_offset == 0 {
                return key;
            }
            return vf_get_range(key, begin + 1, begin + 1 + end_offset).expect("get_hash_tag");
        }
    }
    key
}

#[verifier::external_body]
fn vf_position(s: &[u8], c: u8) -> (r: Option<usize>)
    ensures match r {
        Some(i) => i < s@.len() && s@[i as int] == c && forall|j: int| 0 <= j < i ==> s@[j] != c,
        None => forall|j: int| 0 <= j < s@.len() ==> s@[j] != c,
    }
{ s.iter().position(|x| *x == c) }

#[verifier::external_body]
fn vf_get_from(s: &[u8], a: usize) -> (r: Option<&[u8]>)
    ensures match r { Some(t) => a <= s@.len() && t@ == s@.subrange(a as int, s@.len() as int), None => a > s@.len() }
{ s.get(a..) }

#[verifier::external_body]
fn vf_get_range(s: &[u8], a: usize, b: usize) -> (r: Option<&[u8]>)
    ensures match r { Some(t) => a <= b <= s@.len() && t@ == s@.subrange(a as int, b as int), None => !(a <= b <= s@.len()) }
{ s.get(a..b) }

} // verus!
fn main() {}
