#!/usr/bin/env python3
# authoring aid: write <dir>/<name>.ann.rs = the overlay contracts/<name>.overlay.json applied to <dir>/<name>.src.rs (as dumped by
# VERIF_OVERLAY_DUMP), so that the annotated text can be edited and re-derived with tools/ovderive.py.  usage: tools/ovapply.py <name> [dir]
import sys, os
HERE = os.path.dirname(os.path.abspath(__file__)); sys.path.insert(0, HERE)
import overlay
name = sys.argv[1]; d = sys.argv[2] if len(sys.argv) > 2 else '/var/tmp/ovdump'
src = open(os.path.join(d, name + '.src.rs')).read()
notes = []
txt = overlay.apply(src, overlay.load(name), notes)
open(os.path.join(d, name + '.ann.rs'), 'w').write(txt)
print('written', os.path.join(d, name + '.ann.rs'), notes)
