import sys,re; sys.path.insert(0,'/tmp/km/x')
from cut import *
w1=open('/tmp/km/x/w1.rs').read()
i=w1.index("// ---- specs ----")
head=w1[:i]
migrate=open('/repo/src/broker/migrate.rs').read()
f=fn(migrate,'assign_dst_slots')
spec='''
impl Clone for RangeList { #[verifier::external_body] fn clone(&self) -> (r: Self) ensures r == *self { unimplemented!() } }
impl Clone for MigrationMetaStore { #[verifier::external_body] fn clone(&self) -> (r: Self) ensures r == *self { unimplemented!() } }
pub open spec fn valid_meta(m: MigrationMetaStore, n: int) -> bool {
    m.src_chunk_index < n && m.dst_chunk_index < n && m.src_chunk_part < 2 && m.dst_chunk_part < 2
}
pub open spec fn chunk_static_eq(a: ChunkStore, b: ChunkStore) -> bool {
    a.stable_slots == b.stable_slots && a.proxy_addresses == b.proxy_addresses && a.hosts == b.hosts && a.node_addresses == b.node_addresses && a.role_position == b.role_position
}
// entries of half (c,p) after adding the pairs of adds[0..k] in order
pub open spec fn entries_after(base: Seq<MigrationSlotRangeStore>, adds: Seq<MigrationSlots>, k: int, c: int, p: int) -> Seq<MigrationSlotRangeStore>
    decreases k
{
    if k <= 0 { base } else {
        let prev = entries_after(base, adds, k - 1, c, p);
        let m = adds[k - 1];
        let with_src = if m.meta.src_chunk_index == c && m.meta.src_chunk_part == p { prev.push(MigrationSlotRangeStore { range_list: m.ranges, is_migrating: true, meta: m.meta }) } else { prev };
        if m.meta.dst_chunk_index == c && m.meta.dst_chunk_part == p { with_src.push(MigrationSlotRangeStore { range_list: m.ranges, is_migrating: false, meta: m.meta }) } else { with_src }
    }
}
pub open spec fn assigned(o: ClusterStore, n: ClusterStore, adds: Seq<MigrationSlots>, k: int) -> bool {
    n.chunks@.len() == o.chunks@.len() && n.epoch == o.epoch && n.name == o.name && n.config == o.config
    && forall|c: int| 0 <= c < o.chunks@.len() ==> chunk_static_eq(#[trigger] o.chunks@[c], n.chunks@[c])
        && n.chunks@[c].migrating_slots[0]@ =~= entries_after(o.chunks@[c].migrating_slots[0]@, adds, k, c, 0)
        && n.chunks@[c].migrating_slots[1]@ =~= entries_after(o.chunks@[c].migrating_slots[1]@, adds, k, c, 1)
}
pub struct MetaStoreMigrate<'a> { pub store: &'a mut MetaStore }
impl<'a> MetaStoreMigrate<'a> {
    // out of reach (iter_mut().flatten()): assumed contract, here the identity up to compaction is not needed for the probe
    #[verifier::external_body] fn compact_slots(cluster: &mut ClusterStore) ensures *final(cluster) == *old(cluster) { unimplemented!() }
'''
contract='''    fn assign_dst_slots(cluster: &mut ClusterStore, migration_slots: Vec<MigrationSlots>)
        requires forall|i: int| 0 <= i < migration_slots@.len() ==> valid_meta((#[trigger] migration_slots@[i]).meta, old(cluster).chunks@.len() as int),
        ensures assigned(*old(cluster), *final(cluster), migration_slots@, migration_slots@.len() as int),
'''
body=f[f.index('{'):]
body=body.replace("        for migration_slot_range in migration_slots.into_iter() {","""        for migration_slot_range in it: migration_slots.into_iter()
            invariant
                it.seq() == migration_slots@,
                forall|i: int| 0 <= i < migration_slots@.len() ==> valid_meta((#[trigger] migration_slots@[i]).meta, old(cluster).chunks@.len() as int),
                assigned(*old(cluster), *cluster, migration_slots@, it.index@),
        {
            let ghost before = *cluster;""",1)
out=head+spec+contract+body+"\n}\n} // verus!\nfn main() {}\n"
open('/tmp/km/x/a1.rs','w').write(out)
