use vstd::prelude::*;
verus! {

pub spec const PTTL_NO_EXPIRE_S: Seq<u8> = seq![45u8, 49u8];

// ---- trusted shims (assumed contracts on dependencies) ----
pub uninterp spec fn spec_btoi_i64(s: Seq<u8>) -> Option<int>;

#[verifier::external_body]
fn btoi_i64(buf: &[u8]) -> (r: Result<i64, ()>)
    ensures match r { Ok(n) => spec_btoi_i64(buf@) == Some(n as int), Err(_) => spec_btoi_i64(buf@).is_none() }
{ unimplemented!() }

#[verifier::external_body]
fn slice_eq(a: &[u8], b: &[u8]) -> (r: bool) ensures r == (a@ == b@) { a == b }

pub fn pttl_no_expire() -> (r: &'static [u8]) ensures r@ == seq![45u8, 49u8] { let x: &'static [u8] = &[45u8, 49u8]; assert(x@ =~= seq![45u8, 49u8]); x }
pub fn restore_no_expire() -> (r: &'static [u8]) ensures r@ == seq![48u8] { let x: &'static [u8] = &[48u8]; assert(x@ =~= seq![48u8]); x }

// ---- property-level spec (from C19's statement) ----
pub open spec fn spec_restore_ttl_ok(pttl: Seq<u8>, out: Seq<u8>) -> bool {
    match spec_btoi_i64(pttl) {
        Some(n) => if n > 0 { out == pttl }          // keeps a positive ttl no greater than the one read
                   else if n == 0 { spec_btoi_i64(out) matches Some(m) && m > 0 } // never persistent
                   else { out == seq![48u8] },       // -1: persistent stays persistent
        None => out == seq![48u8],
    }
}

pub fn pttl_to_restore_expire_time(pttl: Vec<u8>) -> (out: Vec<u8>)
    ensures spec_restore_ttl_ok(pttl@, out@)
{
    let mut expire_time = pttl;
    if pttl_need_to_be_no_expire(&expire_time) {
        // Reuse this vector
        expire_time.clear();
        expire_time.extend_from_slice(restore_no_expire())
    }
    expire_time
}

fn pttl_need_to_be_no_expire(buf: &[u8]) -> (r: bool)
    ensures r == (match spec_btoi_i64(buf@) { Some(n) => n < 0, None => true } || buf@ == seq![45u8, 49u8])
{
    if slice_eq(buf, pttl_no_expire()) {
        return true;
    }

    let n = match btoi_i64(buf) {
        Ok(n) => n,
        Err(_) => return true, // invalid expire number
    };
    // -1 no expire
    // -2 key not found
    n < 0
}

} // verus!
fn main() {}
