// Demonstration of the C16 finding reported by ./check C16 (obligation misc_safe/limit_len/precondition-not-satisfied:
// String::truncate(MAX_ELEMENT_LENGTH) is asked for a position that is not a char boundary).
// Append to src/proxy/slowlog.rs and run `cargo test --offline --lib verif_c16_slowlog_truncate`:
// fails (panic in String::truncate) on the tree before the fix commit, passes after it.
#[cfg(test)]
mod verif_c16_slowlog_truncate {
    use super::*;
    use crate::protocol::{Array, BulkStr, Resp, RespPacket};
    #[test]
    fn multibyte_char_across_the_limit() {
        // a command argument whose 100th..101st bytes are one two-byte UTF-8 character
        let mut arg = "a".repeat(MAX_ELEMENT_LENGTH - 1);
        arg.push('é');
        arg.push_str("tail");
        let resp = Resp::Arr(Array::Arr(vec![
            Resp::Bulk(BulkStr::Str(b"SET".to_vec())),
            Resp::Bulk(BulkStr::Str(arg.into_bytes())),
        ]));
        let pkt = RespPacket::Data(resp);
        let r = std::panic::catch_unwind(|| SlowlogRecord::get_brief_command(&pkt));
        assert!(r.is_ok(), "get_brief_command panicked while recording a sampled command");
    }
}
