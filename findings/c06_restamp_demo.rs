    // Demonstration for the C06 finding (appended inside `mod tests` of src/broker/store.rs).
    // History: 12 proxies, cluster of 4 nodes, scale out by 4 nodes (migration running), then the two
    // proxies of chunk 0 fail one after the other.  Every migration whose source or destination node
    // address changes must be re-issued with a newer migration epoch.
    #[test]
    fn verif_c06_restamp_after_second_failover() {
        use crate::common::cluster::SlotRangeTag;
        use std::collections::HashMap;
        let mut store = init_migration_test_store(6, 2, 4, 0, false);
        let name = CLUSTER_NAME.to_string();
        store.auto_add_nodes(name.clone(), 4).unwrap();
        store.migrate_slots(name.clone()).unwrap();

        fn metas(store: &MetaStore, name: &str) -> HashMap<String, (u64, String, String)> {
            let mut m = HashMap::new();
            for node in store.get_cluster_by_name(name, 0).unwrap().get_nodes() {
                for sr in node.get_slots() {
                    if let SlotRangeTag::Migrating(meta) = &sr.tag {
                        let key = sr.get_range_list().get_ranges().iter().map(|r| format!("{}-{}", r.start(), r.end())).collect::<Vec<_>>().join(",");
                        m.insert(key, (meta.epoch, meta.src_node_address.clone(), meta.dst_node_address.clone()));
                    }
                }
            }
            m
        }
        let chunk0: Vec<String> = store.get_cluster_by_name(&name, 0).unwrap().get_nodes().iter().take(4).map(|n| n.get_proxy_address().to_string()).collect();
        let (p0, p1) = (chunk0[0].clone(), chunk0[2].clone());
        assert_ne!(p0, p1);
        for failed in [p1, p0] {
            let before = metas(&store, &name);
            store.replace_failed_proxy(failed.clone(), 0).unwrap();
            let after = metas(&store, &name);
            for (range, (epoch, src, dst)) in after.iter() {
                let (old_epoch, old_src, old_dst) = before.get(range).expect("same migrations");
                if src != old_src || dst != old_dst {
                    assert!(epoch > old_epoch,
                        "after failing {}: migration {} moved {}->{} to {}->{} but kept migration epoch {}",
                        failed, range, old_src, old_dst, src, dst, epoch);
                }
            }
        }
    }
