// ---- commit_migration: the step that hands the slots of one migration from the source half to the destination half ----
pub open spec fn tag_epoch(t: SlotRangeTag) -> u64 { match t { SlotRangeTag::Migrating(m) => m.epoch, SlotRangeTag::Importing(m) => m.epoch, SlotRangeTag::None => 0 } }
pub open spec fn entry_is(x: MigrationSlotRangeStore, rl: Seq<Range>, e: u64, mig: bool) -> bool { x.range_list.0@ == rl && x.meta.epoch == e && x.is_migrating == mig }
pub open spec fn mig_match(x: MigrationSlotRangeStore, rl: Seq<Range>, m: MigrationMetaStore) -> bool { x.is_migrating && x.range_list.0@ == rl && x.meta == m }
pub open spec fn imp_match(x: MigrationSlotRangeStore, rl: Seq<Range>, m: MigrationMetaStore) -> bool { !x.is_migrating && x.meta == m && x.range_list.0@ == rl }
// the entries the retain step keeps: all but the migrating copies of the committed task, in order
pub open spec fn kept_entries(es: Seq<MigrationSlotRangeStore>, rl: Seq<Range>, m: MigrationMetaStore, n: nat) -> Seq<MigrationSlotRangeStore>
    decreases n
{ if n == 0 || n > es.len() { Seq::<MigrationSlotRangeStore>::empty() } else if !mig_match(es[n - 1], rl, m) { kept_entries(es, rl, m, (n - 1) as nat).push(es[n - 1]) } else { kept_entries(es, rl, m, (n - 1) as nat) } }
pub open spec fn same_static(o: ChunkStore, n: ChunkStore) -> bool { n.role_position == o.role_position && n.proxy_addresses == o.proxy_addresses && n.hosts == o.hosts && n.node_addresses == o.node_addresses }
pub open spec fn retained(o: ChunkStore, n: ChunkStore, rl: Seq<Range>, m: MigrationMetaStore) -> bool {
    same_static(o, n) && n.stable_slots == o.stable_slots
    && forall|p: int| 0 <= p < 2 ==> (#[trigger] n.migrating_slots[p])@ == kept_entries(o.migrating_slots[p]@, rl, m, o.migrating_slots[p]@.len())
}
pub open spec fn no_imp(es: Seq<MigrationSlotRangeStore>, rl: Seq<Range>, m: MigrationMetaStore) -> bool { forall|t: int| 0 <= t < es.len() ==> !imp_match(#[trigger] es[t], rl, m) }
pub open spec fn is_first_imp(es: Seq<MigrationSlotRangeStore>, rl: Seq<Range>, m: MigrationMetaStore, k: int) -> bool {
    0 <= k < es.len() && imp_match(es[k], rl, m) && forall|t: int| 0 <= t < k ==> !imp_match(#[trigger] es[t], rl, m)
}
pub open spec fn chunk_no_imp(ch: ChunkStore, rl: Seq<Range>, m: MigrationMetaStore) -> bool { no_imp(ch.migrating_slots[0]@, rl, m) && no_imp(ch.migrating_slots[1]@, rl, m) }
// the destination half after the hand-over: it owns what it owned plus the committed ranges; a half that owned nothing gets a plain (untagged) range
pub open spec fn merged(o: Option<SlotRange>, n: Option<SlotRange>, given: Seq<Range>) -> bool {
    n matches Some(y) && (forall|s: int| #![trigger covers(y.range_list.0@, s)] #![trigger covers(given, s)] covers(y.range_list.0@, s) <==> ((o matches Some(x) && covers(x.range_list.0@, s)) || covers(given, s)))
    && (match o { Some(x) => y.tag == x.tag, None => y.tag == SlotRangeTag::None })
}
pub open spec fn imported_at(a: ChunkStore, b: ChunkStore, rl: Seq<Range>, m: MigrationMetaStore, p: int, k: int) -> bool {
    0 <= p < 2 && is_first_imp(a.migrating_slots[p]@, rl, m, k) && (p == 1 ==> no_imp(a.migrating_slots[0]@, rl, m))
    && b.migrating_slots[p]@ == a.migrating_slots[p]@.remove(k) && b.migrating_slots[1 - p]@ == a.migrating_slots[1 - p]@
    && merged(a.stable_slots[p], b.stable_slots[p], rl) && b.stable_slots[1 - p] == a.stable_slots[1 - p]
}
pub open spec fn imported(a: ChunkStore, b: ChunkStore, rl: Seq<Range>, m: MigrationMetaStore) -> bool {
    same_static(a, b) && exists|p: int, k: int| #[trigger] imported_at(a, b, rl, m, p, k)
}
pub open spec fn retained_all(a: Seq<ChunkStore>, b: Seq<ChunkStore>, rl: Seq<Range>, m: MigrationMetaStore) -> bool { a.len() == b.len() && forall|c: int| 0 <= c < a.len() ==> retained(a[c], #[trigger] b[c], rl, m) }
// the first chunk (in order) that holds an importing copy of the committed task loses the first such entry of its first such half, and that half receives the ranges
// nothing observable changed (Vec equality is not extensional: the entry lists are compared through their views)
pub open spec fn chunk_same(a: ChunkStore, b: ChunkStore) -> bool {
    same_static(a, b) && b.stable_slots == a.stable_slots && b.migrating_slots[0]@ == a.migrating_slots[0]@ && b.migrating_slots[1]@ == a.migrating_slots[1]@
}
pub open spec fn imported_all(a: Seq<ChunkStore>, b: Seq<ChunkStore>, rl: Seq<Range>, m: MigrationMetaStore) -> bool {
    a.len() == b.len() && (
        (forall|c: int| 0 <= c < a.len() ==> chunk_no_imp(#[trigger] a[c], rl, m) && chunk_same(a[c], b[c]))
        || exists|h: int| 0 <= h < a.len() && #[trigger] imported(a[h], b[h], rl, m)
            && (forall|c: int| 0 <= c < h ==> chunk_no_imp(#[trigger] a[c], rl, m)) && (forall|c: int| 0 <= c < a.len() && c != h ==> chunk_same(a[c], #[trigger] b[c])))
}
pub open spec fn compacted_all(a: Seq<ChunkStore>, b: Seq<ChunkStore>) -> bool { a.len() == b.len() && forall|c: int| 0 <= c < a.len() ==> chunk_compacted(a[c], #[trigger] b[c]) }
pub open spec fn has_entry(cs: Seq<ChunkStore>, i: int, j: int, rl: Seq<Range>, e: u64, mig: bool) -> bool {
    0 <= i < cs.len() && 0 <= j < 2 && exists|k: int| 0 <= k < cs[i].migrating_slots[j]@.len() && entry_is(#[trigger] cs[i].migrating_slots[j]@[k], rl, e, mig)
}
pub open spec fn commit_steps(o: Seq<ChunkStore>, n: Seq<ChunkStore>, rl: Seq<Range>, m: MigrationMetaStore, m1: Seq<ChunkStore>, m2: Seq<ChunkStore>) -> bool {
    retained_all(o, m1, rl, m) && imported_all(m1, m2, rl, m) && compacted_all(m2, n)
}
pub open spec fn commit_post(o: ClusterStore, n: ClusterStore, rl: Seq<Range>, e: u64) -> bool {
    n.name == o.name && n.config == o.config
    && exists|m: MigrationMetaStore, m1: Seq<ChunkStore>, m2: Seq<ChunkStore>| #[trigger] commit_steps(o.chunks@, n.chunks@, rl, m, m1, m2) && m.epoch == e
        && has_entry(o.chunks@, m.src_chunk_index as int, m.src_chunk_part as int, rl, e, true) && has_entry(o.chunks@, m.dst_chunk_index as int, m.dst_chunk_part as int, rl, e, false)
}
pub open spec fn cluster_bounded(c: ClusterStore) -> bool { forall|i: int| 0 <= i < c.chunks@.len() ==> chunk_bounded(#[trigger] c.chunks@[i]) }
pub open spec fn rest_of_store_same(o: MetaStore, n: MetaStore) -> bool {
    n.version == o.version && n.all_proxies == o.all_proxies && n.failed_proxies == o.failed_proxies && n.failures == o.failures && n.enable_ordered_proxy == o.enable_ordered_proxy
}

pub proof fn lemma_kept_subset(es: Seq<MigrationSlotRangeStore>, rl: Seq<Range>, m: MigrationMetaStore, n: nat)
    requires n <= es.len()
    ensures forall|i: int| 0 <= i < kept_entries(es, rl, m, n).len() ==> exists|j: int| 0 <= j < n && es[j] == #[trigger] kept_entries(es, rl, m, n)[i]
    decreases n
{
    if n > 0 {
        lemma_kept_subset(es, rl, m, (n - 1) as nat);
        let k0 = kept_entries(es, rl, m, (n - 1) as nat); let k1 = kept_entries(es, rl, m, n);
        assert forall|i: int| 0 <= i < k1.len() implies exists|j: int| 0 <= j < n && es[j] == #[trigger] k1[i] by {
            if i < k0.len() { assert(k1[i] == k0[i]); let j = choose|j: int| 0 <= j < n - 1 && es[j] == k0[i]; assert(es[j] == k1[i]); } else { assert(es[n - 1] == k1[i]); }
        }
    }
}
// a well-formed list that covers exactly what two bounded lists cover is bounded
pub proof fn lemma_bounded_from_cover(a: Seq<Range>, b: Seq<Range>, f: Seq<Range>)
    requires wf(f), bounded(a), bounded(b), forall|s: int| covers(f, s) <==> (covers(a, s) || covers(b, s))
    ensures bounded(f)
{
    assert forall|i: int| 0 <= i < f.len() implies (#[trigger] f[i]).0 < usize::MAX && f[i].1 < usize::MAX by {
        let s = f[i].1 as int;
        assert(f[i].0 <= f[i].1);
        assert(lo(f[i]) <= s <= hi(f[i]));
        assert(covers(f, s));
        if covers(a, s) { let j = choose|j: int| 0 <= j < a.len() && lo(#[trigger] a[j]) <= s <= hi(a[j]); }
        else { let j = choose|j: int| 0 <= j < b.len() && lo(#[trigger] b[j]) <= s <= hi(b[j]); }
    }
}

// ---- consequences used at property level (C01) ----
// after the retain step no migrating copy of the committed task is left in a half
pub proof fn lemma_kept_no_match(es: Seq<MigrationSlotRangeStore>, rl: Seq<Range>, m: MigrationMetaStore, n: nat)
    requires n <= es.len()
    ensures forall|i: int| 0 <= i < kept_entries(es, rl, m, n).len() ==> !mig_match(#[trigger] kept_entries(es, rl, m, n)[i], rl, m)
    decreases n
{
    if n > 0 {
        lemma_kept_no_match(es, rl, m, (n - 1) as nat);
        let k0 = kept_entries(es, rl, m, (n - 1) as nat); let k1 = kept_entries(es, rl, m, n);
        assert forall|i: int| 0 <= i < k1.len() implies !mig_match(#[trigger] k1[i], rl, m) by { if i < k0.len() { assert(k1[i] == k0[i]); } }
    }
}
// the half that loses the importing copy owns, after the commit (compaction included), everything it owned before plus every committed slot
pub proof fn lemma_commit_hands_over(a: ChunkStore, b: ChunkStore, c: ChunkStore, rl: Seq<Range>, m: MigrationMetaStore, p: int, k: int, s: int)
    requires imported_at(a, b, rl, m, p, k), chunk_compacted(b, c), covers(rl, s) || (a.stable_slots[p] matches Some(x) && covers(x.range_list.0@, s))
    ensures c.stable_slots[p] matches Some(z) && covers(z.range_list.0@, s)
{
    let y = b.stable_slots[p]->Some_0;
    assert(covers(y.range_list.0@, s));
    assert(stable_compacted(b.stable_slots[p], c.stable_slots[p]));
}
