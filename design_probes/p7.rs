use vstd::prelude::*;
verus! {
pub struct E { pub epoch: u64, pub k: usize }

fn set_all(v: &mut Vec<E>, e: u64)
    ensures final(v)@.len() == old(v)@.len(),
            forall|i: int| 0 <= i < final(v)@.len() ==> (#[trigger] final(v)@[i]).epoch == e && final(v)@[i].k == old(v)@[i].k,
{
    for x in it: v.iter_mut()
        invariant
            it.seq().len() == old(v)@.len(),
            forall|i: int| 0 <= i < it.index@ ==> (#[trigger] final(it.seq()[i])).epoch == e && final(it.seq()[i]).k == old(v)@[i].k,
            forall|i: int| 0 <= i < it.seq().len() ==> *(#[trigger] it.seq()[i]) == old(v)@[i],
    {
        x.epoch = e;
    }
}
} // verus!
fn main() {}
