# C14 (CLUSTER NODES rendering): gen_cluster_nodes_helper (src/proxy/cluster.rs) writes one line per node address of the slot map -
# each address exactly once - whose slot tokens are, in order, one token per range ("a" or "a-b") of every ADVERTISED slot range of
# that node, and nothing for an ignored one.  With unit c14_slots: the two commands list the same ranges under the same nodes
# (agreement lemmas at the end).  Text primitives (format!, to_string, join, push_str) are abstracted by shims.
import re
import vlib
from units import broker_common

HEAD_FMT = '"{id} {address} {flags} {master} {ping_sent} {pong_recv} {epoch} {link_state}{slot_range}\\n"'

def build(U):
    P = U.src('src/proxy/cluster.rs')
    T = U.src('src/migration/task.rs')
    C = U.src('src/common/cluster.rs')
    U.add('''use vstd::prelude::*;
use std::collections::HashMap;
verus! {
global size_of usize == 8;
broadcast use vstd::std_specs::hash::group_hash_axioms;
#[verifier::external_body] pub struct ClusterName { x: u8 }
''')
    for k, n in [('struct', 'Range'), ('struct', 'RangeList')]:
        U.add('#[derive(PartialEq, Eq, Hash)]\n' + vlib.pub_fields(broker_common.strip(C.item(k, n))) + '\n')
    for k, n in [('struct', 'MigrationMeta'), ('enum', 'SlotRangeTag'), ('struct', 'SlotRange')]:
        U.add(vlib.pub_fields(broker_common.strip(C.item(k, n))) + '\n')
    st = broker_common.strip(T.item('enum', 'MigrationState'))
    U.add('#[derive(PartialEq, Eq, Copy, Clone, Structural)]\n' + st + '\n')
    V = re.sub(r'\n\s*//[^\n]*', '', broker_common.strip(U.src('src/proxy/service.rs').item('enum', 'ClusterNodesVersion')))
    U.add('#[derive(PartialEq, Eq, Copy, Clone, Structural)]\n' + V + '\n')
    ty, val = P.const_expr('CLUSTER_NODES_CPORT')
    U.add('pub const CLUSTER_NODES_CPORT: %s = %s;\n' % (ty, val))   # visibility only
    U.prelude('c14_common.rs')
    U.prelude('c14_nodes_spec.rs')
    g = C.fn('get_range_list', within=r'impl SlotRange\b')
    g.header("    pub fn get_range_list(&self) -> (r: &RangeList)\n        ensures *r == self.range_list")
    U.add('impl SlotRange {\n'); U.add_fn(g); U.add('}\n')
    g = C.fn('get_ranges', within=r'impl RangeList\b')
    g.header("    pub fn get_ranges(&self) -> (r: &[Range])\n        ensures r@ == self.0@")
    U.add('impl RangeList {\n'); U.add_fn(g); U.add('}\n')
    U.add('impl Range {\n')
    for nm, fld in (('start', '0'), ('end', '1')):
        g = C.fn(nm, within=r'impl Range\b')
        g.header("    pub fn %s(&self) -> (r: usize)\n        ensures r == self.%s" % (nm, fld))
        U.add_fn(g)
    U.add('}\n')
    f = P.fn('should_ignore_slots')
    f.r1_logging()
    f.header("fn should_ignore_slots(\n    range: &SlotRange,\n    migration_states: &HashMap<RangeList, MigrationState>,\n) -> (r: bool)\n"
             "    requires vstd::std_specs::hash::obeys_key_model::<RangeList>()\n    ensures r == spec_ignore(range.tag, state_of(migration_states@, range.range_list))")
    U.add_fn(f)
    h = P.fn('gen_cluster_nodes_helper')
    h.r1_logging()
    lifted = vlib.d14_flat_map_option(h, 'String', [('migration_states', '&HashMap<RangeList, MigrationState>', 'migration_states')]) % 'SlotRange'
    L = vlib.Fn('verif_flat_map_0', h.file, h.line, lifted, U.log)
    vlib.d2_map_collect(L, 'String')
    L.replace('R-tostr', 'range.start().to_string()', 'shim_usize_to_string(range.start())', count=1)
    L.replace('R-fmt', 'format!("{}-{}", range.start(), range.end())', 'shim_fmt_range(range.start(), range.end())', count=1)
    L.apply_overlay('nodes_flat_map')
    U.add_fn(L)
    h.replace('D9c', 'for (addr, ranges) in slot_ranges {',
              'let (verif_entries, Ghost(verif_ks)) = shim_ref_entries(slot_ranges);\n    for (addr, ranges) in verif_entries.into_iter() {', count=1)
    h.replace('R-str', 'String::from("")', 'shim_string_empty()', count=1)
    h.replace('R-str', 'String::new()', 'shim_string_empty()', count=1)
    h.replace('R-clone', 'addr.clone()', 'shim_clone_string(addr)', count=1)
    h.replace('R-fmt', 'format!("{}@{}", addr, CLUSTER_NODES_CPORT)', 'shim_fmt_addr_cport(addr, CLUSTER_NODES_CPORT)', count=1)
    h.sub('R-join', r'verif_fm_acc\s*\.join\(" "\)', 'shim_join_sp(&verif_fm_acc)', count=1)
    h.replace('R-str', '!slot_range.is_empty()', '!shim_is_empty(&slot_range)', count=1)
    h.replace('R-str', "slot_range_str.push(' ');", "shim_push_char(&mut slot_range_str, ' ');", count=1)
    h.replace('R-str', 'slot_range_str.push_str(&slot_range);', 'shim_push_str(&mut slot_range_str, &slot_range);', count=1)
    h.replace('R-str', 'cluster_nodes.push_str(&line);', 'shim_push_str(&mut cluster_nodes, &line);', count=1)
    # R-fmt-line: the line template is checked literally; its arguments are handed to the shim
    m = re.search(r'format!\(\s*(".*?"),\s*id=id, address=address, flags=flags, master="-", ping_sent=0, pong_recv=0, epoch=epoch,\s*link_state="connected", slot_range=slot_range_str,\s*\)', h.text, re.S)
    if not m or m.group(1) != HEAD_FMT:
        h._lost('R-fmt-line: the CLUSTER NODES line template changed')
    h.text = h.text[:m.start()] + 'shim_fmt_node_line(id, address, flags, epoch, slot_range_str)' + h.text[m.end():]
    U.log.rule('R-fmt-line', h, 'format!(<node line template>, ..) -> shim_fmt_node_line(id, address, flags, epoch, slot_range_str)')
    h.apply_overlay('gen_cluster_nodes_helper')
    U.add_fn(h)
    # ---- the two callers: which map is rendered, with which flags / epoch
    lc = vlib.pub_fields(broker_common.strip(P.item('struct', 'LocalCluster')))
    rc = vlib.pub_fields(broker_common.strip(P.item('struct', 'RemoteCluster')))
    U.add('#[verifier::reject_recursive_types(S)]\n' + lc + '\n#[verifier::reject_recursive_types(P)]\n' + rc + '\n')
    g = P.fn('gen_local_cluster_nodes', within=r'impl<S: CmdTaskSender> LocalCluster<S>')
    g.r1_logging()
    D12 = r'let slots: Vec<SlotRange> = self\s*\.slot_ranges\s*\.values\(\)'
    if re.search(D12, g.text):
      g.sub('D12', r'let slots: Vec<SlotRange> = self\s*\.slot_ranges\s*\.values\(\)\s*\.flatten\(\)\s*\.cloned\(\)\s*\.collect::<Vec<SlotRange>>\(\);',
          'let mut slots: Vec<SlotRange> = Vec::new();\n        let (verif_vals, Ghost(verif_vks)) = shim_ref_entries(&self.slot_ranges);\n'
          '        for (verif_k, verif_v) in verif_vals.into_iter() {\n            for verif_x in verif_v.iter() {\n                slots.push(shim_clone_slot_range(verif_x));\n            }\n        }', count=1)
    g.apply_overlay('gen_local_cluster_nodes')
    U.add('impl<S: CmdTaskSender> LocalCluster<S> {\n'); U.add_fn(g); U.add('}\n')
    g = P.fn('gen_remote_cluster_nodes', within=r'impl<P: CmdTaskSender> RemoteCluster<P>')
    g.header('''    pub fn gen_remote_cluster_nodes(
        &self,
        migration_states: &HashMap<RangeList, MigrationState>,
        cluster_nodes_version: ClusterNodesVersion,
    ) -> (r: String)
        requires vstd::std_specs::hash::obeys_key_model::<RangeList>(), vstd::std_specs::hash::obeys_key_model::<String>(),
        ensures exists|ks: Seq<String>| #![trigger is_order_of(ks, self.slot_ranges@)] is_order_of(ks, self.slot_ranges@)
                && r@ == nodes_text(self.cluster_name, ks, self.slot_ranges@, migration_states@, self.epoch, false, cluster_nodes_version is V2, CLUSTER_NODES_CPORT, ks.len()),''')
    U.add('impl<P: CmdTaskSender> RemoteCluster<P> {\n'); U.add_fn(g); U.add('}\n')
    U.add("} // verus!\nfn main() {}\n")
    U.trust('text primitives by shims: usize::to_string == dec_chars(n), format!("{}-{}"), format!("{}@{}"), [String]::join(" "), String::push / push_str / is_empty / clone, the node line template (checked literally) == line_head(id, address, flags, epoch) + slots + newline',
            'gen_node_id (format!, crc64) is a function of (cluster name, address)', 'D14: flat_map over Option<Vec<T>> + flatten + collect == append loop; D2; D9c',
            'derived Hash/Eq of RangeList / String obey the key model (preconditions)')

MUST_FAIL = '''
proof fn must_fail_c14_nodes_ignored_has_tokens(sr: SlotRange, states: Map<RangeList, MigrationState>)
    requires !advertised(sr, states), sr.range_list.0@.len() > 0
    ensures toks_of_node(seq![sr], states, 1).len() > 0
{ }
'''
