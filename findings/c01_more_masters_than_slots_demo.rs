// Demonstration for defect 6 (DESIGN A.3), appended to src/broker/store.rs as a test module.
// A cluster with more masters than slots: add_cluster(32772 nodes) = 8193 chunks = 16386 masters.  On the pinned tree the request is
// granted and proxy_resource_to_chunk_store hands the last masters the range (16384, 16383), which RangeList::from_single_range
// normalises to 16383-16384: slot 16383 has two owners and slot 16384 does not exist.  After the fix the request is refused.
// (enable_ordered_proxy = true only to use the linear-time allocator; the other allocator builds a quadratic link table.)
#[cfg(test)]
mod verif_demo_more_masters_than_slots {
    use super::*;
    use crate::common::utils::SLOT_NUM;

    #[test]
    fn every_slot_of_a_new_cluster_has_one_owner() {
        let mut store = MetaStore::new(true);
        let proxies = 16386;
        for i in 0..proxies {
            let host = format!("10.{}.{}.{}", i / 62500, (i / 250) % 250, i % 250);
            store
                .add_proxy(
                    format!("{}:7000", host),
                    [format!("{}:6000", host), format!("{}:6001", host)],
                    None,
                    Some(i),
                )
                .unwrap();
        }
        match store.add_cluster("bigcluster".to_string(), 2 * proxies, ClusterConfig::default()) {
            Err(_) => (), // refused: nothing to check
            Ok(()) => {
                let name = ClusterName::try_from("bigcluster").unwrap();
                let cluster = store.clusters.get(&name).unwrap();
                let mut owners = vec![0usize; SLOT_NUM + 2];
                for chunk in cluster.chunks.iter() {
                    for half in chunk.stable_slots.iter().flatten() {
                        for range in half.get_range_list().get_ranges().iter() {
                            for s in range.start()..=range.end() {
                                assert!(s < SLOT_NUM, "slot {} does not exist", s);
                                owners[s] += 1;
                            }
                        }
                    }
                }
                for (s, n) in owners.iter().enumerate().take(SLOT_NUM) {
                    assert_eq!(*n, 1, "slot {} has {} owners", s, n);
                }
            }
        }
    }
}
