# C01 (range algebra): RangeList::compact (src/common/cluster.rs) normalises, sorts and merges ranges without
# changing the covered slot set (DESIGN 4.1).  Contract / invariants / hints: contracts/range_list.compact.overlay.json
# (derived from the calibrated probe design_probes/u1.rs, anchored on source lines).
import vlib
from units import broker_common

# the contract of RangeList::new proved here; units that use new() modularly import this very text
NEW_HEADER = """    pub fn new(ranges: Vec<Range>) -> (r: Self)
        requires bounded(ranges@)
        ensures wf(r.0@), forall|s: int| covers(r.0@, s) <==> covers(ranges@, s)"""

MERGE_ANOTHER_HEADER = """    pub fn merge_another(&mut self, range_list: &mut RangeList)
        requires bounded(old(self).0@), bounded(old(range_list).0@)
        ensures wf(final(self).0@), final(range_list).0@.len() == 0,
            forall|s: int| covers(final(self).0@, s) <==> (covers(old(self).0@, s) || covers(old(range_list).0@, s))"""

def build(U):
    C = U.src('src/common/cluster.rs')
    U.add('''use vstd::prelude::*;
use std::mem::swap;
verus! {
global size_of usize == 8;
''')
    U.add(vlib.pub_fields(broker_common.strip(C.item('struct', 'Range'))) + '\n')
    U.add('impl Clone for Range { fn clone(&self) -> (r: Self) ensures r == *self { Range(self.0, self.1) } }\n')
    U.add(vlib.pub_fields(broker_common.strip(C.item('struct', 'RangeList'))) + '\n')
    U.add('impl Range {\n')
    for n in ('start', 'end'):
        g = C.fn(n, within=r'impl Range\b')
        g.header("    pub fn %s(&self) -> (r: usize)\n        ensures r == self.%d" % (n, 0 if n == 'start' else 1))
        U.add_fn(g)
    U.add('}\n')
    U.prelude('range_spec.rs')
    f = C.fn('compact', within=r'impl RangeList\b')
    f.r1_logging()
    f.replace('R7', 'self.0.sort_by_key(|range| range.start());', 'shim_sort_by_start(&mut self.0);', count=1)
    f.apply_overlay('range_list.compact')
    U.add('impl RangeList {\n')
    U.add_fn(f)
    # thin wrappers around compact(): new, from_single_range, merge_another, merge
    g = C.fn('new', within=r'impl RangeList\b')
    g.header(NEW_HEADER)
    U.add_fn(g)
    g = C.fn('from_single_range', within=r'impl RangeList\b')
    g.header("""    pub fn from_single_range(mut range: Range) -> (r: Self)
        ensures wf(r.0@), forall|s: int| covers(r.0@, s) <==> lo(range) <= s <= hi(range)""")
    g.body_start("        let ghost r0 = range;")
    g.before("Self(vec![range])", "        proof { assert forall|s: int| covers(seq![range], s) <==> lo(r0) <= s <= hi(r0) by { if lo(r0) <= s <= hi(r0) { assert(lo(seq![range][0]) <= s <= hi(seq![range][0])); } } }")
    U.add_fn(g)
    g = C.fn('merge_another', within=r'impl RangeList\b')
    g.header(MERGE_ANOTHER_HEADER)
    g.after("self.0.append(&mut range_list.0);", """        proof {
            let a = old(self).0@; let b = old(range_list).0@;
            assert(self.0@ =~= a + b);
            assert forall|s: int| covers(a + b, s) <==> (covers(a, s) || covers(b, s)) by {
                lemma_covers_split(a + b, a.len() as int, s);
                assert((a + b).subrange(0, a.len() as int) =~= a);
                assert((a + b).subrange(a.len() as int, (a + b).len() as int) =~= b);
            }
        }""")
    U.add_fn(g)
    U.add('}\n} // verus!\nfn main() {}\n')
    U.trust('Vec::sort_by_key(|r| r.start()) by assumed contract (permutation, sorted by .0) - shim_sort_by_start (R7)',
            'std::cmp::max (R6)', 'v@.len() <= usize::MAX for Vec (axiom_vec_len_bound)',
            'precondition: every range bound < usize::MAX (s.end() + 1 would overflow otherwise: DESIGN section 0 item 5)')

MUST_FAIL = '''
proof fn must_fail_wf_not_trivial(v: Seq<Range>) requires normalized(v), sorted_by_start(v) ensures wf(v) { }
proof fn must_fail_sort_shim_consistent(v: Seq<Range>) requires v.len() > 1, sorted_by_start(v) ensures false { }
'''
