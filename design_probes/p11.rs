use vstd::prelude::*;
use std::collections::HashSet;
verus! {

pub struct Range(pub usize, pub usize);
pub struct RangeList(pub Vec<Range>);
pub struct MigrationMeta { pub epoch: u64, pub src_proxy_address: String, pub src_node_address: String, pub dst_proxy_address: String, pub dst_node_address: String }
pub enum SlotRangeTag { Migrating(MigrationMeta), Importing(MigrationMeta), None }
pub struct SlotRange { pub range_list: RangeList, pub tag: SlotRangeTag }

#[derive(Clone, Copy, PartialEq, Eq)]
pub enum ChunkRolePosition { Normal, FirstChunkMaster, SecondChunkMaster }

pub struct MigrationMetaStore { pub epoch: u64, pub src_chunk_index: usize, pub src_chunk_part: usize, pub dst_chunk_index: usize, pub dst_chunk_part: usize }
pub struct MigrationSlotRangeStore { pub range_list: RangeList, pub is_migrating: bool, pub meta: MigrationMetaStore }

pub struct ChunkStore {
    pub role_position: ChunkRolePosition,
    pub stable_slots: [Option<SlotRange>; 2],
    pub migrating_slots: [Vec<MigrationSlotRangeStore>; 2],
    pub proxy_addresses: [String; 2],
    pub hosts: [String; 2],
    pub node_addresses: [String; 4],
}
pub struct ClusterStore { pub epoch: u64, pub chunks: Vec<ChunkStore> }

pub enum MetaStoreError { ClusterNotFound }


pub const CHUNK_NODE_NUM: usize = 4;
pub const CHUNK_HALF_NODE_NUM: usize = 2;
#[derive(Clone, Copy, PartialEq, Eq)]
pub enum Role { Master, Replica }
pub struct ReplPeer { pub node_address: String, pub proxy_address: String }
pub struct ReplMeta { pub role: Role, pub peers: Vec<ReplPeer> }
impl ReplMeta { pub fn new(role: Role, peers: Vec<ReplPeer>) -> (r: Self) ensures r.role == role, r.peers == peers { Self { role, peers } } }
pub struct Node { pub address: String, pub proxy_address: String, pub slots: Vec<SlotRange>, pub repl: ReplMeta }
impl Node { pub fn new(address: String, proxy_address: String, slots: Vec<SlotRange>, repl: ReplMeta) -> (r: Self) { Node { address, proxy_address, slots, repl } } }

impl MigrationSlotRangeStore {
    #[verifier::external_body]
    pub fn to_slot_range(&self, chunks: &[ChunkStore]) -> SlotRange { unimplemented!() }
}
#[verifier::external_body]
fn clone_slot_range(s: &SlotRange) -> (r: SlotRange) ensures r == *s { unimplemented!() }

    pub fn cluster_store_to_cluster(cluster_store: &ClusterStore) -> Vec<Node> {
        let mut nodes_acc: Vec<Node> = vec![];
        for chunk in cluster_store.chunks.iter() {
            let mut part = {
                let mut nodes = vec![];
                for i in 0..CHUNK_NODE_NUM {
                    let address = chunk
                        .node_addresses
                        .get(i)
                        .expect("MetaStore::get_cluster_by_name: failed to get node")
                        .clone();
                    let proxy_address = chunk
                        .proxy_addresses
                        .get(i / 2)
                        .expect("MetaStore::get_cluster_by_name: failed to get proxy")
                        .clone();

                    // get slots
                    let mut slots = vec![];
                    let (first_slot_index, second_slot_index) = match chunk.role_position {
                        ChunkRolePosition::Normal => (0, 2),
                        ChunkRolePosition::FirstChunkMaster => (0, 1),
                        ChunkRolePosition::SecondChunkMaster => (3, 2),
                    };
                    if i == first_slot_index {
                        let mut first_slots = vec![];
                        if let Some(stable_slots) = &chunk.stable_slots[0] {
                            first_slots.push(clone_slot_range(stable_slots));
                        }
                        slots.append(&mut first_slots);
                        let mut slot_ranges: Vec<SlotRange> = vec![];
                        for slot_range_store in chunk.migrating_slots[0].iter() {
                            slot_ranges.push(slot_range_store.to_slot_range(cluster_store.chunks.as_slice()));
                        }
                        slots.append(&mut slot_ranges);
                    }

                    // get repl
                    let mut role = Role::Master;
                    match chunk.role_position {
                        ChunkRolePosition::Normal if i % 2 == 1 => role = Role::Replica,
                        ChunkRolePosition::FirstChunkMaster if i >= CHUNK_HALF_NODE_NUM => {
                            role = Role::Replica
                        }
                        ChunkRolePosition::SecondChunkMaster if i < CHUNK_HALF_NODE_NUM => {
                            role = Role::Replica
                        }
                        _ => (),
                    }

                    let peer_index = match i {
                        0 => 3,
                        1 => 2,
                        2 => 1,
                        _ => 0,
                    };
                    let peer = ReplPeer {
                        node_address: chunk
                            .node_addresses
                            .get(peer_index)
                            .expect("MetaStore::get_cluster_by_name: failed to get peer node")
                            .clone(),
                        proxy_address: chunk
                            .proxy_addresses
                            .get(peer_index / 2)
                            .expect("MetaStore::get_cluster_by_name: failed to get peer proxy")
                            .clone(),
                    };
                    let repl = ReplMeta::new(role, vec![peer]);

                    let node = Node::new(address, proxy_address, slots, repl);
                    nodes.push(node);
                }
                nodes
            };
            nodes_acc.append(&mut part);
        }
        nodes_acc
    }

} // verus!
fn main() {}
