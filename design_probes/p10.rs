use vstd::prelude::*;
verus! {
use vstd::std_specs::iter::IteratorSpec;
pub struct E { pub epoch: u64, pub k: usize }

pub broadcast axiom fn axiom_iter_mut_has_resolved<'a, T>(it: vstd::std_specs::iter::VerusForLoopWrapper<core::slice::IterMut<'a, T>>)
    ensures #[trigger] has_resolved(it) ==> forall|i: int| it.index@ <= i < it.seq().len() ==> has_resolved(#[trigger] it.seq()[i]);

fn g(v: &mut Vec<E>, key: usize, e: u64)
    ensures
        final(v)@.len() == old(v)@.len(),
        forall|i: int| 0 <= i < old(v)@.len() ==> (#[trigger] final(v)@[i]).k == old(v)@[i].k,
{
    broadcast use axiom_iter_mut_has_resolved;
    for x in it: v.iter_mut()
        invariant
            it.seq().len() == old(v)@.len(),
            forall|i: int| 0 <= i < it.seq().len() ==> *(#[trigger] it.seq()[i]) == old(v)@[i],
            forall|i: int| 0 <= i < it.index@ ==> (#[trigger] final(it.seq()[i])).k == old(v)@[i].k,
    {
        if x.k == key {
            x.epoch = e;
            break;
        }
    }
}
} // verus!
fn main() {}
