use vstd::prelude::*;
verus! {

// ---------------- spec (Redis Cluster specification) ----------------
pub open spec fn first_index(s: Seq<u8>, c: u8) -> Option<int>
    decreases s.len()
{
    if s.len() == 0 { None }
    else if s[0] == c { Some(0int) }
    else { match first_index(s.subrange(1, s.len() as int), c) { Some(i) => Some(i + 1), None => None } }
}

pub open spec fn spec_hash_tag(k: Seq<u8>) -> Seq<u8> {
    match first_index(k, 123u8) {
        None => k,
        Some(b) => match first_index(k.subrange(b + 1, k.len() as int), 125u8) {
            None => k,
            Some(off) => if off == 0 { k } else { k.subrange(b + 1, b + 1 + off) },
        }
    }
}

pub proof fn lemma_first_index(s: Seq<u8>, c: u8)
    ensures match first_index(s, c) {
        Some(i) => 0 <= i < s.len() && s[i] == c && forall|j: int| 0 <= j < i ==> s[j] != c,
        None => forall|j: int| 0 <= j < s.len() ==> s[j] != c,
    }
    decreases s.len()
{
    if s.len() == 0 {} else if s[0] == c {} else {
        let t = s.subrange(1, s.len() as int);
        lemma_first_index(t, c);
        match first_index(t, c) {
            Some(i) => { assert forall|j: int| 0 <= j < i + 1 implies s[j] != c by { if j > 0 { assert(t[j - 1] == s[j]); } } assert(t[i] == s[i + 1]); }
            None => { assert forall|j: int| 0 <= j < s.len() implies s[j] != c by { if j > 0 { assert(t[j - 1] == s[j]); } } }
        }
    }
}

pub proof fn lemma_first_index_unique(s: Seq<u8>, c: u8, i: int)
    requires 0 <= i < s.len(), s[i] == c, forall|j: int| 0 <= j < i ==> s[j] != c
    ensures first_index(s, c) == Some(i)
{
    lemma_first_index(s, c);
}
pub proof fn lemma_first_index_none(s: Seq<u8>, c: u8)
    requires forall|j: int| 0 <= j < s.len() ==> s[j] != c
    ensures first_index(s, c).is_none()
{
    lemma_first_index(s, c);
}

// ---------------- shims (trusted, R3/R4) ----------------
#[verifier::external_body]
fn shim_position_u8(s: &[u8], c: u8) -> (r: Option<usize>)
    ensures match r {
        Some(i) => i < s@.len() && s@[i as int] == c && forall|j: int| 0 <= j < i ==> s@[j] != c,
        None => forall|j: int| 0 <= j < s@.len() ==> s@[j] != c,
    }
{ s.iter().position(|x| *x == c) }

#[verifier::external_body]
fn shim_get_from(s: &[u8], a: usize) -> (r: Option<&[u8]>)
    ensures match r { Some(t) => a <= s@.len() && t@ == s@.subrange(a as int, s@.len() as int), None => a > s@.len() }
{ s.get(a..) }

#[verifier::external_body]
fn shim_get_range(s: &[u8], a: usize, b: usize) -> (r: Option<&[u8]>)
    ensures match r { Some(t) => a <= b <= s@.len() && t@ == s@.subrange(a as int, b as int), None => !(a <= b <= s@.len()) }
{ s.get(a..b) }


global size_of usize == 8;
pub const SLOT_NUM: usize = 16384;
#[verifier::external_body] pub proof fn lemma_slice_len(s: &[u8]) ensures s@.len() <= usize::MAX {}
pub uninterp spec fn spec_crc16_xmodem(s: Seq<u8>) -> int;     // bitwise CRC-16/XMODEM; tied to the crate by the Kani square (3.7)
#[verifier::external_body] fn shim_crc16_xmodem(s: &[u8]) -> (r: u16) ensures r == spec_crc16_xmodem(s@) { unimplemented!() }
// ---------------- extracted from src/common/utils.rs, src/proxy/slot.rs ----------------
pub fn get_hash_tag(key: &[u8]) -> (r: &[u8])
    ensures r@ == spec_hash_tag(key@)
{
    proof { lemma_first_index(key@, 123u8); lemma_slice_len(key); }
    if let Some(begin) = shim_position_u8(key, '{' as u8) {
        proof { lemma_first_index_unique(key@, 123u8, begin as int); lemma_first_index(key@.subrange(begin + 1, key@.len() as int), 125u8); }
        if let Some(end_offset) = shim_get_from(key, begin + 1)
            .and_then(|t: &[u8]| -> (o: Option<usize>)
                ensures match o {
                    Some(i) => i < t@.len() && t@[i as int] == 125u8 && forall|j: int| 0 <= j < i ==> t@[j] != 125u8,
                    None => forall|j: int| 0 <= j < t@.len() ==> t@[j] != 125u8,
                }
                { shim_position_u8(t, '}' as u8) })
        {
            if end_offset == 0 {
                return key;
            }
            return shim_get_range(key, begin + 1, begin + 1 + end_offset)
                .expect("get_hash_tag");
        }
    }
    key
}
pub fn generate_slot(key: &[u8]) -> (r: usize)
    ensures r == spec_crc16_xmodem(spec_hash_tag(key@)) % 16384, r < 16384
{
    shim_crc16_xmodem(get_hash_tag(key)) as usize % SLOT_NUM
}
pub struct SlotMapData { pub slot_arr: Vec<Option<usize>>, pub addrs: Vec<String> }
impl SlotMapData {
pub fn get(&self, slot: usize) -> (r: Option<&str>)
        requires forall|i: int| 0 <= i < self.slot_arr@.len() ==> ((#[trigger] self.slot_arr@[i]) matches Some(k) ==> k < self.addrs@.len())
        ensures match r { Some(a) => slot < self.slot_arr@.len() && (self.slot_arr@[slot as int] matches Some(k) && a@ == self.addrs@[k as int]@), None => slot >= self.slot_arr@.len() || self.slot_arr@[slot as int] is None }
    {
        let addr_index = self.slot_arr.get(slot).and_then(|opt: &Option<usize>| -> (o: Option<usize>) ensures o == *opt { *opt })?;
        self.addrs.get(addr_index).map(|s: &String| -> (o: &str) ensures o@ == s@ { s.as_str() })
    }
}
} // verus!
fn main() {}
