#!/bin/bash
# seed_check.sh <patch.diff> <property id> [more ids]  -- apply a seeded change to /repo, run the quick checks, undo
P="$1"; shift
git -C /repo apply "$P" || { echo "does not apply"; exit 3; }
for id in "$@"; do
  VERIF_OUT=/var/tmp/seedcheck_out ./check "$id" quick 2>&1 | grep -v conda | head -12; echo "[$id exit=${PIPESTATUS[0]}]"
done
git -C /repo checkout -- .
git -C /repo status --short | head -3
