#!/usr/bin/env python3
# Extractor self-check (DESIGN 3.2): translation validation of the control-flow / iterator rewrite rules by the
# project's own test suite.  Every function that a D-rule rewrites is rewritten (D-rules only, no contracts, no
# overlay), pasted back over the original in a scratch copy of /repo, and the unedited 146 tests are run against it.
# Reported separately; never a property verdict.   usage: python3 tools/rulecheck.py
import os, re, shutil, subprocess, sys, tempfile, time
HERE = os.path.dirname(os.path.abspath(__file__)); VERIF = os.path.dirname(HERE)
sys.path.insert(0, HERE); sys.path.insert(0, VERIF)
import vlib

SHIMS = {
 'shim_keys': "fn shim_keys<K: Clone + std::hash::Hash + Eq, V>(m: &std::collections::HashMap<K, V>) -> Vec<K> { m.keys().cloned().collect() }\n",
 'shim_into_vec': "fn shim_into_vec<K: std::hash::Hash + Eq, V>(m: std::collections::HashMap<K, V>) -> Vec<(K, V)> { m.into_iter().collect() }\n",
}
# (file, fn, within, [rule callables])
def _d10q(f): vlib.d10_question_in_for(f, 0, 'Result<(), MetaStoreError>')
def _d10r(f): vlib.d10_return_in_for(f, 0, 'Result<(), MetaStoreError>')
def _d1d2(f):
    vlib.d1_flat_map_collect(f, 'crate::common::cluster::Node'); vlib.d2_map_collect(f, 'crate::common::cluster::SlotRange'); f.replace('D2b', 'slots.extend(slot_ranges);', 'slots.append(&mut slot_ranges);')
def _d9b(f):
    vlib.d8_continue(f)
    f.replace('D9b', 'for (addr, slots) in slot_map.into_iter() {', 'let verif_entries = shim_into_vec(slot_map);\n        for (addr, slots) in verif_entries.into_iter() {', count=1)
TARGETS = [
 ('src/broker/query.rs', 'cluster_store_to_cluster', None, [_d1d2]),
 ('src/broker/query.rs', 'get_free_proxy_resource', None, [vlib.d8_continue]),
 ('src/broker/store.rs', 'recover_epoch', r'impl MetaStore\b', [vlib.d9_values_mut]),
 ('src/broker/store.rs', 'force_bump_all_epoch', r'impl MetaStore\b', [vlib.d9_values_mut]),
 ('src/broker/store.rs', 'limit_migration', r'impl ClusterStore\b', [vlib.d8_continue]),
 ('src/broker/store.rs', 'is_migrating', r'impl ClusterStore\b', [vlib.d11_iter_any]),
 ('src/broker/update.rs', 'change_config', None, [_d10q]),
 ('src/broker/update.rs', 'takeover_master', None, [_d10r]),
 ('src/broker/update.rs', 'balance_masters', None, [vlib.d8_continue]),
 ('src/broker/migrate.rs', 'check_running_tasks', None, [vlib.d11_iter_any]),
 ('src/broker/migrate.rs', 'migrate_slots', None, [vlib.d11_iter_any]),
 ('src/broker/migrate.rs', 'migrate_slots_to_scale_down', None, [vlib.d11_iter_any]),
 ('src/proxy/slot.rs', 'new', r'impl SlotMapData\b', [_d9b]),
]

def main():
    d = tempfile.mkdtemp(prefix='undermoon-rulecheck.', dir=os.environ.get('VERIF_SCRATCH', '/var/tmp'))
    t0 = time.time()
    try:
        subprocess.run(['rsync', '-a', '--exclude', 'target', '--exclude', '.git', vlib.REPO.rstrip('/') + '/', d + '/'], check=True)
        log = vlib.Log()
        done = []
        by_file = {}
        for rel, fn, within, rules in TARGETS:
            S = vlib.Src(rel, log)
            f = S.fn(fn, within=within)
            orig = f.text
            for r in rules:
                r(f)
            by_file.setdefault(rel, []).append((orig, f.text))
            done.append('%s::%s' % (rel, fn))
        for rel, pairs in by_file.items():
            p = os.path.join(d, rel)
            s = open(p).read()
            used = set()
            for orig, new in pairs:
                if s.count(orig) != 1:
                    print('RULECHECK undecided: original text of a function not found exactly once in', rel)
                    return 2
                s = s.replace(orig, new)
                for k in SHIMS:
                    if k + '(' in new:
                        used.add(k)
            s += '\n' + ''.join(SHIMS[k] for k in sorted(used))
            open(p, 'w').write(s)
        tgt = os.path.join(VERIF, '.cache', 'rulecheck_target')
        os.makedirs(tgt, exist_ok=True)
        r = subprocess.run(['cargo', 'test', '--offline'], cwd=d, capture_output=True, text=True, env=dict(os.environ, CARGO_TARGET_DIR=tgt, CARGO_NET_OFFLINE='true'), timeout=3600)
        out = r.stdout + r.stderr
        res = re.findall(r'test result: (\w+)\. (\d+) passed; (\d+) failed', out)
        passed = sum(int(x[1]) for x in res); failed = sum(int(x[2]) for x in res)
        print('RULECHECK %d rewritten functions (%s), rules: %s' % (len(done), ', '.join(done), ', '.join(sorted(set(x['rule'] for x in log.rules)))))
        print('RULECHECK suite on the rewritten functions: %d passed, %d failed, cargo exit %d, %.0fs' % (passed, failed, r.returncode, time.time() - t0))
        if r.returncode != 0 or failed or passed < 146:
            print(out[-3000:])
            return 1
        return 0
    finally:
        shutil.rmtree(d, ignore_errors=True)

if __name__ == '__main__':
    sys.exit(main())
