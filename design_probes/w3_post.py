import re
s=open('/tmp/km/x/w3.rs').read()
def must(old,new,count=1):
    global s
    assert s.count(old)>=1, old[:60]
    s=s.replace(old,new,count)
# 1. early case spec
must("==> nc == oc\n","==> nc.epoch == oc.epoch && nc.chunks@ =~= oc.chunks@\n")
# 2. ghost hit index
must("        let ghost old_cluster = *cluster;\n","        let ghost old_cluster = *cluster;\n        let ghost mut hit_idx: int = -1;\n")
s=s.replace("{ verif_ret = Some(Ok(())); break; }","{ proof { hit_idx = it.index@; } verif_ret = Some(Ok(())); break; }")
s=re.sub(r'(                \}\n)(                break;\n)', lambda m: m.group(1)+"                proof { hit_idx = it.index@; }\n"+m.group(2), s)
must("            invariant_except_break\n                verif_ret is None,","            invariant_except_break\n                hit_idx == -1,\n                verif_ret is None,")
must("            ensures\n                it.index@ == it.seq().len() ||","""            ensures
                hit_idx == -1 ==> it.index@ == it.seq().len() && verif_ret is None,
                hit_idx == -1 ==> forall|i: int| 0 <= i < it.seq().len() ==> !is_hit(#[trigger] old_cluster.chunks@[i], failed_proxy_address@),
                hit_idx != -1 ==> hit_idx == it.index@ - 1 && 0 <= hit_idx < it.seq().len() && is_hit(old_cluster.chunks@[hit_idx], failed_proxy_address@),
                it.index@ == it.seq().len() ||""")
# 3. after loop 1
must("        if let Some(verif_r) = verif_ret { return verif_r; }\n        let ghost mid = *cluster;\n","""        let ghost mid = *cluster;
        proof {
            let oc = old_cluster; let fa = failed_proxy_address@;
            assert(mid.chunks@.len() == oc.chunks@.len());
            assert(mid.epoch == oc.epoch && mid.name == oc.name && mid.config == oc.config);
            if hit_idx == -1 {
                assert forall|c: int| 0 <= c < oc.chunks@.len() implies !is_hit(#[trigger] oc.chunks@[c], fa) && mid.chunks@[c] == oc.chunks@[c] by {}
            } else {
                assert(is_first_hit(oc, hit_idx, fa));
                assert(hit_post(oc.chunks@[hit_idx], mid.chunks@[hit_idx], fa, new_epoch, verif_ret is Some, peer_position@));
                assert forall|c: int| 0 <= c < oc.chunks@.len() && c != hit_idx implies mid.chunks@[c] == #[trigger] oc.chunks@[c] by {}
            }
        }
        if let Some(verif_r) = verif_ret {
            proof {
                assert(cluster.chunks@ =~= old_cluster.chunks@);
                assert forall|j: int| is_first_hit(old_cluster, j, failed_proxy_address@) implies j == hit_idx by {}
            }
            return verif_r;
        }
""")
# 4. end
must("        cluster.epoch = new_epoch;\n        Ok(())\n","""        cluster.epoch = new_epoch;
        proof {
            let oc = old_cluster; let nc = *cluster; let fa = failed_proxy_address@; let pp = peer_position@;
            assert(nc.chunks@.len() == oc.chunks@.len());
            assert forall|c: int| 0 <= c < oc.chunks@.len() implies chunk_post2(mid.chunks@[c], #[trigger] nc.chunks@[c], pp, new_epoch) by {}
            if hit_idx == -1 {
                assert(pp == Set::<(usize, usize)>::empty());
                assert forall|c: int| 0 <= c < oc.chunks@.len() implies chunk_final(#[trigger] oc.chunks@[c], nc.chunks@[c], false, 0, Set::<(usize, usize)>::empty(), new_epoch) by {
                    assert(mid.chunks@[c] == oc.chunks@[c]);
                    assert(chunk_post2(mid.chunks@[c], nc.chunks@[c], pp, new_epoch));
                }
            } else {
                let j = hit_idx; let h = hit_half(oc.chunks@[j], fa);
                assert forall|jj: int| is_first_hit(oc, jj, fa) implies jj == j by {}
                assert(oc.chunks@[j].role_position != flipped(h));
                assert(pp == positions_of(oc.chunks@[j].migrating_slots[h]@));
                assert forall|c: int| 0 <= c < oc.chunks@.len() implies chunk_final(#[trigger] oc.chunks@[c], nc.chunks@[c], c == j, h, pp, new_epoch) by {
                    assert(chunk_post2(mid.chunks@[c], nc.chunks@[c], pp, new_epoch));
                    if c != j { assert(mid.chunks@[c] == oc.chunks@[c]); }
                }
            }
        }
        Ok(())
""")
open('/tmp/km/x/w3.rs','w').write(s)

s=open('/tmp/km/x/w3.rs').read()
must('''pub open spec fn hit_post(a: ChunkStore, b: ChunkStore, failed: Seq<char>, e: u64, early: bool, peers: Set<(usize, usize)>) -> bool {
    let h = hit_half(a, failed);
    if a.role_position == flipped(h) { early && b == a && peers == Set::<(usize, usize)>::empty() }
    else {
        !early && chunk_static_eq(a, b) && b.role_position == flipped(h)
        && b.migrating_slots[1 - h]@ == a.migrating_slots[1 - h]@
        && entries_post(a.migrating_slots[h]@, b.migrating_slots[h]@, Set::<(usize, usize)>::empty(), true, e)
        && peers == positions_of(a.migrating_slots[h]@)
    }
}''','''pub open spec fn both_moved(a: ChunkStore, h: int) -> bool { a.role_position == flipped(1 - h) }
pub open spec fn hit_peers(a: ChunkStore, h: int) -> Set<(usize, usize)> {
    if both_moved(a, h) { positions_of(a.migrating_slots[h]@ + a.migrating_slots[1 - h]@) } else { positions_of(a.migrating_slots[h]@) }
}
pub open spec fn hit_post(a: ChunkStore, b: ChunkStore, failed: Seq<char>, e: u64, early: bool, peers: Set<(usize, usize)>) -> bool {
    let h = hit_half(a, failed);
    if a.role_position == flipped(h) { early && b == a && peers == Set::<(usize, usize)>::empty() }
    else {
        !early && chunk_static_eq(a, b) && b.role_position == flipped(h)
        && entries_post(a.migrating_slots[1 - h]@, b.migrating_slots[1 - h]@, Set::<(usize, usize)>::empty(), both_moved(a, h), e)
        && entries_post(a.migrating_slots[h]@, b.migrating_slots[h]@, Set::<(usize, usize)>::empty(), true, e)
        && peers == hit_peers(a, h)
    }
}''')
must('''    && entries_post(a.migrating_slots[0]@, b.migrating_slots[0]@, p, is_j && h == 0, e)
    && entries_post(a.migrating_slots[1]@, b.migrating_slots[1]@, p, is_j && h == 1, e)''','''    && entries_post(a.migrating_slots[0]@, b.migrating_slots[0]@, p, is_j && (h == 0 || both_moved(a, h)), e)
    && entries_post(a.migrating_slots[1]@, b.migrating_slots[1]@, p, is_j && (h == 1 || both_moved(a, h)), e)''')
s=s.replace("positions_of(oc.chunks@[j].migrating_slots[h]@)","hit_peers(oc.chunks@[j], h)")
open('/tmp/km/x/w3.rs','w').write(s)

s=open('/tmp/km/x/w3.rs').read()
# hints before each `if both_moved {`
parts=s.split("                if both_moved {\n")
assert len(parts)==3, len(parts)
def pre(h):
    o=1-h
    return f'''                proof {{
                    let s1 = old_cluster.chunks@[it.index@].migrating_slots[{h}]@;
                    let s2 = old_cluster.chunks@[it.index@].migrating_slots[{o}]@;
                    assert(s1.subrange(0, s1.len() as int) =~= s1);
                    assert(s1 + s2.subrange(0, 0) =~= s1);
                }}
'''
s=parts[0]+pre(0)+"                if both_moved {\n"+parts[1]+pre(1)+"                if both_moved {\n"+parts[2]
# hints before the two plain breaks that follow the `if both_moved {...}` blocks
cnt3=0
def repl3(m):
    global cnt3
    h=cnt3; o=1-h; cnt3+=1
    return m.group(1)+f'''                proof {{
                    let s1 = old_cluster.chunks@[it.index@].migrating_slots[{h}]@;
                    let s2 = old_cluster.chunks@[it.index@].migrating_slots[{o}]@;
                    assert(s1.subrange(0, s1.len() as int) =~= s1);
                    assert(s1 + s2.subrange(0, s2.len() as int) =~= s1 + s2);
                }}
'''+m.group(2)
s=re.sub(r'(                    \}\n                \}\n)(                proof \{\n                    let sq)', repl3, s)
assert cnt3==2, cnt3
open('/tmp/km/x/w3.rs','w').write(s)
