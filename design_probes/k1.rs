use vstd::prelude::*;
verus! {
fn f(v: &mut Vec<[Option<u64>; 2]>, i: usize, j: usize)
    requires i < old(v)@.len(), j < 2
    ensures final(v)@.len() == old(v)@.len(),
        final(v)@[i as int][j as int] == Some(5u64),
        forall|a: int, b: int| 0 <= a < old(v)@.len() && 0 <= b < 2 && !(a == i && b == j) ==> final(v)@[a][b] == old(v)@[a][b],
{
    let r = v
        .get_mut(i)
        .and_then(|c: &mut [Option<u64>; 2]| -> (o: Option<&mut Option<u64>>)
            ensures o is Some, *(o->Some_0) == old(c)[j as int], final(c)@ == old(c)@.update(j as int, *final(o->Some_0))
            { c.get_mut(j) })
        .expect("x");
    *r = Some(5);
}
}
fn main() {}
