# Extraction + overlay library for the Verus leg (DESIGN.md 3.2).
#
# Every run re-reads /repo (env VERIF_REPO), cuts the real items out with a tokenizer
# (strings / chars / comments / nested braces), applies the closed rule table (each
# application logged) and inserts contract clauses / loop invariants / proof hints that are
# anchored on the *source text*.  A lost anchor or a pattern that no longer matches raises
# Undecided (exit 2), never a VIOLATION.
import hashlib, json, os, re, subprocess, sys, time

REPO = os.environ.get('VERIF_REPO', '/repo')
VERIF = os.path.dirname(os.path.dirname(os.path.abspath(__file__)))


class Undecided(Exception):
    """extraction or tool limit: the run cannot decide (exit 2)"""


# ------------------------------------------------------------------ tokenizer
def code_mask(src):
    """mask[i] is True where src[i] is code (not inside string / char literal / comment)."""
    n = len(src)
    mask = [True] * n
    i = 0
    while i < n:
        c = src[i]
        if src.startswith('//', i):
            j = src.find('\n', i)
            j = n if j < 0 else j
            for k in range(i, j):
                mask[k] = False
            i = j
            continue
        if src.startswith('/*', i):
            depth = 1
            j = i + 2
            while j < n and depth > 0:
                if src.startswith('/*', j):
                    depth += 1
                    j += 2
                elif src.startswith('*/', j):
                    depth -= 1
                    j += 2
                else:
                    j += 1
            for k in range(i, j):
                mask[k] = False
            i = j
            continue
        if c == 'r' and re.match(r'r#*"', src[i:i + 8]) and (i == 0 or not (src[i - 1].isalnum() or src[i - 1] == '_')):
            m = re.match(r'r(#*)"', src[i:])
            close = '"' + m.group(1)
            j = src.find(close, i + m.end())
            j = n if j < 0 else j + len(close)
            for k in range(i, j):
                mask[k] = False
            i = j
            continue
        if c == '"':
            j = i + 1
            while j < n and src[j] != '"':
                if src[j] == '\\':
                    j += 1
                j += 1
            for k in range(i, min(j + 1, n)):
                mask[k] = False
            i = j + 1
            continue
        if c == "'":
            m = re.match(r"'(\\x[0-9a-fA-F]{2}|\\u\{[0-9a-fA-F]+\}|\\.|[^\\'])'", src[i:])
            if m:
                for k in range(i, i + m.end()):
                    mask[k] = False
                i += m.end()
                continue
        i += 1
    return mask


def match_brace(src, mask, j):
    """src[j] == '{' (code); return index of the matching '}'."""
    d = 0
    k = j
    n = len(src)
    while k < n:
        if mask[k]:
            if src[k] == '{':
                d += 1
            elif src[k] == '}':
                d -= 1
                if d == 0:
                    return k
        k += 1
    raise Undecided('unbalanced braces')


def cut_item(src, header_re, start=0, end=None):
    mask = code_mask(src)
    end = len(src) if end is None else end
    for m in re.finditer(header_re, src[start:end]):
        i = start + m.start()
        if not mask[i]:
            continue
        j = i
        depth = 0
        while True:
            c = src[j]
            if mask[j]:
                if c in '([':
                    depth += 1
                elif c in ')]':
                    depth -= 1
                elif c == '{' and depth == 0:
                    break
                elif c == ';' and depth == 0:
                    return src[i:j + 1], i, j + 1
            j += 1
        k = match_brace(src, mask, j)
        return src[i:k + 1], i, k + 1
    return None


class Log:
    """what the extractor did on this run (goes into the evidence)."""

    def __init__(self):
        self.functions = []   # dicts: name, file, line, sha256
        self.rules = []       # dicts: rule, file, fn, note
        self.scans = []       # syntactic call-site facts checked

    def rule(self, rule, fn, note=''):
        self.rules.append({'rule': rule, 'file': fn.file, 'fn': fn.name, 'note': note})


class Src:
    def __init__(self, rel, log):
        self.rel = rel
        self.path = os.path.join(REPO, rel)
        try:
            self.text = open(self.path).read()
        except OSError as e:
            raise Undecided('cannot read %s: %s' % (self.path, e))
        self.log = log

    def _region(self, within):
        """within: header regex of an enclosing item (e.g. r'impl RangeList\b'); returns (start,end)."""
        if within is None:
            return 0, len(self.text)
        r = cut_item(self.text, within)
        if r is None:
            raise Undecided('%s: enclosing item /%s/ not found' % (self.rel, within))
        return r[1], r[2]

    def fn(self, name, within=None, nth=0):
        s, e = self._region(within)
        hdr = r'(?:#\[[^\]]*\]\s*)*(?:pub(?:\([a-z]+\))? )?(?:async )?fn ' + re.escape(name) + r'\b'
        pos = s
        r = None
        for _ in range(nth + 1):
            r = cut_item(self.text, hdr, pos, e)
            if r is None:
                raise Undecided('%s: fn %s not found%s' % (self.rel, name, ' in /%s/' % within if within else ''))
            pos = r[2]
        text, i, j = r
        # drop leading attributes (#[inline] etc.) from the cut
        text2 = re.sub(r'^(?:#\[[^\]]*\]\s*)*', '', text)
        line = self.text.count('\n', 0, i) + 1
        f = Fn(name, self.rel, line, text2, self.log)
        self.log.functions.append({'name': name, 'file': self.rel, 'line': line,
                                   'sha256': hashlib.sha256(text2.encode()).hexdigest()[:16]})
        return f

    def item(self, kind, name):
        r = cut_item(self.text, r'(?:pub(?:\([a-z]+\))? )?' + kind + ' ' + re.escape(name) + r'\b')
        if r is None:
            raise Undecided('%s: %s %s not found' % (self.rel, kind, name))
        return r[0]

    def const_bytes(self, name):
        m = re.search(r'const ' + re.escape(name) + r': &\[u8\] = b"((?:[^"\\]|\\.)*)";', self.text)
        if not m:
            raise Undecided('%s: byte const %s not found' % (self.rel, name))
        return bytes(m.group(1), 'utf-8').decode('unicode_escape').encode('latin-1')

    def const_expr(self, name):
        m = re.search(r'const ' + re.escape(name) + r': ([^=]+?) = ([^;]+);', self.text)
        if not m:
            raise Undecided('%s: const %s not found' % (self.rel, name))
        return m.group(1).strip(), m.group(2).strip()

    def scan(self, what, regex, expect_count=None, flags=0):
        """syntactic call-site fact; recorded, and Undecided if it does not hold any more."""
        mask = code_mask(self.text)
        hits = [m for m in re.finditer(regex, self.text, flags) if mask[m.start()]]
        ok = (len(hits) > 0) if expect_count is None else (len(hits) == expect_count)
        self.log.scans.append({'file': self.rel, 'fact': what, 'matches': len(hits), 'ok': ok})
        return ok, hits


class Fn:
    def __init__(self, name, file, line, text, log):
        self.name = name
        self.file = file
        self.line = line
        self.text = text
        self.orig = text
        self.log = log

    # -- rule applications / overlay insertions; all must match or the run is undecided
    def _lost(self, what):
        raise Undecided('%s:%d fn %s: anchor lost: %s' % (self.file, self.line, self.name, what[:100].replace('\n', '\\n')))

    def replace(self, rule, old, new, count=None):
        """replace exactly `count` occurrences (default: all, at least one)."""
        n = self.text.count(old)
        if n == 0 or (count is not None and n != count):
            self._lost('%s /%s/ found %d expected %s' % (rule, old, n, count))
        self.text = self.text.replace(old, new)
        self.log.rule(rule, self, '%d x %s' % (n, old.strip()[:50].replace('\n', ' ')))
        return self

    def replace_opt(self, rule, old, new):
        if old in self.text:
            self.replace(rule, old, new)
        return self

    def sub(self, rule, regex, repl, count=None, flags=0):
        self.text, n = re.subn(regex, repl, self.text, flags=flags)
        if n == 0 or (count is not None and n != count):
            self._lost('%s re /%s/ found %d expected %s' % (rule, regex, n, count))
        self.log.rule(rule, self, '%d x /%s/' % (n, regex[:50]))
        return self

    def r1_logging(self):
        """R1: remove log macros (statement position)."""
        mask = code_mask(self.text)
        out = []
        i = 0
        n = 0
        t = self.text
        for m in re.finditer(r'\b(error|warn|info|debug|trace)!\s*\(', t):
            if not mask[m.start()] or m.start() < i:
                continue
            # match parens
            j = m.end() - 1
            d = 0
            k = j
            while True:
                if mask[k]:
                    if t[k] == '(':
                        d += 1
                    elif t[k] == ')':
                        d -= 1
                        if d == 0:
                            break
                k += 1
            k += 1
            if k < len(t) and t[k] == ';':
                k += 1
                out.append(t[i:m.start()])
                i = k
                n += 1
            else:
                # expression position (e.g. closure body / match arm): replace by unit
                out.append(t[i:m.start()] + '()')
                i = k
                n += 1
        out.append(t[i:])
        self.text = ''.join(out)
        if n:
            self.log.rule('R1', self, '%d logging macro(s) removed' % n)
        return self

    def r2_closure_underscore(self):
        n = self.text.count('|_|')
        if n:
            self.text = self.text.replace('|_|', '|_e|')
            self.log.rule('R2', self, '%d x |_| -> |_e|' % n)
        return self

    def header(self, new_header):
        """replace the signature (up to the body's '{') by `new_header` after checking that the
        parameter list and return type of the real signature still occur in it."""
        mask = code_mask(self.text)
        depth = 0
        j = 0
        while True:
            c = self.text[j]
            if mask[j]:
                if c in '([':
                    depth += 1
                elif c in ')]':
                    depth -= 1
                elif c == '{' and depth == 0:
                    break
            j += 1
        real = self.text[:j]
        norm = lambda s: re.sub(r'\s+', '', s)
        # parameter list and return type must be carried over verbatim
        m = re.search(r'fn\s+\w+(?:<[^()]*>)?\s*\(', real, re.S)
        a = m.end() - 1
        d = 0
        b = a
        while True:
            if real[b] == '(':
                d += 1
            elif real[b] == ')':
                d -= 1
                if d == 0:
                    break
            b += 1
        params = norm(real[a:b + 1]).replace(',)', ')')
        if params not in norm(new_header).replace(',)', ')'):
            self._lost('signature changed: %s' % re.sub(r'\s+', ' ', real))
        ret = re.search(r'->\s*(.*)$', real[b + 1:], re.S)
        if ret:
            r = norm(ret.group(1))
            r = re.sub(r'where.*$', '', r)
            if r and r not in norm(new_header):
                self._lost('return type changed: %s' % re.sub(r'\s+', ' ', real))
        self.text = new_header.rstrip() + '\n' + self.text[j:]
        self.body_off = len(new_header.rstrip()) + 1
        return self

    def after(self, anchor, text, nth=None):
        """insert `text` after the line that contains `anchor` (anchor must be unique unless nth)."""
        n = self.text.count(anchor)
        if n == 0 or (nth is None and n != 1):
            self._lost('hint anchor /%s/ found %d' % (anchor, n))
        pos = -1
        for _ in range((nth or 0) + 1):
            pos = self.text.find(anchor, pos + 1)
            if pos < 0:
                self._lost('hint anchor /%s/ nth=%s' % (anchor, nth))
        e = self.text.find('\n', pos + len(anchor))
        self.text = self.text[:e + 1] + text.rstrip('\n') + '\n' + self.text[e + 1:]
        return self

    def before(self, anchor, text, nth=None):
        n = self.text.count(anchor)
        if n == 0 or (nth is None and n != 1):
            self._lost('hint anchor /%s/ found %d' % (anchor, n))
        pos = -1
        for _ in range((nth or 0) + 1):
            pos = self.text.find(anchor, pos + 1)
        s = self.text.rfind('\n', 0, pos)
        self.text = self.text[:s + 1] + text.rstrip('\n') + '\n' + self.text[s + 1:]
        return self

    def body_start(self, text):
        """insert at the very beginning of the body."""
        j = getattr(self, 'body_off', None)
        if j is None:
            mask = code_mask(self.text)
            depth = 0
            j = 0
            while True:
                c = self.text[j]
                if mask[j]:
                    if c in '([':
                        depth += 1
                    elif c in ')]':
                        depth -= 1
                    elif c == '{' and depth == 0:
                        break
                j += 1
        assert self.text[j] == '{'
        self.text = self.text[:j + 1] + '\n' + text.rstrip('\n') + self.text[j + 1:]
        return self

    def loops(self):
        """positions (start, brace) of every loop keyword in the text, in source order."""
        mask = code_mask(self.text)
        res = []
        for m in re.finditer(r'(?<![A-Za-z0-9_])(for|while|loop)\b', self.text):
            if not mask[m.start()]:
                continue
            # `for` in `impl X for Y` / HRTB does not occur inside fn bodies we cut
            j = m.end()
            depth = 0
            while j < len(self.text):
                c = self.text[j]
                if mask[j]:
                    if c in '([':
                        depth += 1
                    elif c in ')]':
                        depth -= 1
                    elif c == '{' and depth == 0:
                        break
                j += 1
            res.append((m.start(), j, m.group(1)))
        return res

    def expect_loops(self, n):
        k = len(self.loops())
        if k != n:
            self._lost('expected %d loops, found %d' % (n, k))
        return self

    def loop_spec(self, ordinal, spec, itname=None):
        """attach `spec` (invariant / decreases / ensures clauses) to the loop with this ordinal.
        For `for` loops an iterator ghost name can be given: `for x in it: EXPR`."""
        ls = self.loops()
        if ordinal >= len(ls):
            self._lost('loop #%d not found (%d loops)' % (ordinal, len(ls)))
        s, b, kw = ls[ordinal]
        head = self.text[s:b]
        if itname:
            if kw != 'for':
                self._lost('loop #%d is not a for loop' % ordinal)
            m = re.match(r'for\s+(.*?)\s+in\s+(.*)$', head, re.S)
            if not m:
                self._lost('loop #%d header not understood' % ordinal)
            head = 'for %s in %s: %s' % (m.group(1), itname, m.group(2).rstrip())
        ind = re.search(r'[ \t]*$', self.text[:s]).group(0)
        self.text = self.text[:s] + head.rstrip() + '\n' + spec.rstrip('\n') + '\n' + ind + self.text[b:]
        return self

    def apply_overlay(self, name):
        """replay the stored line-anchored overlay (contract, loop invariants, proof hints) on the current text."""
        import overlay as _ov
        import threading
        notes = []
        self.overlay_name = name
        self.overlay_trace = []
        dump = os.environ.get('VERIF_OVERLAY_DUMP')      # authoring aid: the rule-processed text an overlay is derived against
        if dump:
            os.makedirs(dump, exist_ok=True)
            open(os.path.join(dump, name + '.src.rs'), 'w').write(self.text)
            if not os.path.exists(os.path.join(VERIF, 'contracts', name + '.overlay.json')):
                return self
        skip = _ov.DROP_OPS.get((threading.get_ident(), name), ())
        try:
            self.text = _ov.apply(self.text, _ov.load(name), notes, self.overlay_trace, skip)
        except _ov.AnchorLost as e:
            self._lost('overlay %s: %s' % (name, e))
        except OSError as e:
            raise Undecided('overlay %s missing: %s' % (name, e))
        for n in notes:
            self.log.rule('soft-anchor', self, n)
        return self

    def sig_and_body(self):
        return self.text


# ------------------------------------------------------------------ assembling and running a unit
class Unit:
    def __init__(self, name):
        self.name = name
        self.log = Log()
        self.parts = []      # (text, Fn or None)
        self.trusted = []    # trusted-base lines declared by the builder

    def src(self, rel):
        return Src(rel, self.log)

    def add(self, text):
        self.parts.append((text if text.endswith('\n') else text + '\n', None))

    def add_fn(self, f, indent=''):
        self.parts.append((f.text + '\n', f))

    def prelude(self, fname):
        p = os.path.join(VERIF, 'verus', fname)
        self.add(open(p).read())

    def trust(self, *lines):
        self.trusted.extend(lines)

    def render(self):
        out = []
        linemap = []   # (unit_line_start, unit_line_end, fn)
        line = 1
        for text, f in self.parts:
            n = text.count('\n')
            if f is not None:
                linemap.append((line, line + n - 1, f))
            out.append(text)
            line += n
        return ''.join(out), linemap


FORBIDDEN_SCAN = [r'\bassume\s*\(', r'\badmit\s*\(', r'external_body', r'assume_specification', r'\baxiom\b', r'external_type_specification', r'#\[verifier::external\]']


def scan_trusted(text):
    """mechanical scan for assumption-introducing constructs in what is fed to the verifier."""
    found = []
    mask = code_mask(text)
    lines = text.split('\n')
    off = 0
    for ln, l in enumerate(lines, 1):
        for pat in FORBIDDEN_SCAN:
            for m in re.finditer(pat, l):
                if mask[off + m.start()]:
                    # name the following item
                    ctx = ' '.join(x.strip() for x in lines[ln - 1:ln + 2])
                    mm = re.search(r'(?:fn|type|struct)\s+(\w+)', ctx)
                    mm2 = re.search(r'assume_specification\s*(?:<[^>]*>)?\s*\[\s*([^\]]+)\]', ctx)
                    name = mm2.group(1).strip() if mm2 else (mm.group(1) if mm else ctx[:60])
                    found.append('%s: %s' % (re.sub(r'\\[bs]\*?|\\', '', pat).replace('(', '').strip(), name))
        off += len(l) + 1
    return sorted(set(found))


def run_verus(path, seed=None, rlimit=None, timeout=600, extra=()):
    cmd = ['verus', os.path.basename(path), '--output-json', '--time', '--error-format=json']
    if rlimit:
        cmd += ['--rlimit', str(rlimit)]
    if seed is not None:
        cmd += ['--smt-option', 'smt.random_seed=%d' % seed]
    cmd += list(extra)
    t0 = time.time()
    try:
        p = subprocess.run(cmd, cwd=os.path.dirname(path), capture_output=True, text=True, timeout=timeout)
    except subprocess.TimeoutExpired:
        return {'status': 'timeout', 'cmd': ' '.join(cmd), 'wall_s': time.time() - t0, 'diags': [], 'funcs': [], 'verified': 0, 'errors': 0, 'raw_err': 'timeout'}
    wall = time.time() - t0
    res = {'cmd': ' '.join(cmd), 'wall_s': wall, 'rc': p.returncode, 'raw_err': p.stderr, 'diags': [], 'funcs': [], 'verified': 0, 'errors': 0}
    try:
        js = json.loads(p.stdout)
    except Exception:
        js = None
    for l in p.stderr.splitlines():
        if l.startswith('{'):
            try:
                d = json.loads(l)
            except Exception:
                continue
            if d.get('level') in ('error',) and d.get('spans'):
                res['diags'].append(d)
            elif d.get('level') == 'error' and 'aborting' not in d.get('message', ''):
                res['diags'].append(d)
    if js is None or 'verification-results' not in js:
        res['status'] = 'tool-error'
        return res
    vr = js['verification-results']
    res['verified'] = vr.get('verified', 0)
    res['errors'] = vr.get('errors', 0)
    res['vir_error'] = vr.get('encountered-vir-error', False)
    try:
        for mt in js['times-ms']['smt']['smt-run-module-times']:
            for fb in mt.get('function-breakdown', []):
                res['funcs'].append({'function': fb['function'], 'mode': fb.get('mode:'), 'time_us': fb.get('time-micros'), 'rlimit': fb.get('rlimit'), 'success': fb.get('success')})
        res['smt_ms'] = js['times-ms']['smt']['total']
        res['total_ms'] = js['times-ms']['total']
    except Exception:
        pass
    if vr.get('success'):
        res['status'] = 'ok'
    elif res['vir_error'] or (res['errors'] == 0 and res['verified'] == 0):
        res['status'] = 'tool-error'      # parse / resolution / unsupported construct
    else:
        res['status'] = 'failed'
    return res


def diag_kind(d):
    msg = d.get('message', '')
    return msg


def is_resource_diag(d):
    m = d.get('message', '').lower()
    return 'rlimit' in m or 'resource limit' in m or 'timed out' in m or 'timeout' in m


def byte_lit_to_int(expr):
    """b'\\n' -> 10 (Verus has no byte-char literals in spec positions)."""
    def conv(m):
        body = m.group(1)
        v = bytes(body, 'utf-8').decode('unicode_escape').encode('latin-1')
        return '%du8' % v[0]
    return re.sub(r"b'((?:\\.|\\x[0-9a-fA-F]{2}|[^'\\]))'", conv, expr)


def const_decl(src, name):
    ty, val = src.const_expr(name)
    return 'pub const %s: %s = %s;\n' % (name, ty, byte_lit_to_int(val))


def strip_attrs_and_docs(item):
    """drop #[...] attributes and /// doc comments in front of / inside a type definition."""
    item = re.sub(r'^\s*///.*\n', '', item, flags=re.M)
    item = re.sub(r'^\s*#\[[^\]]*\]\s*\n', '', item, flags=re.M)
    return item


def type_item(src, kind, name, expect_variants=None):
    """copy a struct/enum definition from /repo (derives / serde attributes / doc comments dropped)."""
    t = strip_attrs_and_docs(src.item(kind, name))
    if not t.startswith('pub'):
        t = 'pub ' + t
    if expect_variants is not None:
        body = re.sub(r'\s+', '', t[t.index('{') + 1:t.rindex('}')] if '{' in t else t)
        if body.rstrip(',') != re.sub(r'\s+', '', expect_variants).rstrip(','):
            raise Undecided('%s: %s %s changed shape: %s' % (src.rel, kind, name, body))
    return t + '\n'


# ------------------------------------------------------------------ D-rules (iterator desugaring), DESIGN 3.2
def _match_paren(t, mask, j, open_c='(', close_c=')'):
    d = 0
    k = j
    while k < len(t):
        if mask[k]:
            if t[k] == open_c:
                d += 1
            elif t[k] == close_c:
                d -= 1
                if d == 0:
                    return k
        k += 1
    raise Undecided('unbalanced %s' % open_c)


def _find_let_chain(f, method):
    """find `let NAME[: TY] = RECV .iter() .<method>(|P| {BLOCK}) .collect();` ; returns match info or None"""
    t = f.text
    mask = code_mask(t)
    for m in re.finditer(r'\.' + method + r'\(\|(\w+)\|\s*\{', t):
        if not mask[m.start()]:
            continue
        bo = m.end() - 1
        bc = match_brace(t, mask, bo)
        tail = re.match(r'\s*\)\s*\.collect\(\)\s*;', t[bc + 1:])
        if not tail:
            continue
        lets = [x for x in re.finditer(r'let (\w+)(\s*:\s*[^=;]+?)?\s*=\s*', t[:m.start()])]
        if not lets:
            continue
        L = lets[-1]
        recv = t[L.end():m.start()]
        if ';' in recv:
            continue
        r2 = re.sub(r'\s+', '', recv)
        if not r2.endswith('.iter()'):
            continue
        return {'let_start': L.start(), 'name': L.group(1), 'recv': recv.strip(), 'param': m.group(1),
                'block': t[bo:bc + 1], 'end': bc + 1 + tail.end()}
    return None


def d1_flat_map_collect(f, elem_ty):
    """D1: let X = R.iter().flat_map(|p| BLOCK).collect();  ->  append loop (BLOCK verbatim)."""
    n = 0
    while True:
        c = _find_let_chain(f, 'flat_map')
        if c is None:
            break
        ind = re.search(r'[ \t]*$', f.text[:c['let_start']]).group(0)
        new = ('let mut verif_acc: Vec<%s> = vec![];\n%sfor %s in %s {\n%s    let mut verif_part = %s;\n%s    verif_acc.append(&mut verif_part);\n%s}\n%slet %s = verif_acc;'
               % (elem_ty, ind, c['param'], re.sub(r'\s+', '', c['recv']), ind, c['block'], ind, ind, ind, c['name']))
        f.text = f.text[:c['let_start']] + new + f.text[c['end']:]
        n += 1
    if n == 0:
        f._lost('D1 flat_map(..).collect() chain')
    f.log.rule('D1', f, '%d flat_map/collect chain(s) -> append loop' % n)
    return f


def d2_map_collect(f, elem_ty):
    """D2: let X[: Vec<_>] = R.iter().map(|p| BLOCK).collect();  ->  push loop (BLOCK verbatim)."""
    n = 0
    while True:
        c = _find_let_chain(f, 'map')
        if c is None:
            break
        ind = re.search(r'[ \t]*$', f.text[:c['let_start']]).group(0)
        new = ('let mut %s: Vec<%s> = vec![];\n%sfor %s in %s {\n%s    %s.push(%s);\n%s}'
               % (c['name'], elem_ty, ind, c['param'], re.sub(r'\s+', '', c['recv']), ind, c['name'], c['block'], ind))
        f.text = f.text[:c['let_start']] + new + f.text[c['end']:]
        n += 1
    if n == 0:
        f._lost('D2 map(..).collect() chain')
    f.log.rule('D2', f, '%d map/collect chain(s) -> push loop' % n)
    return f


def pub_fields(item):
    """visibility only: make every field of a struct pub (spec functions must be able to name them)."""
    def fix_named(m):
        body = m.group(2)
        body = re.sub(r'(^|\n)(\s*)(?!pub\b)(\w+\s*:)', lambda k: k.group(1) + k.group(2) + 'pub ' + k.group(3), body)
        return m.group(1) + body + m.group(3)
    item = re.sub(r'(struct\s+\w+(?:<[^>]*>)?\s*\{)(.*?)(\n\})', fix_named, item, flags=re.S)
    item = re.sub(r'(struct\s+\w+\s*\()(?!pub\b)', r'\1pub ', item)
    return item


def d9_values_mut(f):
    """D9: for V in M.values_mut() BODY  ->  iterate over the keys (iteration order of a HashMap is
    unspecified anyway); BODY verbatim, must not mention M (checked)."""
    n = 0
    while True:
        t = f.text
        mask = code_mask(t)
        m = None
        for x in re.finditer(r'for (\w+) in ([\w.]+)\.values_mut\(\)\s*\{', t):
            if mask[x.start()]:
                m = x
                break
        if m is None:
            break
        bo = m.end() - 1
        bc = match_brace(t, mask, bo)
        body = t[bo + 1:bc]
        if re.search(re.escape(m.group(2)) + r'\b', body):
            f._lost('D9: loop body touches the map')
        ind = re.search(r'[ \t]*$', t[:m.start()]).group(0)
        new = ('let verif_keys = shim_keys(&%s);\n%sfor verif_k in verif_keys.iter() {\n%s    let %s = %s.get_mut(verif_k).unwrap();%s}'
               % (m.group(2), ind, ind, m.group(1), m.group(2), body))
        f.text = t[:m.start()] + new + t[bc + 1:]
        n += 1
    if n == 0:
        f._lost('D9 values_mut loop')
    f.log.rule('D9', f, '%d values_mut loop(s) -> key iteration' % n)
    return f


def d10_question_in_for(f, ordinal, ret_ty):
    """D10 (statement form): `E?;` directly inside the body of for-loop #ordinal ->
    `if let Err(verif_e) = E { verif_ret = Some(Err(verif_e)); break; }` + flag declared before the loop and
    returned after it.  Needed because Verus loses the borrow resolution of the hidden iterator at `?`/`return`."""
    ls = f.loops()
    if ordinal >= len(ls):
        f._lost('D10: loop #%d not found' % ordinal)
    s, bo, kw = ls[ordinal]
    t = f.text
    mask = code_mask(t)
    bc = match_brace(t, mask, bo)
    depth = 0
    stmt_start = bo + 1
    k = bo + 1
    edits = []
    while k < bc:
        if mask[k]:
            c = t[k]
            if c in '([{':
                depth += 1
            elif c in ')]}':
                depth -= 1
                if depth == 0 and c == '}' and not re.match(r'\s*(\)|\?|\.|else|;)', t[k + 1:k + 12]):
                    stmt_start = k + 1
            elif c == ';' and depth == 0:
                if t[k - 1] == '?':
                    stmt = t[stmt_start:k - 1]
                    if re.match(r'\s*let\b', stmt):
                        f._lost('D10: `let x = E?;` form not supported')
                    edits.append((stmt_start, k + 1, stmt))
                stmt_start = k + 1
        k += 1
    if not edits:
        f._lost('D10: no `E?;` statement in loop #%d' % ordinal)
    ind = re.search(r'[ \t]*$', t[:s]).group(0)
    out = t
    for (a, b, stmt) in reversed(edits):
        lead = re.match(r'\s*', stmt).group(0)
        asg = re.match(r'(\w+)\s*(\+=|-=|=)\s*(.*)$', stmt.strip(), re.S)
        if asg:
            # `X op= E?;`  ->  match E { Ok(v) => { X op= v; } Err(e) => { flag; break; } }
            out = (out[:a] + lead + 'match ' + asg.group(3) + ' { Ok(verif_n) => { ' + asg.group(1) + ' ' + asg.group(2) + ' verif_n; } Err(verif_e) => { verif_ret = Some(Err(verif_e)); break; } }' + out[b:])
        else:
            out = out[:a] + lead + 'if let Err(verif_e) = ' + stmt.strip() + ' { verif_ret = Some(Err(verif_e)); break; }' + out[b:]
    delta = len(out) - len(t)
    bc2 = bc + delta
    out = out[:bc2 + 1] + '\n' + ind + 'if let Some(verif_r) = verif_ret { return verif_r; }' + out[bc2 + 1:]
    out = out[:s] + 'let mut verif_ret: Option<%s> = None;\n%s' % (ret_ty, ind) + out[s:]
    f.text = out
    f.log.rule('D10', f, '%d `E?;` statement(s) in for-loop #%d -> flag + break' % (len(edits), ordinal))
    return f


def d8_continue(f):
    """D8: a statement `if C { continue; }` in a for body -> `if !(C) { rest of the enclosing block }`."""
    n = 0
    while True:
        m = re.search(r'\n([ \t]*)if ([^\n{]+) \{\s*continue;\s*\}\n', f.text)
        if not m:
            break
        start = m.end()
        mask = code_mask(f.text)
        d = 0
        k = start
        while True:
            if mask[k]:
                if f.text[k] == '{':
                    d += 1
                elif f.text[k] == '}':
                    if d == 0:
                        break
                    d -= 1
            k += 1
        rest = f.text[start:k]
        tail_ind = re.search(r'[ \t]*$', rest).group(0)
        rest_body = rest[:len(rest) - len(tail_ind)]
        f.text = f.text[:m.start()] + '\n' + m.group(1) + 'if !(' + m.group(2) + ') {\n' + rest_body + m.group(1) + '}\n' + tail_ind + f.text[k:]
        n += 1
    if n == 0:
        f._lost('D8 continue pattern')
    f.log.rule('D8', f, '%d `if C { continue; }` -> `if !(C) { rest }`' % n)
    return f


def d10_return_in_for(f, ordinal, ret_ty):
    """D10 (return form): `return E;` inside the body of for-loop #ordinal (not inside a nested loop or closure) ->
    `{ verif_ret = Some(E); break; }`, flag declared before the loop and returned right after it."""
    ls = f.loops()
    if ordinal >= len(ls):
        f._lost('D10: loop #%d not found' % ordinal)
    s, bo, kw = ls[ordinal]
    t = f.text
    mask = code_mask(t)
    bc = match_brace(t, mask, bo)
    nested = [(a, match_brace(t, mask, b)) for (a, b, k) in ls if a > s and a < bc]
    edits = []
    for m in re.finditer(r'([ \t]*)return\s+([^;]+);', t[bo:bc]):
        a = bo + m.start()
        if not mask[a + len(m.group(1))]:
            continue
        if any(x <= a <= y for (x, y) in nested):
            f._lost('D10: return inside a nested loop')
        edits.append((a, bo + m.end(), m.group(1), m.group(2)))
    ind = re.search(r'[ \t]*$', t[:s]).group(0)
    out = t
    for (a, b, lead, expr) in reversed(edits):
        out = out[:a] + '%s{\n%s    verif_ret = Some(%s);\n%s    break;\n%s}' % (lead, lead, expr.strip(), lead, lead) + out[b:]
    bc2 = bc + (len(out) - len(t))
    out = out[:bc2 + 1] + '\n%sif let Some(verif_r) = verif_ret {\n%s    return verif_r;\n%s}' % (ind, ind, ind) + out[bc2 + 1:]
    out = out[:s] + 'let mut verif_ret: Option<%s> = None;\n%s' % (ret_ty, ind) + out[s:]
    f.text = out
    f.log.rule('D10', f, '%d `return E;` in for-loop #%d -> flag + break' % (len(edits), ordinal))
    return f


def d11_iter_any(f):
    """D11: RECV.iter().any(|p| BODY)  ->  { let mut verif_anyK = false; for p in RECV.iter() { if BODY { verif_anyK = true; break; } } verif_anyK }
    (definition of Iterator::any incl. short-circuit; vstd specifies only the `true` direction of any())."""
    n = 0
    while True:
        t = f.text
        mask = code_mask(t)
        # innermost first: take the LAST occurrence
        ms = [m for m in re.finditer(r'\.iter\(\)\s*\.any\(\|(\w+)\|', t) if mask[m.start()]]
        if not ms:
            break
        m = ms[-1]
        # closure body: up to the paren matching `.any(`
        po = t.index('(', m.start() + len('.iter()'))
        po = t.index('.any(', m.start()) + 4
        pc = _match_paren(t, mask, po)
        body = t[m.end():pc].strip()
        # receiver: scan backwards over a postfix chain
        k = m.start()
        depth = 0
        while k > 0:
            c = t[k - 1]
            if c in ')]':
                depth += 1
            elif c in '([':
                if depth == 0:
                    break
                depth -= 1
            elif depth == 0 and not (c.isalnum() or c in '_.' or c.isspace()):
                break
            k -= 1
        recv = t[k:m.start()]
        lead = re.match(r'\s*', recv).group(0)
        recv_s = re.sub(r'\s+', '', recv)
        if not recv_s or recv_s in ('return', 'let'):
            f._lost('D11: receiver not understood')
        # `let x = recv` / `return recv`: keywords are alnum too - cut them off
        kw = re.match(r'(\s*(?:return|in|if|while|match)\s+)(.*)$', recv, re.S)
        if kw:
            lead = kw.group(1)
            recv_s = re.sub(r'\s+', '', kw.group(2))
        var = 'verif_any%d' % n
        ind = re.search(r'[ \t]*$', t[:t.rfind('\n', 0, k) + 1] + re.match(r'[ \t]*', t[t.rfind('\n', 0, k) + 1:]).group(0)).group(0) + '    '
        new = ('%s{\n%s    let mut %s = false;\n%s    for %s in %s.iter() {\n%s        if %s {\n%s            %s = true;\n%s            break;\n%s        }\n%s    }\n%s    %s\n%s}'
               % (lead, ind, var, ind, m.group(1), recv_s, ind, body, ind, var, ind, ind, ind, ind, var, ind))
        f.text = t[:k] + new + t[pc + 1:]
        n += 1
    if n == 0:
        f._lost('D11 .iter().any(..)')
    f.log.rule('D11', f, '%d .iter().any(closure) -> flag loop' % n)
    return f


def d13_retain(f, recv, elem_ty, captures, fname='verif_retain_0', call_prefix='', recv_is_ref=False):
    """D13: `RECV.retain(|x| BODY);` where BODY mutates captured state (FnMut) ->
         let verif_all = shim_take_all(&mut RECV);
         for x in verif_all.into_iter() { if FNAME(&x, CAPTURES) { RECV.push(x); } }
    and BODY is lifted verbatim into `fn FNAME(x: &T, CAPTURES: ..) -> bool BODY` (returned as text).
    Vec::retain visits each element exactly once in the original order and keeps those for which the closure returns true
    (std documentation).  captures: [(name, type, call expression)]."""
    t = f.text
    mask = code_mask(t)
    m = None
    for x in re.finditer(re.escape(recv) + r'\.retain\(\|(\w+)\|\s*\{', t):
        if mask[x.start()]:
            m = x
            break
    if m is None:
        f._lost('D13 %s.retain(|x| {..})' % recv)
    bo = m.end() - 1
    bc = match_brace(t, mask, bo)
    tail = re.match(r'\s*\)\s*;', t[bc + 1:]) or re.match(r'\s*\)(?=\s*\})', t[bc + 1:])     # statement, or the last expression of a block
    if not tail:
        f._lost('D13: retain call not in statement position')
    body = t[bo:bc + 1]
    var = m.group(1)
    ind = re.search(r'[ \t]*$', t[:m.start()]).group(0)
    call_args = ''.join(', ' + c[2] for c in captures)
    new = ('let verif_all = shim_take_all(&mut %s);\n%sfor %s in verif_all.into_iter() {\n%s    if %s(&%s%s) {\n%s        %s.push(%s);\n%s    }\n%s}'
           % (('*' + recv) if recv_is_ref else recv, ind, var, ind, call_prefix + fname, var, call_args, ind, recv, var, ind, ind))
    f.text = t[:m.start()] + new + t[bc + 1 + tail.end():]
    params = ''.join(', %s: %s' % (c[0], c[1]) for c in captures)
    lifted = 'fn %s(%s: &%s%s) -> bool %s' % (fname, var, elem_ty, params, body)
    f.log.rule('D13', f, 'retain(FnMut closure) -> take-all + push loop, closure body lifted verbatim into %s' % fname)
    return lifted


def d3_enumerate(f):
    """D3: `for (I, X) in EXPR.enumerate() {`  ->  `let mut verif_cntK: usize = 0; for X in EXPR { let I = verif_cntK; verif_cntK += 1;`
    (counter incremented at the top of the body, so `break`/`return` in the body are unaffected; Enumerate counts from 0)."""
    n = 0
    while True:
        t = f.text
        mask = code_mask(t)
        m = None
        for x in re.finditer(r'for \((\w+), (\w+)\) in ([^\n{]+?)\.enumerate\(\)\s*\{', t):
            if mask[x.start()]:
                m = x
                break
        if m is None:
            break
        ind = re.search(r'[ \t]*$', t[:m.start()]).group(0)
        cnt = 'verif_cnt%d' % n
        new = ('let mut %s: usize = 0;\n%sfor %s in %s {\n%s    let %s = %s;\n%s    %s += 1;'
               % (cnt, ind, m.group(2), m.group(3).strip(), ind, m.group(1), cnt, ind, cnt))
        f.text = t[:m.start()] + new + t[m.end():]
        n += 1
    if n == 0:
        f._lost('D3 for (i, x) in E.enumerate()')
    f.log.rule('D3', f, '%d enumerate() loop(s) -> explicit counter' % n)
    return f


def d14_flat_map_option(f, elem_ty, captures, fname='verif_flat_map_0', call_prefix=''):
    """D14: `RECV.iter().flat_map(|p| {BODY}).flatten().collect::<Vec<T>>()` where BODY yields Option<Vec<T>> (with early
    `return None;`)  ->  the expression is replaced by an accumulator filled by
         for p in RECV.iter() { if let Some(mut v) = FNAME(p, CAPTURES) { acc.append(&mut v); } }
    placed before the enclosing `let`; BODY is lifted verbatim into `fn FNAME(p: &P, CAPTURES) -> Option<Vec<T>> {BODY}` (returned
    as text).  flat_map over an Option yields its content (if any), flatten() concatenates the vectors in order."""
    t = f.text
    mask = code_mask(t)
    m = None
    for x in re.finditer(r'\.flat_map\(\|(\w+)\|\s*\{', t):
        if mask[x.start()]:
            m = x
            break
    if m is None:
        f._lost('D14 .flat_map(|p| {..})')
    bo = m.end() - 1
    bc = match_brace(t, mask, bo)
    tail = re.match(r'\s*\)\s*\.flatten\(\)\s*\.collect::<Vec<' + re.escape(elem_ty) + r'>>\(\)', t[bc + 1:])
    if not tail:
        f._lost('D14: .flatten().collect::<Vec<%s>>() expected after the closure' % elem_ty)
    lets = [x for x in re.finditer(r'let (\w+)(\s*:\s*[^=;]+?)?\s*=\s*', t[:m.start()])]
    if not lets:
        f._lost('D14: enclosing let not found')
    L = lets[-1]
    recv = t[L.end():m.start()]
    if ';' in recv or not re.sub(r'\s+', '', recv).endswith('.iter()'):
        f._lost('D14: receiver not understood')
    recv_s = re.sub(r'\s+', '', recv)
    var = m.group(1)
    body = t[bo:bc + 1]
    ind = re.search(r'[ \t]*$', t[:L.start()]).group(0)
    call_args = ''.join(', ' + c[2] for c in captures)
    pre = ('let mut verif_fm_acc: Vec<%s> = Vec::new();\n%sfor %s in %s {\n%s    if let Some(mut verif_fm_v) = %s(%s%s) {\n%s        verif_fm_acc.append(&mut verif_fm_v);\n%s    }\n%s}\n%s'
           % (elem_ty, ind, var, recv_s, ind, call_prefix + fname, var, call_args, ind, ind, ind, ind))
    f.text = t[:L.start()] + pre + t[L.start():L.end()] + 'verif_fm_acc' + t[bc + 1 + tail.end():]
    params = ''.join(', %s: %s' % (c[0], c[1]) for c in captures)
    f.log.rule('D14', f, 'flat_map(closure -> Option<Vec<%s>>).flatten().collect() -> accumulator loop, closure body lifted verbatim into %s' % (elem_ty, fname))
    return 'fn %s(%s: &%s%s) -> Option<Vec<%s>> %s' % (fname, var, '%s', params, elem_ty, body)


def d4_filter_count(f):
    """D4: `RECV.iter().filter(|p| COND).count()` -> counting loop (COND verbatim)."""
    t = f.text
    mask = code_mask(t)
    m = None
    for x in re.finditer(r'\.filter\(\|(\w+)\|\s*', t):
        if mask[x.start()]:
            m = x
            break
    if m is None:
        f._lost('D4 .filter(|p| ..).count()')
    po = t.index('(', m.start())
    pc = _match_paren(t, mask, po)
    tail = re.match(r'\s*\.count\(\)', t[pc + 1:])
    if not tail:
        f._lost('D4: .count() expected after filter')
    cond = t[m.end():pc].strip()
    lets = [x for x in re.finditer(r'let (\w+)(\s*:\s*[^=;]+?)?\s*=\s*', t[:m.start()])]
    L = lets[-1]
    recv = re.sub(r'\s+', '', t[L.end():m.start()])
    if not recv.endswith('.iter()'):
        f._lost('D4: receiver not understood')
    semi = t.index(';', pc + 1 + tail.end())
    ind = re.search(r'[ \t]*$', t[:L.start()]).group(0)
    new = ('let mut verif_count: usize = 0;\n%sfor %s in %s {\n%s    if %s {\n%s        verif_count += 1;\n%s    }\n%s}\n%slet %s = verif_count;'
           % (ind, m.group(1), recv, ind, cond, ind, ind, ind, ind, L.group(1)))
    f.text = t[:L.start()] + new + t[semi + 1:]
    f.log.rule('D4', f, 'iter().filter(closure).count() -> counting loop')
    return f


def d5_map_sum(f, ty='usize'):
    """D5: `RECV.iter().map(|p| EXPR).sum()` -> `{ let mut verif_sum: T = 0; for p in RECV.iter() { verif_sum += EXPR; } verif_sum }`
    (EXPR verbatim; Sum for integers adds in order and panics on overflow exactly like `+=` in a debug build)."""
    t = f.text
    mask = code_mask(t)
    m = None
    for x in re.finditer(r'\.map\(\|(\w+)\|\s*', t):
        if mask[x.start()]:
            m = x
            break
    if m is None:
        f._lost('D5 .map(|p| ..).sum()')
    po = t.index('(', m.start())
    pc = _match_paren(t, mask, po)
    tail = re.match(r'\s*\.sum\(\)', t[pc + 1:])
    if not tail:
        f._lost('D5: .sum() expected after map')
    expr = t[m.end():pc].strip()
    # receiver: scan backwards over a postfix chain (identifiers, dots, calls, whitespace)
    k = m.start()
    depth = 0
    while k > 0:
        c = t[k - 1]
        if c in ')]':
            depth += 1
        elif c in '([':
            if depth == 0:
                break
            depth -= 1
        elif depth == 0 and not (c.isalnum() or c in '_.' or c.isspace()):
            break
        k -= 1
    recv = re.sub(r'\s+', '', t[k:m.start()])
    lead = re.match(r'\s*', t[k:m.start()]).group(0)
    if not recv.endswith('.iter()'):
        f._lost('D5: receiver not understood')
    ind = lead.split('\n')[-1]
    new = ('%s{\n%s    let mut verif_sum: %s = 0;\n%s    for %s in %s {\n%s        verif_sum += %s;\n%s    }\n%s    verif_sum\n%s}'
           % (lead, ind, ty, ind, m.group(1), recv, ind, expr, ind, ind, ind))
    f.text = t[:k] + new + t[pc + 1 + tail.end():]
    f.log.rule('D5', f, 'iter().map(closure).sum() -> summing loop')
    return f


def d15_hashmap_retain(f, nth=0, keys_shim='shim_keys'):
    """D15: `M.retain(|_, V| BODY);` on a HashMap with a closure that does not touch M  ->
         let verif_rkN = shim_keys(&M);
         for verif_rk in verif_rkN.iter() { let verif_keep = { let V = M.get_mut(verif_rk).unwrap(); BODY }; if !verif_keep { M.remove(verif_rk); } }
    (HashMap::retain visits every entry exactly once in an unspecified order and removes those for which the closure returns false;
    BODY verbatim).  Applied to the first remaining occurrence."""
    t = f.text
    mask = code_mask(t)
    ms = [x for x in re.finditer(r'\.retain\(\|_, (\w+)\|\s*', t) if mask[x.start()]]
    if not ms:
        f._lost('D15 M.retain(|_, v| ..)')
    m = ms[0]
    # receiver: scan backwards over identifiers, dots and whitespace
    k = m.start()
    while k > 0 and (t[k - 1].isalnum() or t[k - 1] in '_.' or t[k - 1].isspace()):
        k -= 1
    raw = t[k:m.start()]
    k += len(raw) - len(raw.lstrip())
    recv = re.sub(r'\s+', '', t[k:m.start()])
    if not recv:
        f._lost('D15: receiver not understood')
    po = t.index('(', m.start())
    pc = _match_paren(t, mask, po)
    body = t[m.end():pc].strip()
    if re.search(r'(?<![\w.])' + re.escape(recv) + r'\b', body):
        f._lost('D15: closure body touches the map')
    semi = re.match(r'\s*;', t[pc + 1:])
    if not semi:
        f._lost('D15: retain not in statement position')
    var = m.group(1)
    keys_arg = ('&*' + recv) if re.match(r'^\w+$', recv) else ('&' + recv)      # a plain identifier is a `&mut HashMap` binding here
    ind = re.search(r'[ \t]*$', t[:k]).group(0)
    n = len(re.findall(r'let verif_rk_all\d+', f.text))
    new = ('let verif_rk_all%d = %s(%s);\n%sfor verif_rk in verif_rk_all%d.iter() {\n%s    let verif_keep = {\n%s        let %s = %s.get_mut(verif_rk).unwrap();\n%s        %s\n%s    };\n%s    if !verif_keep {\n%s        %s.remove(verif_rk);\n%s    }\n%s}'
           % (n, keys_shim, keys_arg, ind, n, ind, ind, var, recv, ind, body, ind, ind, ind, recv, ind, ind))
    f.text = t[:k] + new + t[pc + 1 + semi.end():]
    f.log.rule('D15', f, 'HashMap::retain(|_, v| BODY) on %s -> key loop with get_mut / remove' % recv)
    return f


def d16_filter_filter_map_collect(f, elem_ty):
    """D16: `M.iter().filter(|(_, V)| C).filter_map(|(K, _)| {BLOCK}).collect()` as the tail expression  ->
         let mut acc = Vec::new(); let (es, ghost ks) = shim_ref_entries(&M);
         for (K, V) in es.into_iter() { if C { if let Some(x) = {BLOCK} { acc.push(x); } } }  acc
    (C and BLOCK verbatim; every entry exactly once, unspecified order)."""
    t = f.text
    mask = code_mask(t)
    m = None
    for x in re.finditer(r'\.filter\(\|\(_, (\w+)\)\|\s*', t):
        if mask[x.start()]:
            m = x
            break
    if m is None:
        f._lost('D16 .filter(|(_, v)| ..)')
    po = t.index('(', m.start())
    pc = _match_paren(t, mask, po)
    cond = t[m.end():pc].strip()
    m2 = re.match(r'\s*\.filter_map\(\|\((\w+), _\)\|\s*\{', t[pc + 1:])
    if not m2:
        f._lost('D16: .filter_map(|(k, _)| {..}) expected')
    bo = pc + 1 + m2.end() - 1
    bc = match_brace(t, mask, bo)
    tail = re.match(r'\s*\)\s*\.collect\(\)', t[bc + 1:])
    if not tail:
        f._lost('D16: .collect() expected')
    block = t[bo:bc + 1]
    # receiver chain before .iter()
    k = m.start()
    pre = t[:k]
    r = re.search(r'([\w.\s]+?)\s*\.iter\(\)\s*$', pre)
    if not r:
        f._lost('D16: receiver not understood')
    recv = re.sub(r'\s+', '', r.group(1))
    start = r.start(1) + (len(r.group(1)) - len(r.group(1).lstrip()))
    ind = re.search(r'[ \t]*$', t[:start]).group(0)
    new = ('{\n%s    let mut verif_acc: Vec<%s> = Vec::new();\n%s    let (verif_es, Ghost(verif_eks)) = shim_ref_entries(&%s);\n%s    for (%s, %s) in verif_es.into_iter() {\n%s        if %s {\n%s            if let Some(verif_x) = %s {\n%s                verif_acc.push(verif_x);\n%s            }\n%s        }\n%s    }\n%s    verif_acc\n%s}'
           % (ind, elem_ty, ind, recv, ind, m2.group(1), m.group(1), ind, cond, ind, block, ind, ind, ind, ind, ind, ind))
    f.text = t[:start] + new + t[bc + 1 + tail.end():]
    f.log.rule('D16', f, 'iter().filter(..).filter_map(..).collect() -> entry loop')
    return f
