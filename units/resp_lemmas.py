# C15 framing lemmas over the strict grammar (the spec the decoder is proved equal to in unit resp_func):
#   prefix stability:  spec_resp(s) = Ok(v,c) and t agrees with s on c bytes  =>  spec_resp(t) = Ok(v,c)
#   no early commit:   spec_resp(s) = Ok(v,c) and k < c                      =>  spec_resp(s[..k]) = NotEnough
# together: every way of splitting a byte stream into reads yields the same packets, and an incomplete
# packet never consumes bytes.
import vlib
def build(U):
    D = U.src('src/protocol/decoder.rs')
    U.prelude('resp_spec.rs')
    U.add(vlib.const_decl(D, 'LF'))
    U.add(vlib.const_decl(D, 'CR'))
    U.prelude('resp_lemmas.rs')
    U.add('''
// ---- property-level statements (C15, second sentence) ----
pub proof fn c15_same_packet_for_every_continuation(s: Seq<u8>, t: Seq<u8>)
    requires spec_resp(s) is Ok, agree(s, t, spec_resp(s)->Ok_1)
    ensures spec_resp(t) == spec_resp(s)
{ lemma_resp_prefix(s, t); }
pub proof fn c15_incomplete_packet_is_never_committed(s: Seq<u8>, k: int)
    requires spec_resp(s) is Ok, 0 <= k < spec_resp(s)->Ok_1
    ensures spec_resp(s.subrange(0, k)) is NotEnough
{ lemma_resp_bounds(s); lemma_resp_short(s, k); }
pub proof fn c15_consumed_within_input(s: Seq<u8>)
    requires spec_resp(s) is Ok
    ensures 0 < spec_resp(s)->Ok_1 <= s.len()
{ lemma_resp_bounds(s); }
''')
    U.add("} // verus!\nfn main() {}\n")
MUST_FAIL = '''
proof fn must_fail_c15_short_prefix_is_not_invalid(s: Seq<u8>, k: int)
    requires spec_resp(s) is Ok, 0 <= k < spec_resp(s)->Ok_1
    ensures spec_resp(s.subrange(0, k)) is Invalid
{ lemma_resp_bounds(s); lemma_resp_short(s, k); }
'''
