#![feature(allocator_api)]
use vstd::prelude::*;
use std::collections::HashMap;
use std::hash::Hash;
use core::borrow::Borrow;
use core::alloc::Allocator;
verus! {

pub assume_specification<'a, K: Eq + Hash, V, S: core::hash::BuildHasher, A: Allocator, Q: ?Sized + Hash + Eq>
    [ HashMap::<K, V, S, A>::get_mut::<Q> ] (m: &'a mut HashMap<K, V, S, A>, k: &Q) -> (r: Option<&'a mut V>)
    where K: Borrow<Q>
    ensures
        vstd::std_specs::hash::obeys_key_model::<K>() && vstd::std_specs::hash::builds_valid_hashers::<S>() ==> match r {
            Some(v) => vstd::std_specs::hash::contains_borrowed_key(old(m)@, k)
                && vstd::std_specs::hash::maps_borrowed_key_to_value(old(m)@, k, *v)
                && final(m)@.dom() == old(m)@.dom()
                && vstd::std_specs::hash::maps_borrowed_key_to_value(final(m)@, k, *final(v))
                && (forall|k2: K| old(m)@.contains_key(k2) && old(m)@[k2] != *v ==> final(m)@[k2] == old(m)@[k2]),
            None => !vstd::std_specs::hash::contains_borrowed_key(old(m)@, k) && final(m)@ == old(m)@,
        }
;

pub struct C { pub epoch: u64 }

fn f(m: &mut HashMap<u64, C>, k: u64, e: u64)
    ensures old(m)@.contains_key(k) ==> final(m)@.contains_key(k) && final(m)@[k].epoch == e
{
    match m.get_mut(&k) {
        None => {},
        Some(c) => { c.epoch = e; }
    }
}
}
fn main() {}
