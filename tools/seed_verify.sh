#!/bin/bash
# seed_verify.sh <dir with patch.diff demo.diff>   -- confirm a seeded change in a scratch worktree of /repo:
#   1. patch + demo: demo test fails      2. patch only: whole suite passes      3. demo only: demo passes
set -u
D="$1"; WT=/var/tmp/seedverify; TGT=/var/tmp/seedverify_target
if [ ! -d "$WT" ]; then git -C /repo worktree add -q --detach "$WT" HEAD; fi
cd "$WT" && git checkout -q --detach "$(git -C /repo rev-parse HEAD)" && git checkout -q -- . && git clean -qfd
export CARGO_TARGET_DIR=$TGT CARGO_NET_OFFLINE=true
demo_filter=$(grep -ho 'mod seeded_demo_[a-z0-9_]*' "$D/demo.diff" | head -1 | sed 's/mod //')
[ -z "$demo_filter" ] && demo_filter=$(grep -ho '^+.*fn [a-z0-9_]*' "$D/demo.diff" | head -1 | sed 's/.*fn //')
echo "== demo filter: $demo_filter"
git apply "$D/patch.diff" || { echo "PATCH DOES NOT APPLY"; exit 3; }
git apply "$D/demo.diff" || { echo "DEMO DOES NOT APPLY"; exit 3; }
echo "== 1. patch + demo (expect FAIL)"; cargo test --offline "$demo_filter" 2>&1 | grep -E "^test result|panicked|error(\[|:)" | head -8
git checkout -q -- . && git clean -qfd && git apply "$D/patch.diff"
echo "== 2. patch only, whole suite (expect all ok)"; cargo test --offline 2>&1 | grep -E "^test result|error(\[|:)" | awk '{print}' | sort | uniq -c | head -8
git checkout -q -- . && git clean -qfd && git apply "$D/demo.diff"
echo "== 3. demo only on unchanged tree (expect ok)"; cargo test --offline "$demo_filter" 2>&1 | grep -E "^test result|panicked|error(\[|:)" | head -8
git checkout -q -- . && git clean -qfd
