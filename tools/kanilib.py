# Kani leg (DESIGN.md 3.3): scalar / byte-level functions only.
#
# A harness group is a mini crate assembled on every run from the real function text (cut from
# /repo with the same tokenizer as the Verus leg, *no* rewrite rules: the text is compiled as is,
# against the real btoi / crc16 / memchr crates pinned by /repo/Cargo.lock) plus a harness file
# from /verif/kani/<group>.rs.  Loop-free full-domain harnesses are complete proofs; harnesses
# with an input-length bound are labelled bounded and never counted as proved-unbounded.
import importlib, json, os, re, shutil, subprocess, sys, time
import vlib
from vlib import Undecided

VERIF = vlib.VERIF

CARGO_TOML = '''[package]
name = "verif_k"
version = "0.0.0"
edition = "2018"
[dependencies]
%s
[workspace]
'''


def input_to_text(inp):
    if inp is None:
        return None
    if isinstance(inp, dict) and 'bytes' in inp:
        return 'hex:' + bytes(inp['bytes']).hex()
    return 'json:' + re.sub(r'\s+', '', json.dumps(inp))


def parse_playback(out):
    """concrete playback values printed by Kani, in kani::any() call order.  Kani prints one test per failed
    check AND per satisfied cover: take the first one that belongs to a failed assertion."""
    blocks = re.split(r'(?=/// Test generated for harness)', out)
    chosen = None
    for b in blocks:
        if 'let concrete_vals' not in b:
            continue
        kind = re.search(r'/// Check for `(\w+)`', b)
        if kind and kind.group(1) == 'cover':
            continue
        chosen = b
        break
    if chosen is None:
        return None
    m = re.search(r'let concrete_vals: Vec<Vec<u8>> = vec!\[(.*?)\];', chosen, re.S)
    if not m:
        return None
    vals = []
    for v in re.finditer(r'vec!\[([0-9, ]*)\]', m.group(1)):
        vals.append([int(x) for x in v.group(1).split(',') if x.strip()])
    return vals


def decode_len_bytes(vals):
    """harness convention 'LB': first any() is a usize length, then a [u8; N] array; input = bytes[..len]"""
    if not vals:
        return None
    ln = int.from_bytes(bytes(vals[0]), 'little')
    bs = [v[0] for v in vals[1:] if len(v) == 1]
    return {'bytes': bs[:ln]}


def decode_raw(vals):
    return {'raw': vals}


DECODERS = {'LB': decode_len_bytes, 'RAW': decode_raw}


def build_crate(group, scratch):
    mod = importlib.import_module('kani_units.' + group)
    importlib.reload(mod)
    log = vlib.Log()
    text, deps, harnesses = mod.build(log)
    d = os.path.join(scratch, 'kani_' + group)
    os.makedirs(os.path.join(d, 'src'), exist_ok=True)
    os.makedirs(os.path.join(d, '.cargo'), exist_ok=True)
    open(os.path.join(d, 'Cargo.toml'), 'w').write(CARGO_TOML % '\n'.join(deps))
    open(os.path.join(d, '.cargo', 'config.toml'), 'w').write('[net]\noffline = true\n')
    lock = os.path.join(vlib.REPO, 'Cargo.lock')
    if os.path.exists(lock):
        shutil.copy(lock, os.path.join(d, 'Cargo.lock'))
    open(os.path.join(d, 'src', 'lib.rs'), 'w').write(text)
    keep = os.environ.get('VERIF_KEEP')
    if keep:
        os.makedirs(keep, exist_ok=True)
        open(os.path.join(keep, 'kani_%s.rs' % group), 'w').write(text)
    return d, log, harnesses


def run_one(d, h, tier):
    t0 = time.time()
    cmd = ['cargo', 'kani', '--harness', h['name'], '-Z', 'function-contracts', '-Z', 'stubbing', '-Z', 'concrete-playback', '--concrete-playback=print']
    cmd += h.get('flags', [])
    env = dict(os.environ, CARGO_NET_OFFLINE='true', CARGO_TARGET_DIR=os.path.join(d, 'target'))
    to = h.get('timeout', 900 if tier == 'quick' else 3600)
    try:
        p = subprocess.run(cmd, cwd=d, capture_output=True, text=True, timeout=to, env=env)
        out = p.stdout + p.stderr
    except subprocess.TimeoutExpired as e:
        return dict(harness=h['name'], status='undecided', note='timeout %ds' % to, wall_s=time.time() - t0, kind=h['kind'], domain=h['domain'], target=h.get('target', ''))
    r = dict(harness=h['name'], kind=h['kind'], domain=h['domain'], target=h.get('target', ''), wall_s=round(time.time() - t0, 1), output_tail=out[-2500:])
    m = re.search(r'SUMMARY:\s*\n\s*\*\* (\d+) of (\d+) failed', out)
    if m:
        r['cbmc_checks'] = int(m.group(2))
    if 'VERIFICATION:- SUCCESSFUL' in out:
        r['status'] = 'proved'
        # cover statements must be satisfiable (vacuity)
        cov = re.search(r'\*\* (\d+) of (\d+) cover properties satisfied', out)
        if cov:
            r['covers'] = '%s/%s' % (cov.group(1), cov.group(2))
            if cov.group(1) != cov.group(2):
                r['status'] = 'undecided'
                r['note'] = 'cover property unsatisfiable: harness vacuous'
    elif 'VERIFICATION:- FAILED' in out:
        fc = re.search(r'Failed Checks: (.*)', out)
        r['failed_check'] = fc.group(1).strip() if fc else ''
        # an unwinding-assertion failure is a tool bound, not a refutation
        failed = re.findall(r'Failed Checks: (.*)', out)
        if failed and all(('unwinding assertion' in x or 'not currently supported by Kani' in x or 'unsupported' in x.lower()) for x in failed):
            r['status'] = 'undecided'
            r['note'] = 'tool limit: ' + '; '.join(failed)[:200]
        else:
            r['status'] = 'refuted'
            vals = parse_playback(out)
            r['cex'] = DECODERS[h.get('decode', 'RAW')](vals) if vals else None
            r['replay_template'] = h.get('replay')
    else:
        r['status'] = 'undecided'
        r['note'] = 'kani did not report a verdict'
    return r


def run_harness_group(group, tier, scratch):
    t0 = time.time()
    res = {'group': group, 'status': 'ok', 'harnesses': [], 'notes': [], 'trusted': [], 'cmd': 'cargo kani --harness <h> -Z function-contracts -Z stubbing (CBMC %s)' % 'cadical/minisat default'}
    try:
        d, log, harnesses = build_crate(group, scratch)
    except Undecided as e:
        res['status'] = 'undecided'
        res['notes'].append('extraction undecided: %s' % e)
        return res
    except Exception as e:
        import traceback
        res['status'] = 'undecided'
        res['notes'].append('kani extractor crashed: ' + traceback.format_exc()[-600:])
        return res
    res['functions'] = log.functions
    hs = [h for h in harnesses if tier == 'thorough' or h.get('tier', 'quick') == 'quick']
    import concurrent.futures
    # first harness alone builds the crate; the rest reuse the build in parallel
    if hs:
        first = run_one(d, hs[0], tier)
        res['harnesses'].append(first)
        with concurrent.futures.ThreadPoolExecutor(max_workers=4) as ex:
            for r in ex.map(lambda h: run_one(d, h, tier), hs[1:]):
                res['harnesses'].append(r)
    for r in res['harnesses']:
        if r['status'] == 'undecided':
            res['status'] = 'undecided'
            res['notes'].append('%s: %s %s' % (r['harness'], r.get('note', ''), r.get('output_tail', '')[-400:]))
    res['trusted'] = ['kani/cbmc: Rust->goto translation, CBMC 6.11 and its SAT back end'] + [h['trust'] for h in hs if h.get('trust')]
    res['wall_s'] = time.time() - t0
    return res


# ------------------------------------------------------------------ replay on the real code
_REPLAY_MEMO = {}


def replay_on_real_code(template, inp, scratch):
    key = json.dumps([template, inp], sort_keys=True)
    if key not in _REPLAY_MEMO:
        _REPLAY_MEMO[key] = _replay_on_real_code(template, inp, scratch)
    return _REPLAY_MEMO[key]


def _replay_on_real_code(template, inp, scratch):
    """template: {'file': 'src/..rs' (test module is appended there), 'test': rust source with {BYTES}, 'name': test fn name}
    Runs the project's own crate (scratch copy of /repo, sources untouched except for the appended
    #[cfg(test)] module) natively."""
    # fixed path (so that cargo's incremental build of the big crate is reused between replays), one replay at a time
    import fcntl
    os.makedirs(os.path.join(VERIF, '.cache'), exist_ok=True)
    lock = open(os.path.join(VERIF, '.cache', 'replay.lock'), 'w')
    fcntl.flock(lock, fcntl.LOCK_EX)
    d = os.path.join(VERIF, '.cache', 'replay_repo')
    os.makedirs(d, exist_ok=True)
    subprocess.run(['rsync', '-a', '--delete', '--exclude', 'target', '--exclude', '.git', vlib.REPO.rstrip('/') + '/', d + '/'], check=True)
    bs = inp.get('bytes') if isinstance(inp, dict) else None
    lit = '[' + ', '.join('%du8' % b for b in (bs or [])) + ']'
    code = template['test'].replace('{BYTES}', lit).replace('{JSON}', json.dumps(inp))
    p = os.path.join(d, template['file'])
    open(p, 'a').write('\n#[cfg(test)]\nmod verif_replay {\n    #[allow(unused_imports)]\n    use super::*;\n' + code + '\n}\n')
    # compiled third-party crates are kept between replays (git-ignored cache, rebuilt when absent)
    tgt = os.path.join(VERIF, '.cache', 'replay_target')
    os.makedirs(tgt, exist_ok=True)
    cmd = ['cargo', 'test', '--offline', '--lib', 'verif_replay::' + template['name'], '--', '--nocapture']
    env = dict(os.environ, CARGO_NET_OFFLINE='true', CARGO_TARGET_DIR=tgt)
    try:
        r = subprocess.run(cmd, cwd=d, capture_output=True, text=True, timeout=1800, env=env)
        out = r.stderr[-3000:] + '\n' + r.stdout
        ran = re.search(r'test result: (\w+)\. (\d+) passed; (\d+) failed', out)
        failed = bool(ran and int(ran.group(3)) > 0)
        if not ran:
            out += '\n[replay] test did not run (build problem?)'
    except subprocess.TimeoutExpired:
        out = '[replay] timeout'
        failed = False
    subprocess.run(['rsync', '-a', '--delete', '--exclude', 'target', '--exclude', '.git', vlib.REPO.rstrip('/') + '/', d + '/'], check=False)
    fcntl.flock(lock, fcntl.LOCK_UN)
    return {'failed': failed, 'output': out, 'cmd': ' '.join(cmd)}


def setup(scratch):
    """MANIFEST.setup_cmd: check the tools answer and warm them; nothing is downloaded."""
    ok = True
    for c in (['verus', '--version'], ['cargo', 'kani', '--version'], ['cbmc', '--version']):
        try:
            p = subprocess.run(c, capture_output=True, text=True, timeout=300)
            print(' '.join(c), '->', (p.stdout + p.stderr).strip().splitlines()[0] if (p.stdout + p.stderr).strip() else p.returncode)
            ok = ok and p.returncode == 0
        except Exception as e:
            print(' '.join(c), 'failed', e)
            ok = False
    os.makedirs(scratch, exist_ok=True)
    w = os.path.join(scratch, 'warm.rs')
    open(w, 'w').write('use vstd::prelude::*;\nverus!{ proof fn warm() ensures 1 + 1 == 2int {} }\nfn main() {}\n')
    r = vlib.run_verus(w)
    print('verus warm-up:', r['status'], r['verified'])
    return 0 if ok and r['status'] == 'ok' else 1
