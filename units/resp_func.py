from units.resp_common import build_resp
def build(U):
    build_resp(U, 'func')
    U.add("} // verus!\nfn main() {}\n")
MUST_FAIL = '''
proof fn must_fail_resp_spec_rejects(s: Seq<u8>) requires s.len() > 0 ensures spec_resp(s) is Ok { }
proof fn must_fail_resp_shims_consistent(s: Seq<u8>) requires s.len() > 3, s.len() <= MAX_BUF ensures false { lemma_first_lf(s); }
'''
