# C06 / C04: MetaStoreUpdate::replace_failed_proxy (src/broker/update.rs), verified modularly:
# takeover_master is visible only through the contract proved in unit `takeover`; generate_new_free_proxy and
# get_proxy_by_address by assumed contracts (out of reach).  Ported from design_probes/rp_build.py + rp_post.py.
import re
import vlib
from vlib import Undecided
from units import broker_common, takeover

def set_epoch(U):
    S = U.src('src/broker/store.rs')
    f = S.fn('set_epoch', within=r'impl ClusterStore\b')
    f.header("    pub fn set_epoch(&mut self, new_epoch: u64)\n        ensures final(self).epoch == new_epoch, final(self).chunks == old(self).chunks, final(self).config == old(self).config, final(self).name == old(self).name")
    return f

def build(U):
    broker_common.head(U)
    T = takeover.parts(vlib.Unit('takeover-contract-only'))     # contract text of the verified callee
    S = U.src('src/broker/update.rs')
    fobj = S.fn('replace_failed_proxy')
    fobj.r1_logging()
    f = fobj.text
    def need(c, what):
        if not c:
            raise Undecided('replace_failed_proxy: anchor lost: ' + what)
    spec='''
pub struct Proxy { pub x: u8 }
#[verifier::external_body] fn shim_clone_opt_name(x: &Option<ClusterName>) -> (r: Option<ClusterName>) ensures r == *x { unimplemented!() }
pub broadcast axiom fn axiom_string_key() ensures #[trigger] vstd::std_specs::hash::obeys_key_model::<String>();
impl Clone for ProxyResource { #[verifier::external_body] fn clone(&self) -> (r: Self) ensures r == *self { unimplemented!() } }
impl ClusterStore {
//@@SET_EPOCH@@
}
// address replacement on the first chunk that holds the failed proxy
pub open spec fn slot_replaced(a: ChunkStore, b: ChunkStore, k: int, n: ProxyResource) -> bool {
    b.role_position == a.role_position && b.stable_slots == a.stable_slots && b.migrating_slots == a.migrating_slots
    && b.hosts[k]@ == n.host@ && b.hosts[1 - k] == a.hosts[1 - k]
    && b.proxy_addresses[k]@ == n.proxy_address@ && b.proxy_addresses[1 - k] == a.proxy_addresses[1 - k]
    && b.node_addresses[2 * k]@ == n.node_addresses[0]@ && b.node_addresses[2 * k + 1]@ == n.node_addresses[1]@
    && b.node_addresses[2 * (1 - k)] == a.node_addresses[2 * (1 - k)] && b.node_addresses[2 * (1 - k) + 1] == a.node_addresses[2 * (1 - k) + 1]
}
pub open spec fn replaced_post(m: ClusterStore, n: ClusterStore, failed: Seq<char>, res: ProxyResource, e: u64) -> bool {
    n.epoch == e && n.name == m.name && n.config == m.config && n.chunks@.len() == m.chunks@.len()
    && (forall|j: int| #![trigger m.chunks@[j]] is_first_hit(m, j, failed) ==> slot_replaced(m.chunks@[j], n.chunks@[j], hit_half(m.chunks@[j], failed), res))
    && (forall|c: int| 0 <= c < m.chunks@.len() && !is_first_hit(m, c, failed) ==> n.chunks@[c] == #[trigger] m.chunks@[c])
}
pub struct MetaStoreQuery<'a> { pub store: &'a MetaStore }
impl<'a> MetaStoreQuery<'a> {
    pub fn new(store: &'a MetaStore) -> (r: Self) ensures r.store == store { Self { store } }
    // out of reach (filter/cloned/group_by): assumed to return Some for a registered address
    #[verifier::external_body] pub fn get_proxy_by_address(&self, address: &str, migration_limit: u64) -> (r: Option<Proxy>)
        ensures r is Some <==> exists|k: String| #![trigger self.store.all_proxies@.contains_key(k)] self.store.all_proxies@.contains_key(k) && k@ == address@ { unimplemented!() }
}
//@@UPDATE_STRUCT@@
impl<'a> MetaStoreUpdate<'a> {
//@@TAKEOVER_CONTRACT@@
    // out of reach (HashMap<String,Vec<String>> + min_by): assumed contract
    #[verifier::external_body]
    fn generate_new_free_proxy(&self, failed_proxy_address: String) -> (r: Result<ProxyResource, MetaStoreError>)
        ensures r matches Ok(p) ==> old(self.store).all_proxies@.contains_key(p.proxy_address) && old(self.store).all_proxies@[p.proxy_address] == p
    { unimplemented!() }
'''
    contract='''    pub fn replace_failed_proxy(
        &mut self,
        failed_proxy_address: String,
        migration_limit: u64,
    ) -> (r: Result<Option<Proxy>, MetaStoreError>)
        requires old(self).store.global_epoch < u64::MAX - 1,
            vstd::std_specs::hash::obeys_key_model::<String>(), vstd::std_specs::hash::obeys_key_model::<ClusterName>(),
            vstd::std_specs::hash::obeys_key_model::<(usize, usize)>(),
        ensures
            final(self).store.global_epoch >= old(self).store.global_epoch,
            r matches Ok(Some(_)) ==> {
                &&& old(self).store.all_proxies@.contains_key(failed_proxy_address)
                &&& old(self).store.all_proxies@[failed_proxy_address].cluster is Some
                &&& final(self).store.failed_proxies@.contains(failed_proxy_address)
                &&& final(self).store.global_epoch == old(self).store.global_epoch + 2
                &&& {
                    let cn = old(self).store.all_proxies@[failed_proxy_address].cluster->Some_0;
                    old(self).store.clusters@.contains_key(cn) && final(self).store.clusters@.contains_key(cn)
                    && final(self).store.clusters@[cn].epoch == final(self).store.global_epoch
                    && exists|mid: ClusterStore, res: ProxyResource|
                        takeover_post(old(self).store.clusters@[cn], mid, failed_proxy_address@, (old(self).store.global_epoch + 1) as u64)
                        && replaced_post(mid, final(self).store.clusters@[cn], failed_proxy_address@, res, final(self).store.global_epoch)
                }
            },
'''
    body = f[f.index(') -> Result<Option<Proxy>, MetaStoreError> {') + len(') -> Result<Option<Proxy>, MetaStoreError> '):]
    need("Some(proxy) => proxy.cluster.clone()," in body, 'proxy.cluster.clone()')
    body = body.replace("Some(proxy) => proxy.cluster.clone(),", "Some(proxy) => shim_clone_opt_name(&proxy.cluster),")
    se = set_epoch(U)
    spec = spec.replace('//@@SET_EPOCH@@', se.text)
    spec = spec.replace('//@@UPDATE_STRUCT@@', takeover.UPDATE_STRUCT)
    spec = spec.replace('//@@TAKEOVER_CONTRACT@@', "    // verified in unit `takeover`; here only its contract is visible\n    #[verifier::external_body]\n" + T['contract'] + "    { unimplemented!() }\n")
    types = broker_common.types(U).replace("impl Clone for ProxyResource { #[verifier::external_body] fn clone(&self) -> Self { unimplemented!() } }\n", "")
    s = types + T['specs'] + spec + contract + body + "\n}\n"
    def must(old, new, count=1):
        nonlocal s
        need(s.count(old) >= 1, old[:70])
        s = s.replace(old, new, count)
    # trusted: &String deref'd to &str designates the same key
    # hints
    must("        self.takeover_master(&cluster_name, failed_proxy_address.clone())?;","        let ghost g0 = self.store.global_epoch;\n        let ghost oc = self.store.clusters@[cluster_name];\n        self.takeover_master(&cluster_name, failed_proxy_address.clone())?;\n        let ghost mid = self.store.clusters@[cluster_name];")
    must("            let cluster = self\n                .store\n                .clusters\n                .get_mut(&cluster_name)","            proof { axiom_key_of_same::<ClusterName>(&cluster_name); }\n            let ghost map0 = self.store.clusters@;\n            let cluster = self\n                .store\n                .clusters\n                .get_mut(&cluster_name)")
    must("            for chunk in cluster.chunks.iter_mut() {\n                if chunk.proxy_addresses[0] == failed_proxy_address {\n                    chunk.hosts[0]","""            let ghost mc = *cluster;
            let ghost mut hit_idx: int = -1;
            broadcast use axiom_iter_mut_has_resolved;
            for chunk in it: cluster.chunks.iter_mut()
                invariant_except_break
                    hit_idx == -1,
                    forall|i: int| 0 <= i < it.index@ ==> !is_hit(mc.chunks@[i], failed_proxy_address@),
                invariant
                    it.seq().len() == mc.chunks@.len(),
                    forall|i: int| 0 <= i < it.seq().len() ==> *(#[trigger] it.seq()[i]) == mc.chunks@[i],
                    forall|i: int| 0 <= i < it.index@ - 1 ==> !is_hit(mc.chunks@[i], failed_proxy_address@),
                    forall|i: int| 0 <= i < it.index@ && !is_hit(mc.chunks@[i], failed_proxy_address@) ==> *final(#[trigger] it.seq()[i]) == mc.chunks@[i],
                    forall|i: int| 0 <= i < it.index@ && is_hit(mc.chunks@[i], failed_proxy_address@) ==> slot_replaced(mc.chunks@[i], *final(#[trigger] it.seq()[i]), hit_half(mc.chunks@[i], failed_proxy_address@), proxy_resource),
                ensures
                    hit_idx == -1 ==> it.index@ == it.seq().len() && forall|i: int| 0 <= i < it.seq().len() ==> !is_hit(#[trigger] mc.chunks@[i], failed_proxy_address@),
                    hit_idx != -1 ==> hit_idx == it.index@ - 1 && 0 <= hit_idx < it.seq().len() && is_hit(mc.chunks@[hit_idx], failed_proxy_address@),
            {
                if chunk.proxy_addresses[0] == failed_proxy_address {
                    chunk.hosts[0]""")
    s=s.replace("                    chunk.node_addresses[1] = proxy_resource.node_addresses[1].clone();\n                    break;","                    chunk.node_addresses[1] = proxy_resource.node_addresses[1].clone();\n                    proof { hit_idx = it.index@; }\n                    break;")
    s=s.replace("                    chunk.node_addresses[3] = proxy_resource.node_addresses[1].clone();\n                    break;","                    chunk.node_addresses[3] = proxy_resource.node_addresses[1].clone();\n                    proof { hit_idx = it.index@; }\n                    break;")
    must("            cluster.set_epoch(new_epoch);\n","""            cluster.set_epoch(new_epoch);
            proof {
                let fa = failed_proxy_address@;
                assert(cluster.chunks@.len() == mc.chunks@.len());
                if hit_idx == -1 {
                    assert forall|c: int| 0 <= c < mc.chunks@.len() implies cluster.chunks@[c] == #[trigger] mc.chunks@[c] by {}
                } else {
                    assert(is_first_hit(mc, hit_idx, fa));
                    assert forall|j: int| is_first_hit(mc, j, fa) implies j == hit_idx by {}
                    assert forall|c: int| 0 <= c < mc.chunks@.len() && c != hit_idx implies cluster.chunks@[c] == #[trigger] mc.chunks@[c] by {}
                }
                assert(replaced_post(mc, *cluster, fa, proxy_resource, new_epoch));
            }
""")
    must("        let proxy = MetaStoreQuery::new(self.store)","        proof { assert(self.store.all_proxies@.contains_key(proxy_resource.proxy_address)); }\n        let proxy = MetaStoreQuery::new(self.store)")

    must("        Ok(Some(proxy))\n","""        proof {
            let cn = cluster_name;
            assert(old(self).store.all_proxies@.contains_key(failed_proxy_address));
            assert(old(self).store.all_proxies@[failed_proxy_address].cluster == Some(cn));
            assert(self.store.failed_proxies@.contains(failed_proxy_address));
            assert(self.store.global_epoch == old(self).store.global_epoch + 2);
            assert(old(self).store.clusters@.contains_key(cn));
            assert(self.store.clusters@.contains_key(cn));
            assert(self.store.clusters@[cn].epoch == self.store.global_epoch);
            assert(takeover_post(old(self).store.clusters@[cn], mid, failed_proxy_address@, (old(self).store.global_epoch + 1) as u64));
            assert(replaced_post(mid, self.store.clusters@[cn], failed_proxy_address@, proxy_resource, self.store.global_epoch));
        }
        Ok(Some(proxy))
""")
    U.log.rule('R-clone', fobj, 'proxy.cluster.clone() -> shim_clone_opt_name (structural clone of Option<ClusterName>)')
    U.log.rule('overlay', fobj, '1 loop spec, ghost snapshots, proof hints anchored on source text')
    fobj.text = s
    U.add_fn(fobj)
    U.add("} // verus!\nfn main() {}\n")
    U.trust('generate_new_free_proxy by assumed contract (returns a registered ProxyResource); get_proxy_by_address by assumed contract (Some iff registered)',
            'derived Clone of ProxyResource / Option<ClusterName> is structural')
