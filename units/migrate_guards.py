# C04 / C10 (guards) / C01: MetaStoreMigrate::{migrate_slots, migrate_slots_to_scale_down, check_running_tasks} and
# ClusterStore::is_migrating: epoch contract; every refusal leaves the cluster content unchanged; scaling is refused
# while a migration is running (Ok only if no migration entry existed); on Ok the cluster epoch is the new global epoch.
import re
import vlib
from units import broker_common, takeover, replace_proxy, assign_dst

SPEC = '''
pub struct InvalidClusterName;
impl<'b> core::convert::TryFrom<&'b str> for ClusterName {
    type Error = InvalidClusterName;
    #[verifier::external_body] fn try_from(s: &'b str) -> Result<Self, InvalidClusterName> { unimplemented!() }
}
impl Clone for MigrationSlots { #[verifier::external_body] fn clone(&self) -> (r: Self) ensures r == *self { unimplemented!() } }
// "a migration is running": some half has a migrating or importing entry
pub open spec fn running(c: ClusterStore) -> bool {
    exists|i: int, p: int| 0 <= i < c.chunks@.len() && 0 <= p < 2 && (#[trigger] c.chunks@[i].migrating_slots[p])@.len() > 0
}
pub open spec fn chunk_running(ch: ChunkStore) -> bool { ch.migrating_slots[0]@.len() > 0 || ch.migrating_slots[1]@.len() > 0 }
pub open spec fn has_empty_half(c: ClusterStore) -> bool {
    exists|i: int, p: int| 0 <= i < c.chunks@.len() && 0 <= p < 2 && (#[trigger] c.chunks@[i].stable_slots[p]) is None
}
pub open spec fn chunk_empty_half(ch: ChunkStore) -> bool { ch.stable_slots[0] is None || ch.stable_slots[1] is None }
pub open spec fn frame(o: ClusterStore, n: ClusterStore) -> bool { n.epoch == o.epoch && n.name == o.name && n.config == o.config }
'''
ANY_OUTER = '''                invariant_except_break
                    %(var)s == false,
                    forall|i: int| 0 <= i < it.index@ ==> !%(pred)s(#[trigger] %(cl)s.chunks@[i]),
                invariant
                    it.seq().len() == %(cl)s.chunks@.len(),
                    forall|i: int| 0 <= i < it.seq().len() ==> *(#[trigger] it.seq()[i]) == %(cl)s.chunks@[i],
                ensures
                    %(var)s ==> exists|i: int| 0 <= i < %(cl)s.chunks@.len() && %(pred)s(#[trigger] %(cl)s.chunks@[i]),
                    !%(var)s ==> forall|i: int| 0 <= i < %(cl)s.chunks@.len() ==> !%(pred)s(#[trigger] %(cl)s.chunks@[i]),'''
ANY_INNER_RUN = '''                    invariant_except_break
                        verif_any0 == false,
                        forall|i: int| 0 <= i < it2.index@ ==> chunk.migrating_slots[i]@.len() == 0,
                    invariant
                        it2.seq().len() == 2,
                        forall|i: int| 0 <= i < 2 ==> (*(#[trigger] it2.seq()[i]))@ == chunk.migrating_slots[i]@,
                    ensures
                        verif_any0 == chunk_running(*chunk),'''
ANY_INNER_EMPTY = '''                    invariant_except_break
                        verif_any0 == false,
                        forall|i: int| 0 <= i < it2.index@ ==> chunk.stable_slots[i] is Some,
                    invariant
                        it2.seq().len() == 2,
                        forall|i: int| 0 <= i < 2 ==> *(#[trigger] it2.seq()[i]) == chunk.stable_slots[i],
                    ensures
                        verif_any0 == chunk_empty_half(*chunk),'''

def any_specs(f, cl, pred, inner):
    """loop specs for the two loops produced by D11 on `CL.chunks.iter().any(|chunk| chunk.X.iter().any(..))`"""
    ls = f.loops()
    # the D11 pair is the first two loops of the function text
    f.loop_spec(1, inner, itname='it2')
    f.loop_spec(0, ANY_OUTER % {'var': 'verif_any1', 'pred': pred, 'cl': cl}, itname='it')

def build(U):
    broker_common.head(U)
    U.add(broker_common.types(U))
    U.prelude('epoch_spec.rs')
    # assign_dst_slots spec text (assigned / compacted) for the callee contract
    U.add(assign_dst.SPEC.split("pub struct MetaStoreMigrate<'a>")[0].replace('valid_meta', 'assign_valid_meta'))
    U.add(SPEC)
    S = U.src('src/broker/store.rs')
    M = U.src('src/broker/migrate.rs')
    U.add('impl ClusterStore {\n')
    U.add_fn(replace_proxy.set_epoch(U))
    f = S.fn('is_migrating', within=r'impl ClusterStore\b')
    vlib.d11_iter_any(f)
    f.header("    pub fn is_migrating(&self) -> (r: bool)\n        ensures r == running(*self)")
    any_specs(f, 'self', 'chunk_running', ANY_INNER_RUN)
    f.text = f.text.rstrip()
    U.add_fn(f)
    U.add('}\nimpl MetaStore {\n')
    U.add_fn(takeover.bump_global_epoch(U))
    U.add("}\npub struct MetaStoreMigrate<'a> { pub store: &'a mut MetaStore }\nimpl<'a> MetaStoreMigrate<'a> {\n")
    U.add('''    // out of reach (nonlinear balance arithmetic, DESIGN 4.10): assumed frame only - touches chunks, never epoch/name/config
    #[verifier::external_body] fn remove_slots_from_src(cluster: &mut ClusterStore, epoch: u64) -> (r: Vec<MigrationSlots>)
        ensures frame(*old(cluster), *final(cluster)), forall|i: int| 0 <= i < r@.len() ==> assign_valid_meta((#[trigger] r@[i]).meta, final(cluster).chunks@.len() as int) { unimplemented!() }
    #[verifier::external_body] fn remove_slots_from_src_to_scale_down(cluster: &mut ClusterStore, epoch: u64, new_chunk_num: usize) -> (r: Vec<MigrationSlots>)
        ensures frame(*old(cluster), *final(cluster)), forall|i: int| 0 <= i < r@.len() ==> assign_valid_meta((#[trigger] r@[i]).meta, final(cluster).chunks@.len() as int) { unimplemented!() }
    // verified in unit assign_dst; here only its contract
    #[verifier::external_body] fn assign_dst_slots(cluster: &mut ClusterStore, migration_slots: Vec<MigrationSlots>)
        requires forall|i: int| 0 <= i < migration_slots@.len() ==> assign_valid_meta((#[trigger] migration_slots@[i]).meta, old(cluster).chunks@.len() as int),
        ensures exists|mid: ClusterStore| assigned(*old(cluster), mid, migration_slots@, migration_slots@.len() as int) && compacted(mid, *final(cluster)),
    { unimplemented!() }
    #[verifier::external_body] fn print_migration_slot(cluster: &ClusterStore, migration_slots: &Vec<MigrationSlots>) { unimplemented!() }
''')
    c = M.fn('check_running_tasks')
    vlib.d11_iter_any(c)
    c.header("    fn check_running_tasks(cluster: &mut ClusterStore) -> (r: Result<(), MetaStoreError>)\n        ensures *final(cluster) == *old(cluster), r is Ok <==> !running(*old(cluster))")
    any_specs(c, 'cluster', 'chunk_running', ANY_INNER_RUN)
    U.add_fn(c)
    REQ = '''        requires inv_epoch(*old(self).store), old(self).store.global_epoch < u64::MAX,
            vstd::std_specs::hash::obeys_key_model::<ClusterName>(),
            // stated assumption: node count of a cluster (4 per chunk) fits usize
            forall|k: ClusterName| old(self).store.clusters@.contains_key(k) ==> (#[trigger] old(self).store.clusters@[k]).chunks@.len() < 0x1000_0000_0000_0000,
        ensures epoch_contract(*old(self).store, *final(self).store),
            r is Err ==> final(self).store.clusters@ =~= old(self).store.clusters@ && final(self).store.all_proxies == old(self).store.all_proxies,
            // scaling is refused while a migration is running, and a granted request stamps the cluster with the new global epoch
            r is Ok ==> exists|k: ClusterName| #![trigger old(self).store.clusters@[k]] old(self).store.clusters@.contains_key(k) && !running(old(self).store.clusters@[k])
                && final(self).store.clusters@.contains_key(k) && final(self).store.clusters@[k].epoch == final(self).store.global_epoch,'''
    for name, hdr in (('migrate_slots', "    pub fn migrate_slots(&mut self, cluster_name: String) -> (r: Result<(), MetaStoreError>)\n"),
                      ('migrate_slots_to_scale_down', "    pub fn migrate_slots_to_scale_down(\n        &mut self,\n        cluster_name: String,\n        new_node_num: usize,\n    ) -> (r: Result<(), MetaStoreError>)\n")):
        f = M.fn(name)
        f.r1_logging().r2_closure_underscore()
        vlib.d11_iter_any(f)
        f.header(hdr + REQ)
        any_specs(f, 'cluster', 'chunk_empty_half', ANY_INNER_EMPTY)
        f.replace('hint', "let cluster = match self.store.clusters.get_mut(&cluster_name) {",
                  "proof { axiom_key_of_same::<ClusterName>(&cluster_name); }\n        let cluster = match self.store.clusters.get_mut(&cluster_name) {", count=1)
        f.after("Some(cluster) => cluster,", "", nth=0)
        f.after("};", "        let ghost oc = *cluster;", nth=0)
        U.add_fn(f)
    U.add("}\n} // verus!\nfn main() {}\n")
    U.trust('remove_slots_from_src / _to_scale_down by assumed frame contract (epoch, name, config untouched; produced metas have valid indices); print_migration_slot (logging) external',
            'assign_dst_slots through its contract proved in unit assign_dst')

MUST_FAIL = '''
proof fn must_fail_running_not_trivial(c: ClusterStore) requires c.chunks@.len() > 0 ensures !running(c) { }
'''
