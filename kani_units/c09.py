import os, re, vlib
def build(log):
    S = vlib.Src('src/common/utils.rs', log)
    parts = ['use crc16::{State, ARC, XMODEM};', S.item('const', 'SLOT_NUM')]
    for f in ('get_hash_tag', 'generate_slot', 'same_slot'):
        parts.append(S.fn(f).text)
    parts.append('#[allow(dead_code)] fn _keep_arc() -> u16 { State::<ARC>::calculate(b"") }')
    parts.append(open(os.path.join(vlib.VERIF, 'kani', 'c09.rs')).read())
    replay = {'file': 'src/common/utils.rs', 'name': 'c09_replay', 'test': '''
    fn ref_slot(k: &[u8]) -> usize {
        let mut t = k;
        if let Some(b) = k.iter().position(|c| *c == b'{') {
            if let Some(off) = k[b + 1..].iter().position(|c| *c == b'}') { if off > 0 { t = &k[b + 1..b + 1 + off]; } }
        }
        let mut crc = 0u16;
        for b in t { crc ^= (*b as u16) << 8; for _ in 0..8 { crc = if crc & 0x8000 != 0 { (crc << 1) ^ 0x1021 } else { crc << 1 }; } }
        (crc as usize) % 16384
    }
    #[test]
    fn c09_replay() {
        let key: Vec<u8> = {BYTES}.to_vec();
        let s = generate_slot(&key);
        println!("key {:?} -> slot {} (Redis Cluster spec: {})", key, s, ref_slot(&key));
        assert_eq!(s, ref_slot(&key));
    }
'''}
    hs = [
        {'name': 'c09_crc_square', 'kind': 'complete', 'domain': 'every (u16 register, u8 byte): crc16 XMODEM table step == bitwise poly-0x1021 step through get(); get(init()) == 0', 'target': 'crc16::XMODEM'},
        {'name': 'c09_slot_le4', 'kind': 'bounded', 'domain': 'all keys of <= 4 bytes: real generate_slot vs independent tag scan + bitwise CRC', 'decode': 'LB', 'replay': replay, 'target': 'generate_slot, get_hash_tag'},
        {'name': 'c09_same_slot_le4keys', 'kind': 'bounded', 'domain': '<= 4 keys, generate_slot stubbed by an arbitrary function of the key: same_slot == non-empty and all slots equal (bounded in the number of keys only)', 'target': 'same_slot'},
        {'name': 'c09_slot_le7', 'kind': 'bounded', 'domain': 'all keys of <= 7 bytes', 'decode': 'LB', 'replay': replay, 'target': 'generate_slot, get_hash_tag', 'tier': 'thorough'},
    ]
    return '\n'.join(parts), ['crc16 = "0.4"'], hs
