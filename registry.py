# property -> legs.  Only claimed properties appear here; MANIFEST.json is generated from this table
# by tools/gen_manifest.py.
PROPS = {
 'C15': {
   'verus': ['resp_func', 'resp_lemmas'], 'kani': [],
   'level': 'proof', 'design_ref': '4.15',
   'technique': 'Verus: the real decoder functions proved equal to a strict RESP grammar written as recursive spec functions; framing properties proved as lemmas over that grammar',
   'level_text': 'Deductive proof (Verus, unbounded: every byte string, every nesting depth) that parse_line/parse_len/parse_bulk_str/parse_array/parse_resp extracted from src/protocol/stateless.rs return exactly what the strict RESP grammar (CR LF terminators, lengths >= -1) defines: same value with same byte indices, consumed = exactly the packet, NotEnoughData iff the grammar says incomplete, InvalidProtocol iff the grammar says invalid, UnexpectedErr unreachable. Over that grammar two lemmas are proved by mutual induction: a parsed packet is unchanged by any continuation of the stream (prefix stability) and no strict prefix of a packet parses (no early commit) - together: the same packets for every way of splitting the stream, and an incomplete packet consumes nothing. This is the DECODER half of C15. Not proved: that the real encoder (encode_resp: io::Write-generic, usize::to_string) produces the grammar (both Kani probes timed out, DESIGN 4.15), OptionalMultiPacketDecoder, and the BytesMut split_to in parse_indexed_resp (one line, read).',
   'level_note': 'Trusted: memchr, btoi::<i64> (uninterpreted decimal value), [u8]::get(range), AdvanceIndex::advance on Bulk/Array/Resp indices (repo code behind a GAT Functor) by assumed contracts; usize 64 bit; buffers < 2^62 bytes; Verus/Z3; the extractor (rules logged in evidence).',
   'explanation': 'decoder == strict grammar (unit resp_func, real text) + framing lemmas over the grammar (unit resp_lemmas). Encoder side not covered.',
   'not_under_contract': ['encode_resp / resp_to_buf (encoder.rs): out of reach of both tools', 'OptionalMultiPacketDecoder (packet.rs)', 'parse_indexed_resp: BytesMut::split_to(consumed) by reading'],
 },
 'C16': {
   'verus': ['resp_safe'], 'kani': [],
   'level': 'proof', 'design_ref': '4.16',
   'technique': 'Verus: panic/overflow freedom, index bounds, termination and an allocation budget as function contracts on the real parser functions',
   'level_text': 'Deductive proof (Verus, unbounded) for the PARSER LAYER only (src/protocol/stateless.rs): for every byte string shorter than 2^62 bytes none of parse_resp/parse_array/parse_bulk_str/parse_len/parse_line can overflow, index out of bounds, fail an expect/unwrap or recurse without the input shrinking (decreases buf.len()); consumed <= buf.len(); every returned index lies inside the consumed bytes; Vec::with_capacity is only ever asked for at most the remaining input length (rule R9 turns the capacity into an obligation), so allocation is linear in the bytes received. The executor/session/command layers (async) are NOT under contract: e.g. the EVAL key-count loop (DESIGN section 0 item 6) is outside this check.',
   'level_note': 'Trusted: the same shims as C15; recursion depth is bounded by nesting depth <= buf.len()/4 (no fixed stack bound is provable for the current code; reported as a limitation).',
   'explanation': 'safety contracts of the five parser functions (unit resp_safe, real text). Only the parser layer of the property is decided.',
   'not_under_contract': ['proxy/executor.rs, proxy/session.rs, proxy/command.rs argument handling (async / string code)', 'stack depth of nested arrays'],
 },
 'C09': {
   'verus': ['c09'], 'kani': ['c09'],
   'level': 'proof', 'design_ref': '4.9',
   'technique': 'Verus function contracts on extracted real functions against spec functions written from the Redis Cluster spec; Kani commuting-square proof for the CRC table step',
   'level_text': 'Deductive proof (Verus, unbounded: every key byte string) that the real get_hash_tag returns exactly the Redis-Cluster hash tag (first "{", first "}" after it, non-empty content, else the whole key) and generate_slot returns CRC16-XMODEM(tag) mod 16384 < 16384, with CRC16-XMODEM defined bitwise (poly 0x1021, init 0) in the spec; SlotMapData::get returns the address registered for a slot iff the slot table has one. The crc16 crate is tied to the bitwise definition by a Kani proof of the per-byte commuting square for EVERY (register, byte) pair (complete, constant loop bounds). Bounded Kani harnesses (keys <= 4 bytes quick / <= 7 thorough; <= 4 keys for same_slot with generate_slot abstracted to an arbitrary function) run the compiled functions against an independent oracle and provide replayable counterexamples. Not decided: MOVED reply formatting and the multi-key refusal in the async executor.',
   'level_note': 'Trusted: crc16 calculate() == fold of its per-byte update (three-line loop in the crate; the step itself is proved), slice position/get shims, Verus/Z3, Kani/CBMC, extractor rules R3 R4 R5. SlotMapData::new (HashMap::into_iter) and LocalCluster::send / RemoteCluster::send_remote (generic senders, format!) are not under contract.',
   'explanation': 'hash tag, slot and slot-table lookup proved against spec functions written from the Redis Cluster specification; CRC crate step proved by Kani for all (u16,u8); bounded end-to-end Kani harnesses supply counterexamples.',
   'not_under_contract': ['SlotMapData::new (HashMap::into_iter)', 'LocalCluster::send / RemoteCluster::send_remote (MOVED text)', 'same_slot guards in proxy/executor.rs (async)', 'CommandInfo::get_key'],
 },
 'C19': {
   'verus': ['c19'], 'kani': ['c19'],
   'level': 'proof',
   'design_ref': '4.19',
   'technique': 'Verus function contracts on the extracted real functions (postcondition = statement-level ttl spec) + bounded Kani harness on the compiled functions for counterexamples',
   'level_text': 'Deductive proof (Verus, unbounded, every byte string) that the two real PTTL->RESTORE-ttl functions satisfy the statement: ttl n>=1 restored with 1<=m<=n, n==0 restored with m>=1 (never persistent), -1 stays persistent. The three async transfer paths are tied to these functions by a syntactic call-site scan only (declared as a scan). A Kani harness over all replies of <=3 bytes (bounded) runs the same oracle on the compiled code with the real btoi crate and supplies counterexamples that are replayed on /repo by a native test.',
   'level_note': 'Trusted: btoi::btoi::<i64> by assumed contract (cross-checked by Kani on <=3 bytes), slice equality shim, Verus/Z3, Kani/CBMC, the extractor (rules R1 R5 R10 R11 logged in the evidence). Not covered: the async callers (scan only), Redis own PTTL/RESTORE behaviour.',
   'explanation': 'pttl_to_restore_expire_time / pttl_need_to_be_no_expire proved (Verus, unbounded) against the statement-level spec spec_restore_ttl_ok for every PTTL reply; the call sites of the three transfer paths are covered by a syntactic scan only; Kani harnesses (<= 3 bytes, bounded) supply counterexamples and cross-check the assumed btoi contract.',
   'not_under_contract': ['forward_entries / produce_entries / get_data_entry (async): only the call-site scan', 'gen_restore_resp: see C20/C19 notes in DESIGN 4.19'],
   'assumptions': ['Redis PTTL/RESTORE semantics as in the statement (0 = no expiry for RESTORE)'],
 },
}

NOTES = 'Contract-based deductive verification only (see DESIGN.md). exit 2 = undecided (lost anchor / unsupported construct / resource limit), never an alarm.'
NOT_APPLICABLE = {
 'C02': 'composition of async processes (client following MOVED across proxies fed through the coordinator); no function contract expresses it; per-proxy ingredients are claimed under C09/C14/C06',
 'C03': 'sequential consistency under interleavings of scan, pull, push and client traffic against two Redis servers: schedule- and history-quantified, state outside the program',
 'C05': 'MetaManager::set_meta / ReplicatorManager::update_replicators need tokio, ArcSwap, DashMap and quantify over concurrent deliveries: outside Verus subset and Kani (no threads)',
 'C07': 'fault sequences and crash points across broker, coordinator, proxies; async streams; liveness is not a contract',
 'C08': 'request/reply association under poll interleavings of hand-written Future/Stream state machines on tokio I/O',
 'C12': 'allocator is nested HashMap<String,..> with max_by_key/min_by closures: outside Verus subset and the rewrite-rule cap; CBMC cannot execute it (timeouts measured)',
 'C17': 'round trips through String, format!, str::parse, serde_json, gzip, base64: no byte-level str reasoning in Verus; CBMC does not get through fmt/serde/flate2',
 'C18': 'get_failures is values_mut + HashMap::retain + filter chains over chrono arithmetic: outside the rule cap; CBMC cannot run a two-entry HashMap in 20 minutes',
 'C10': 'kernel parsable but the balance (counting) proof through three nested loops is not completed; CBMC cannot execute it',
 'C20': 'value-index table proof not completed (division arithmetic over MSET indices); zstd round trip would be assumed',
 'C01': 'not yet built in this session', 'C04': 'not yet built in this session', 'C06': 'not yet built in this session', 
 'C11': 'not yet built in this session', 'C13': 'not yet built in this session', 'C14': 'not yet built in this session',
}
