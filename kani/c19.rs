// Kani harnesses for C19 (appended to the functions cut from src/migration/scan_migration.rs).
#[cfg(kani)]
mod verif {
    use super::*;
    // executable twin of spec_btoi_i64 (verus/c19_pre.rs)
    fn value(s: &[u8]) -> Option<i128> {
        if s.is_empty() { return None; }
        let (neg, d) = match s[0] { b'-' => (true, &s[1..]), b'+' => (false, &s[1..]), _ => (false, s) };
        if d.is_empty() { return None; }
        let mut v: i128 = 0;
        let mut i = 0;
        while i < d.len() { let c = d[i]; if c < b'0' || c > b'9' { return None; } v = v * 10 + (c - b'0') as i128; i += 1; }
        let v = if neg { -v } else { v };
        if v < i64::MIN as i128 || v > i64::MAX as i128 { None } else { Some(v) }
    }
    // DOMAIN: every PTTL reply of at most 3 bytes (bounded); statement-level oracle
    #[kani::proof]
    #[kani::unwind(5)]
    fn c19_ttl_le3() {
        let len: usize = kani::any();
        kani::assume(len <= 3);
        let bytes: [u8; 3] = kani::any();
        let pttl = bytes[..len].to_vec();
        let n = value(&pttl);
        kani::cover!(n == Some(0));
        kani::cover!(n == Some(-1));
        kani::cover!(n.is_some() && n.unwrap() >= 100);
        let out = pttl_to_restore_expire_time(pttl.clone());
        match n {
            Some(n) if n >= 1 => { let m = value(&out); assert!(m.is_some() && m.unwrap() >= 1 && m.unwrap() <= n); }
            Some(0) => { let m = value(&out); assert!(m.is_some() && m.unwrap() >= 1); }
            Some(-1) => { assert!(out == b"0"); }
            _ => {}
        }
    }
    // DOMAIN: every byte string of at most 3 bytes (bounded): the assumed Verus contract of btoi::<i64>
    // (spec_btoi_i64) agrees with the real crate
    #[kani::proof]
    #[kani::unwind(5)]
    fn c19_btoi_contract_le3() {
        let len: usize = kani::any();
        kani::assume(len <= 3);
        let bytes: [u8; 3] = kani::any();
        let s = &bytes[..len];
        let r = btoi::btoi::<i64>(s);
        let v = value(s);
        kani::cover!(v.is_some());
        kani::cover!(v.is_none());
        match r { Ok(n) => assert!(v == Some(n as i128)), Err(_) => assert!(v.is_none()) }
    }
}
