# C16: small scalar helpers on the request path that take client-controlled numbers - panic freedom for every input
#   SlowLogRateLimiter::check_current_enabled (src/proxy/slowlog.rs): sample-rate arithmetic (CONFIG SET slowlog_sample_rate)
# + a declared syntactic scan of allocation sites: every Vec::with_capacity / reserve whose size is not a constant or
#   derived from a length of received data must be in the committed list contracts/alloc_sites.json
import json, os, re
import vlib

PRE = '''use vstd::prelude::*;
verus! {
pub struct SlowLogRateLimiter { pub count: u64 }   // AtomicU64: only fetch_add is used, modelled as "returns any u64" (R-atomic)
pub struct RelaxedOrdering;
impl SlowLogRateLimiter {
    #[verifier::external_body] fn verif_fetch_add(&self, v: u64) -> (r: u64) { unimplemented!() }
'''

BOUNDED = re.compile(r'^(?:\d+|[A-Z_][A-Z0-9_]*|[\w.&()\[\]:]*\.len\(\)(?:\s*[-+*/]\s*(?:\d+|[A-Z_][A-Z0-9_]*))*|(?:std::cmp::|cmp::)?min\(.*\)|[\w.]+\.len\(\)\s*\+\s*[\w.]+\.len\(\)|\w+\.size_hint\(\)\.0)$')

def alloc_sites(root):
    sites = []
    for dp, dn, fn in os.walk(os.path.join(root, 'src')):
        for f in fn:
            if not f.endswith('.rs'):
                continue
            p = os.path.join(dp, f)
            t = open(p).read()
            cut = t.find('#[cfg(test)]')
            code = t if cut < 0 else t[:cut]
            mask = vlib.code_mask(code)
            for m in re.finditer(r'(?:with_capacity|reserve|reserve_exact)\(', code):
                if not mask[m.start()]:
                    continue
                e = vlib._match_paren(code, mask, m.end() - 1)
                arg = re.sub(r'\s+', ' ', code[m.end():e]).strip()
                if BOUNDED.match(arg):
                    continue
                sites.append('%s: %s(%s)' % (os.path.relpath(p, root), m.group(0)[:-1], arg))
    return sorted(set(sites))

def build(U):
    S = U.src('src/proxy/slowlog.rs')
    U.add(PRE)
    f = S.fn('check_current_enabled', within=r'impl SlowLogRateLimiter\b')
    f.sub('R-atomic', r'self\.count\.fetch_add\((\w+), atomic::Ordering::\w+\)', r'self.verif_fetch_add(\1)', count=1)
    f.header("    pub fn check_current_enabled(&self, slowlog_sample_rate: u64) -> (r: bool)\n        ensures true   // obligation: no division by zero / overflow for every sample rate (0 included)")
    U.add_fn(f)
    U.add('}\nfn max(a: u64, b: u64) -> (r: u64) ensures r == (if a >= b { a } else { b }) { if a >= b { a } else { b } }\n')
    # ---- slowlog record of a sampled command: the element shortener must not panic for any argument bytes
    # (String::truncate panics when the new length is not on a char boundary: that precondition becomes an obligation, like R9)
    U.add('''
// byte-level facts about a String (Verus models String as Seq<char>; byte length and char boundaries are uninterpreted)
pub uninterp spec fn blen(s: Seq<char>) -> nat;
pub uninterp spec fn char_boundary(s: Seq<char>, i: nat) -> bool;
// std: 0 and len are always char boundaries
pub broadcast axiom fn axiom_char_boundary_ends(s: Seq<char>) ensures #[trigger] char_boundary(s, 0), char_boundary(s, blen(s));
#[verifier::external_body] fn shim_str_len(s: &String) -> (r: usize) ensures r == blen(s@) { s.len() }
#[verifier::external_body] fn shim_is_char_boundary(s: &String, i: usize) -> (r: bool) ensures r == (i <= blen(s@) && char_boundary(s@, i as nat)) { s.is_char_boundary(i) }
// String::truncate(n): no-op for n >= len, PANICS if n is not on a char boundary
#[verifier::external_body] fn shim_truncate(s: &mut String, n: usize)
    requires n >= blen(old(s)@) || char_boundary(old(s)@, n as nat)
    ensures blen(final(s)@) <= blen(old(s)@)
{ s.truncate(n) }
#[verifier::external_body] fn shim_format() -> String { unimplemented!() }
#[verifier::external_body] fn shim_push_str(s: &mut String, t: &String) { s.push_str(t) }
fn min(a: usize, b: usize) -> (r: usize) ensures r == (if a <= b { a } else { b }) { if a <= b { a } else { b } }
''')
    ty, val = S.const_expr('MAX_ELEMENT_LENGTH')
    U.add('const MAX_ELEMENT_LENGTH: %s = %s;\n' % (ty, val))
    g = S.fn('get_brief_command')
    # closure-lift: `let limit_len = |mut s: String| { BODY };` -> fn limit_len(mut s: String) -> String { BODY }  (BODY verbatim)
    m = re.search(r'let limit_len = \|mut s: String\| \{', g.text)
    if not m:
        g._lost('closure-lift: let limit_len = |mut s: String| {')
    mask = vlib.code_mask(g.text)
    bo = m.end() - 1
    bc = vlib.match_brace(g.text, mask, bo)
    L = vlib.Fn('limit_len', g.file, g.line, 'fn limit_len(mut s: String) -> String ' + g.text[bo:bc + 1], U.log)
    U.log.rule('closure-lift', L, 'closure limit_len of get_brief_command lifted verbatim into a function')
    L.sub('R-str', r'\bs\.len\(\)', 'shim_str_len(&s)')
    L.sub('R-trunc', r'\bs\.truncate\(([^()]+)\)', r'shim_truncate(&mut s, \1)', count=1)
    L.sub('R-fmt', r'format!\("\(\{\}bytes\)", real_len\)', 'shim_format()', count=1)
    L.replace('R-str', 's.push_str(&postfix)', 'shim_push_str(&mut s, &postfix)', count=1)
    if 's.is_char_boundary(' in L.text:
        L.sub('R-str', r'\bs\.is_char_boundary\(([^()]+)\)', r'shim_is_char_boundary(&s, \1)')
    L.text = L.text.replace('std::cmp::min(', 'min(')
    if re.search(r'\bwhile\b', L.text):
        L.loop_spec(0, '            invariant end <= blen(s@), end <= MAX_ELEMENT_LENGTH, char_boundary(s@, 0)\n            decreases end', itname=None)
    L.header('fn limit_len(mut s: String) -> (r: String)\n    ensures true   // obligation: String::truncate is only ever asked for a char boundary (or a no-op length)')
    L.body_start('    broadcast use axiom_char_boundary_ends;')
    U.add_fn(L)
    U.add('} // verus!\nfn main() {}\n')
    # allocation-site scan
    known = json.load(open(os.path.join(vlib.VERIF, 'contracts', 'alloc_sites.json')))
    now = alloc_sites(vlib.REPO)
    new = [s for s in now if s not in known]
    U.log.scans.append({'file': 'src/**', 'fact': 'allocation sites sized by a value that is neither a constant nor a length of received data are exactly the reviewed ones (contracts/alloc_sites.json)%s'
                        % ('' if not new else '; NEW: ' + ' | '.join(new)), 'matches': len(now), 'ok': not new})
    U.trust('String byte length / char boundaries uninterpreted; 0 and len are char boundaries (std); String::truncate panics off a char boundary (turned into an obligation); the rest of get_brief_command (format!, iterator chains) is not under contract',
            'AtomicU64::fetch_add returns an arbitrary u64 (R-atomic)', 'allocation-site scan is syntactic (declared as a scan, not a proof)')

MUST_FAIL = '''
proof fn must_fail_misc_vacuity() ensures false { }
'''
