import os, re, vlib
def build(log):
    S = vlib.Src('src/protocol/stateless.rs', log)
    R = vlib.Src('src/protocol/resp.rs', log)
    F = vlib.Src('src/protocol/fp.rs', log)
    D = vlib.Src('src/protocol/decoder.rs', log)
    parts = ['#![allow(dead_code, unused_imports)]', 'use btoi::btoi;', 'use memchr::memchr;', 'use std::ops::Range;']
    parts.append(F.item('trait', 'Functor'))
    for c in ('LF', 'CR'):
        try:
            parts.append(D.item('const', c))
        except vlib.Undecided:
            pass
    parts.append('#[derive(Debug, Clone, PartialEq, Eq)]\n' + R.item('struct', 'DataIndex'))
    for n in ('BulkStr', 'Array', 'Resp'):
        parts.append('#[derive(Debug, PartialEq, Eq, Clone)]\n' + R.item('enum', n))
    for a in ('BulkStrIndex', 'ArrayIndex', 'RespIndex'):
        parts.append(R.item('type', a))
    for hdr in (r'impl<T> Functor for BulkStr<T>', r'impl<T> Functor for Array<T>', r'impl<T> Functor for Resp<T>', r'impl DataIndex\b',
                r'pub trait AdvanceIndex', r'impl<T> AdvanceIndex for T'):
        r = vlib.cut_item(R.text, hdr)
        if r is None:
            raise vlib.Undecided('resp.rs: %s not found' % hdr)
        parts.append(r[0])
    parts.append('#[derive(Debug)]\n' + S.item('enum', 'ParseError'))
    for f in ('parse_resp', 'parse_array', 'parse_bulk_str', 'parse_len', 'parse_line'):
        fn = S.fn(f)
        fn.r1_logging()      # debug!() needs the log crate; logging only
        parts.append(fn.text)
    parts.append(open(os.path.join(vlib.VERIF, 'kani', 'resp.rs')).read())
    replay = {'file': 'src/protocol/stateless.rs', 'name': 'resp_replay', 'test': '''
    // strict RESP reference for the non-array kinds: Ok((kind, start, end, consumed)) / Err(true = incomplete, false = invalid)
    fn ref_scalar(b: &[u8]) -> Result<(u8, isize, isize, usize), bool> {
        if b.is_empty() { return Err(true); }
        let lf = match b[1..].iter().position(|c| *c == b'\\n') { Some(i) => i + 1, None => return Err(true) };
        if lf < 2 || b[lf - 1] != b'\\r' { return Err(false); }
        match b[0] {
            b'+' | b'-' | b':' => Ok((b[0], 1, (lf - 1) as isize, lf + 1)),
            b'$' => {
                let n: i64 = match std::str::from_utf8(&b[1..lf - 1]).ok().and_then(|s| if s.starts_with('+') { None } else { s.parse().ok() }) { Some(n) => n, None => return Err(false) };
                if n < -1 { return Err(false); }
                if n == -1 { return Ok((b'$', -1, -1, lf + 1)); }
                let n = n as usize;
                if b.len() < lf + 1 + n + 2 { return Err(true); }
                if b[lf + 1 + n] != b'\\r' || b[lf + 2 + n] != b'\\n' { return Err(false); }
                Ok((b'$', (lf + 1) as isize, (lf + 1 + n) as isize, lf + 1 + n + 2))
            }
            _ => Err(false),
        }
    }
    #[test]
    fn resp_replay() {
        let buf: Vec<u8> = {BYTES}.to_vec();
        let got = std::panic::catch_unwind(|| parse_resp(&buf));
        println!("input {:?} -> {:?}", String::from_utf8_lossy(&buf), got.as_ref().map(|r| r.as_ref().map(|(v, c)| (format!("{:?}", v), *c)).map_err(|e| format!("{:?}", e))));
        let got = got.expect("parser panicked");
        if buf.first() == Some(&b'*') { return; }
        match (ref_scalar(&buf), got) {
            (Ok((k, s, e, c)), Ok((v, c2))) => {
                assert_eq!(c, c2, "consumed");
                let (k2, s2, e2) = match v {
                    RespIndex::Simple(d) => (b'+', d.0 as isize, d.1 as isize), RespIndex::Error(d) => (b'-', d.0 as isize, d.1 as isize),
                    RespIndex::Integer(d) => (b':', d.0 as isize, d.1 as isize),
                    RespIndex::Bulk(BulkStrIndex::Str(d)) => (b'$', d.0 as isize, d.1 as isize), RespIndex::Bulk(BulkStrIndex::Nil) => (b'$', -1, -1),
                    RespIndex::Arr(_) => (b'*', 0, 0) };
                assert_eq!((k, s, e), (k2, s2, e2), "value");
            }
            (Err(true), Err(ParseError::NotEnoughData)) => {}
            (Err(false), Err(ParseError::InvalidProtocol)) => {}
            (a, b) => panic!("strict RESP says {:?}, parser says {:?}", a, b.map(|(v, c)| (format!("{:?}", v), c)).map_err(|e| format!("{:?}", e))),
        }
    }
'''}
    hs = [
        {'name': 'resp_scalar_le7', 'kind': 'bounded', 'domain': 'all byte strings of <= 7 bytes starting with one of $ + - : (no arrays): real parse_resp (real btoi, memchr) vs a strict reference', 'decode': 'LB', 'replay': replay,
         'target': 'parse_resp, parse_bulk_str, parse_line, parse_len', 'timeout': 1500, 'trust': 'memchr::memchr stubbed by a byte loop (the crate uses inline asm / SIMD that Kani cannot translate)'},
    ]
    return '\n'.join(parts), ['btoi = "0.4"', 'memchr = "2"'], hs
