use vstd::prelude::*;
use std::collections::HashSet;
verus! {

pub broadcast axiom fn axiom_iter_mut_has_resolved<'a, T>(it: vstd::std_specs::iter::VerusForLoopWrapper<core::slice::IterMut<'a, T>>)
    ensures #[trigger] has_resolved(it) ==> forall|i: int| it.index@ <= i < it.seq().len() ==> has_resolved(#[trigger] it.seq()[i]);

pub struct MetaS { pub epoch: u64, pub si: usize, pub sp: usize, pub di: usize, pub dp: usize }
pub struct Entry { pub is_migrating: bool, pub meta: MetaS }
pub struct Chunk { pub role: u8, pub ms: [Vec<Entry>; 2], pub pa: [u64; 2] }
pub struct Cluster { pub epoch: u64, pub chunks: Vec<Chunk> }

pub open spec fn entry_frame(a: Entry, b: Entry, e: u64) -> bool {
    a.is_migrating == b.is_migrating && a.meta.si == b.meta.si && a.meta.sp == b.meta.sp && a.meta.di == b.meta.di && a.meta.dp == b.meta.dp
    && (b.meta.epoch == a.meta.epoch || b.meta.epoch == e)
}
pub open spec fn entries_frame(a: Seq<Entry>, b: Seq<Entry>, e: u64) -> bool {
    a.len() == b.len() && forall|k: int| 0 <= k < a.len() ==> entry_frame(#[trigger] a[k], b[k], e)
}
pub open spec fn chunk_frame(a: Chunk, b: Chunk, e: u64) -> bool {
    a.pa == b.pa && entries_frame(a.ms[0]@, b.ms[0]@, e) && entries_frame(a.ms[1]@, b.ms[1]@, e)
}

fn stamp_all(v: &mut Vec<Entry>, e: u64, peer: &mut HashSet<(usize, usize)>)
    ensures entries_frame(old(v)@, final(v)@, e),
            forall|k: int| 0 <= k < final(v)@.len() ==> (#[trigger] final(v)@[k]).meta.epoch == e,
{
    for m in it: v.iter_mut()
        invariant
            it.seq().len() == old(v)@.len(),
            forall|i: int| 0 <= i < it.seq().len() ==> *(#[trigger] it.seq()[i]) == old(v)@[i],
            forall|i: int| 0 <= i < it.index@ ==> entry_frame(old(v)@[i], *final(#[trigger] it.seq()[i]), e) && final(it.seq()[i]).meta.epoch == e,
    {
        m.meta.epoch = e;
        peer.insert((m.meta.si, m.meta.sp));
        peer.insert((m.meta.di, m.meta.dp));
    }
}

fn first_loop(cluster: &mut Cluster, failed: u64, e: u64) -> (r: bool)
    ensures
        final(cluster).epoch == old(cluster).epoch,
        final(cluster).chunks@.len() == old(cluster).chunks@.len(),
        forall|j: int| 0 <= j < old(cluster).chunks@.len() ==> chunk_frame(#[trigger] old(cluster).chunks@[j], final(cluster).chunks@[j], e),
{
    broadcast use axiom_iter_mut_has_resolved;
    let mut peer_position: HashSet<(usize, usize)> = HashSet::new();
    for chunk in it: cluster.chunks.iter_mut()
        invariant
            cluster.epoch == old(cluster).epoch,
            it.seq().len() == old(cluster).chunks@.len(),
            forall|i: int| 0 <= i < it.seq().len() ==> *(#[trigger] it.seq()[i]) == old(cluster).chunks@[i],
            forall|i: int| 0 <= i < it.index@ ==> chunk_frame(old(cluster).chunks@[i], *final(#[trigger] it.seq()[i]), e),
    {
        if chunk.pa[0] == failed {
            if chunk.role == 2 {
                return true;
            }
            chunk.role = 2;
            for m in it2: chunk.ms[0].iter_mut()
                invariant
                    it2.seq().len() == old(cluster).chunks@[it.index@].ms[0]@.len(),
                    forall|i: int| 0 <= i < it2.seq().len() ==> *(#[trigger] it2.seq()[i]) == old(cluster).chunks@[it.index@].ms[0]@[i],
                    forall|i: int| 0 <= i < it2.index@ ==> entry_frame(old(cluster).chunks@[it.index@].ms[0]@[i], *final(#[trigger] it2.seq()[i]), e),
            {
                m.meta.epoch = e;
                peer_position.insert((m.meta.si, m.meta.sp));
                peer_position.insert((m.meta.di, m.meta.dp));
            }
            break;
        }
    }
    false
}

} // verus!
fn main() {}
