import sys,re; sys.path.insert(0,'/tmp/km/x')
from cut import *
w1=open('/tmp/km/x/w1.rs').read()
i=w1.index("// ---- specs ----")
head=w1[:i]
query=open('/repo/src/broker/query.rs').read()
f=fn(query,'get_free_proxy_resource')
# D8 x3 (nested)
f=f.replace('''            if proxy_resource.cluster.is_some() {
                continue;
            }
            let proxy_address = &proxy_resource.proxy_address;
            if failed_proxies.contains(proxy_address) {
                continue;
            }
            if failures.contains_key(proxy_address) {
                continue;
            }
            free_proxies.push(proxy_resource.clone());''','''            if !(proxy_resource.cluster.is_some()) {
            let proxy_address = &proxy_resource.proxy_address;
            if !(failed_proxies.contains(proxy_address)) {
            if !(failures.contains_key(proxy_address)) {
            free_proxies.push(proxy_resource.clone());
            }}}''')
f=f.replace("        for proxy_resource in self.store.all_proxies.values() {","""        for proxy_resource in it: self.store.all_proxies.values()
            invariant
                vstd::std_specs::hash::obeys_key_model::<String>(),
                failed_proxies@ == self.store.failed_proxies@, failures@.dom() =~= self.store.failures@.dom(),
                forall|i: int| 0 <= i < free_proxies@.len() ==> allocatable(*self.store, #[trigger] free_proxies@[i]),
        {""")
f=f.replace("pub fn get_free_proxy_resource(&self) -> Vec<ProxyResource> {","""pub fn get_free_proxy_resource(&self) -> (r: Vec<ProxyResource>)
        requires vstd::std_specs::hash::obeys_key_model::<String>(),
        ensures forall|i: int| 0 <= i < r@.len() ==> allocatable(*self.store, #[trigger] r@[i]),
    {""")
spec='''
pub broadcast axiom fn axiom_string_key() ensures #[trigger] vstd::std_specs::hash::obeys_key_model::<String>();
pub assume_specification<T: Clone, S: Clone, A: Allocator + Clone>[ <HashSet<T, S, A> as Clone>::clone ](s: &HashSet<T, S, A>) -> (r: HashSet<T, S, A>) ensures r@ == s@;
// (vstd already specifies HashMap::clone)
impl Clone for ProxyResource { #[verifier::external_body] fn clone(&self) -> (r: Self) ensures r == *self { unimplemented!() } }
// statement of C06: "Proxies marked failed or under failure report are never allocated to a cluster"
pub open spec fn allocatable(s: MetaStore, p: ProxyResource) -> bool {
    p.cluster is None && !s.failed_proxies@.contains(p.proxy_address) && !s.failures@.contains_key(p.proxy_address)
}
pub struct MetaStoreQuery<'a> { pub store: &'a MetaStore }
impl<'a> MetaStoreQuery<'a> {
'''
out=head+spec+f+"\n}\n} // verus!\nfn main() {}\n"
out=out.replace("impl Clone for ProxyResource { #[verifier::external_body] fn clone(&self) -> Self { unimplemented!() } }\n","")
open('/tmp/km/x/gf.rs','w').write(out)
