// ======================= code-side types and views =======================
// DataIndex / BulkStr / Array / Resp and the *Index aliases are copied from src/protocol/resp.rs by the extractor

pub open spec fn view_bulk(b: BulkStrIndex) -> SResp { match b { BulkStr::Str(d) => SResp::Bulk(d.0 as int, d.1 as int), BulkStr::Nil => SResp::BulkNil } }
pub open spec fn view_resp(r: RespIndex) -> SResp
    decreases r
{
    match r {
        Resp::Error(d) => SResp::Error(d.0 as int, d.1 as int),
        Resp::Simple(d) => SResp::Simple(d.0 as int, d.1 as int),
        Resp::Integer(d) => SResp::Integer(d.0 as int, d.1 as int),
        Resp::Bulk(b) => view_bulk(b),
        Resp::Arr(a) => view_arr(a),
    }
}
pub open spec fn view_arr(a: ArrayIndex) -> SResp
    decreases a
{
    match a { Array::Arr(v) => SResp::Arr(Seq::new(v@.len(), |i: int| if 0 <= i < v@.len() { view_resp(v@[i]) } else { SResp::ArrNil })), Array::Nil => SResp::ArrNil }
}
pub open spec fn err_matches<T>(e: ParseError, r: SRes<T>) -> bool {
    match e { ParseError::NotEnoughData => r is NotEnough, ParseError::InvalidProtocol => r is Invalid, ParseError::UnexpectedErr => false }
}

// ---- "all indices inside [lo, hi]" ----
pub open spec fn di_in(d: DataIndex, lo: int, hi: int) -> bool { lo <= d.0 <= d.1 <= hi }
pub open spec fn bulk_in(b: BulkStrIndex, lo: int, hi: int) -> bool { match b { BulkStr::Str(d) => di_in(d, lo, hi), BulkStr::Nil => true } }
pub open spec fn resp_in(r: RespIndex, lo: int, hi: int) -> bool
    decreases r
{
    match r {
        Resp::Error(d) => di_in(d, lo, hi),
        Resp::Simple(d) => di_in(d, lo, hi),
        Resp::Integer(d) => di_in(d, lo, hi),
        Resp::Bulk(b) => bulk_in(b, lo, hi),
        Resp::Arr(a) => arr_in(a, lo, hi),
    }
}
pub open spec fn arr_in(a: ArrayIndex, lo: int, hi: int) -> bool
    decreases a
{
    match a { Array::Arr(v) => forall|i: int| 0 <= i < v@.len() ==> resp_in(#[trigger] v@[i], lo, hi), Array::Nil => true }
}


pub proof fn lemma_resp_in_mono(r: RespIndex, lo: int, hi: int, lo2: int, hi2: int)
    requires resp_in(r, lo, hi), lo2 <= lo, hi <= hi2
    ensures resp_in(r, lo2, hi2)
    decreases r
{
    match r {
        Resp::Arr(a) => lemma_arr_in_mono(a, lo, hi, lo2, hi2),
        _ => {}
    }
}
pub proof fn lemma_arr_in_mono(a: ArrayIndex, lo: int, hi: int, lo2: int, hi2: int)
    requires arr_in(a, lo, hi), lo2 <= lo, hi <= hi2
    ensures arr_in(a, lo2, hi2)
    decreases a
{
    match a {
        Array::Arr(v) => {
            assert forall|i: int| 0 <= i < v@.len() implies resp_in(#[trigger] v@[i], lo2, hi2) by {
                lemma_resp_in_mono(v@[i], lo, hi, lo2, hi2);
            }
        }
        Array::Nil => {}
    }
}


// ======================= trusted shims =======================
pub open spec const MAX_BUF: int = 0x3fff_ffff_ffff_ffff;
#[verifier::external_body]
fn memchr(c: u8, s: &[u8]) -> (r: Option<usize>)
    ensures match r {
        Some(i) => i < s@.len() && s@[i as int] == c && forall|j: int| 0 <= j < i ==> s@[j] != c,
        None => forall|j: int| 0 <= j < s@.len() ==> s@[j] != c,
    }
{ unimplemented!() }
#[verifier::external_body]
fn btoi(s: &[u8]) -> (r: Result<i64, ()>)
    ensures match r { Ok(n) => spec_btoi(s@) == Some(n as int), Err(_) => spec_btoi(s@).is_none() }
{ unimplemented!() }
#[verifier::external_body]
fn shim_get_range(s: &[u8], a: usize, b: usize) -> (r: Option<&[u8]>)
    ensures match r { Some(t) => a <= b <= s@.len() && t@ == s@.subrange(a as int, b as int), None => !(a <= b <= s@.len()) }
{ s.get(a..b) }

pub proof fn lemma_first_lf(s: Seq<u8>)
    ensures match first_lf(s) {
        Some(i) => 0 <= i < s.len() && s[i] == LF && forall|j: int| 0 <= j < i ==> s[j] != LF,
        None => forall|j: int| 0 <= j < s.len() ==> s[j] != LF,
    }
    decreases s.len()
{
    if s.len() == 0 {} else if s[0] == LF {} else {
        let t = s.subrange(1, s.len() as int);
        lemma_first_lf(t);
        match first_lf(t) {
            Some(i) => { assert forall|j: int| 0 <= j < i + 1 implies s[j] != LF by { if j > 0 { assert(t[j - 1] == s[j]); } } assert(t[i] == s[i + 1]); }
            None => { assert forall|j: int| 0 <= j < s.len() implies s[j] != LF by { if j > 0 { assert(t[j - 1] == s[j]); } } }
        }
    }
}

// ---- further shims (R4 R8 R9) and array view lemma ----
#[verifier::external_body]
fn shim_get_from(s: &[u8], a: usize) -> (r: Option<&[u8]>)
    ensures match r { Some(t) => a <= s@.len() && t@ == s@.subrange(a as int, s@.len() as int), None => a > s@.len() }
{ s.get(a..) }
#[verifier::external_body]
fn shim_with_capacity(n: usize, Ghost(budget): Ghost<int>) -> (v: Vec<RespIndex>)
    requires n <= budget
    ensures v@.len() == 0
{ Vec::with_capacity(n) }
fn min(a: usize, b: usize) -> (r: usize) ensures r == (if a <= b { a } else { b }) { if a <= b { a } else { b } }

#[verifier::external_body]
fn shim_advance_bulk(v: &mut BulkStrIndex, count: usize, Ghost(hi): Ghost<int>)
    requires bulk_in(*old(v), 0, hi), hi + count <= usize::MAX
    ensures bulk_in(*final(v), count as int, hi + count), view_bulk(*final(v)) == shift(view_bulk(*old(v)), count as int)
{ unimplemented!() }
#[verifier::external_body]
fn shim_advance_arr(v: &mut ArrayIndex, count: usize, Ghost(hi): Ghost<int>)
    requires arr_in(*old(v), 0, hi), hi + count <= usize::MAX
    ensures arr_in(*final(v), count as int, hi + count), view_arr(*final(v)) == shift(view_arr(*old(v)), count as int)
{ unimplemented!() }
#[verifier::external_body]
fn shim_advance_resp(v: &mut RespIndex, count: usize, Ghost(hi): Ghost<int>)
    requires resp_in(*old(v), 0, hi), hi + count <= usize::MAX
    ensures resp_in(*final(v), count as int, hi + count), view_resp(*final(v)) == shift(view_resp(*old(v)), count as int)
{ unimplemented!() }

pub open spec fn acc_view(v: Seq<RespIndex>) -> Seq<SResp> { Seq::new(v.len(), |i: int| if 0 <= i < v.len() { view_resp(v[i]) } else { SResp::ArrNil }) }

pub proof fn lemma_view_arr(array: Vec<RespIndex>)
    ensures view_arr(Array::Arr(array)) == SResp::Arr(acc_view(array@))
{
    let x = view_arr(Array::Arr(array));
    assert(x is Arr);
    let xs = x->Arr_0;
    assert(xs.len() == array@.len());
    assert forall|i: int| 0 <= i < xs.len() implies xs[i] == acc_view(array@)[i] by {}
    assert(xs =~= acc_view(array@));
}

