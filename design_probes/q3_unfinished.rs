use vstd::prelude::*;
use std::collections::HashSet;
verus! {
broadcast use vstd::std_specs::hash::group_hash_axioms;

pub broadcast axiom fn axiom_iter_mut_has_resolved<'a, T>(it: vstd::std_specs::iter::VerusForLoopWrapper<core::slice::IterMut<'a, T>>)
    ensures #[trigger] has_resolved(it) ==> forall|i: int| it.index@ <= i < it.seq().len() ==> has_resolved(#[trigger] it.seq()[i]);

pub broadcast axiom fn axiom_tuple_key_model()
    ensures #[trigger] vstd::std_specs::hash::obeys_key_model::<(usize, usize)>();

pub struct MetaS { pub epoch: u64, pub si: usize, pub sp: usize, pub di: usize, pub dp: usize }
pub struct Entry { pub is_migrating: bool, pub meta: MetaS }
pub struct Chunk { pub role: u8, pub ms: [Vec<Entry>; 2], pub pa: [u64; 2] }
pub struct Cluster { pub epoch: u64, pub chunks: Vec<Chunk> }

pub open spec fn touches(m: MetaS, p: Set<(usize, usize)>) -> bool { p.contains((m.si, m.sp)) || p.contains((m.di, m.dp)) }

pub open spec fn entry_frame(a: Entry, b: Entry, e: u64) -> bool {
    a.is_migrating == b.is_migrating && a.meta.si == b.meta.si && a.meta.sp == b.meta.sp && a.meta.di == b.meta.di && a.meta.dp == b.meta.dp
    && (b.meta.epoch == a.meta.epoch || b.meta.epoch == e)
}
pub open spec fn entries_frame(a: Seq<Entry>, b: Seq<Entry>, e: u64) -> bool {
    a.len() == b.len() && forall|k: int| 0 <= k < a.len() ==> entry_frame(#[trigger] a[k], b[k], e)
}
pub open spec fn entries_stamped(a: Seq<Entry>, b: Seq<Entry>, e: u64, p: Set<(usize,usize)>) -> bool {
    entries_frame(a, b, e) && forall|k: int| 0 <= k < a.len() && touches((#[trigger] a[k]).meta, p) ==> b[k].meta.epoch == e
}
pub open spec fn chunk_stamped(a: Chunk, b: Chunk, e: u64, p: Set<(usize,usize)>) -> bool {
    a.pa == b.pa && a.role == b.role && entries_stamped(a.ms[0]@, b.ms[0]@, e, p) && entries_stamped(a.ms[1]@, b.ms[1]@, e, p)
}


pub open spec fn positions_of(a: Seq<Entry>) -> Set<(usize, usize)>
    decreases a.len()
{
    if a.len() == 0 { Set::<(usize,usize)>::empty() }
    else { positions_of(a.drop_last()).insert((a.last().meta.si, a.last().meta.sp)).insert((a.last().meta.di, a.last().meta.dp)) }
}
pub open spec fn all_stamped(a: Seq<Entry>, b: Seq<Entry>, e: u64) -> bool {
    entries_frame(a, b, e) && forall|k: int| 0 <= k < b.len() ==> (#[trigger] b[k]).meta.epoch == e
}
// which chunk/half the first loop flips: first chunk whose pa[0] or pa[1] equals failed
pub open spec fn is_hit(c: Chunk, failed: u64) -> bool { c.pa[0] == failed || c.pa[1] == failed }
pub open spec fn hit_half(c: Chunk, failed: u64) -> int { if c.pa[0] == failed { 0 } else { 1 } }
pub open spec fn flipped_role(h: int) -> u8 { if h == 0 { 2u8 } else { 1u8 } }

pub enum R { AlreadyFlipped, Flipped(Ghost<int>), NotFound }

fn first_phase(cluster: &mut Cluster, failed: u64, new_epoch: u64, peer_position: &mut HashSet<(usize, usize)>) -> (r: Option<()>)
    requires vstd::std_specs::hash::obeys_key_model::<(usize, usize)>(), old(peer_position)@ == Set::<(usize,usize)>::empty(),
    ensures
        final(cluster).epoch == old(cluster).epoch,
        final(cluster).chunks@.len() == old(cluster).chunks@.len(),
        // j = first hit
        forall|j: int| 0 <= j < old(cluster).chunks@.len() && !(exists|i: int| 0 <= i < j && is_hit(#[trigger] old(cluster).chunks@[i], failed)) && !is_hit(old(cluster).chunks@[j], failed)
            ==> final(cluster).chunks@[j] == old(cluster).chunks@[j],
        forall|j: int| 0 <= j < old(cluster).chunks@.len() && (exists|i: int| 0 <= i < j && is_hit(#[trigger] old(cluster).chunks@[i], failed))
            ==> final(cluster).chunks@[j] == old(cluster).chunks@[j],
        forall|j: int| #![trigger old(cluster).chunks@[j]] 0 <= j < old(cluster).chunks@.len() && is_hit(old(cluster).chunks@[j], failed) && !(exists|i: int| 0 <= i < j && is_hit(#[trigger] old(cluster).chunks@[i], failed))
            ==> {
                let h = hit_half(old(cluster).chunks@[j], failed);
                let oc = old(cluster).chunks@[j];
                let nc = final(cluster).chunks@[j];
                if oc.role == flipped_role(h) { r is Some && nc == oc && final(peer_position)@ == Set::<(usize,usize)>::empty() }
                else { r is None && nc.role == flipped_role(h) && nc.pa == oc.pa && nc.ms[1 - h]@ == oc.ms[1 - h]@ && all_stamped(oc.ms[h]@, nc.ms[h]@, new_epoch)
                       && final(peer_position)@ == positions_of(oc.ms[h]@) }
            },
{
    broadcast use axiom_iter_mut_has_resolved;
    let mut verif_ret: Option<()> = None;
    for chunk in it: cluster.chunks.iter_mut()
        invariant
            vstd::std_specs::hash::obeys_key_model::<(usize, usize)>(),
            cluster.epoch == old(cluster).epoch,
            verif_ret is None,
            peer_position@ == Set::<(usize,usize)>::empty(),
            it.seq().len() == old(cluster).chunks@.len(),
            forall|i: int| 0 <= i < it.seq().len() ==> *(#[trigger] it.seq()[i]) == old(cluster).chunks@[i],
            forall|i: int| 0 <= i < it.index@ ==> *final(#[trigger] it.seq()[i]) == old(cluster).chunks@[i] && !is_hit(old(cluster).chunks@[i], failed),
    {
        if chunk.pa[0] == failed {
            if chunk.role == 2 {
                { verif_ret = Some(()); break; }
            }
            chunk.role = 2;

            for migrating_slot_range in it2: chunk.ms[0].iter_mut()
                invariant
                    vstd::std_specs::hash::obeys_key_model::<(usize, usize)>(),
                    it2.seq().len() == old(cluster).chunks@[it.index@].ms[0]@.len(),
                    forall|i: int| 0 <= i < it2.seq().len() ==> *(#[trigger] it2.seq()[i]) == old(cluster).chunks@[it.index@].ms[0]@[i],
                    forall|i: int| 0 <= i < it2.index@ ==> entry_frame(old(cluster).chunks@[it.index@].ms[0]@[i], *final(#[trigger] it2.seq()[i]), new_epoch) && final(it2.seq()[i]).meta.epoch == new_epoch,
                    peer_position@ == positions_of(old(cluster).chunks@[it.index@].ms[0]@.subrange(0, it2.index@)),
            {
                migrating_slot_range.meta.epoch = new_epoch;
                peer_position.insert((
                    migrating_slot_range.meta.si,
                    migrating_slot_range.meta.sp,
                ));
                peer_position.insert((
                    migrating_slot_range.meta.di,
                    migrating_slot_range.meta.dp,
                ));
            }
            break;
        } else if chunk.pa[1] == failed {
            if chunk.role == 1 {
                { verif_ret = Some(()); break; }
            }
            chunk.role = 1;

            for migrating_slot_range in it2: chunk.ms[1].iter_mut()
                invariant
                    vstd::std_specs::hash::obeys_key_model::<(usize, usize)>(),
                    it2.seq().len() == old(cluster).chunks@[it.index@].ms[1]@.len(),
                    forall|i: int| 0 <= i < it2.seq().len() ==> *(#[trigger] it2.seq()[i]) == old(cluster).chunks@[it.index@].ms[1]@[i],
                    forall|i: int| 0 <= i < it2.index@ ==> entry_frame(old(cluster).chunks@[it.index@].ms[1]@[i], *final(#[trigger] it2.seq()[i]), new_epoch) && final(it2.seq()[i]).meta.epoch == new_epoch,
                    peer_position@ == positions_of(old(cluster).chunks@[it.index@].ms[1]@.subrange(0, it2.index@)),
            {
                migrating_slot_range.meta.epoch = new_epoch;
                peer_position.insert((
                    migrating_slot_range.meta.si,
                    migrating_slot_range.meta.sp,
                ));
                peer_position.insert((
                    migrating_slot_range.meta.di,
                    migrating_slot_range.meta.dp,
                ));
            }
            break;
        }
    }
    verif_ret
}
}
fn main() {}
