#!/usr/bin/env python3
# seed_meta.py <seed id> <round> <needs-to-manifest text>  -- read seeded/<id>/verify.log, check the three facts, write meta.json
import sys, re, json, subprocess
sid, rnd, needs = sys.argv[1], int(sys.argv[2]), sys.argv[3]
d = '/verif/seeded/' + sid
log = open(d + '/verify.log').read()
parts = re.split(r'^== \d\. ', log, flags=re.M)
def results(t):
    return [(int(a), int(b)) for a, b in re.findall(r'test result: \w+\. (\d+) passed; (\d+) failed', t)]
r1, r2, r3 = results(parts[1]), results(parts[2]), results(parts[3])
f1 = any(b > 0 for a, b in r1)
f2 = all(b == 0 for a, b in r2) and sum(a for a, b in r2) == 146 and 'error' not in parts[2].split('\n', 1)[1]
f3 = all(b == 0 for a, b in r3) and sum(a for a, b in r3) > 0
meta = {'property': sid.split('_')[0], 'seed': sid, 'round': rnd,
        'author': 'independent sub-agent (saw only the property text and a scratch worktree of /repo)',
        'needs_to_manifest': needs,
        'confirmed': 'tools/seed_verify.sh in a scratch worktree (verify.log): demo fails with patch=%s, whole suite 136+10 passes with patch=%s, demo passes on the unchanged tree=%s' % (f1, f2, f3),
        'confirmed_all': bool(f1 and f2 and f3),
        'base_commit': subprocess.run(['git', '-C', '/repo', 'rev-parse', '--short', 'HEAD'], capture_output=True, text=True).stdout.strip()}
json.dump(meta, open(d + '/meta.json', 'w'), indent=1)
print(sid, meta['confirmed_all'], meta['confirmed'])
