# throw-away prototype: cut items (fn / struct / enum / const) by name out of a rust file with brace matching
import re,sys
def strip_strings(src):
    # return list of (idx, ch) ignoring chars in strings/comments: we produce mask
    n=len(src); mask=[True]*n; i=0
    while i<n:
        c=src[i]
        if src.startswith('//',i):
            j=src.find('\n',i); j=n if j<0 else j
            for k in range(i,j): mask[k]=False
            i=j; continue
        if src.startswith('/*',i):
            j=src.find('*/',i)+2
            for k in range(i,j): mask[k]=False
            i=j; continue
        if c=='"':
            j=i+1
            while src[j]!='"':
                if src[j]=='\\': j+=1
                j+=1
            for k in range(i,j+1): mask[k]=False
            i=j+1; continue
        if c=="'":
            # char literal or lifetime
            m=re.match(r"'(\\.|[^\\'])'",src[i:])
            if m:
                for k in range(i,i+m.end()): mask[k]=False
                i+=m.end(); continue
        i+=1
    return mask
def cut_item(src, header_re, start=0):
    mask=strip_strings(src)
    for m in re.finditer(header_re, src[start:]):
        i=start+m.start()
        if not mask[i]: continue
        # find first '{' or ';' at depth 0 (parens) after header
        j=i; depth=0
        while True:
            c=src[j]
            if mask[j]:
                if c in '([': depth+=1
                elif c in ')]': depth-=1
                elif c=='{' and depth==0: break
                elif c==';' and depth==0: return src[i:j+1], i, j+1
            j+=1
        d=0;k=j
        while True:
            c=src[k]
            if mask[k]:
                if c=='{': d+=1
                elif c=='}':
                    d-=1
                    if d==0: break
            k+=1
        return src[i:k+1], i, k+1
    return None
def fn(src,name,after=None):
    start=0
    if after:
        start=src.index(after)
    r=cut_item(src, r'(pub(\([a-z]+\))? )?(async )?fn '+re.escape(name)+r'\b', start)
    if r is None: raise Exception("fn not found "+name)
    return r[0]
def item(src,kind,name):
    r=cut_item(src, r'(pub )?'+kind+' '+re.escape(name)+r'\b')
    if r is None: raise Exception("item not found "+name)
    return r[0]
