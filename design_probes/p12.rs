use vstd::prelude::*;
use std::collections::HashMap;
verus! {

#[derive(PartialEq, Eq, Hash)]
pub struct Range(pub usize, pub usize);
#[derive(PartialEq, Eq, Hash)]
pub struct RangeList(pub Vec<Range>);
pub struct MigrationMeta { pub epoch: u64 }
pub enum SlotRangeTag { Migrating(MigrationMeta), Importing(MigrationMeta), None }
pub struct SlotRange { pub range_list: RangeList, pub tag: SlotRangeTag }
impl SlotRange { pub fn get_range_list(&self) -> (r: &RangeList) ensures *r == self.range_list { &self.range_list } }

#[derive(PartialEq, Eq, Copy, Clone)]
pub enum MigrationState { PreCheck = 0, PreBlocking = 1, PreSwitch = 2, Scanning = 3, FinalSwitch = 4, SwitchCommitted = 5 }

fn should_ignore_slots(
    range: &SlotRange,
    migration_states: &HashMap<RangeList, MigrationState>,
) -> bool {
    match &range.tag {
        SlotRangeTag::Migrating(_) => {
            migration_states.get(range.get_range_list()).cloned() != Some(MigrationState::PreCheck)
        }
        SlotRangeTag::Importing(_) => {
            migration_states.get(range.get_range_list()).cloned() == Some(MigrationState::PreCheck)
        }
        _ => false,
    }
}

fn cast(a: usize, b: usize) -> usize { (a < b) as usize }

} // verus!
fn main() {}
