pub assume_specification<'a, T, F: FnOnce() -> T>[ Option::<T>::get_or_insert_with ](o: &'a mut Option<T>, f: F) -> (r: &'a mut T)
    ensures
        match *old(o) { Some(v) => *r == v, None => f.ensures((), *r) },
        *final(o) == Some(*final(r)),
;
// ---- range coverage (contracts of the RangeList unit, assumed here) ----
pub uninterp spec fn rl_covers(rl: RangeList, s: int) -> bool;
impl Clone for RangeList { #[verifier::external_body] fn clone(&self) -> (r: Self) ensures r == *self { unimplemented!() } }
impl Clone for MigrationSlotRangeStore { #[verifier::external_body] fn clone(&self) -> (r: Self) ensures r == *self { unimplemented!() } }
impl Clone for ClusterName { #[verifier::external_body] fn clone(&self) -> (r: Self) ensures r == *self { unimplemented!() } }
impl Clone for ClusterConfig { #[verifier::external_body] fn clone(&self) -> (r: Self) ensures r == *self { unimplemented!() } }
impl RangeList {
    #[verifier::external_body] pub fn new(ranges: Vec<Range>) -> (r: Self) ensures ranges@.len() == 0 ==> forall|s: int| !rl_covers(r, s) { unimplemented!() }
    #[verifier::external_body] pub fn merge_another(&mut self, range_list: &mut RangeList)
        ensures forall|s: int| rl_covers(*final(self), s) <==> (rl_covers(*old(self), s) || rl_covers(*old(range_list), s)) { unimplemented!() }
}
impl SlotRange {
    pub fn get_mut_range_list(&mut self) -> (r: &mut RangeList)
        ensures *r == old(self).range_list, final(self).range_list == *final(r), final(self).tag == old(self).tag
    { &mut self.range_list }
}
#[verifier::external_body] fn clone_stable(s: &[Option<SlotRange>; 2]) -> (r: [Option<SlotRange>; 2]) ensures r == *s { unimplemented!() }
#[verifier::external_body] fn clone_s2(s: &[String; 2]) -> (r: [String; 2]) ensures r == *s { unimplemented!() }
#[verifier::external_body] fn clone_s4(s: &[String; 4]) -> (r: [String; 4]) ensures r == *s { unimplemented!() }
#[verifier::external_body] fn clone_cluster_store(s: &ClusterStore) -> (r: ClusterStore) ensures r == *s { unimplemented!() }

// ---- C01 specs for limit_migration ----
pub open spec fn valid_meta(m: MigrationMetaStore, n: int) -> bool {
    m.src_chunk_index < n && m.dst_chunk_index < n && m.src_chunk_part < 2 && m.dst_chunk_part < 2
}
pub open spec fn inv_home(cs: ClusterStore) -> bool {
    forall|c: int, p: int, i: int| 0 <= c < cs.chunks@.len() && 0 <= p < 2 && 0 <= i < cs.chunks@[c].migrating_slots[p]@.len() ==> {
        let x = #[trigger] cs.chunks@[c].migrating_slots[p]@[i];
        valid_meta(x.meta, cs.chunks@.len() as int)
        && (x.is_migrating ==> x.meta.src_chunk_index == c && x.meta.src_chunk_part == p)
    }
}
pub open spec fn static_eq(a: ChunkStore, b: ChunkStore) -> bool {
    a.role_position == b.role_position && a.proxy_addresses == b.proxy_addresses && a.hosts == b.hosts && a.node_addresses == b.node_addresses
}
pub open spec fn stable_cov(ch: ChunkStore, p: int, s: int) -> bool { match ch.stable_slots[p] { Some(sr) => rl_covers(sr.range_list, s), None => false } }
pub open spec fn out_cov(ms: Seq<MigrationSlotRangeStore>, k: int, s: int) -> bool {
    exists|i: int| 0 <= i < k && i < ms.len() && (#[trigger] ms[i]).is_migrating && rl_covers(ms[i].range_list, s)
}
pub open spec fn half_cov(ch: ChunkStore, p: int, s: int) -> bool { stable_cov(ch, p, s) || out_cov(ch.migrating_slots[p]@, ch.migrating_slots[p]@.len() as int, s) }
// how many entries of half (c,p) of `self` have been processed when the loops stand at (ci, pi, ei)
pub open spec fn done(cs: ClusterStore, ci: int, pi: int, ei: int, c: int, p: int) -> int {
    if c < ci || (c == ci && p < pi) { cs.chunks@[c].migrating_slots[p]@.len() as int } else if c == ci && p == pi { ei } else { 0 }
}
pub open spec fn lm_inv(cs: ClusterStore, chunks: Seq<ChunkStore>, ci: int, pi: int, ei: int) -> bool {
    chunks.len() == cs.chunks@.len()
    && forall|c: int| 0 <= c < chunks.len() ==> static_eq(#[trigger] cs.chunks@[c], chunks[c])
    && forall|c: int, p: int, s: int| 0 <= c < chunks.len() && 0 <= p < 2 ==>
        (#[trigger] half_cov(chunks[c], p, s) <==> (stable_cov(cs.chunks@[c], p, s) || out_cov(cs.chunks@[c].migrating_slots[p]@, done(cs, ci, pi, ei, c, p), s)))
}

pub proof fn lemma_out_step(ms: Seq<MigrationSlotRangeStore>, k: int, s: int)
    requires 0 <= k < ms.len()
    ensures out_cov(ms, k + 1, s) <==> (out_cov(ms, k, s) || (ms[k].is_migrating && rl_covers(ms[k].range_list, s)))
{
    if out_cov(ms, k + 1, s) {
        let i = choose|i: int| 0 <= i < k + 1 && i < ms.len() && (#[trigger] ms[i]).is_migrating && rl_covers(ms[i].range_list, s);
        if i < k { assert(out_cov(ms, k, s)); }
    }
    if out_cov(ms, k, s) {
        let i = choose|i: int| 0 <= i < k && i < ms.len() && (#[trigger] ms[i]).is_migrating && rl_covers(ms[i].range_list, s);
        assert(0 <= i < k + 1 && ms[i].is_migrating);
    }
    if ms[k].is_migrating && rl_covers(ms[k].range_list, s) { assert(0 <= k < k + 1 && ms[k].is_migrating); }
}
pub proof fn lemma_out_push(ms: Seq<MigrationSlotRangeStore>, x: MigrationSlotRangeStore, s: int)
    ensures out_cov(ms.push(x), ms.len() as int + 1, s) <==> (out_cov(ms, ms.len() as int, s) || (x.is_migrating && rl_covers(x.range_list, s)))
{
    let m2 = ms.push(x);
    lemma_out_step(m2, ms.len() as int, s);
    if out_cov(m2, ms.len() as int, s) {
        let i = choose|i: int| 0 <= i < ms.len() && i < m2.len() && (#[trigger] m2[i]).is_migrating && rl_covers(m2[i].range_list, s);
        assert(ms[i] == m2[i]);
        assert(out_cov(ms, ms.len() as int, s));
    }
    if out_cov(ms, ms.len() as int, s) {
        let i = choose|i: int| 0 <= i < ms.len() && i < ms.len() && (#[trigger] ms[i]).is_migrating && rl_covers(ms[i].range_list, s);
        assert(m2[i] == ms[i]);
        assert(out_cov(m2, ms.len() as int, s));
    }
}

pub open spec fn lm_post(cs: ClusterStore, r: ClusterStore) -> bool {
    r.epoch == cs.epoch && r.name == cs.name && r.config == cs.config
    && r.chunks@.len() == cs.chunks@.len()
    && forall|c: int| 0 <= c < r.chunks@.len() ==> static_eq(#[trigger] cs.chunks@[c], r.chunks@[c])
    && forall|c: int, p: int, s: int| 0 <= c < r.chunks@.len() && 0 <= p < 2 ==> (#[trigger] half_cov(r.chunks@[c], p, s) <==> half_cov(cs.chunks@[c], p, s))
}
