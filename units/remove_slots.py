# C10 / C01 (scale-out start): MetaStoreMigrate::remove_slots_from_src (src/broker/migrate.rs) - no arithmetic overflow, no failing
# expect, termination; only the ranges of source stable halves shrink (everything else framed); every produced migration names a
# source half and an empty destination half with valid indices and the given epoch.  RangeList::get_slots_num against its sum spec.
import re
import vlib
from units import broker_common, range_list

def build(U):
    broker_common.head(U)
    T = broker_common.types(U)
    # visibility only: tuple-struct fields must be nameable by spec functions
    T = T.replace('pub struct RangeList(Vec<Range>);', 'pub struct RangeList(pub Vec<Range>);').replace('pub struct Range(usize, usize);', 'pub struct Range(pub usize, pub usize);')
    U.add(T)
    S = U.src('src/common/utils.rs')
    ty, val = S.const_expr('SLOT_NUM')
    U.add('pub const SLOT_NUM: %s = %s;\n' % (ty, val))
    U.prelude('range_spec.rs')
    U.prelude('remove_slots_spec.rs')
    C = U.src('src/common/cluster.rs')
    U.add('impl Range {\n')
    for nm, fld in (('start', '0'), ('end', '1')):
        g = C.fn(nm, within=r'impl Range\b')
        g.header("    pub fn %s(&self) -> (r: usize)\n        ensures r == self.%s" % (nm, fld))
        U.add_fn(g)
    g = C.fn('end_mut', within=r'impl Range\b')
    g.header("    pub fn end_mut(&mut self) -> (r: &mut usize)\n        ensures *r == old(self).1, final(self).0 == old(self).0, final(self).1 == *final(r)")
    U.add_fn(g)
    U.add('}\nimpl RangeList {\n')
    U.add('    // proved in unit range_list on the real text; the contract text is imported from that unit\n    #[verifier::external_body]\n' + range_list.NEW_HEADER + '\n    { unimplemented!() }\n')
    g = C.fn('get_ranges', within=r'impl RangeList\b')
    g.header("    pub fn get_ranges(&self) -> (r: &[Range])\n        ensures r@ == self.0@")
    U.add_fn(g)
    g = C.fn('get_mut_ranges', within=r'impl RangeList\b')
    g.header("    pub fn get_mut_ranges(&mut self) -> (r: &mut Vec<Range>)\n        ensures *r == old(self).0, final(self).0 == *final(r)")
    U.add_fn(g)
    g = C.fn('get_slots_num', within=r'impl RangeList\b')
    vlib.d5_map_sum(g)
    g.apply_overlay('get_slots_num')
    U.add_fn(g)
    U.add('}\nimpl SlotRange {\n')
    g = C.fn('get_range_list', within=r'impl SlotRange\b')
    g.header("    pub fn get_range_list(&self) -> (r: &RangeList)\n        ensures *r == self.range_list")
    U.add_fn(g)
    g = C.fn('get_mut_range_list', within=r'impl SlotRange\b')
    g.header("    pub fn get_mut_range_list(&mut self) -> (r: &mut RangeList)\n        ensures *r == old(self).range_list, final(self).range_list == *final(r), final(self).tag == old(self).tag")
    U.add_fn(g)
    U.add("}\npub struct MetaStoreMigrate<'a> { pub store: &'a mut MetaStore }\nimpl<'a> MetaStoreMigrate<'a> {\n")
    M = U.src('src/broker/migrate.rs')
    f = M.fn('remove_slots_from_src')
    f.r1_logging()
    vlib.d4_filter_count(f)
    vlib.d3_enumerate(f)
    f.replace('R6', 'min(need_num, available_num)', 'verif_min(need_num, available_num)', count=1)
    f.replace('D6', 'RangeList::new(curr_dst_slots.drain(..).collect())', 'RangeList::new(shim_take_all(&mut curr_dst_slots))', count=1)
    f.replace('closure-spec', '.map(|r| r.end() - r.start() + 1)',
              '.map(|r: &Range| -> (n: usize) requires r.0 <= r.1, r.1 - r.0 < 16384 ensures n == rlen(*r) { r.end() - r.start() + 1 })', count=1)
    f.apply_overlay('remove_slots_from_src')
    U.add_fn(f)
    U.add('}\n} // verus!\nfn main() {}\n')
    U.trust('precondition (shape of the states migrate_slots hands over): source chunks with both halves owning slots come first, followed by the freshly added empty chunks; at most 8192 chunks; every source range list has start <= end ranges and at most 16384 slots',
            'RangeList::new through its contract proved in unit range_list; Vec::drain(..).collect() = take all (D6); std::cmp::min (R6); D3, D4')

# the outer-loop query carries three families of quantified facts per half (frame, conservation, fair share): 8-10 s of solver time,
# above the default budget of the quick tier; stable over seeds at this budget (checked with 5 seeds)
RLIMIT = 80

MUST_FAIL = '''
proof fn must_fail_remove_slots_prefix_trivial(cs: Seq<ChunkStore>) requires cs.len() > 0 ensures src_prefix(cs, 0) { }
'''
