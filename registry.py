# property -> legs.  Only claimed properties appear here; MANIFEST.json is generated from this table
# by tools/gen_manifest.py.
PROPS = {
 'C09': {
   'verus': ['c09'], 'kani': [],
   'level': 'proof', 'design_ref': '4.9',
   'technique': 'Verus function contracts on extracted real functions against spec functions written from the Redis Cluster spec; Kani commuting-square proof for the CRC table step',
   'level_text': 'x',
   'level_note': 'x',
   'explanation': 'x',
 },
 'C19': {
   'verus': ['c19'], 'kani': ['c19'],
   'level': 'proof',
   'design_ref': '4.19',
   'technique': 'Verus function contracts on the extracted real functions (postcondition = statement-level ttl spec) + bounded Kani harness on the compiled functions for counterexamples',
   'level_text': 'Deductive proof (Verus, unbounded, every byte string) that the two real PTTL->RESTORE-ttl functions satisfy the statement: ttl n>=1 restored with 1<=m<=n, n==0 restored with m>=1 (never persistent), -1 stays persistent. The three async transfer paths are tied to these functions by a syntactic call-site scan only (declared as a scan). A Kani harness over all replies of <=3 bytes (bounded) runs the same oracle on the compiled code with the real btoi crate and supplies counterexamples that are replayed on /repo by a native test.',
   'level_note': 'Trusted: btoi::btoi::<i64> by assumed contract (cross-checked by Kani on <=3 bytes), slice equality shim, Verus/Z3, Kani/CBMC, the extractor (rules R1 R5 R10 R11 logged in the evidence). Not covered: the async callers (scan only), Redis own PTTL/RESTORE behaviour.',
   'explanation': 'pttl_to_restore_expire_time / pttl_need_to_be_no_expire proved (Verus, unbounded) against the statement-level spec spec_restore_ttl_ok for every PTTL reply; the call sites of the three transfer paths are covered by a syntactic scan only; Kani harnesses (<= 3 bytes, bounded) supply counterexamples and cross-check the assumed btoi contract.',
   'not_under_contract': ['forward_entries / produce_entries / get_data_entry (async): only the call-site scan', 'gen_restore_resp: see C20/C19 notes in DESIGN 4.19'],
   'assumptions': ['Redis PTTL/RESTORE semantics as in the statement (0 = no expiry for RESTORE)'],
 },
}

NOTES = 'Contract-based deductive verification only (see DESIGN.md). exit 2 = undecided (lost anchor / unsupported construct / resource limit), never an alarm.'
NOT_APPLICABLE = {
 'C02': 'composition of async processes (client following MOVED across proxies fed through the coordinator); no function contract expresses it; per-proxy ingredients are claimed under C09/C14/C06',
 'C03': 'sequential consistency under interleavings of scan, pull, push and client traffic against two Redis servers: schedule- and history-quantified, state outside the program',
 'C05': 'MetaManager::set_meta / ReplicatorManager::update_replicators need tokio, ArcSwap, DashMap and quantify over concurrent deliveries: outside Verus subset and Kani (no threads)',
 'C07': 'fault sequences and crash points across broker, coordinator, proxies; async streams; liveness is not a contract',
 'C08': 'request/reply association under poll interleavings of hand-written Future/Stream state machines on tokio I/O',
 'C12': 'allocator is nested HashMap<String,..> with max_by_key/min_by closures: outside Verus subset and the rewrite-rule cap; CBMC cannot execute it (timeouts measured)',
 'C17': 'round trips through String, format!, str::parse, serde_json, gzip, base64: no byte-level str reasoning in Verus; CBMC does not get through fmt/serde/flate2',
 'C18': 'get_failures is values_mut + HashMap::retain + filter chains over chrono arithmetic: outside the rule cap; CBMC cannot run a two-entry HashMap in 20 minutes',
 'C10': 'kernel parsable but the balance (counting) proof through three nested loops is not completed; CBMC cannot execute it',
 'C20': 'value-index table proof not completed (division arithmetic over MSET indices); zstd round trip would be assumed',
 'C01': 'not yet built in this session', 'C04': 'not yet built in this session', 'C06': 'not yet built in this session', 'C09': 'not yet built in this session',
 'C11': 'not yet built in this session', 'C13': 'not yet built in this session', 'C14': 'not yet built in this session', 'C15': 'not yet built in this session', 'C16': 'not yet built in this session',
}
