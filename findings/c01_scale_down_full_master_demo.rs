// Demonstration (appended to src/broker/store.rs as a test module): scale-in of a large cluster where some kept master already
// holds its final share.  100 chunks (200 masters: 82 or 81 slots each) -> 99 chunks (198 masters: 83 or 82 slots each): kept
// masters 148..183 hold 82 slots, which IS their final share.
#[cfg(test)]
mod verif_demo_scale_down_full_master {
    use super::*;
    use crate::common::utils::SLOT_NUM;

    fn owners(cluster: &ClusterStore) -> Vec<usize> {
        let mut owners = vec![0usize; SLOT_NUM + 2];
        for chunk in cluster.chunks.iter() {
            for half in chunk.stable_slots.iter().flatten() {
                for range in half.get_range_list().get_ranges().iter() {
                    for s in range.start()..=range.end() {
                        owners[s.min(SLOT_NUM + 1)] += 1;
                    }
                }
            }
            for entries in chunk.migrating_slots.iter() {
                for e in entries.iter().filter(|e| e.is_migrating) {
                    for range in e.range_list.get_ranges().iter() {
                        assert!(range.start() <= range.end(), "inverted range {}-{} in a migration", range.start(), range.end());
                        for s in range.start()..=range.end() {
                            owners[s.min(SLOT_NUM + 1)] += 1;
                        }
                    }
                }
            }
        }
        owners
    }

    #[test]
    fn every_slot_keeps_one_owner_when_scaling_in() {
        let mut store = MetaStore::new(true);
        let proxies = 200;
        for i in 0..proxies {
            let host = format!("10.0.{}.{}", i / 250, i % 250);
            store
                .add_proxy(format!("{}:7000", host), [format!("{}:6000", host), format!("{}:6001", host)], None, Some(i))
                .unwrap();
        }
        store.add_cluster("c".to_string(), 2 * proxies, ClusterConfig::default()).unwrap();
        let name = ClusterName::try_from("c").unwrap();
        for (s, n) in owners(store.clusters.get(&name).unwrap()).iter().enumerate().take(SLOT_NUM) {
            assert_eq!(*n, 1, "before: slot {} has {} owners", s, n);
        }
        store.migrate_slots_to_scale_down("c".to_string(), 2 * proxies - 4).unwrap();
        let o = owners(store.clusters.get(&name).unwrap());
        assert_eq!(o[SLOT_NUM], 0);
        assert_eq!(o[SLOT_NUM + 1], 0);
        for (s, n) in o.iter().enumerate().take(SLOT_NUM) {
            assert_eq!(*n, 1, "after scale-in start: slot {} has {} owners", s, n);
        }
    }
}
