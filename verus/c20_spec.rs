// ---- C20: value compression is transparent (statement level) ----
// abstract value of a RESP packet (request or reply)
pub enum RV { Error(Seq<u8>), Simple(Seq<u8>), Integer(Seq<u8>), BulkNil, Bulk(Seq<u8>), ArrNil, Arr(Seq<RV>) }
// zstd as an abstract codec; assumption (axiom_zstd_roundtrip): decoding an encoding gives the original bytes back
pub uninterp spec fn zenc(x: Seq<u8>) -> Seq<u8>;
pub uninterp spec fn zdec(x: Seq<u8>) -> Seq<u8>;
pub broadcast axiom fn axiom_zstd_roundtrip(x: Seq<u8>) ensures #[trigger] zdec(zenc(x)) == x;

// which argument positions of a write command hold values (from the Redis command syntax: SET key value [opts], SETEX key seconds
// value, PSETEX key ms value, SETNX key value, GETSET key value, MSET key value [key value ...], MSETNX likewise)
pub open spec fn value_index(ty: DataCmdType, i: int) -> bool {
    match ty {
        DataCmdType::Getset | DataCmdType::Set | DataCmdType::Setnx => i == 2,
        DataCmdType::Psetex | DataCmdType::Setex => i == 3,
        DataCmdType::Mset | DataCmdType::Msetnx => i >= 2 && i % 2 == 0,
        _ => false,
    }
}
pub open spec fn is_write_cmd(ty: DataCmdType) -> bool { value_index(ty, 2) || value_index(ty, 3) }
// string commands that would observe compressed bytes
pub open spec fn observes_bytes(ty: DataCmdType) -> bool {
    ty == DataCmdType::Append || ty == DataCmdType::Bitcount || ty == DataCmdType::Bitfield || ty == DataCmdType::Bitop || ty == DataCmdType::Bitpos
    || ty == DataCmdType::Decr || ty == DataCmdType::Decrby || ty == DataCmdType::Getbit || ty == DataCmdType::Getrange || ty == DataCmdType::Incr
    || ty == DataCmdType::Incrby || ty == DataCmdType::Incrbyfloat || ty == DataCmdType::Setbit || ty == DataCmdType::Setrange || ty == DataCmdType::Strlen
}
pub open spec fn bulk_or(v: RV, f: spec_fn(Seq<u8>) -> Seq<u8>) -> RV { match v { RV::Bulk(b) => RV::Bulk(f(b)), o => o } }
// the request as forwarded: every value argument (a bulk string at a value position) compressed, everything else untouched
pub open spec fn written(ty: DataCmdType, a: Seq<RV>) -> Seq<RV> { Seq::new(a.len(), |i: int| if value_index(ty, i) { bulk_or(a[i], |b: Seq<u8>| zenc(b)) } else { a[i] }) }
// some value arguments compressed, nothing else touched (a request that failed half way; it is not forwarded)
pub open spec fn partly_written(ty: DataCmdType, a: Seq<RV>, b: Seq<RV>) -> bool {
    a.len() == b.len() && forall|i: int| 0 <= i < a.len() ==> ((#[trigger] b[i]) == a[i] || (value_index(ty, i) && b[i] == bulk_or(a[i], |x: Seq<u8>| zenc(x))))
}
// the reply as returned to the client
pub open spec fn read_back(ty: DataCmdType, v: RV) -> RV {
    match ty {
        DataCmdType::Get | DataCmdType::Getset => bulk_or(v, |b: Seq<u8>| zdec(b)),
        DataCmdType::Mget => match v { RV::Arr(es) => RV::Arr(Seq::new(es.len(), |i: int| bulk_or(es[i], |b: Seq<u8>| zdec(b)))), o => o },
        _ => v,
    }
}
pub open spec fn partly_read(v: RV, w: RV) -> bool {
    if v is Arr && w is Arr {
        let a = v->Arr_0; let b = w->Arr_0;
        a.len() == b.len() && forall|i: int| 0 <= i < a.len() ==> ((#[trigger] b[i]) == a[i] || b[i] == bulk_or(a[i], |x: Seq<u8>| zdec(x)))
    } else { v == w }
}

// ---- opaque command context / packet with the accessor contracts proved on Resp<Vec<u8>> in unit resp_utils (delegations
// CmdCtx -> Command -> RespPacket -> common::utils are one-line methods: read, not verified) ----
#[verifier::external_body] pub struct Command { x: u8 }
#[verifier::external_body] pub struct CmdCtx { x: u8 }
#[verifier::external_body] pub struct RespPacket { x: u8 }
pub open spec fn is_bulk(v: RV) -> bool { v is Bulk }
impl Command {
    pub uninterp spec fn val(&self) -> RV;
    #[verifier::external_body] pub fn get_command_len(&self) -> (r: Option<usize>)
        ensures match r { Some(n) => self.val() matches RV::Arr(v) && n == v.len(), None => !(self.val() is Arr) } { unimplemented!() }
    #[verifier::external_body] pub fn get_command_element(&self, index: usize) -> (r: Option<&[u8]>)
        ensures match r { Some(s) => self.val() matches RV::Arr(v) && index < v.len() && v[index as int] == RV::Bulk(s@),
                          None => !(self.val() matches RV::Arr(v) && index < v.len() && is_bulk(v[index as int])) } { unimplemented!() }
}
impl CmdCtx {
    pub uninterp spec fn val(&self) -> RV;
    pub uninterp spec fn ty(&self) -> DataCmdType;
    #[verifier::external_body] pub fn get_cmd(&self) -> (r: &Command) ensures r.val() == self.val() { unimplemented!() }
    #[verifier::external_body] pub fn get_data_cmd_type(&self) -> (r: DataCmdType) ensures r == self.ty() { unimplemented!() }
    #[verifier::external_body] pub fn change_cmd_element(&mut self, index: usize, data: Vec<u8>) -> (r: bool)
        ensures final(self).ty() == old(self).ty(),
            r == (old(self).val() matches RV::Arr(v) && index < v.len() && is_bulk(v[index as int])),
            r ==> (old(self).val() matches RV::Arr(v) && final(self).val() == RV::Arr(v.update(index as int, RV::Bulk(data@)))),
            !r ==> final(self).val() == old(self).val(),
    { unimplemented!() }
}
pub open spec fn view_bs(b: BulkStr<&[u8]>) -> RV { match b { BulkStr::Str(s) => RV::Bulk(s@), BulkStr::Nil => RV::BulkNil } }
pub open spec fn view_rs(r: Resp<&[u8]>) -> RV
    decreases r
{
    match r {
        Resp::Error(s) => RV::Error(s@), Resp::Simple(s) => RV::Simple(s@), Resp::Integer(s) => RV::Integer(s@),
        Resp::Bulk(b) => view_bs(b),
        Resp::Arr(Array::Nil) => RV::ArrNil,
        Resp::Arr(Array::Arr(v)) => RV::Arr(Seq::new(v@.len(), |i: int| if 0 <= i < v@.len() { view_rs(v@[i]) } else { RV::ArrNil })),
    }
}
impl RespPacket {
    pub uninterp spec fn val(&self) -> RV;
    #[verifier::external_body] pub fn to_resp_slice(&self) -> (r: Resp<&[u8]>) ensures view_rs(r) == self.val() { unimplemented!() }
    #[verifier::external_body] pub fn change_bulk_str(&mut self, data: Vec<u8>) -> (r: bool)
        ensures r == is_bulk(old(self).val()), r ==> final(self).val() == RV::Bulk(data@), !r ==> final(self).val() == old(self).val() { unimplemented!() }
    #[verifier::external_body] pub fn change_bulk_array_element(&mut self, index: usize, data: Vec<u8>) -> (r: bool)
        ensures r == (old(self).val() matches RV::Arr(v) && index < v.len() && is_bulk(v[index as int])),
            r ==> (old(self).val() matches RV::Arr(v) && final(self).val() == RV::Arr(v.update(index as int, RV::Bulk(data@)))),
            !r ==> final(self).val() == old(self).val(),
    { unimplemented!() }
}
pub open spec fn ov(o: Option<Vec<u8>>) -> Option<Seq<u8>> { match o { Some(c) => Some(c@), None => None } }
#[verifier::external_body] pub struct IoError { x: u8 }
#[verifier::external_body] fn shim_zstd_encode(v: &[u8], level: i32) -> (r: Result<Vec<u8>, IoError>) ensures r matches Ok(c) ==> c@ == zenc(v@) { unimplemented!() }
#[verifier::external_body] fn shim_zstd_decode(v: &[u8]) -> (r: Result<Vec<u8>, IoError>) ensures r matches Ok(c) ==> c@ == zdec(v@) { unimplemented!() }
// R12: (a..b).step_by(k).collect()
#[verifier::external_body] fn shim_range_step(a: usize, b: usize, k: usize) -> (r: Vec<usize>)
    requires k > 0
    ensures forall|i: int| 0 <= i < r@.len() ==> #[trigger] r@[i] == a + i * k && r@[i] < b,
        r@.len() == (if b > a { (b - a + k - 1) / k as int } else { 0 }),
{ unimplemented!() }
