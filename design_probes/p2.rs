use vstd::prelude::*;
use std::mem::swap;
verus! {
fn max(a: usize, b: usize) -> (r: usize) ensures r == (if a >= b { a } else { b }) { if a >= b { a } else { b } }

#[derive(Clone)]
pub struct Range(pub usize, pub usize);

impl Range {
    pub fn start(&self) -> (r: usize) ensures r == self.0 { self.0 }
    pub fn end(&self) -> (r: usize) ensures r == self.1 { self.1 }
}

pub struct RangeList(pub Vec<Range>);

impl RangeList {
    pub fn compact(&mut self) {
        // Goal: for any i < j, i.start <= i.end < j.start <= j.end
        for range in self.0.iter_mut() {
            if range.start() > range.end() {
                swap(&mut range.0, &mut range.1);
            }
        }
        let mut a = 0;
        let mut b = 1;
        while let Some(e) = self.0.get(b).cloned()
            invariant b <= 100000, a < b,
            decreases 100000 - b,
        {
            {
                let s = self.0.get_mut(a).expect("RangeList::compact");
                if s.end() + 1 >= e.start() {
                    s.1 = max(s.end(), e.end());
                    b += 1;
                    continue;
                }
            }
            *self.0.get_mut(a + 1).expect("RangeList::compact") = e;
            a += 1;
            b += 1;
        }
        self.0.truncate(a + 1);
    }
}

} // verus!
fn main() {}
