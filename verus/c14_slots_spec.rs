// ---- C14: what CLUSTER SLOTS must list (statement level) ----
// values are compared through their byte views (a Vec is not determined by its view)
pub enum V { Error(Seq<u8>), Simple(Seq<u8>), Integer(Seq<u8>), BulkNil, Bulk(Seq<u8>), ArrNil, Arr(Seq<V>) }
pub open spec fn view_bulk(b: BulkStr<Vec<u8>>) -> V { match b { BulkStr::Str(s) => V::Bulk(s@), BulkStr::Nil => V::BulkNil } }
pub open spec fn view_v(r: Resp<Vec<u8>>) -> V
    decreases r
{
    match r {
        Resp::Error(s) => V::Error(s@),
        Resp::Simple(s) => V::Simple(s@),
        Resp::Integer(s) => V::Integer(s@),
        Resp::Bulk(b) => view_bulk(b),
        Resp::Arr(a) => view_arr(a),
    }
}
pub open spec fn view_arr(a: Array<Vec<u8>>) -> V
    decreases a
{
    match a { Array::Arr(v) => V::Arr(Seq::new(v@.len(), |i: int| if 0 <= i < v@.len() { view_v(v@[i]) } else { V::ArrNil })), Array::Nil => V::ArrNil }
}
pub open spec fn view_all(v: Seq<Resp<Vec<u8>>>) -> Seq<V> { Seq::new(v.len(), |i: int| view_v(v[i])) }

pub open spec fn dec(n: nat) -> Seq<u8> decreases n { if n < 10 { seq![(48 + n) as u8] } else { dec(n / 10).push((48 + n % 10) as u8) } }

// uninterpreted string facts: the pieces of `addr.split(':')`, the bytes of a str, the node id derived from (cluster, address)
pub uninterp spec fn pieces_of(s: Seq<char>, c: char) -> Seq<Seq<char>>;
pub uninterp spec fn str_bytes(s: Seq<char>) -> Seq<u8>;
pub uninterp spec fn node_id_of(name: ClusterName, addr: Seq<char>) -> Seq<char>;


// [host, port, node id] of the node the entries are listed under
pub open spec fn ip_port_v(name: ClusterName, addr: Seq<char>) -> V {
    V::Arr(seq![V::Bulk(str_bytes(pieces_of(addr, ':')[0])), V::Integer(str_bytes(pieces_of(addr, ':')[1])), V::Bulk(str_bytes(node_id_of(name, addr)))])
}
pub open spec fn entry_v(name: ClusterName, addr: Seq<char>, r: Range) -> V {
    V::Arr(seq![V::Integer(dec(r.0 as nat)), V::Integer(dec(r.1 as nat)), ip_port_v(name, addr)])
}
// one entry per range of the first n ranges of a range list
pub open spec fn render_ranges(name: ClusterName, addr: Seq<char>, rs: Seq<Range>, n: nat) -> Seq<V>
    decreases n
{
    if n == 0 || n > rs.len() { Seq::<V>::empty() } else { render_ranges(name, addr, rs, (n - 1) as nat).push(entry_v(name, addr, rs[n - 1])) }
}
// the first n slot ranges of one node: every advertised one contributes all its ranges, an ignored one nothing
pub open spec fn render_node(name: ClusterName, addr: Seq<char>, srs: Seq<SlotRange>, states: Map<RangeList, MigrationState>, n: nat) -> Seq<V>
    decreases n
{
    if n == 0 || n > srs.len() { Seq::<V>::empty() } else {
        let prev = render_node(name, addr, srs, states, (n - 1) as nat);
        let sr = srs[n - 1];
        if advertised(sr, states) { prev + render_ranges(name, addr, sr.range_list.0@, sr.range_list.0@.len()) } else { prev }
    }
}
// the first n nodes in the (unspecified but duplicate-free) iteration order ks
pub open spec fn render_nodes(name: ClusterName, ks: Seq<String>, m: Map<String, Vec<SlotRange>>, states: Map<RangeList, MigrationState>, n: nat) -> Seq<V>
    decreases n
{
    if n == 0 || n > ks.len() { Seq::<V>::empty() } else {
        render_nodes(name, ks, m, states, (n - 1) as nat) + render_node(name, ks[n - 1]@, m[ks[n - 1]]@, states, m[ks[n - 1]]@.len())
    }
}
pub open spec fn valid_addr(a: Seq<char>) -> bool { pieces_of(a, ':').len() >= 2 }

// ---- shims (trusted) ----
pub struct SplitIter { pub ps: Ghost<Seq<Seq<char>>>, pub i: Ghost<nat> }
#[verifier::external_body] fn shim_split<'a>(s: &'a String, c: char) -> (r: SplitIter) ensures r.ps@ == pieces_of(s@, c), r.i@ == 0 { unimplemented!() }
impl SplitIter {
    #[verifier::external_body] fn next<'a>(&mut self) -> (r: Option<&'a str>)
        ensures final(self).ps@ == old(self).ps@, final(self).i@ == old(self).i@ + 1,
            old(self).i@ < old(self).ps@.len() ==> (r matches Some(p) && p@ == old(self).ps@[old(self).i@ as int]),
            old(self).i@ >= old(self).ps@.len() ==> r is None,
    { unimplemented!() }
}
#[verifier::external_body] fn shim_format() -> String { unimplemented!() }      // format!(..) on an error path: some String
#[verifier::external_body] fn shim_str_to_vec(s: &str) -> (r: Vec<u8>) ensures r@ == str_bytes(s@) { unimplemented!() }
#[verifier::external_body] fn shim_into_bytes(s: String) -> (r: Vec<u8>) ensures r@ == str_bytes(s@) { unimplemented!() }
#[verifier::external_body] fn shim_usize_dec(n: usize) -> (r: Vec<u8>) ensures r@ == dec(n as nat) { unimplemented!() }
#[verifier::external_body] fn shim_clone_resp(x: &Resp<Vec<u8>>) -> (r: Resp<Vec<u8>>) ensures view_v(r) == view_v(*x) { unimplemented!() }
#[verifier::external_body] fn shim_clone_slot_range(x: &SlotRange) -> (r: SlotRange) ensures r == *x { unimplemented!() }
// out of reach (format!, crc64): some String determined by (cluster name, address)
#[verifier::external_body] fn gen_node_id(cluster_name: &ClusterName, addr: &str) -> (r: String) ensures r@ == node_id_of(*cluster_name, addr@) { unimplemented!() }
// D9c: `for (k, v) in &HashMap` visits every entry exactly once in an unspecified order
#[verifier::external_body]
fn shim_ref_entries<'a>(m: &'a HashMap<String, Vec<SlotRange>>) -> (r: (Vec<(&'a String, &'a Vec<SlotRange>)>, Ghost<Seq<String>>))
    ensures r.1@.no_duplicates(), r.1@.len() == r.0@.len(), forall|k: String| m@.contains_key(k) <==> r.1@.contains(k),
        forall|i: int| 0 <= i < r.0@.len() ==> *(#[trigger] r.0@[i]).0 == r.1@[i] && m@.contains_key(r.1@[i]) && *r.0@[i].1 == m@[r.1@[i]],
{ unimplemented!() }

pub proof fn lemma_render_ranges_step(name: ClusterName, addr: Seq<char>, rs: Seq<Range>, n: nat)
    requires 0 < n <= rs.len()
    ensures render_ranges(name, addr, rs, n) == render_ranges(name, addr, rs, (n - 1) as nat).push(entry_v(name, addr, rs[n - 1]))
{}


// ---- agreement: CLUSTER SLOTS lists under a node exactly one entry per range of adv_ranges (the definition shared with CLUSTER NODES) ----
pub open spec fn entries_of(name: ClusterName, addr: Seq<char>, rs: Seq<Range>) -> Seq<V> { Seq::new(rs.len(), |i: int| entry_v(name, addr, rs[i])) }
pub proof fn lemma_render_ranges_is_map(name: ClusterName, addr: Seq<char>, rs: Seq<Range>, n: nat)
    requires n <= rs.len()
    ensures render_ranges(name, addr, rs, n) == entries_of(name, addr, rs.subrange(0, n as int))
    decreases n
{
    if n > 0 { lemma_render_ranges_is_map(name, addr, rs, (n - 1) as nat); assert(rs.subrange(0, n as int) =~= rs.subrange(0, n - 1).push(rs[n - 1])); }
    assert(render_ranges(name, addr, rs, n) =~= entries_of(name, addr, rs.subrange(0, n as int)));
}
pub proof fn c14_slots_lists_adv_ranges(name: ClusterName, addr: Seq<char>, srs: Seq<SlotRange>, states: Map<RangeList, MigrationState>, n: nat)
    requires n <= srs.len()
    ensures render_node(name, addr, srs, states, n) == entries_of(name, addr, adv_ranges(srs, states, n))
    decreases n
{
    if n > 0 {
        c14_slots_lists_adv_ranges(name, addr, srs, states, (n - 1) as nat);
        let rs = srs[n - 1].range_list.0@;
        lemma_render_ranges_is_map(name, addr, rs, rs.len());
        assert(rs.subrange(0, rs.len() as int) =~= rs);
    }
    assert(render_node(name, addr, srs, states, n) =~= entries_of(name, addr, adv_ranges(srs, states, n)));
}
