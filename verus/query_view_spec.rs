// ---- statement-level table (C01 / C06): which node of a chunk is the master of half p ----
// replica of node k is node 3-k; the Normal master of half p is node 2p on proxy p; when a proxy has
// failed (role_position flipped) the master of its half is that half's replica on the other proxy.
pub open spec fn proxy_of_node(k: int) -> int { k / 2 }
pub open spec fn master_node(rp: ChunkRolePosition, p: int) -> int {
    match rp {
        ChunkRolePosition::Normal => 2 * p,
        ChunkRolePosition::FirstChunkMaster => if proxy_of_node(2 * p) == 0 { 2 * p } else { 3 - 2 * p },   // proxy 1 failed
        ChunkRolePosition::SecondChunkMaster => if proxy_of_node(2 * p) == 1 { 2 * p } else { 3 - 2 * p },  // proxy 0 failed
    }
}
pub open spec fn is_master(rp: ChunkRolePosition, k: int) -> bool { k == master_node(rp, 0) || k == master_node(rp, 1) }
pub open spec fn valid_meta(m: MigrationMetaStore, chunks: Seq<ChunkStore>) -> bool {
    m.src_chunk_index < chunks.len() && m.dst_chunk_index < chunks.len() && m.src_chunk_part < 2 && m.dst_chunk_part < 2
}
pub open spec fn inv_idx(cs: ClusterStore) -> bool {
    forall|c: int, p: int, i: int| 0 <= c < cs.chunks@.len() && 0 <= p < 2 && 0 <= i < cs.chunks@[c].migrating_slots[p]@.len()
        ==> valid_meta((#[trigger] cs.chunks@[c].migrating_slots[p]@[i]).meta, cs.chunks@)
}
pub open spec fn master_node_addr(chunks: Seq<ChunkStore>, c: int, p: int) -> Seq<char> { chunks[c].node_addresses[master_node(chunks[c].role_position, p)]@ }
pub open spec fn master_proxy_addr(chunks: Seq<ChunkStore>, c: int, p: int) -> Seq<char> { chunks[c].proxy_addresses[master_node(chunks[c].role_position, p) / 2]@ }
// the rendered migration metadata names the *master* node / proxy of the source and destination halves
pub open spec fn meta_ok(m: MigrationMeta, ms: MigrationMetaStore, chunks: Seq<ChunkStore>) -> bool {
    m.epoch == ms.epoch
    && m.src_node_address@ == master_node_addr(chunks, ms.src_chunk_index as int, ms.src_chunk_part as int)
    && m.src_proxy_address@ == master_proxy_addr(chunks, ms.src_chunk_index as int, ms.src_chunk_part as int)
    && m.dst_node_address@ == master_node_addr(chunks, ms.dst_chunk_index as int, ms.dst_chunk_part as int)
    && m.dst_proxy_address@ == master_proxy_addr(chunks, ms.dst_chunk_index as int, ms.dst_chunk_part as int)
}
pub open spec fn slot_rel(e: MigrationSlotRangeStore, chunks: Seq<ChunkStore>, r: SlotRange) -> bool {
    r.range_list == e.range_list && match r.tag {
        SlotRangeTag::Migrating(m) => e.is_migrating && meta_ok(m, e.meta, chunks),
        SlotRangeTag::Importing(m) => !e.is_migrating && meta_ok(m, e.meta, chunks),
        SlotRangeTag::None => false,
    }
}
pub open spec fn stable_cnt(ch: ChunkStore, p: int) -> int { if ch.stable_slots[p] is Some { 1 } else { 0 } }
// slots of the master of half p: the stable range list (if any) followed by the rendered entries of that half, in order
pub open spec fn half_ok(cs: ClusterStore, c: int, p: int, slots: Seq<SlotRange>) -> bool {
    let ch = cs.chunks@[c];
    let st = stable_cnt(ch, p);
    &&& slots.len() == st + ch.migrating_slots[p]@.len()
    &&& (ch.stable_slots[p] matches Some(sr) ==> slots[0] == sr)
    &&& forall|i: int| 0 <= i < ch.migrating_slots[p]@.len() ==> slot_rel(ch.migrating_slots[p]@[i], cs.chunks@, #[trigger] slots[st + i])
}
pub open spec fn node_ok(cs: ClusterStore, c: int, k: int, n: Node) -> bool {
    let ch = cs.chunks@[c];
    &&& n.address@ == ch.node_addresses[k]@
    &&& n.proxy_address@ == ch.proxy_addresses[k / 2]@
    &&& (n.repl.role == Role::Master) == is_master(ch.role_position, k)
    &&& n.repl.peers@.len() == 1
    &&& n.repl.peers@[0].node_address@ == ch.node_addresses[3 - k]@
    &&& n.repl.peers@[0].proxy_address@ == ch.proxy_addresses[(3 - k) / 2]@
    &&& (if k == master_node(ch.role_position, 0) { half_ok(cs, c, 0, n.slots@) }
         else if k == master_node(ch.role_position, 1) { half_ok(cs, c, 1, n.slots@) }
         else { n.slots@.len() == 0 })       // replicas own nothing
}
pub open spec fn view_ok(cs: ClusterStore, cl: Cluster) -> bool {
    &&& cl.epoch == cs.epoch && cl.name == cs.name && cl.config == cs.config
    &&& cl.nodes@.len() == 4 * cs.chunks@.len()
    &&& forall|c: int, k: int| 0 <= c < cs.chunks@.len() && 0 <= k < 4 ==> node_ok(cs, c, k, #[trigger] cl.nodes@[4 * c + k])
}

// ---- lemmas over the table (C06): two masters, two replicas, master and its single peer on different proxies ----
pub proof fn lemma_role_table(rp: ChunkRolePosition)
    ensures
        master_node(rp, 0) != master_node(rp, 1),
        0 <= master_node(rp, 0) < 4, 0 <= master_node(rp, 1) < 4,
        // the peer (3-k) of a master is a replica on the other proxy, and names it back (3-(3-k) == k)
        forall|p: int| 0 <= p < 2 ==> !is_master(rp, 3 - #[trigger] master_node(rp, p)) && proxy_of_node(3 - master_node(rp, p)) != proxy_of_node(master_node(rp, p)),
        rp == ChunkRolePosition::SecondChunkMaster ==> proxy_of_node(master_node(rp, 0)) == 1 && proxy_of_node(master_node(rp, 1)) == 1,
        rp == ChunkRolePosition::FirstChunkMaster ==> proxy_of_node(master_node(rp, 0)) == 0 && proxy_of_node(master_node(rp, 1)) == 0,
        rp == ChunkRolePosition::Normal ==> proxy_of_node(master_node(rp, 0)) == 0 && proxy_of_node(master_node(rp, 1)) == 1,
{ }
// a failover of the proxy holding half p's master moves that master to its replica on the partner proxy
pub proof fn lemma_failover_moves_master_to_peer(rp: ChunkRolePosition, failed_proxy: int, p: int)
    requires 0 <= p < 2, 0 <= failed_proxy < 2, proxy_of_node(master_node(rp, p)) == failed_proxy,
    ensures ({
        let nrp = if failed_proxy == 0 { ChunkRolePosition::SecondChunkMaster } else { ChunkRolePosition::FirstChunkMaster };
        master_node(nrp, p) == 3 - master_node(rp, p) && proxy_of_node(master_node(nrp, p)) == 1 - failed_proxy
        // the other half's master stays where it is unless it was on the failed proxy too
        && (proxy_of_node(master_node(rp, 1 - p)) != failed_proxy ==> master_node(nrp, 1 - p) == master_node(rp, 1 - p))
    })
{ }
